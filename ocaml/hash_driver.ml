(* model / spec driver for component Hash (C02).
   case header:  case <n> <hm|hs|pm> <key type> <cap0> <cap1> ...   (one container variable per capacity)
   keys: decimal for the integer key types (b = int8, B = uint8, h = int16, H = uint16, i = int32, u = uint32, l = int64,
   q = uint64, p = const void* as its address), lower-case hex bytes for String s ("-" = empty).  A decimal key is
   converted to the key type like the harness' (T)strtoll(..) does (wrap_<type>), and hashed by hash_<type> = (usize)v. *)
open Model
open Zconv

type runner = { step_line : string list -> unit }

let kind_of = function "hm" -> KMap | "hs" -> KSet | "pm" -> KPool | s -> failwith ("kind " ^ s)

let str_res (show : 'k -> string) (r : 'k res) : string = match r with
  | RNone -> "-"
  | RPre -> "pre"
  | RBool b -> if b then "b1" else "b0"
  | RIter None -> "it=end"
  | RIter (Some ((r, k), v)) -> Printf.sprintf "it=%d:%s:%s" (int_of_nat r) (show k) (dec_of_z v)
  | RVal v -> "v=" ^ dec_of_z v
  | RKey k -> "k=" ^ show k
  | RWalk None -> "w=BAD"
  | RWalk (Some l) -> "w=[" ^ String.concat " " (List.map (fun (k, v) -> show k ^ ":" ^ dec_of_z v) l) ^ "]"

let str_obs show (i : int) (((sz, e), l) : 'k tobs) : string =
  Printf.sprintf "%d:%s,%d,[%s]" i (dec_of_z sz) (if e then 1 else 0)
    (String.concat " " (List.map (fun (k, v) -> show k ^ ":" ^ dec_of_z v) l))

let str_slot ((b, i) : slot) = dec_of_z b ^ "." ^ dec_of_z i

let str_int show (i : int) (t : 'k table) : string =
  let bs = List.mapi (fun j c -> (j, c)) t.buckets in
  let bs = List.filter (fun (_, c) -> c <> []) bs in
  Printf.sprintf "%d:cap=%s,d=%d,nb=%s,B[%s],S[%s],F[%s],E=%s,T=%d" i (dec_of_z t.cap) (if t.has_data then 1 else 0) (dec_of_z t.nblocks)
    (String.concat " " (List.map (fun (j, c) -> Printf.sprintf "%d=%s" j (String.concat "," (List.map show c))) bs))
    (String.concat " " (List.map (fun n -> str_slot n.nslot) t.order))
    (String.concat " " (List.map str_slot t.free))
    (match t.end_prev with None -> "-" | Some s -> str_slot s)     (* endItem.prev *)
    (int_of_nat t.end_owner)                                       (* the sentinel the list runs into *)

let parse_op (pk : string -> 'k) (toks : string list) : 'k op =
  let n s = nat_of_int (int_of_string s) in
  let z s = z_of_int (int_of_string s) in
  match toks with
  | ["new"; x; c] -> ONew (n x, z c)
  | ["newd"; x] -> ONewDefault (n x)
  | ["find"; x; k] -> OFind (n x, pk k)
  | ["has"; x; k] -> OContains (n x, pk k)
  | ["ins"; x; p; k; v] -> OInsert (n x, n p, pk k, z v)
  | ["app"; x; k; v] -> OAppend (n x, pk k, z v)
  | ["pre"; x; k; v] -> OPrepend (n x, pk k, z v)
  | ["rmk"; x; k] -> ORemoveKey (n x, pk k)
  | ["rmi"; x; r] -> ORemoveAt (n x, n r)
  | ["rmv"; x; r] -> ORemoveVal (n x, n r)
  | ["rmf"; x] -> ORemoveFront (n x)
  | ["rmb"; x] -> ORemoveBack (n x)
  | ["clear"; x] -> OClear (n x)
  | ["swap"; x; y] -> OSwap (n x, n y)
  | ["front"; x] -> OFront (n x)
  | ["back"; x] -> OBack (n x)
  | ["copy"; x; y] -> OCopy (n x, n y)
  | ["assign"; x; y] -> OAssign (n x, n y)
  | ["eq"; x; y] -> OEq (n x, n y)
  | ["appall"; x; y] -> OAppendAll (n x, n y)
  | ["rmall"; x; y] -> ORemoveAll (n x, n y)
  | ["setv"; x; k; v] -> OSetVal (n x, pk k, z v)
  | ["fwd"; x] -> OIterFwd (n x)
  | ["bwd"; x] -> OIterBack (n x)
  | _ -> failwith ("bad op: " ^ String.concat " " toks)

(* An operation written with a leading '.' ("muted": ".app 0 5 1") is the same step of the same machine; its line
   shows the result and, of the state, only the sizes (the harness does the same).  Long histories that build tables
   of hundreds or thousands of entries are compared in full at their unmuted operations. *)
let unmute (toks : string list) : bool * string list = match toks with
  | o :: rest when String.length o > 1 && o.[0] = '.' -> (true, String.sub o 1 (String.length o - 1) :: rest)
  | _ -> (false, toks)

let model_runner pk show keqb hash kd caps : runner =
  let st = ref (init (List.map ctor_cap caps)) in
  { step_line = (fun toks ->
      let (muted, toks) = unmute toks in
      let (st', r) = step keqb hash kd !st (parse_op pk toks) in
      st := st';
      if muted then
        emit (Printf.sprintf "%s | %s | ." (str_res show r) (String.concat " " (List.map (fun t -> dec_of_z t.size) st')))
      else
      emit (Printf.sprintf "%s | %s | %s" (str_res show r)
              (String.concat " " (List.mapi (fun i t -> str_obs show i (m_obs t)) st'))
              (String.concat " " (List.mapi (fun i t -> str_int show i t) st')))) }

let spec_runner pk show keqb kd caps : runner =
  let st = ref (List.map (fun _ -> []) caps) in
  { step_line = (fun toks ->
      let (muted, toks) = unmute toks in
      let (st', r) = spec_step keqb kd !st (parse_op pk toks) in
      st := st';
      if muted then
        emit (Printf.sprintf "%s | %s" (str_res show r) (String.concat " " (List.map (fun l -> string_of_int (List.length l)) st')))
      else
      emit (Printf.sprintf "%s | %s" (str_res show r)
              (String.concat " " (List.mapi (fun i l -> str_obs show i (s_obs l)) st')))) }

(* decimal text of any size (uint64 keys exceed OCaml's int): 9 digits at a time *)
let z_of_dec (s : string) : z =
  let neg = String.length s > 0 && s.[0] = '-' in
  let d = if neg then String.sub s 1 (String.length s - 1) else s in
  if d = "" then failwith ("bad decimal: " ^ s);
  String.iter (fun c -> if c < '0' || c > '9' then failwith ("bad decimal: " ^ s)) d;
  let n = String.length d in
  let rec pow10 k = if k = 0 then 1 else 10 * pow10 (k - 1) in
  let rec go acc i =
    if i >= n then acc
    else
      let len = if i = 0 && n mod 9 <> 0 then n mod 9 else 9 in
      go (Z.add (Z.mul acc (z_of_int (pow10 len))) (z_of_int (int_of_string (String.sub d i len)))) (i + len) in
  let v = go (z_of_int 0) 0 in
  if neg then Z.sub (z_of_int 0) v else v

(* key type letter -> (conversion of a decimal to the type, hash overload of Base.hpp) *)
let int_key_type = function
  | "b" -> (wrap_int8, hash_int8) | "B" -> (wrap_uint8, hash_uint8)
  | "h" -> (wrap_int16, hash_int16) | "H" -> (wrap_uint16, hash_uint16)
  | "i" -> (wrap_int32, hash_int32) | "u" -> (wrap_uint32, hash_uint32)
  | "l" -> (wrap_int64, hash_int64) | "q" -> (wrap_uint64, hash_uint64)
  | "p" -> (wrap_uint64, hash_ptr)
  | s -> failwith ("key type " ^ s)

let () =
  let mode = Sys.argv.(1) and file = Sys.argv.(2) in
  let show_int k = dec_of_z k in
  let show_str k = hex_of_bytes k and pk_str s = bytes_of_hex s in
  let on_case cfg = match cfg with
    | kd :: kt :: caps ->
        let kd = kind_of kd and caps = List.map (fun c -> z_of_int (int_of_string c)) caps in
        if kt = "s" then
          (if mode = "model" then model_runner pk_str show_str bytes_eqb hash_str kd caps
           else spec_runner pk_str show_str bytes_eqb kd caps)
        else
          (* integer key types: hash = (usize)v;  p = const void*: hash = address >> 3 *)
          (let (wrap, hash) = int_key_type kt in
           let pk_int s = wrap (z_of_dec s) in
           if mode = "model" then model_runner pk_int show_int Z.eqb hash kd caps
           else spec_runner pk_int show_int Z.eqb kd caps)
    | _ -> failwith "case header: case <n> <hm|hs|pm> <b|B|h|H|i|u|l|q|p|s> <caps…>" in
  run_cases file on_case (fun r _ toks -> r.step_line toks; r) (fun _ -> ())
