(* model / spec driver for component Xml (C16) *)
open Model
open Zconv

let hx (l : z list) = hex_of_bytes l

let msg_text (m : emsg) : string = match m with
  | EEof -> "Unexpected end of file"
  | ENewline -> "New line in string"
  | EExpName -> "Expected name"
  | EExpLt -> "Expected '<'"
  | EExpTagName -> "Expected tag name"
  | EExpEq -> "Expected '='"
  | EExpString -> "Expected string"
  | EExpEndTag nm -> "Expected end tag of '" ^ String.concat "" (List.map (fun b -> String.make 1 (Char.chr (int_of_z b land 255))) nm) ^ "'"
  | EExpGt -> "Expected '>'"
  | EOs t -> String.concat "" (List.map (fun b -> String.make 1 (Char.chr (int_of_z b land 255))) t)
let hex_of_string (s : string) = if s = "" then "-" else String.concat "" (List.map (fun c -> Printf.sprintf "%02x" (Char.code c)) (List.of_seq (String.to_seq s)))

(* canonical dump; pos: 0 = none, 1 = real, 2 = wildcard *)
let rec dump (b : Buffer.t) (pos : int) (n : node) : unit = match n with
  | Nul -> Buffer.add_string b " nul"
  | T t -> Buffer.add_string b " t "; Buffer.add_string b (hx t)
  | N (l, c, nm, at, ct) ->
    Buffer.add_string b " (";
    (if pos = 1 then (Buffer.add_char b ' '; Buffer.add_string b (dec_of_z l); Buffer.add_char b ' '; Buffer.add_string b (dec_of_z c))
     else if pos = 2 then Buffer.add_string b " ? ?");
    Buffer.add_char b ' '; Buffer.add_string b (hx nm);
    Buffer.add_char b ' '; Buffer.add_string b (string_of_int (List.length at));
    List.iter (fun (k, v) -> Buffer.add_char b ' '; Buffer.add_string b (hx k); Buffer.add_char b ' '; Buffer.add_string b (hx v)) at;
    List.iter (dump b pos) ct;
    Buffer.add_string b " )"
let dump_s pos n = let b = Buffer.create 256 in dump b pos n; Buffer.contents b

let res_str (pos : int) (r : node res) : string = match r with
  | Ok n -> "ok" ^ dump_s pos n
  | Syn (l, c, m) -> Printf.sprintf "err %s %s %s" (dec_of_z l) (dec_of_z c) (hex_of_string (msg_text m))
  | Oob -> "! oob"
  | Fuel -> "! timeout"

(* state: build stack (top first): name, attributes, content in order; and the handle store *)
(* hold (spec mode): the slot a kept reference came from, and whether that slot has been read as the source of
   a copy since (then the block may be shared and the spec says nothing about a write through the reference);
   unknown: such a write has happened - the value store of the spec no longer tells the values *)
type st = { stack : (z list * (z list * z list) list * node list) list; store : node option list; hs : hstate;
            hold : (int * bool) option; unknown : bool }

(* Error::getErrorString() of an open() that fails with ENOENT *)
let os_text s = List.map (fun c -> z_of_int (Char.code c)) (List.of_seq (String.to_seq s))
let os_enoent = os_text "No such file or directory"
let os_eisdir = os_text "Is a directory"                   (* read() on a directory: open succeeds, readAll fails *)

let rec attr_put k v l = match l with
  | [] -> [(k, v)]
  | (k', v') :: r -> if k = k' then (k', v) :: r else (k', v') :: attr_put k v r

let current (s : st) : node =
  match s.stack with
  | [] -> N (Z0, Z0, [], [], [])
  | (nm, at, ct) :: below ->
    List.fold_left (fun cur (pn, pa, pc) -> N (Z0, Z0, pn, pa, pc @ [cur])) (N (Z0, Z0, nm, at, ct)) below

let nat i = nat_of_int (int_of_string i)

let vop_of toks = match toks with
  | ["vnull"; i] -> Some (VNull (nat i))
  | ["vtext"; i; h] -> Some (VText (nat i, bytes_of_hex h))
  | ["velem"; i; h] -> Some (VElem (nat i, bytes_of_hex h))
  | ["vcopy"; i; j] -> Some (VCopy (nat i, nat j))
  | ["vassign"; i; j] -> Some (VAssign (nat i, nat j))
  | ["vsettext"; i; h] -> Some (VSetText (nat i, bytes_of_hex h))
  | ["vname"; i; h] -> Some (VName (nat i, bytes_of_hex h))
  | ["vattr"; i; k; v] -> Some (VAttr (nat i, bytes_of_hex k, bytes_of_hex v))
  | ["vchild"; i; j] -> Some (VChild (nat i, nat j))
  | ["vsub"; i; j; k] -> Some (VSub (nat i, nat j, nat k))
  | ["vassignsub"; i; j; k] -> Some (VSub (nat i, nat j, nat k))      (* same value step through operator= and a reference into slot j's element *)
  | ["vsubmut"; i; k; h] -> Some (VSubMut (nat i, nat k, bytes_of_hex h))
  | ["velcopy"; i; j] -> Some (VElCopy (nat i, nat j))
  | ["vdel"; i] -> Some (VDel (nat i))
  | ["vsubassign"; i; k; j] -> Some (VSubAssign (nat i, nat k, nat j))
  | _ -> None

let target_int o = int_of_nat (target o)
let source_of o = match o with
  | VCopy (_, j) | VAssign (_, j) | VChild (_, j) | VSubAssign (_, _, j) -> Some (int_of_nat j)
  | _ -> None

let nslots = 6
(* XmlSpec.sset on the extracted store (sset itself is not extracted) *)
let rec set_store (l : node option list) (n : int) (v : node option) : node option list = match l, n with
  | [], 0 -> [v]
  | [], n -> None :: set_store [] (n - 1) v
  | _ :: r, 0 -> v :: r
  | x :: r, n -> x :: set_store r (n - 1) v
let vdump_store (store : node option list) : string =
  let b = Buffer.create 256 in
  Buffer.add_string b "v";
  for i = 0 to nslots - 1 do
    (match sget store (nat_of_int i) with
     | None -> Buffer.add_string b " -"
     | Some n -> dump b 0 n);
    Buffer.add_string b " ;"
  done;
  Buffer.contents b

(* L-int: every Variant's reference count, walking the content lists *)
let rec dump_rc (b : Buffer.t) (h : block list) (x : nat option) : unit = match x with
  | None -> Buffer.add_string b " nul"
  | Some id ->
    let k = List.nth h (int_of_nat id) in
    (match k.pl with
     | PText _ -> Buffer.add_string b (Printf.sprintf " t%d" (int_of_nat k.rc))
     | PElem (_, _, _, _, hs) ->
       Buffer.add_string b (Printf.sprintf " (%d" (int_of_nat k.rc));
       List.iter (dump_rc b h) hs;
       Buffer.add_string b " )")
let vdump_rc (v : vstate) : string =
  let b = Buffer.create 256 in
  let rec nth_slot l i = match l with [] -> None | x :: r -> if i = 0 then x else nth_slot r (i - 1) in
  for i = 0 to nslots - 1 do
    (match nth_slot v.slots i with
     | None -> Buffer.add_string b " -"
     | Some h -> dump_rc b v.hp h);
    Buffer.add_string b " ;"
  done;
  Buffer.contents b

let () =
  let mode = Sys.argv.(1) and file = Sys.argv.(2) in
  let spec = (mode = "spec") in
  let garbage = z_of_int 12345 in
  run_cases file (fun _ -> { stack = []; store = []; hs = hinit; hold = None; unknown = false })
    (fun s _ toks ->
       match toks with
       | ["parse"; h] ->
         if spec then emit "??*" else emit (res_str 1 (parse (bytes_of_hex h)));
         s
       | ["parseok"; h] ->
         (* a document that is well formed by construction (generator of checks/C16.py): it must be accepted *)
         if spec then emit "ok ??*" else emit (res_str 1 (parse (bytes_of_hex h)));
         s
       | ["parseg"; h1; h2] ->
         (* h1 well formed by construction, h2 = h1 with comments (and processing instructions in front of the root) inserted
            where white space is allowed: both accepted, same names / attributes / nesting / character data (XmlSpec.squash) *)
         (if spec then emit "1 | ok ??* | ok ??*" else begin
            let r1 = parse (bytes_of_hex h1) and r2 = parse (bytes_of_hex h2) in
            let same = (match r1, r2 with
                | Ok a, Ok b -> squash a = squash b
                | Syn _, Syn _ -> true
                | _, _ -> false) in
            emit (Printf.sprintf "%d | %s | %s" (if same then 1 else 0) (res_str 1 r1) (res_str 1 r2)) end);
         s
       | ["parse2"; flag; h1; h2] ->
         (if spec then emit "1 | ??* | ??*" else begin
            let shared = (flag = "1") in
            let (o1, r1) = parse_with (new_parser (z_of_int 12345)) Nul (bytes_of_hex h1) in
            let kept = (match r1 with Ok n when shared -> n | _ -> Nul) in
            let (_, r2) = parse_with o1 kept (bytes_of_hex h2) in
            emit (Printf.sprintf "1 | %s | %s" (res_str 1 r1) (res_str 1 r2)) end);
         s
       | ["pinto"; h] ->
         (* third section: the Element the target was copied from still holds the tree that was built *)
         let src = (match s.stack with [] -> " -" | _ -> dump_s 0 (current s)) in
         (if spec then emit ("1 | ??* |" ^ src) else begin
            let (_, r) = parse_with (new_parser (z_of_int 12345)) (current s) (bytes_of_hex h) in
            emit ("1 | " ^ res_str 1 r ^ " |" ^ src) end);
         s
       | ["rtinto"] ->
         let e = current s in
         if spec then (if wf_tree e then emit ("rtinto ok" ^ dump_s 2 e) else emit "??*")
         else emit ("rtinto " ^ res_str 1 (snd (parse_with (new_parser (z_of_int 12345)) e (toString e))));
         s
       | ["sparse"; _; h] ->
         (if spec then emit "??*" else
            match static_parse (z_of_int 12345) Nul (bytes_of_hex h) with
            | Syn (l, c, m) ->
              emit ("serr " ^ hex_of_string (Printf.sprintf "Syntax error at line %s, column %s: %s" (dec_of_z l) (dec_of_z c) (msg_text m)))
            | r -> emit (res_str 1 r));
         s
       | ["ent"; h] ->
         (* <a v="&NAME;"/> : the attribute value read back *)
         let nm = bytes_of_hex h in
         let doc = bytes_of_hex "3c6120763d2226" @ nm @ bytes_of_hex "3b222f3e" in
         if spec then
           (match std_entity nm std_entities with
            | Some c -> emit ("ent " ^ hx [c])
            | None ->
              (* decimal character reference below 128 *)
              let s = String.concat "" (List.map (fun b -> String.make 1 (Char.chr (int_of_z b land 255))) nm) in
              let n = String.length s in
              let digits = n >= 2 && n <= 4 && s.[0] = '#' && (let ok = ref true in String.iteri (fun i ch -> if i > 0 && not (ch >= '0' && ch <= '9') then ok := false) s; !ok) in
              if digits && int_of_string (String.sub s 1 (n - 1)) >= 1 && int_of_string (String.sub s 1 (n - 1)) < 128
              then emit ("ent " ^ hx [z_of_int (int_of_string (String.sub s 1 (n - 1)))])
              else emit "ent ?")
         else
           (match parse doc with
            | Ok (N (_, _, _, [(_, v)], _)) -> emit ("ent " ^ hx v)
            | _ -> emit "ent err");
         s
       | ["open"; h] -> { s with stack = (bytes_of_hex h, [], []) :: s.stack }
       | ["attr"; k; v] ->
         (match s.stack with
          | (nm, at, ct) :: r -> { s with stack = (nm, attr_put (bytes_of_hex k) (bytes_of_hex v) at, ct) :: r }
          | [] -> s)
       | ["text"; h] ->
         (match s.stack with
          | (nm, at, ct) :: r -> { s with stack = (nm, at, ct @ [T (bytes_of_hex h)]) :: r }
          | [] -> s)
       | ["close"] ->
         (match s.stack with
          | (nm, at, ct) :: (pn, pa, pc) :: r -> { s with stack = (pn, pa, pc @ [N (Z0, Z0, nm, at, ct)]) :: r }
          | _ -> s)
       | ["str"] ->
         if spec then emit "??*" else emit ("str " ^ hx (toString (current s)));
         s
       | ["rt"] ->
         let e = current s in
         if spec then (if wf_tree e then emit ("rt ok" ^ dump_s 2 e) else emit "??*")
         else emit ("rt " ^ res_str 1 (roundtrip e));
         s
       | ["vdump"] ->
         (* spec: the value store of XmlSpec.vstep; model: the values the heap denotes | the reference counts *)
         if spec then emit (if s.unknown then "??*" else vdump_store s.store)
         else emit (vdump_store (vabs s.hs.hvs) ^ " |" ^ vdump_rc s.hs.hvs);
         s
       | ["vhold"; i] ->
         (* Element& e = slot[i].toElement();  kept *)
         if spec then
           (match sget s.store (nat i) with
            | Some _ -> { s with store = vstep s.store (touch_op s.store (nat i)); hold = Some (int_of_string i, false) }
            | None -> { s with hold = None })
         else { s with hs = hstep s.hs (HHold (nat i)) }
       | ["vwriteheld"; h] ->
         (* e.type = nm;  through the kept reference.  Spec: while the slot was not copied since, this is `slot i .toElement().type = nm` *)
         if spec then
           (match s.hold with
            | Some (i, false) -> { s with store = vstep s.store (VName (nat_of_int i, bytes_of_hex h)) }
            | Some (_, true) -> { s with unknown = true }
            | None -> s)
         else { s with hs = hstep s.hs (HWriteHeld (bytes_of_hex h)) }
       | ["fload"; m; h] ->
         (* first section: the answer is that of parse on the content (theorem xml_load_is_parse_of_file_content) *)
         (if spec then emit "fload 1 | ??*" else begin
            let f = FData (bytes_of_hex h) in
            if m = "p" then
              (match snd (load_with (new_parser garbage) (current s) f) with
               | LParsed r -> emit ("fload 1 | " ^ res_str 1 r)
               | LNotRead -> emit "fload 1 | not-read")
            else
              (match static_load garbage (current s) f with
               | LParsed (Syn (l, c, e)) ->
                 emit ("fload 1 | serr " ^ hex_of_string (Printf.sprintf "Syntax error at line %s, column %s: %s" (dec_of_z l) (dec_of_z c) (msg_text e)))
               | LParsed r -> emit ("fload 1 | " ^ res_str 1 r)
               | LNotRead -> emit "fload 1 | not-read") end);
         s
       | ["fmiss"; m; h] ->
         (* the file does not exist: false, the target is what it was; a Parser keeps the line / column it held *)
         let tgt = current s in
         let os_enoent = if m = "d" || m = "D" then os_eisdir else os_enoent in
         let m = String.lowercase_ascii (if m = "d" then "p" else if m = "D" then "s" else m) in
         (if spec then emit ((if m = "p" then "fmiss lerr ? ? ? |" else "fmiss lfail ? |") ^ dump_s 1 tgt) else begin
            if m = "p" then begin
              let o1 = fst (parse_with (new_parser garbage) Nul (bytes_of_hex h)) in
              let (o2, r) = load_with o1 tgt (FMissing os_enoent) in
              let after = (match load_target tgt r with Some n -> dump_s 1 n | None -> " ?") in
              (match o2.o_err with
               | Some ((l, c), e) ->
                 emit (Printf.sprintf "fmiss lerr %s %s %s |%s" (dec_of_z l) (dec_of_z c)
                         (match e with Some e -> hex_of_string (msg_text e) | None -> "-") after)
               | None -> emit ("fmiss lerr ? ? ? |" ^ after))       (* after a successful parse the error fields are not modelled *)
            end else begin
              let r = static_load garbage tgt (FMissing os_enoent) in
              let after = (match load_target tgt r with Some n -> dump_s 1 n | None -> " ?") in
              emit ("fmiss lfail " ^ hx os_enoent ^ " |" ^ after)
            end end);
         s
       | ["fsave"; w] ->
         (if spec then emit "??*" else
            match save_file (current s) (w = "1") with
            | (true, Some content) -> emit ("fsave 1 " ^ hx content)
            | (_, _) -> emit "fsave 0 -");
         s
       | ["fsl"] ->
         let e = current s in
         (if spec then (if wf_tree e then emit ("fsl ok" ^ dump_s 2 e) else emit "??*")
          else
            match save_file e true with
            | (_, Some content) ->
              (match snd (load_with (new_parser garbage) e (FData content)) with
               | LParsed r -> emit ("fsl " ^ res_str 1 r)
               | LNotRead -> emit "fsl not-read")
            | _ -> emit "fsl save-failed");
         s
       | ["vsubassign!"; i; k] ->
         (* <k-th content item of slot i> = slot i  (outside the alphabet of spec and model: the open finding).  What value
            semantics demands: the item becomes a copy of the value slot i had.  The heap model has no state for what the
            code does (a block that refers to itself); its lines are not compared on these cases *)
         if spec then begin
           let k' = int_of_string k in
           (match sget s.store (nat i) with
            | Some (N (l, c, nm, a, ct) as old) when k' < List.length ct ->
              let ct' = List.mapi (fun idx x -> if idx = k' then old else x) ct in
              { s with store = set_store s.store (int_of_string i) (Some (N (l, c, nm, a, ct'))) }
            | _ -> s)
         end else s
       | ["vsubsettext"; i; k; h] ->
         (* <k-th content item of slot i .toElement()> = String   (Variant::operator=(const String&) on a content item, reached through
            the element: `Xml::Element c = e; c.content.front() = "new";`).  Three steps of the proved alphabet with the hidden slot
            nslots as the temporary: a fresh text Variant, the item assigned from it in place, the temporary destroyed - the item then
            holds a text block of its own with count 1, whatever it held before (the code writes in place when the item is a text block
            with count 1 and allocates otherwise: the same values and counts) *)
         let i' = nat i and tmp = nat_of_int nslots in
         let steps = [VText (tmp, bytes_of_hex h); VSubAssign (i', nat k, tmp); VDel tmp] in
         if spec then begin
           let hold = (match s.hold with Some (hd, _) when hd = int_of_string i -> None | hd -> hd) in
           { s with store = List.fold_left vstep s.store steps; hold = hold }
         end else { s with hs = List.fold_left (fun hs o -> hstep hs (HOp o)) s.hs steps }
       | ["vassignsubm"; i; k] ->
         (* node = node.toElement().content[k]:  mutable access (touch), then the value of the own k-th content item *)
         let i' = nat i in
         let o2 = VSub (i', i', nat k) in
         if spec then begin
           let st1 = vstep s.store (touch_op s.store i') in
           let hold = (match s.hold with Some (h, _) when h = int_of_string i -> None | h -> h) in
           { s with store = vstep st1 o2; hold = hold }
         end else begin
           let h1 = hstep s.hs (HOp (VName (i', cur_name s.hs.hvs i'))) in
           { s with hs = hstep h1 (HOp o2) }
         end
       | _ ->
         (match vop_of toks with
          | Some o ->
            if spec then begin
              let hold = (match s.hold with
                  | Some (i, _) when target_int o = i -> None
                  | Some (i, _) when source_of o = Some i -> Some (i, true)
                  | h -> h) in
              { s with store = vstep s.store o; hold = hold }
            end else { s with hs = hstep s.hs (HOp o) }
          | None -> failwith ("bad op: " ^ String.concat " " toks)))
    (fun _ -> ())
