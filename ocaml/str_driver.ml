(* model / spec driver for component Str (C06) *)
open Model
open Zconv

let nat s = nat_of_int (int_of_string s)
let zi s = z_of_int (int_of_string s)
let hx = bytes_of_hex

let parse_op toks = match toks with
  | ["new"] -> ONew
  | ["lit"; h] -> OLit (hx h)
  | ["buf"; h] -> OBuf (hx h)
  | ["fill"; n; c] -> OFill (nat n, zi c)
  | ["cap"; n] -> OCap (nat n)
  | ["copy"; u] -> OCopy (nat u)
  | ["drop"] -> ODrop
  | ["reg"; h] -> OReg (hx h)
  | ["attach"; v; r; off; len] -> OAttach (nat v, nat r, nat off, nat len)
  | ["asg"; v; u] -> OAssign (nat v, nat u)
  | ["clear"; v] -> OClear (nat v)
  | ["detach"; v] -> ODetach (nat v)
  | ["resize"; v; n; c] -> OResize (nat v, nat n, zi c)
  | ["reserve"; v; n] -> OReserve (nat v, nat n)
  | ["poke"; v; i; c] -> OPoke (nat v, nat i, zi c)
  | ["cstr"; v] -> OCStr (nat v)
  | ["apps"; v; u] -> OAppendS (nat v, nat u)
  | ["appb"; v; h] -> OAppendB (nat v, hx h)
  | ["appc"; v; c] -> OAppendC (nat v, zi c)
  | ["pres"; v; u] -> OPrependS (nat v, nat u)
  | ["preb"; v; h] -> OPrependB (nat v, hx h)
  | ["repc"; v; a; b] -> OReplaceC (nat v, zi a, zi b)
  | ["reps"; v; n; r] -> OReplaceS (nat v, nat n, nat r)
  | ["lower"; v] -> OLower (nat v)
  | ["upper"; v] -> OUpper (nat v)
  | ["trim"; v; h] -> OTrim (nat v, hx h)
  | ["printf"; v; h] -> OPrintf (nat v, hx h)
  | "join" :: v :: sep :: us -> OJoin (nat v, List.map nat us, zi sep)
  | ["substr"; v; s; l] -> OSubstr (nat v, zi s, zi l)
  | ["tokc"; v; c; s] -> OTokenC (nat v, zi c, nat s)
  | ["toks"; v; h; s] -> OTokenS (nat v, hx h, nat s)
  | ["split"; v; h; k] -> OSplit (nat v, hx h, k = "1")
  | ["eq"; v; u] -> OEq (nat v, nat u)
  | ["cmp"; v; u] -> OCompare (nat v, nat u)
  | ["cmpn"; v; u; n] -> OCompareN (nat v, nat u, nat n)
  | ["cmpi"; v; u] -> OCompareIC (nat v, nat u)
  | ["cmpin"; v; u; n] -> OCompareICN (nat v, nat u, nat n)
  | ["eqi"; v; u] -> OEqualsIC (nat v, nat u)
  | ["findc"; v; c] -> OFindC (nat v, zi c)
  | ["findlc"; v; c] -> OFindLastC (nat v, zi c)
  | ["findcf"; v; c; s] -> OFindCFrom (nat v, zi c, nat s)
  | ["finds"; v; h] -> OFindS (nat v, hx h)
  | ["findsf"; v; h; s] -> OFindSFrom (nat v, hx h, nat s)
  | ["findo"; v; h] -> OFindOneOf (nat v, hx h)
  | ["findof"; v; h; s] -> OFindOneOfFrom (nat v, hx h, nat s)
  | ["findls"; v; h] -> OFindLastS (nat v, hx h)
  | ["findlo"; v; h] -> OFindLastOf (nat v, hx h)
  | ["starts"; v; u] -> OStartsWith (nat v, nat u)
  | ["ends"; v; u] -> OEndsWith (nat v, nat u)
  | ["len"; v] -> OLen (nat v)
  | ["appo"; v; o; l] -> OAppendOwn (nat v, nat o, nat l)
  | ["printfs"; v; a; b] -> OPrintfSelf (nat v, hx a, hx b)
  | ["eqlit"; v; h] -> OEqLit (nat v, hx h)
  | ["splitset"; v; h; k] -> OSplitSet (nat v, hx h, k = "1")
  | ["fromprintf"; h] -> OFromPrintf (hx h)
  | ["stat"; q; v; u; n] ->
    let qq = (match q with
      | "scmp" -> QCompare | "scmpn" -> QCompareN (nat n) | "scmpi" -> QCompareIC | "scmpin" -> QCompareICN (nat n)
      | "eqin" -> QEqualsICN (nat n) | "sstarts" -> QStartsWith | "slen" -> QLength
      | "sfindc" -> QFindC (zi n) | "sfindlc" -> QFindLastC (zi n)
      | "sfinds" -> QFindStr | "sfindo" -> QFindOneOfStr
      | _ -> failwith ("bad query: " ^ q)) in
    OStat (qq, nat v, nat u)
  | ["pluseq"; v; u] -> OPlusEqS (nat v, nat u)
  | ["pluseqc"; v; c] -> OPlusEqC (nat v, zi c)
  | ["plus"; v; u] -> OPlus (nat v, nat u)
  | ["pluslit"; v; h] -> OPlusLit (nat v, hx h)
  | ["plusasg"; d; v; u] -> OPlusAssign (nat d, nat v, nat u)
  | ["frombool"; b] -> OFromBool (b <> "0")
  | ["fromcstr"; h] -> OFromCStr (hx h)
  | ["fromcstrn"; h; n] -> OFromCStrN (hx h, nat n)
  | ["tobool"; v] -> OToBool (nat v)
  (* round 5: a pointer into the own text handed to prepend; calls that leave out a defaulted argument *)
  | ["preo"; v; o; l] -> OPrependOwn (nat v, nat o, nat l)
  | ["trimd"; v] -> oTrimD (nat v)
  | ["substrd"; v; s] -> oSubstrD (nat v) (zi s)
  | ["splitd"; v; h] -> oSplitD (nat v) (hx h)
  | ["splitsetd"; v; h] -> oSplitSetD (nat v) (hx h)
  | ["char"; q; c] ->
    let qq = (match q with
      | "lower" -> CLower | "upper" -> CUpper | "isspace" -> CIsSpace | "isalnum" -> CIsAlnum | "isalpha" -> CIsAlpha
      | "isdigit" -> CIsDigit | "islower" -> CIsLowerCase | "isprint" -> CIsPrint | "ispunct" -> CIsPunct
      | "isupper" -> CIsUpperCase | "isxdigit" -> CIsHexDigit
      | _ -> failwith ("bad char query: " ^ q)) in
    OChar (qq, zi c)
  | _ -> failwith ("bad op: " ^ String.concat " " toks)

(* a byte the model holds as indeterminate / out of range prints as the wildcard pair *)
let long_val = 1024
let hex_of_vals (l : z list) : string =
  if l = [] then "-" else
  if List.compare_length_with l long_val > 0 then begin
    (* a long value: '#' + 32-bit FNV-1a checksum of its bytes (an indeterminate cell makes it differ from every real text) *)
    let h = ref 2166136261 in
    List.iter (fun b -> let i = int_of_z b in h := ((!h lxor (i land 0xfff)) * 16777619) land 0xffffffff) l;
    Printf.sprintf "#%08x" !h
  end else
  String.concat "" (List.map (fun b -> let i = int_of_z b in if i < 0 || i > 255 then "??" else Printf.sprintf "%02x" i) l)

let out_str r = match r with
  | RNone -> "-"
  | RInt z -> dec_of_z z
  | RCStr (l, t) -> hex_of_vals l ^ " t=" ^ (match t with Some b -> Printf.sprintf "%02x" ((int_of_z b) land 255) | None -> "?")
  | RList l -> "L" ^ string_of_int (List.length l) ^ ":" ^ String.concat "," (List.map hex_of_vals l)

let pub_of_vals (vals : z list list) =
  "M=ok" ^ String.concat "" (List.map (fun l -> Printf.sprintf " [ %d %s ]" (List.length l) (hex_of_vals l)) vals)

let err_str e = match e with
  | OutOfBounds -> "OutOfBounds" | UseAfterFree -> "UseAfterFree" | WriteForeign -> "WriteForeign"
  | BadState -> "BadState" | BadArg -> "BadArg"

(* representation: sharing classes (blocks renumbered by first occurrence), ref, capacity field,
   capacity(), whether str[len] is a terminator *)
let int_model (w : world) =
  let tbl = Hashtbl.create 8 in
  let next = ref 0 in
  let heap = Array.of_list w.heap in
  String.concat "" (List.map (fun h ->
    match h with
    | HEmpty -> " { e k=0 z=1 }"
    | HView (r, off, len) ->
      let reg = List.nth w.regs (int_of_nat r) in
      let z = (match List.nth_opt reg (int_of_nat off + int_of_nat len) with Some b -> if int_of_z b = 0 then "1" else "0" | None -> "oob") in
      Printf.sprintf " { v%d:%d k=0 z=%s }" (int_of_nat r) (int_of_nat off) z
    | HBlock b ->
      let bi = int_of_nat b in
      let id = (match Hashtbl.find_opt tbl bi with Some i -> i | None -> let i = !next in incr next; Hashtbl.add tbl bi i; i) in
      let k = heap.(bi) in
      let rf = int_of_nat k.bref and cp = int_of_nat k.bcap in
      let z = (match List.nth_opt k.cells (int_of_nat k.blen) with Some (Some b) -> if int_of_z b = 0 then "1" else "0" | Some None -> "?" | None -> "oob") in
      Printf.sprintf " { b%d r=%d c=%d k=%d z=%s }" id rf cp (if rf = 1 then cp else 0) z) w.vars)

let rec drop_all (w : world) : world =
  if w.vars = [] then w else
  match exec w ODrop with
  | Ok (w', _) -> drop_all w'
  | Err _ -> w

let () =
  let mode = Sys.argv.(1) and file = Sys.argv.(2) in
  if mode = "model" then
    run_cases file (fun _ -> (winit, true))
      (fun (w, live) _ toks ->
         if not live then (w, false) else
         match step w (parse_op toks) with
         | Ok (w', r) ->
           emit (Printf.sprintf "%s | %s | I%s" (out_str r) (pub_of_vals (abs w').svals) (int_model w'));
           (w', true)
         | Err BadArg -> emit "! not-accepted"; (w, false)
         | Err e -> emit ("! model:" ^ err_str e); (w, false))
      (fun (w, _) ->
         let w' = drop_all w in
         emit (Printf.sprintf "end | live=%d" (int_of_nat (live_blocks w'))))
  else
    run_cases file (fun _ -> (sinit, true))
      (fun (s, live) _ toks ->
         if not live then (s, false) else
         let o = parse_op toks in
         match spec_step s o with
         | Some (s', r) ->
           (* what the property text says about the result: StrSpec.seen (None = the text is silent, printed as the wildcard) *)
           let rs = (match seen s o r with Some r' -> out_str r' | None -> "?") in
           emit (Printf.sprintf "%s | %s" rs (pub_of_vals s'.svals));
           (s', true)
         | None -> emit "! not-accepted"; (s, false))
      (fun _ -> emit "end")
