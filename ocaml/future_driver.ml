(* model / spec driver for component Future (C10)

   modes:
     model  <ops>   workload cases (`case n wl …`): run the extracted interleaving model under a
                    pseudo-random fair schedule and print the schedule-independent observations;
                    replay cases (`case n rp …`): run the model on the given move list and print
                    one line per macro step (what the instrumented real code logs under detsched)
     spec   <ops>   the extracted FutureSpec on workload cases; for replay cases the verdict only
     search <ops>   explicit-state SEARCH (not a proof) for a reachable state in which a client is
                    unfinished and every thread is blocked; prints the schedule
*)
open Model
open Zconv

(* ---------------- parsing ---------------- *)
type cfgk = { kind : string; cmin : int; cmax : int; q : int; ncl : int; scale : int; lzy : int }

let parse_cfg toks =
  match toks with
  | k :: a :: b :: c :: d :: e :: f :: _ ->
      { kind = k; cmin = int_of_string a; cmax = int_of_string b; q = int_of_string c; ncl = int_of_string d;
        scale = int_of_string e; lzy = int_of_string f }
  | _ -> { kind = "wl"; cmin = 0; cmax = 3; q = 4; ncl = 1; scale = 1; lzy = 0 }

(* The op files name harness SLOTS 0..63.  `destroy f` deletes the Future in slot f and puts a new
   object there; for model and spec the new object is a different future: slot f in its g-th
   incarnation is future f + 64 * g.  [inc] = incarnation of every slot so far (per case). *)
let nslots = 64
let parse_cop (inc : int array) toks =
  let id f = let f = int_of_string f in nat_of_int (f + nslots * inc.(f)) in
  match toks with
  | [st; f; a; w] when String.length st >= 5 && String.sub st 0 5 = "start" ->
      (* start / startf<N> / startm<N>: which overload of Future::start the harness calls; the same call for model and spec *)
      CStart (id f, z_of_int (int_of_string a), nat_of_int (int_of_string w))
  | ["abort"; f] -> CAbort (id f)
  | ["join"; f] -> CJoin (id f)
  | ["get"; f] -> CGet (id f)
  | ["check"; f] -> CCheck (id f)
  | ["destroy"; f] -> let r = CDestroy (id f) in let k = int_of_string f in inc.(k) <- inc.(k) + 1; r
  | "pause" :: _ -> CPause
  | "gate" :: _ -> CPause   (* harness-only scheduling directive (gated replay): a pause for model and spec *)
  | _ -> failwith ("bad op: " ^ String.concat " " toks)

let slot_of (f : nat) : int = int_of_nat f mod nslots
let fn (a : z) : z = Z.add (Z.mul (z_of_int 7) a) (z_of_int 3)

type case = { cfg : cfgk; fixed : bool; sigfix : bool; inc : int array; mutable ops : (int * cop) list; mutable sched : (int * bool) list; mutable extra : string list list }

let new_case cfgt =
  { cfg = parse_cfg cfgt; fixed = (try Sys.getenv "C10_ORIGINAL" <> "1" with Not_found -> true);
    sigfix = (try Sys.getenv "C10_SIGNAL_ORIGINAL" <> "1" with Not_found -> true);
    inc = Array.make nslots 0; ops = []; sched = []; extra = [] }

(* number of model futures of a case *)
let nfut_of (c : case) : int = nslots * (1 + Array.fold_left max 0 c.inc)

let fut_of op = match op with
  | CStart (f, _, _) | CAbort f | CJoin f | CGet f | CCheck f | CDestroy f -> Some (int_of_nat f)
  | CPause | CResume _ -> None

(* a start with work >= 4: its function starts the future in slot work - 4 (16..63, used by nothing else) *)
let children (ops : (int * cop) list) : (int * int) list =   (* (owner client, child slot) in op order *)
  List.filter_map (fun (cl, op) -> match op with CStart (_, _, w) when int_of_nat w >= 4 -> Some (cl, int_of_nat w - 4) | _ -> None) ops
let nested_ok (ops : (int * cop) list) : bool =
  let ch = List.map snd (children ops) in
  let named = List.filter_map (fun (_, op) -> match fut_of op with Some f -> Some (f mod nslots) | None -> None) ops in
  List.for_all (fun g -> g >= 16 && g < 56 && not (List.mem g named)) ch   (* slots 56..63 hold a Future<String> *)
  && List.length (List.sort_uniq compare ch) = List.length ch

(* scripts per client with global op indices; every future gets an implicit final join by its
   owner (the harness destroys all futures after the clients have ended) *)
let mk_config (c : case) : config =
  let ops = List.rev c.ops in
  let n = List.length ops in
  let owner = Hashtbl.create 16 in
  List.iter (fun (cl, op) -> match fut_of op with Some f when not (Hashtbl.mem owner f) -> Hashtbl.add owner f cl | _ -> ()) ops;
  let scripts = List.init c.cfg.ncl (fun cl ->
    let own = List.filteri (fun _ _ -> true) (List.mapi (fun i (c2, op) -> (i, c2, op)) ops) in
    let mine = List.filter_map (fun (i, c2, op) -> if c2 = cl then Some (nat_of_int i, op) else None) own in
    let fs = List.sort compare (Hashtbl.fold (fun f o acc -> if o = cl then f :: acc else acc) owner []) in
    let kids = List.filter_map (fun (o, g) -> if o = cl then Some g else None) (children ops) in
    mine @ List.mapi (fun k f -> (nat_of_int (n + k), CJoin (nat_of_int f))) (fs @ kids)) in
  let cap = if c.cfg.lzy = 1 then z_of_int 256 else eff_cap (z_of_int c.cfg.q) in
  { c_cap = cap; c_min = z_of_int (if c.cfg.lzy = 1 then 0 else c.cfg.cmin);
    c_max = eff_max (z_of_int c.cfg.cmax); c_lazy = (c.cfg.lzy = 1); c_nfut = nat_of_int (nfut_of c);
    c_scripts = scripts; c_fn = fn; c_fixed = c.fixed; c_sigfix = c.sigfix; c_nested = (children ops <> []) }

(* ---------------- printing ---------------- *)
let st_char s = match s with StIdle -> "I" | StRunning -> "R" | StFinished -> "F" | StAborted -> "A"
let i_n n = string_of_int (int_of_nat n)
let i_f f = string_of_int (slot_of f)

let spec_line (o : sobs) : string = match o with
  | SoStart (c, f, n, a) -> Printf.sprintf "start %s %s %s | ran 1 arg %s" (i_n c) (i_f f) (i_n n) (dec_of_z a)
  | SoAbort (c, f, n) -> Printf.sprintf "abort %s %s %s" (i_n c) (i_f f) (i_n n)
  | SoJoin (c, f, Some n) -> Printf.sprintf "join %s %s %s | after 1" (i_n c) (i_f f) (i_n n)
  | SoJoin (c, f, None) -> Printf.sprintf "join %s %s - | after -" (i_n c) (i_f f)
  | SoGet (c, f, n, v) ->
      Printf.sprintf "get %s %s %s | after %s res %s" (i_n c) (i_f f) (match n with Some n -> i_n n | None -> "-")
        (match n with Some _ -> "1" | None -> "-") (match v with Some v -> dec_of_z v | None -> "?")
  | SoCheck (c, f, n, st, ab) ->
      Printf.sprintf "check %s %s %s | st %s ab %d" (i_n c) (i_f f) (i_n n)
        (match st with SsIs s -> st_char s | SsDone -> "FA" | SsAny -> "?") (if ab then 1 else 0)
  | SoPause c -> Printf.sprintf "pause %s" (i_n c)
  | SoDestroy (c, f, Some n) -> Printf.sprintf "destroy %s %s %s | after 1" (i_n c) (i_f f) (i_n n)
  | SoDestroy (c, f, None) -> Printf.sprintf "destroy %s %s - | after -" (i_n c) (i_f f)

(* ---------------- running the model ---------------- *)
let nthreads (s : state) = List.length s.st_threads
let clients_done (cfg : config) (s : state) = not (client_unfinished cfg s)

let lcg = ref 12345
let rnd k = lcg := (!lcg * 1103515245 + 12345) land 0x3fffffff; (!lcg lsr 8) mod k

(* random schedule that only picks threads able to move; returns the trace (newest first) *)
let run_random (cfg : config) (seed : int) (fuel : int) : (state * event list) option =
  lcg := seed * 7919 + 17;
  let s = ref (init cfg) and tr = ref [] and n = ref 0 and ok = ref true in
  while !ok && not (clients_done cfg !s) do
    let nt = nthreads !s in
    let en = List.filter (fun t -> not (blocked !s (nat_of_int t))) (List.init nt (fun i -> i)) in
    if en = [] || !n > fuel then ok := false
    else begin
      let t = List.nth en (rnd (List.length en)) in
      (* a burst of steps of the same thread makes long runs of one thread likely as well *)
      let burst = 1 + (if rnd 3 = 0 then rnd 12 else 0) in
      let k = ref 0 in
      while !k < burst do
        let (s', evs) = step cfg !s (nat_of_int t) (rnd 2 = 0) in
        s := s'; tr := List.rev_append evs !tr; incr k; incr n
      done
    end
  done;
  if !ok then Some (!s, !tr) else None

let obs_lines (c : case) (trace : event list) : string list =
  let chron = List.rev trace in
  let nops = List.length c.ops in
  let tbl = Hashtbl.create 64 in
  (* position of every event *)
  List.iteri (fun pos e -> match e with
    | EvObs (cl, i, o) when int_of_nat cl < c.cfg.ncl -> Hashtbl.replace tbl (int_of_nat i) (pos, int_of_nat cl, o)   (* not the starts done by workers *)
    | _ -> ()) chron;
  let arr = Array.of_list chron in
  let count_run_before f n pos =
    let k = ref 0 in
    Array.iteri (fun p e -> if p < pos then match e with EvRun (_, f2, n2, _) when f2 = f && n2 = n -> incr k | _ -> ()) arr; !k in
  let run_arg f n =
    let r = ref None in
    Array.iter (fun e -> match e with EvRun (_, f2, n2, a) when f2 = f && n2 = n -> r := Some a | _ -> ()) arr; !r in
  let completed_before f n pos =
    let r = ref false in
    Array.iteri (fun p e -> if p < pos then match e with EvComplete (f2, n2, _) when f2 = f && n2 = n -> r := true | _ -> ()) arr; !r in
  let after f n pos = if completed_before f n pos && count_run_before f n pos = 1 then 1 else 0 in
  List.init nops (fun i ->
    match Hashtbl.find_opt tbl i with
    | None -> "missing-op " ^ string_of_int i
    | Some (pos, cl, o) ->
      (match o with
       | OStart (f, n) ->
           Printf.sprintf "start %d %s %s | ran %d arg %s" cl (i_f f) (i_n n) (count_run_before f n (Array.length arr))
             (match run_arg f n with Some a -> dec_of_z a | None -> "-")
       | OAbort (f, n) -> Printf.sprintf "abort %d %s %s" cl (i_f f) (i_n n)
       | OJoin (f, Some n) -> Printf.sprintf "join %d %s %s | after %d" cl (i_f f) (i_n n) (after f n pos)
       | OJoin (f, None) -> Printf.sprintf "join %d %s - | after -" cl (i_f f)
       | OGet (f, Some n, v) -> Printf.sprintf "get %d %s %s | after %d res %s" cl (i_f f) (i_n n) (after f n pos)
                                  (match v with Some v -> dec_of_z v | None -> "?")
       | OGet (f, None, v) -> Printf.sprintf "get %d %s - | after - res %s" cl (i_f f) (match v with Some v -> dec_of_z v | None -> "?")
       | OCheck (f, n, st, ab) ->
           (* while the call is in flight, and when abort() raced with the completion, the value is
              schedule dependent: the model prints it only where the spec determines it *)
           Printf.sprintf "check %d %s %s | st %s ab %d" cl (i_f f) (i_n n) (st_char st) (if ab then 1 else 0)
       | OPause -> Printf.sprintf "pause %d" cl
       | ODestroy (f, Some n) -> Printf.sprintf "destroy %d %s %s | after %d" cl (i_f f) (i_n n) (after f n pos)
       | ODestroy (f, None) -> Printf.sprintf "destroy %d %s - | after -" cl (i_f f)))

(* mask the schedule dependent tokens of the model's observations with the spec's wildcards *)
(* `FA` (finished or aborted, the text does not say which): the model's value is schedule dependent when
   abort() raced with a function that does not look at it; for a function that polls isAborting() the
   model says A, a fact of the code that stays in the model's line (correspondence), see [keep] *)
let mask_with_spec ?(keep = false) (m : string) (sp : string) : string =
  let mt = String.split_on_char ' ' m and st = String.split_on_char ' ' sp in
  if List.length mt <> List.length st then m
  else String.concat " " (List.map2 (fun a b ->
         if b = "?" then b else if b = "FA" && not keep then "?" else a) mt st)

(* ---------------- replay cases: macro steps ---------------- *)
let pc_name (p : pc) : string = match p with
  | PIdle -> "idle" | PDone -> "done"
  | PRing (_, r) -> (match r with
      | PushRdTail _ -> "push.rdtail" | PushRdSlot _ -> "push.rdslot" | PushCas _ -> "push.cas" | PushWrite _ -> "push.write"
      | PushPublish _ -> "push.publish" | PopRdHead -> "pop.rdhead" | PopRdSlot _ -> "pop.rdslot" | PopCas _ -> "pop.cas"
      | PopRead _ -> "pop.read" | PopRelease _ -> "pop.release" | PushRet _ -> "push.ret" | PopRet _ -> "pop.ret")
  | PFs (_, w, o) -> (match w with Enq -> "enq." | Deq -> "deq.") ^
      (match o with FSet1 -> "set1" | FSet2 -> "set2" | FReset1 -> "reset1" | FReset2 -> "reset2" | FReset3 -> "reset3" | FWait1 -> "wait1" | FWait2 -> "wait2")
  | CSpin _ -> "spin" | CRecheck _ -> "recheck" | CSwapPool _ -> "swappool" | CUnlockPool _ -> "unlockpool"
  | CJoinWait _ -> "join.wait" | CJoinReset _ -> "join.reset" | CStartSet _ -> "startset"
  | CInc -> "inc.pushed" | CRdProc _ -> "rd.processed" | CRdTc _ -> "rd.tcount"
  | CGrowLock -> "grow.lock" | CGrowInc -> "grow.inc" | CGrowUnlock _ -> "grow.unlock" | CSpawn -> "spawn"
  | CShrinkLock -> "shrink.lock" | CShrinkChk -> "shrink.chk" | CShrinkDec -> "shrink.dec" | CShrinkUnlock -> "shrink.unlock"
  | WCall _ -> "call" | WStore _ -> "store" | WRdAbort _ -> "rd.aborting" | WSwap _ -> "swap.state" | WSigSet _ -> "sig.set"
  | WIncProc -> "inc.processed" | WBcast _ -> "sig.broadcast"

let job_str j = match j with JNull -> "null" | JCall (f, n, a, _) -> Printf.sprintf "call(%s,%s,%s)" (i_n f) (i_n n) (dec_of_z a)

let thread_pc (s : state) (t : int) : pc = (List.nth s.st_threads t).t_pc

(* ---------------- search ---------------- *)
let strip (s : state) : state =
  { s with st_ring = { s.st_ring with r_log = [] };
           st_futs = List.map (fun x -> { x with f_phase = PhIdle }) s.st_futs }
let key (s : state) : string = Digest.string (Marshal.to_string (strip s) [Marshal.No_sharing])

let moves_of (s : state) : (int * bool) list =
  let nt = nthreads s in
  List.concat (List.init nt (fun t ->
    if blocked s (nat_of_int t) then []
    else match thread_pc s t with
      | CRdTc _ -> [(t, false); (t, true)]
      | _ -> [(t, false)]))

let search (c : case) (bfs_ops : int) (limit : int) : unit =
  let cfg = mk_config { c with ops = c.ops } in
  (* canonical prefix: always step the lowest-numbered thread that can move, until the client has
     only bfs_ops script operations left and everybody else is asleep *)
  let s = ref (init cfg) and pre = ref [] in
  let remaining st = List.length (List.hd st.st_threads).t_script in
  let quiet st = List.for_all (fun t -> t = 0 || blocked st (nat_of_int t)) (List.init (nthreads st) (fun i -> i)) in
  (* several clients: no prefix, the whole run is searched *)
  while c.cfg.ncl = 1 && not (remaining !s <= bfs_ops && thread_pc !s 0 = PIdle && quiet !s) do
    let hold = remaining !s <= bfs_ops && thread_pc !s 0 = PIdle in
    let en = List.filter (fun t -> not (blocked !s (nat_of_int t)) && not (hold && t = 0)) (List.init (nthreads !s) (fun i -> i)) in
    (match en with
     | [] -> failwith ("prefix deadlocked after " ^ string_of_int (List.length !pre) ^ ": " ^
                      String.concat " " (List.init (nthreads !s) (fun t -> pc_name (thread_pc !s t))) ^
                      " remaining=" ^ string_of_int (remaining !s))
     | t :: _ -> let (s', _) = step cfg !s (nat_of_int t) false in s := s'; pre := (t, false) :: !pre)
  done;
  Printf.printf "# prefix of %d steps, %d threads, tcount=%s\n%!" (List.length !pre) (nthreads !s) (dec_of_z !s.st_tcount);
  let seen = Hashtbl.create 1000003 in
  let qu = Queue.create () in
  let k0 = key !s in
  Hashtbl.add seen k0 ("", (0, false));
  Queue.add (!s, k0) qu;
  let found = ref None and visited = ref 0 in
  (try
    while not (Queue.is_empty qu) do
      let (st, k) = Queue.pop qu in
      incr visited;
      if !visited > limit then raise Exit;
      let ms = moves_of st in
      if ms = [] && client_unfinished cfg st then begin found := Some k; raise Exit end;
      List.iter (fun (t, clk) ->
        let (st', _) = step cfg st (nat_of_int t) clk in
        let k' = key st' in
        if not (Hashtbl.mem seen k') then begin Hashtbl.add seen k' (k, (t, clk)); Queue.add (st', k') qu end) ms
    done
  with Exit -> ());
  Printf.printf "# visited %d states, %d distinct\n%!" !visited (Hashtbl.length seen);
  match !found with
  | None -> print_endline "# no deadlock found"
  | Some k ->
      let rec path k acc = let (p, m) = Hashtbl.find seen k in if p = "" then acc else path p (m :: acc) in
      let sched = List.rev !pre @ path k [] in
      Printf.printf "# deadlock after %d steps (%d prefix + %d searched)\n" (List.length sched) (List.length !pre) (List.length sched - List.length !pre);
      List.iter (fun (t, clk) -> Printf.printf "s %d %d\n" t (if clk then 1 else 0)) sched

(* ---------------- hunt: random schedules until one ends in a deadlock ---------------- *)
let hunt (c : case) (tries : int) : unit =
  let cfg = mk_config c in
  let best = ref None in
  for k = 0 to tries - 1 do
    lcg := k * 7919 + 17;
    let s = ref (init cfg) and sched = ref [] and n = ref 0 and go = ref true in
    while !go && not (clients_done cfg !s) do
      let nt = nthreads !s in
      let en = List.filter (fun t -> not (blocked !s (nat_of_int t))) (List.init nt (fun i -> i)) in
      if en = [] then begin
        go := false;
        (match !best with Some b when List.length b <= !n -> () | _ -> best := Some (List.rev !sched))
      end
      else if !n > 20000 then go := false
      else begin
        let t = List.nth en (rnd (List.length en)) in
        let burst = 1 + (if rnd 3 = 0 then rnd 12 else 0) in
        let k2 = ref 0 in
        while !k2 < burst && not (blocked !s (nat_of_int t)) do
          let clk = (rnd 2 = 0) in
          let (s', _) = step cfg !s (nat_of_int t) clk in
          s := s'; sched := (t, clk) :: !sched; incr k2; incr n
        done
      end
    done
  done;
  match !best with
  | None -> Printf.printf "# no deadlock found in %d random schedules\n" tries
  | Some sched ->
      Printf.printf "# deadlock after %d steps\n" (List.length sched);
      List.iter (fun (t, clk) -> Printf.printf "s %d %d\n" t (if clk then 1 else 0)) sched

(* ---------------- main ---------------- *)
let () =
  let mode = Sys.argv.(1) and file = Sys.argv.(2) in
  let finish (c : case) =
    let ops = List.rev c.ops in
    let cfg = mk_config c in
    let nfut = nfut_of c in
    let valid = valid_script (nat_of_int c.cfg.ncl) (nat_of_int nfut) (List.map (fun (cl, op) -> (nat_of_int cl, op)) ops) in
    if c.cfg.kind = "wl" then begin
      let void_get = List.exists (fun (_, op) -> match op with CGet f -> let g = slot_of f in g >= 8 && g < 16 | _ -> false) ops in
      if not (valid && nested_ok ops && not void_get) then emit "invalid"
      else begin
        let sp = List.map spec_line (spec_run fn (List.init nfut (fun _ -> sfut_init)) (List.map (fun (cl, op) -> (nat_of_int cl, op)) ops)) in
        let nstarts = List.length (List.filter (fun (_, op) -> match op with CStart _ -> true | _ -> false) ops) in
        let nkids = List.length (children ops) in
        (* the line that follows the `start` line of a call whose function starts another future *)
        let nested_line (op : cop) (startline : string) (ran : int) (arg : string) (res : string) : string option =
          match op with
          | CStart (f, _, w) when int_of_nat w >= 4 ->
              let n = List.nth (String.split_on_char ' ' startline) 3 in
              Some (Printf.sprintf "nested %s %s %d | ran %d arg %s res %s" (i_f f) n (int_of_nat w - 4) ran arg res)
          | _ -> None in
        if mode = "spec" then begin
          List.iter2 (fun (_, op) l -> emit l;
            match op with
            | CStart (_, a, _) -> (match nested_line op l 1 (dec_of_z (Z.add a (z_of_int 1))) (dec_of_z (fn (Z.add a (z_of_int 1)))) with Some x -> emit x | None -> ())
            | _ -> ()) ops sp;
          emit (Printf.sprintf "pool pushed %d tc_ok 1" (nstarts + nkids)); emit "quiet 1"; emit "lifetime late 0" end
        else if mode = "model" then begin
          let rec attempt k =
            if k > 40 then None
            else match run_random cfg (!cur_case * 131 + k) 400000 with Some r -> Some r | None -> attempt (k + 1) in
          match attempt 0 with
          | None -> emit "! timeout"
          | Some (sf, tr) ->
              let runs_of g = List.filter_map (fun e -> match e with EvRun (_, f2, n2, a) when int_of_nat f2 = g && int_of_nat n2 = 1 -> Some a | _ -> None) tr in
              (* per op: does the latest start of the op's future (before the op) poll isAborting()? *)
              let w3 = Hashtbl.create 16 in
              let keeps = List.map (fun (_, op) -> match op with
                | CStart (f, _, w) -> Hashtbl.replace w3 f (int_of_nat w = 3); false
                | CCheck f -> (try Hashtbl.find w3 f with Not_found -> false)
                | _ -> false) ops in
              List.iter2 (fun ((m, (_, op)), keep) s -> emit (mask_with_spec ~keep m s);
                match op with
                | CStart (_, _, w) when int_of_nat w >= 4 ->
                    let g = int_of_nat w - 4 in
                    let rs = runs_of g in
                    let res = (List.nth sf.st_futs g).f_result in
                    (match nested_line op m (List.length rs) (match rs with a :: _ -> dec_of_z a | [] -> "-")
                             (match res with Some v -> dec_of_z v | None -> "?") with Some x -> emit x | None -> ())
                | _ -> ()) (List.combine (List.combine (obs_lines c tr) ops) keeps) sp;
              emit (Printf.sprintf "pool pushed %s tc_ok %d" (dec_of_z sf.st_pushed)
                      (if Z.leb sf.st_tcount cfg.c_max && Z.leb (z_of_int 0) sf.st_tcount then 1 else 0));
              (* quiescence: let every thread run until nothing moves; the ring is empty and every job counted *)
              let q = ref sf and n = ref 0 in
              let rec drain () =   (* round robin: a fair continuation *)
                let moved = ref false in
                for t = 0 to nthreads !q - 1 do
                  if not (blocked !q (nat_of_int t)) then begin
                    let (s', _) = step cfg !q (nat_of_int t) false in q := s'; incr n; moved := true end
                done;
                if !moved && !n < 200000 then drain () in
              drain ();
              emit (if Z.eqb !q.st_ring.r_head !q.st_ring.r_tail && Z.eqb !q.st_processed !q.st_pushed then "quiet 1"
                    else Printf.sprintf "quiet 0 head=%s tail=%s pushed=%s processed=%s" (dec_of_z !q.st_ring.r_head) (dec_of_z !q.st_ring.r_tail)
                           (dec_of_z !q.st_pushed) (dec_of_z !q.st_processed));
              (* destructors that returned while a worker still held the Future *)
              emit (Printf.sprintf "lifetime late %d" (List.length (List.filter (fun e -> match e with EvDestroy (_, _, false) -> true | _ -> false) tr)))
        end
      end
    end
    else if c.cfg.kind = "rp" || c.cfg.kind = "rm" then begin
      let micro = (c.cfg.kind = "rm") in
      (* replay: one macro move = the thread's next step plus all following plain (uninstrumented) steps *)
      let s = ref (init cfg) and tr = ref [] in
      let do_macro (t, clk) =
        if t >= nthreads !s then emit (Printf.sprintf "m %d nothread" t)
        else begin
          let p0 = thread_pc !s t in
          let wasblocked = blocked !s (nat_of_int t) in
          let evs_all = ref [] in
          let one () = let (s', evs) = step cfg !s (nat_of_int t) clk in s := s'; evs_all := !evs_all @ evs; tr := List.rev_append evs !tr in
          one ();
          let guard = ref 0 in
          while (not micro) && (not (blocked !s (nat_of_int t))) && (not (hooked (thread_pc !s t))) && thread_pc !s t <> PDone && !guard < 200
                && not (thread_pc !s t = PIdle && (List.nth !s.st_threads t).t_script = [] && false) do
            one (); incr guard
          done;
          let evs = List.filter_map (fun e -> match e with
            | EvPushClaim (_, tk, j) -> Some (Printf.sprintf "pushclaim:%s:%s" (dec_of_z tk) (job_str j))
            | EvPopClaim (_, tk) -> Some (Printf.sprintf "popclaim:%s" (dec_of_z tk))
            | EvPopRead (_, tk, j) -> Some (Printf.sprintf "popread:%s:%s" (dec_of_z tk) (job_str j))
            | EvRun (_, f, n, a) -> Some (Printf.sprintf "run:%s:%s:%s" (i_n f) (i_n n) (dec_of_z a))
            | EvComplete (f, n, ab) -> Some (Printf.sprintf "complete:%s:%s:%d" (i_n f) (i_n n) (if ab then 1 else 0))
            | EvJoinRet (_, f, n) -> Some (Printf.sprintf "joinret:%s:%s" (i_n f) (i_n n))
            | EvSpawn (_, w) -> Some (Printf.sprintf "spawn:%s" (i_n w))
            | EvShrink _ -> Some "shrink"
            | EvExit _ -> Some "exit"
            | _ -> None) !evs_all in
          emit (Printf.sprintf "m %d %s%s -> %s | %s" t (pc_name p0) (if wasblocked then "(blocked)" else "")
                  (pc_name (thread_pc !s t)) (if evs = [] then "-" else String.concat " " evs))
        end in
      if mode = "spec" then begin
        (* the property's verdict on a schedule: after the schedule, fairness continues it; a state
           with an unfinished client and no thread able to move violates "every join returns" *)
        ()
      end else begin
        List.iter do_macro (List.rev c.sched);
        let nt = nthreads !s in
        emit (Printf.sprintf "final threads=%d blocked=%s clients_unfinished=%b tcount=%s pushed=%s processed=%s"
                nt (String.concat "" (List.init nt (fun t -> if blocked !s (nat_of_int t) then "1" else "0")))
                (client_unfinished cfg !s) (dec_of_z !s.st_tcount) (dec_of_z !s.st_pushed) (dec_of_z !s.st_processed))
      end
    end
  in
  if mode = "hunt" then
    run_cases file new_case
      (fun c _ toks -> (match toks with
          | "c" :: cl :: rest -> c.ops <- (int_of_string cl, parse_cop c.inc rest) :: c.ops
          | _ -> ()); c)
      (fun c -> c.ops <- c.ops; let c = { c with ops = c.ops } in
                hunt { c with ops = c.ops } (if Array.length Sys.argv > 3 then int_of_string Sys.argv.(3) else 2000))
  else if mode = "search" then begin
    let cs = ref None in
    run_cases file (fun cfgt -> let c = new_case cfgt in cs := Some c; c)
      (fun c _ toks -> (match toks with
          | "c" :: cl :: rest -> c.ops <- (int_of_string cl, parse_cop c.inc rest) :: c.ops
          | _ -> ()); c)
      (fun c ->
         let bfs_ops = if Array.length Sys.argv > 3 then int_of_string Sys.argv.(3) else 4 in
         let limit = if Array.length Sys.argv > 4 then int_of_string Sys.argv.(4) else 20000000 in
         search c bfs_ops limit)
  end else
    run_cases file new_case
      (fun c _ toks -> (match toks with
          | "c" :: cl :: rest -> c.ops <- (int_of_string cl, parse_cop c.inc rest) :: c.ops
          | ["s"; t; clk] -> c.sched <- (int_of_string t, clk = "1") :: c.sched
          | _ -> ()); c)
      finish
