(* model / spec driver for component ServerWrite (C13).
   The Coq model has micro-steps (Write, Dispatch, CloseSweep, ... ; for two clients On c x, Collect,
   Deliver, Sweep).  This driver composes them the way the harness drives the real Server: one
   `ev`/`evs`/`poll`/`tick` line is one Server::run() call.
     one client (default):  closing-clients pass ; at most one poll event ; closing-clients pass
     two clients (case config `two`):  loop { closing-clients pass ; poll() : when no collected event
       is left, ask the kernel - the first time it reports the scripted round, the second time the
       interrupt, which ends the run ; dispatch the oldest collected event - an event that has lost
       all its flags is handled by run() like a timeout and, the interrupt flag being set, ends the run }
   An operation queued with `react <callback> <op>` is executed when that callback is delivered, i.e.
   directly after the micro-step that emitted it (every callback of the modelled code is in tail
   position).
   A send call the history has no answer for is answered would-block (as the simulated kernel does).

   Mode `monitor`: the property-level monitor (ServerWriteMonitor.v, one instance per client) reads the
   ordered event trace observed on the implementation (written by checks/C13.py from the harness
   output) and prints one verdict per case:
     wr <c> | re | w <c> <data> <ret> <post|-> <tx> | h <c> <hex> | b <c> | f <c> | cb <c> <name> |
     su <c> <0|1> | sz <c> <n> | pr <c> <hex>     (c = 0 / 1: client A / B) *)
open Model
open Zconv

let parse_outcome s = match s with
  | "wb" -> WouldBlock | "full" -> Full | "zero" -> Zero | "err" -> Error
  | _ when String.length s > 1 && s.[0] = 's' -> Sent (z_of_int (int_of_string (String.sub s 1 (String.length s - 1))))
  | _ -> failwith ("bad outcome " ^ s)

let parse_mask s = { nin = String.contains s 'i'; nout = String.contains s 'o'; nhup = String.contains s 'h';
                     nrdhup = String.contains s 'd'; nerr = String.contains s 'e' }

let cb_name c = match c with OnRead -> "onRead" | OnWrite -> "onWrite" | OnClosed -> "onClosed"
let cb_index c = match c with OnRead -> 0 | OnWrite -> 1 | OnClosed -> 2

(* a micro operation of either machine *)
type mop =
  | M1 of op                     (* one-client machine *)
  | M2 of op2                    (* two-client machine *)

(* what a micro-step shows: the client it belongs to (two clients), the observation, idle *)
type mout = { who : int; o : out; idle : bool }

type machine = {
  two : bool;
  step : mop -> mout option;        (* None: the spec makes no claim *)
  state : unit -> string;           (* the ' | ...' sections *)
  rest : unit -> string;            (* what the peers have been sent and have not reported yet *)
  cache_empty : unit -> bool;       (* two clients: no collected event is left *)
}

(* accumulated view of one op line *)
type acc = { mutable ret : string; mutable num : string; mutable cbs : string list; mutable tx : z list array;
             mutable sends : string list; mutable data : z list; mutable dead : bool; mutable unspec : bool }
let new_acc () = { ret = "-"; num = "-"; cbs = []; tx = [| []; [] |]; sends = []; data = []; dead = false; unspec = false }

let tag two who s = if two then (if who = 1 then "B." else "A.") ^ s else s

let add_out two a (mo : mout) first =
  let o = mo.o in
  (match o.o_ret with
   | Some b -> a.ret <- (if b then "1" else "0"); a.num <- dec_of_z o.o_num
   | None -> ());
  a.cbs <- a.cbs @ List.map (fun c -> tag two mo.who (cb_name c)) o.o_cbs;
  a.tx.(mo.who) <- a.tx.(mo.who) @ o.o_tx;
  a.sends <- a.sends @ List.map (fun (n, r) -> (if two then (if mo.who = 1 then "B:" else "A:") else "") ^ dec_of_z n ^ ">" ^ dec_of_z r) o.o_sends;
  a.data <- a.data @ o.o_data;
  (* "dead" = the operation found the client removed; a removal from inside one of its own
     callbacks does not make the operation itself dead *)
  if o.o_dead && first then a.dead <- true

let lst l = if l = [] then "-" else String.concat "," l

let print_acc name a m nonum =
  if a.unspec then emit "??*"
  else
    emit (Printf.sprintf "%s r=%s n=%s cb=%s tx=%s sends=%s data=%s%s%s" name a.ret (if nonum then "-" else a.num) (lst a.cbs)
            (if m.two then hex_of_bytes a.tx.(0) ^ "/" ^ hex_of_bytes a.tx.(1) else hex_of_bytes a.tx.(0))
            (lst a.sends) (hex_of_bytes a.data) (if a.dead then " dead" else "") (m.state ()))

let reactq : string list Queue.t array array = Array.init 2 (fun _ -> Array.init 3 (fun _ -> Queue.create ()))

let split_prefix s =
  if String.length s > 2 && s.[1] = '.' && (s.[0] = 'A' || s.[0] = 'B') then
    ((if s.[0] = 'B' then 1 else 0), String.sub s 2 (String.length s - 2))
  else (0, s)

let is_run name = name = "ev" || name = "evs" || name = "poll" || name = "tick"

(* A:io,B:i -> the Collect operation: which client is reported first, the readiness of each *)
let parse_events s =
  let parts = if s = "-" then [] else String.split_on_char ',' s in
  let evs = List.map (fun p -> ((if p.[0] = 'B' then 1 else 0), parse_mask (String.sub p 2 (String.length p - 2)))) parts in
  let first = match evs with (1, _) :: _ -> true | _ -> false in
  let find c = try Some (List.assoc c evs) with Not_found -> None in
  Collect (first, find 0, find 1)

let rec exec m (toks : string list) (nested : bool) : unit =
  match toks with
  | "react" :: cbn :: rest ->
      let (ci, cbn) = split_prefix cbn in
      let w = if cbn = "onRead" then 0 else if cbn = "onWrite" then 1 else 2 in
      if Queue.length reactq.(ci).(w) < 64 then Queue.add rest reactq.(ci).(w);
      emit "react"
  | name :: args ->
      let (idx, opn) = split_prefix name in
      let c = (idx = 1) in
      let a = new_acc () in
      (* one micro-step; reactions run right after a delivered callback *)
      let nmicro = ref 0 in
      let micro (x : mop) : mout option =
        incr nmicro;
        match m.step x with
        | None -> a.unspec <- true; None
        | Some mo ->
            add_out m.two a mo (!nmicro = 1);
            List.iter (fun cb ->
                let w = cb_index cb in
                if not (Queue.is_empty reactq.(mo.who).(w)) then exec m (Queue.pop reactq.(mo.who).(w)) true) mo.o.o_cbs;
            Some mo in
      let on (x : op) = if m.two then M2 (On (c, x)) else M1 x in
      (* ---- one client ---- *)
      let rec sweep1 fuel =
        if fuel > 0 then
          match micro (M1 CloseSweep) with
          | Some mo when List.mem OnClosed mo.o.o_cbs -> sweep1 (fuel - 1)
          | _ -> () in
      let run1 (ev : op option) =
        sweep1 1000;
        (match ev with Some x -> ignore (micro (M1 x)) | None -> ());
        sweep1 1000 in
      (* ---- two clients ---- *)
      let rec sweep2 fuel =
        if fuel > 0 && not a.unspec then
          match micro (M2 Sweep) with
          | Some mo when not mo.idle -> sweep2 (fuel - 1)
          | _ -> () in
      let run2 (round : op2 option) (outcomes : outcome list) =
        let q = ref outcomes in
        let asked = ref false in
        let rec loop fuel =
          if fuel > 0 && not a.unspec then begin
            sweep2 1000;
            if a.unspec then ()
            else begin
              (* poll(): the kernel is asked only when no collected event is left *)
              let go =
                if m.cache_empty () then begin
                  if !asked then false                                 (* the interrupt *)
                  else begin
                    asked := true;
                    (match round with Some r -> ignore (micro (M2 r)) | None -> ());
                    not a.unspec && not (m.cache_empty ())             (* nothing reported: the interrupt *)
                  end
                end else true in
              if go then begin
                let o = match !q with x :: _ -> x | [] -> WouldBlock in
                match micro (M2 (Deliver o)) with
                | Some mo ->
                    if mo.o.o_sends <> [] then (match !q with _ :: t -> q := t | [] -> ());
                    if mo.idle then ()                                 (* an event without flags: like a timeout; interrupted -> return *)
                    else loop (fuel - 1)
                | None -> ()
              end
            end
          end in
        loop 1000 in
      let nonum = ref false in
      if nested && is_run opn then begin
        (* run() is not re-entered from a callback: flagged and skipped on both sides *)
        a.dead <- true
      end else begin
        match opn, args with
        | "write", [h; o] -> ignore (micro (on (Write (bytes_of_hex h, parse_outcome o))))
        | "write0", [h; o] -> nonum := true; ignore (micro (on (Write (bytes_of_hex h, parse_outcome o))))
        | "ev", [mk; o] ->
            if m.two then run2 (Some (if c then Collect (true, None, Some (parse_mask mk)) else Collect (false, Some (parse_mask mk), None))) [parse_outcome o]
            else run1 (Some (Dispatch (parse_mask mk, parse_outcome o)))
        | "evs", evs :: os ->
            if m.two then run2 (Some (parse_events evs)) (List.map parse_outcome os)
            else failwith "evs needs a `two` case"
        | "poll", [o] -> if m.two then failwith "poll: one-client cases only" else run1 (Some (PollReal (parse_outcome o)))
        | "tick", os -> if m.two then run2 None (List.map parse_outcome os) else run1 None
        | "suspend", [] -> ignore (micro (on Suspend))
        | "resume", [] -> ignore (micro (on Resume))
        | "read", [n] -> ignore (micro (on (Read (z_of_int (int_of_string n)))))
        | "remove", [] -> ignore (micro (on Remove))
        | "peerwrite", [h] -> ignore (micro (on (PeerWrite (bytes_of_hex h))))
        | "peerread", [] -> ignore (micro (on PeerRead))
        | "peerclose", [] -> ignore (micro (on PeerClose))
        | _ -> failwith ("bad op: " ^ String.concat " " toks)
      end;
      print_acc name a m !nonum
  | [] -> ()

let mask_string (s : st) =
  if not s.registered then "-"
  else if not s.int_r && not s.int_w then "0"
  else (if s.int_r then "r" else "") ^ (if s.int_w then "w" else "") ^ "d"

let who_of (c : bool option) = match c with Some true -> 1 | _ -> 0

(* ---- one client ---- *)
let model_machine () : machine =
  let st = ref init in
  { two = false;
    step = (fun x -> match x with
        | M1 x -> let (s', o) = step !st x in st := s'; Some { who = 0; o = o; idle = false }
        | M2 _ -> failwith "two-client operation in a one-client case");
    state = (fun () ->
        let s = !st in
        if s.removed then " | sb=- susp=- | k=-"
        else Printf.sprintf " | sb=%s susp=%d | k=%s" (dec_of_z (getSendBufferSize s)) (if isSuspended s then 1 else 0) (mask_string s));
    rest = (fun () -> let s = !st in hex_of_bytes (if s.peer_closed then [] else s.wire));
    cache_empty = (fun () -> true) }

let spec_machine () : machine =
  let st = ref spec_init in
  let lost = ref false in     (* some operation was outside the spec's claims: its bookkeeping of the wire is void *)
  { two = false;
    step = (fun x -> match x with
        | M1 x -> let (t', o) = spec_step !st x in st := t'; (if o = None then lost := true);
            (match o with Some o -> Some { who = 0; o = o; idle = false } | None -> None)
        | M2 _ -> failwith "two-client operation in a one-client case");
    state = (fun () ->
        let t = !st in
        if t.s_dead then " | sb=- susp=-"
        else Printf.sprintf " | sb=%s susp=%d" (dec_of_z (zlen t.q)) (if t.s_susp then 1 else 0));
    rest = (fun () -> let t = !st in
             if !lost then "?" else hex_of_bytes (if t.s_peer_closed then [] else t.s_wire));
    cache_empty = (fun () -> true) }

(* ---- two clients ---- *)
let pair f a b = f a ^ "/" ^ f b

let model_machine2 () : machine =
  let st = ref init2 in
  { two = true;
    step = (fun x -> match x with
        | M2 x -> let (m', r) = step2 !st x in st := m'; Some { who = who_of r.o2_c; o = r.o2_out; idle = r.o2_idle }
        | M1 _ -> failwith "one-client operation in a `two` case");
    state = (fun () ->
        let m = !st in
        Printf.sprintf " | sb=%s susp=%s | k=%s"
          (pair (fun (s : st) -> if s.removed then "-" else dec_of_z (getSendBufferSize s)) m.cl0 m.cl1)
          (pair (fun (s : st) -> if s.removed then "-" else if isSuspended s then "1" else "0") m.cl0 m.cl1)
          (pair (fun (s : st) -> if s.removed then "-" else mask_string s) m.cl0 m.cl1));
    rest = (fun () -> let m = !st in pair (fun (s : st) -> hex_of_bytes (if s.peer_closed then [] else s.wire)) m.cl0 m.cl1);
    cache_empty = (fun () -> !st.sel = []) }

let spec_machine2 () : machine =
  let st = ref spec_init2 in
  let lost = ref false in
  { two = true;
    step = (fun x -> match x with
        | M2 x -> let (u', r) = spec_step2 !st x in st := u'; (if r = None then lost := true);
            (match r with Some r -> Some { who = who_of r.o2_c; o = r.o2_out; idle = r.o2_idle } | None -> None)
        | M1 _ -> failwith "one-client operation in a `two` case");
    state = (fun () ->
        let u = !st in
        Printf.sprintf " | sb=%s susp=%s"
          (pair (fun (t : sst) -> if t.s_dead then "-" else dec_of_z (zlen t.q)) u.t0 u.t1)
          (pair (fun (t : sst) -> if t.s_dead then "-" else if t.s_susp then "1" else "0") u.t0 u.t1));
    rest = (fun () -> let u = !st in
             if !lost then "?" else pair (fun (t : sst) -> hex_of_bytes (if t.s_peer_closed then [] else t.s_wire)) u.t0 u.t1);
    cache_empty = (fun () -> !st.pend = []) }

(* ---- the property monitor on an observed trace ---- *)
type mstate = { mons : mon array; mutable bad : (int * int * int) option; mutable nev : int }

let clause_name c = match c with
  | 1 -> "stream" | 2 -> "size" | 3 -> "onWrite" | 4 -> "suspended" | 5 -> "progress" | 6 -> "peer" | _ -> "?"

let feed (ms : mstate) (c : int) (e : pev) =
  if ms.bad = None then
    match mon_step ms.mons.(c) e with
    | Go m -> ms.mons.(c) <- m
    | Stop k -> ms.bad <- Some (ms.nev, int_of_z k, c)

let monitor_event (ms : mstate) (toks : string list) : mstate =
  let cl s = if s = "1" then 1 else 0 in
  let cbk s = match s with "onRead" -> OnRead | "onWrite" -> OnWrite | _ -> OnClosed in
  (match toks with
   | ["wr"; c] -> feed ms (cl c) EWritable
   | ["re"] -> feed ms 0 ERunEnd; feed ms 1 ERunEnd
   | ["w"; c; d; ret; post; tx] ->
       feed ms (cl c) (EWrite (bytes_of_hex d, ret = "1", (if post = "-" then None else Some (z_of_int (int_of_string post))), bytes_of_hex tx))
   | ["h"; c; tx] -> feed ms (cl c) (EHand (bytes_of_hex tx))
   | ["b"; c] -> feed ms (cl c) EBlock
   | ["f"; c] -> feed ms (cl c) EFault
   | ["cb"; c; name] -> feed ms (cl c) (ECb (cbk name))
   | ["su"; c; b] -> feed ms (cl c) (ESusp (b = "1"))
   | ["sz"; c; n] -> feed ms (cl c) (ESize (z_of_int (int_of_string n)))
   | ["pr"; c; d] -> feed ms (cl c) (EPeer (bytes_of_hex d))
   | _ -> failwith ("bad event: " ^ String.concat " " toks));
  ms.nev <- ms.nev + 1;
  ms

let () =
  let mode = Sys.argv.(1) and file = Sys.argv.(2) in
  if mode = "monitor" then
    run_cases file
      (fun _ -> { mons = [| mon_init; mon_init |]; bad = None; nev = 0 })
      (fun ms _ toks -> monitor_event ms toks)
      (fun ms -> match ms.bad with
         | None -> emit "verdict ok"
         | Some (i, k, c) -> emit (Printf.sprintf "verdict bad %d %s %d" i (clause_name k) c))
  else
  run_cases file
    (fun cfg ->
       Array.iter (Array.iter Queue.clear) reactq;
       let two = List.mem "two" cfg in
       if mode = "model" then (if two then model_machine2 () else model_machine ())
       else (if two then spec_machine2 () else spec_machine ()))
    (fun m _ toks -> exec m toks false; m)
    (fun m -> let r = m.rest () in if r = "?" then emit "end ?" else emit ("end data=" ^ r))
