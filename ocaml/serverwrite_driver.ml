(* model / spec driver for component ServerWrite (C13).
   The Coq model has micro-steps (Write, Dispatch, CloseSweep, ... ; for several clients On c x, Collect,
   Deliver, Sweep).  This driver composes them the way the harness drives the real Server: one
   `ev`/`evs`/`poll`/`tick` line is one Server::run() call.
     one client (default):  closing-clients pass ; at most one poll event ; closing-clients pass
     n clients (case config `two` / `three` / `four`):  loop { closing-clients pass ; poll() : when no collected event
       is left, ask the kernel - the first time it reports the scripted round, the second time the
       interrupt, which ends the run ; dispatch the oldest collected event - an event that has lost
       all its flags is handled by run() like a timeout and, the interrupt flag being set, ends the run }
   An operation queued with `react <callback> <op>` is executed when that callback is delivered, i.e.
   directly after the micro-step that emitted it (every callback of the modelled code is in tail
   position).
   A send call the history has no answer for is answered would-block (as the simulated kernel does).

   Mode `monitor`: the property-level monitor (ServerWriteMonitor.v, one instance per client) reads the
   ordered event trace observed on the implementation (written by checks/C13.py from the harness
   output) and prints one verdict per case:
     wr <c> | rd <c> | re | w <c> <data> <ret> <post|-> <tx> | h <c> <hex> | b <c> | f <c> | cb <c> <name> |
     su <c> <0|1> | sz <c> <n> | pr <c> <hex>     (c = 0 .. 3: client A .. D)
   The monitor driver is TOTAL on whatever the implementation printed: a number it cannot read (not decimal
   digits) in a size position is itself a contradiction of clause `size`; anything else it cannot read is
   reported as `malformed` - never an exception.

   `evsi <A:..,B:..>`: the poll round of `evs`, but the interrupt is reported in the same epoll batch: the events
   are collected and the run() returns (closing-clients pass ; Collect); the next run() hands them out. *)
open Model
open Zconv

let parse_outcome s = match s with
  | "wb" -> WouldBlock | "full" -> Full | "zero" -> Zero | "err" -> Error
  | _ when String.length s > 1 && s.[0] = 's' -> Sent (z_of_int (int_of_string (String.sub s 1 (String.length s - 1))))
  | _ -> failwith ("bad outcome " ^ s)

let parse_mask s = { nin = String.contains s 'i'; nout = String.contains s 'o'; nhup = String.contains s 'h';
                     nrdhup = String.contains s 'd'; nerr = String.contains s 'e' }

let cb_name c = match c with OnRead -> "onRead" | OnWrite -> "onWrite" | OnClosed -> "onClosed"
let cb_index c = match c with OnRead -> 0 | OnWrite -> 1 | OnClosed -> 2

(* decimal digits of any length -> z (None: not a decimal number) *)
let z_of_dec_opt (s : string) : z option =
  let n = String.length s in
  let neg = n > 0 && s.[0] = '-' in
  let start = if neg then 1 else 0 in
  if n - start < 1 || n - start > 4000 then None
  else begin
    let ok = ref true in
    for i = start to n - 1 do if s.[i] < '0' || s.[i] > '9' then ok := false done;
    if not !ok then None
    else begin
      (* repeated division of the digit string by 2: bits, least significant first *)
      let d = Array.init (n - start) (fun i -> Char.code s.[start + i] - 48) in
      let len = Array.length d in
      let is_zero () = Array.for_all (fun x -> x = 0) d in
      let bits = ref [] in
      while not (is_zero ()) do
        let rem = ref 0 in
        for i = 0 to len - 1 do
          let cur = !rem * 10 + d.(i) in
          d.(i) <- cur / 2; rem := cur mod 2
        done;
        bits := !rem :: !bits            (* most significant first at the end *)
      done;
      match !bits with
      | [] -> Some Z0
      | _ :: rest ->                       (* the leading bit is 1 *)
          let p = List.fold_left (fun acc b -> if b = 1 then XI acc else XO acc) XH rest in
          Some (if neg then Zneg p else Zpos p)
    end
  end

let letter i = String.make 1 (Char.chr (65 + i))

(* a micro operation of either machine *)
type mop =
  | M1 of op                     (* one-client machine *)
  | M2 of op2                    (* n-client machine *)

(* what a micro-step shows: the client it belongs to (several clients), the observation, idle *)
type mout = { who : int; o : out; idle : bool }

type machine = {
  two : bool;                       (* more than one client: observations carry client letters *)
  nc : int;
  step : mop -> mout option;        (* None: the spec makes no claim *)
  state : unit -> string;           (* the ' | ...' sections *)
  rest : unit -> string;            (* what the peers have been sent and have not reported yet *)
  cache_empty : unit -> bool;       (* several clients: no collected event is left *)
}

(* accumulated view of one op line *)
type acc = { mutable ret : string; mutable num : string; mutable cbs : string list; mutable tx : z list array;
             mutable sends : string list; mutable data : z list; mutable dead : bool; mutable unspec : bool }
let new_acc () = { ret = "-"; num = "-"; cbs = []; tx = Array.make 4 []; sends = []; data = []; dead = false; unspec = false }

let tag two who s = if two then letter who ^ "." ^ s else s

let add_out two a (mo : mout) first =
  let o = mo.o in
  (match o.o_ret with
   | Some b -> a.ret <- (if b then "1" else "0"); a.num <- dec_of_z o.o_num
   | None -> ());
  a.cbs <- a.cbs @ List.map (fun c -> tag two mo.who (cb_name c)) o.o_cbs;
  a.tx.(mo.who) <- a.tx.(mo.who) @ o.o_tx;
  a.sends <- a.sends @ List.map (fun (n, r) -> (if two then letter mo.who ^ ":" else "") ^ dec_of_z n ^ ">" ^ dec_of_z r) o.o_sends;
  a.data <- a.data @ o.o_data;
  (* "dead" = the operation found the client removed; a removal from inside one of its own
     callbacks does not make the operation itself dead *)
  if o.o_dead && first then a.dead <- true

let lst l = if l = [] then "-" else String.concat "," l

let print_acc name a m nonum =
  if a.unspec then emit "??*"
  else
    emit (Printf.sprintf "%s r=%s n=%s cb=%s tx=%s sends=%s data=%s%s%s" name a.ret (if nonum then "-" else a.num) (lst a.cbs)
            (String.concat "/" (List.init m.nc (fun i -> hex_of_bytes a.tx.(i))))
            (lst a.sends) (hex_of_bytes a.data) (if a.dead then " dead" else "") (m.state ()))

let reactq : string list Queue.t array array = Array.init 4 (fun _ -> Array.init 3 (fun _ -> Queue.create ()))

let split_prefix s =
  if String.length s > 2 && s.[1] = '.' && s.[0] >= 'A' && s.[0] <= 'D' then
    (Char.code s.[0] - 65, String.sub s 2 (String.length s - 2))
  else (0, s)

let is_run name = name = "ev" || name = "evs" || name = "evsi" || name = "poll" || name = "tick"

(* A:io,B:i -> the Collect operation: the clients the kernel reports in this round, in this order, with their readiness
   (a client the case does not have is not reported) *)
let parse_events nc s =
  let parts = if s = "-" then [] else String.split_on_char ',' s in
  let evs = List.map (fun p -> (Char.code p.[0] - 65, parse_mask (String.sub p 2 (String.length p - 2)))) parts in
  Collect (List.map (fun (c, n) -> (nat_of_int c, n)) (List.filter (fun (c, _) -> c >= 0 && c < nc) evs))

let rec exec m (toks : string list) (nested : bool) : unit =
  match toks with
  | "react" :: cbn :: rest ->
      let (ci, cbn) = split_prefix cbn in
      let w = if cbn = "onRead" then 0 else if cbn = "onWrite" then 1 else 2 in
      if Queue.length reactq.(ci).(w) < 64 then Queue.add rest reactq.(ci).(w);
      emit "react"
  | name :: args ->
      let (idx, opn) = split_prefix name in
      let c = nat_of_int idx in
      let a = new_acc () in
      (* one micro-step; reactions run right after a delivered callback *)
      let nmicro = ref 0 in
      let micro (x : mop) : mout option =
        incr nmicro;
        match m.step x with
        | None -> a.unspec <- true; None
        | Some mo ->
            add_out m.two a mo (!nmicro = 1);
            List.iter (fun cb ->
                let w = cb_index cb in
                if not (Queue.is_empty reactq.(mo.who).(w)) then begin
                  (* `op & op & ...`: several operations inside one callback invocation *)
                  let rec parts acc cur = function
                    | [] -> List.rev (List.rev cur :: acc)
                    | "&" :: t -> parts (List.rev cur :: acc) [] t
                    | x :: t -> parts acc (x :: cur) t in
                  List.iter (fun p -> if p <> [] then exec m p true) (parts [] [] (Queue.pop reactq.(mo.who).(w)))
                end) mo.o.o_cbs;
            Some mo in
      let on (x : op) = if m.two then M2 (On (c, x)) else M1 x in
      (* ---- one client ---- *)
      let rec sweep1 fuel =
        if fuel > 0 then
          match micro (M1 CloseSweep) with
          | Some mo when List.mem OnClosed mo.o.o_cbs -> sweep1 (fuel - 1)
          | _ -> () in
      let run1 (ev : op option) =
        sweep1 1000;
        (match ev with Some x -> ignore (micro (M1 x)) | None -> ());
        sweep1 1000 in
      (* ---- several clients ---- *)
      let rec sweep2 fuel =
        if fuel > 0 && not a.unspec then
          match micro (M2 Sweep) with
          | Some mo when not mo.idle -> sweep2 (fuel - 1)
          | _ -> () in
      let run2 ?(with_intr = false) (round : op2 option) (outcomes : outcome list) =
        let q = ref outcomes in
        let asked = ref false in
        let rec loop fuel =
          if fuel > 0 && not a.unspec then begin
            sweep2 1000;
            if a.unspec then ()
            else begin
              (* poll(): the kernel is asked only when no collected event is left *)
              let go =
                if m.cache_empty () then begin
                  if !asked then false                                 (* the interrupt *)
                  else begin
                    asked := true;
                    (match round with Some r -> ignore (micro (M2 r)) | None -> ());
                    (* the interrupt in the same batch: the events stay cached, poll() returns without flags, run() returns *)
                    not with_intr && not a.unspec && not (m.cache_empty ())     (* nothing reported: the interrupt *)
                  end
                end else true in
              if go then begin
                let o = match !q with x :: _ -> x | [] -> WouldBlock in
                match micro (M2 (Deliver o)) with
                | Some mo ->
                    if mo.o.o_sends <> [] then (match !q with _ :: t -> q := t | [] -> ());
                    if mo.idle then ()                                 (* an event without flags: like a timeout; interrupted -> return *)
                    else loop (fuel - 1)
                | None -> ()
              end
            end
          end in
        loop 1000 in
      let nonum = ref false in
      if nested && is_run opn then begin
        (* run() is not re-entered from a callback: flagged and skipped on both sides *)
        a.dead <- true
      end else begin
        match opn, args with
        | "write", [h; o] -> ignore (micro (on (Write (bytes_of_hex h, parse_outcome o))))
        | "write0", [h; o] -> nonum := true; ignore (micro (on (Write (bytes_of_hex h, parse_outcome o))))
        | "ev", [mk; o] ->
            if m.two then run2 (Some (Collect [(c, parse_mask mk)])) [parse_outcome o]
            else run1 (Some (Dispatch (parse_mask mk, parse_outcome o)))
        | "evs", evs :: os ->
            if m.two then run2 (Some (parse_events m.nc evs)) (List.map parse_outcome os)
            else failwith "evs needs a case with several clients"
        | "evsi", evs :: os ->
            if m.two then run2 ~with_intr:true (Some (parse_events m.nc evs)) (List.map parse_outcome os)
            else failwith "evsi needs a case with several clients"
        | "poll", [o] -> if m.two then failwith "poll: one-client cases only" else run1 (Some (PollReal (parse_outcome o)))
        | "tick", os -> if m.two then run2 None (List.map parse_outcome os) else run1 None
        | "suspend", [] -> ignore (micro (on Suspend))
        | "resume", [] -> ignore (micro (on Resume))
        | "read", [n] -> ignore (micro (on (Read (z_of_int (int_of_string n)))))
        | "remove", [] -> ignore (micro (on Remove))
        | "peerwrite", [h] -> ignore (micro (on (PeerWrite (bytes_of_hex h))))
        | "peerread", [] -> ignore (micro (on PeerRead))
        | "peerclose", [] -> ignore (micro (on PeerClose))
        | _ -> failwith ("bad op: " ^ String.concat " " toks)
      end;
      print_acc name a m !nonum
  | [] -> ()

let mask_string (s : st) =
  if not s.registered then "-"
  else if not s.int_r && not s.int_w then "0"
  else (if s.int_r then "r" else "") ^ (if s.int_w then "w" else "") ^ "d"

let who_of (c : nat option) = match c with Some k -> int_of_nat k | None -> 0

(* ---- one client ---- *)
let model_machine () : machine =
  let st = ref init in
  { two = false; nc = 1;
    step = (fun x -> match x with
        | M1 x -> let (s', o) = step !st x in st := s'; Some { who = 0; o = o; idle = false }
        | M2 _ -> failwith "several-client operation in a one-client case");
    state = (fun () ->
        let s = !st in
        if s.removed then " | sb=- susp=- | k=-"
        else Printf.sprintf " | sb=%s susp=%d | k=%s" (dec_of_z (getSendBufferSize s)) (if isSuspended s then 1 else 0) (mask_string s));
    rest = (fun () -> let s = !st in hex_of_bytes (if s.peer_closed then [] else s.wire));
    cache_empty = (fun () -> true) }

let spec_machine () : machine =
  let st = ref spec_init in
  let lost = ref false in     (* some operation was outside the spec's claims: its bookkeeping of the wire is void *)
  { two = false; nc = 1;
    step = (fun x -> match x with
        | M1 x -> let (t', o) = spec_step !st x in st := t'; (if o = None then lost := true);
            (match o with Some o -> Some { who = 0; o = o; idle = false } | None -> None)
        | M2 _ -> failwith "several-client operation in a one-client case");
    state = (fun () ->
        let t = !st in
        if t.s_dead then " | sb=- susp=-"
        else Printf.sprintf " | sb=%s susp=%d" (dec_of_z (zlen t.q)) (if t.s_susp then 1 else 0));
    rest = (fun () -> let t = !st in
             if !lost then "?" else hex_of_bytes (if t.s_peer_closed then [] else t.s_wire));
    cache_empty = (fun () -> true) }

(* ---- n clients ---- *)
let per nc f = String.concat "/" (List.init nc f)

let model_machine2 (nc : int) : machine =
  let st = ref init2 in
  let cl i : st = get2 !st (nat_of_int i) in
  { two = true; nc = nc;
    step = (fun x -> match x with
        | M2 x -> let (m', r) = step2 !st x in st := m'; Some { who = who_of r.o2_c; o = r.o2_out; idle = r.o2_idle }
        | M1 _ -> failwith "one-client operation in a case with several clients");
    state = (fun () ->
        Printf.sprintf " | sb=%s susp=%s | k=%s"
          (per nc (fun i -> let s = cl i in if s.removed then "-" else dec_of_z (getSendBufferSize s)))
          (per nc (fun i -> let s = cl i in if s.removed then "-" else if isSuspended s then "1" else "0"))
          (per nc (fun i -> let s = cl i in if s.removed then "-" else mask_string s)));
    rest = (fun () -> per nc (fun i -> let s = cl i in hex_of_bytes (if s.peer_closed then [] else s.wire)));
    cache_empty = (fun () -> !st.sel = []) }

let spec_machine2 (nc : int) : machine =
  let st = ref spec_init2 in
  let lost = ref false in
  let cl i : sst = sget !st (nat_of_int i) in
  { two = true; nc = nc;
    step = (fun x -> match x with
        | M2 x -> let (u', r) = spec_step2 !st x in st := u'; (if r = None then lost := true);
            (match r with Some r -> Some { who = who_of r.o2_c; o = r.o2_out; idle = r.o2_idle } | None -> None)
        | M1 _ -> failwith "one-client operation in a case with several clients");
    state = (fun () ->
        Printf.sprintf " | sb=%s susp=%s"
          (per nc (fun i -> let t = cl i in if t.s_dead then "-" else dec_of_z (zlen t.q)))
          (per nc (fun i -> let t = cl i in if t.s_dead then "-" else if t.s_susp then "1" else "0")));
    rest = (fun () ->
             if !lost then "?" else per nc (fun i -> let t = cl i in hex_of_bytes (if t.s_peer_closed then [] else t.s_wire)));
    cache_empty = (fun () -> !st.pend = []) }

(* ---- the property monitor on an observed trace ---- *)
type mstate = { mons : mon array; mutable bad : (int * string * int) option; mutable nev : int }

let clause_name c = match c with
  | 1 -> "stream" | 2 -> "size" | 3 -> "onWrite" | 4 -> "suspended" | 5 -> "progress" | 6 -> "peer" | 7 -> "resumed" | _ -> "?"

let nmon = 4

let feed (ms : mstate) (c : int) (e : pev) =
  if ms.bad = None then
    match mon_step ms.mons.(c) e with
    | Go m -> ms.mons.(c) <- m
    | Stop k -> ms.bad <- Some (ms.nev, clause_name (int_of_z k), c)

exception Unreadable_size of int

let monitor_event (ms : mstate) (toks : string list) : mstate =
  let cl s = match int_of_string_opt s with Some k when k >= 0 && k < nmon -> k | _ -> failwith "client" in
  let cbk s = match s with "onRead" -> OnRead | "onWrite" -> OnWrite | "onClosed" -> OnClosed | _ -> failwith "callback" in
  (* a reported size the driver cannot read as a number contradicts clause `size` *)
  let num c s = match z_of_dec_opt s with Some z -> z | None -> raise (Unreadable_size c) in
  (if ms.bad = None then
   try
    (match toks with
     | ["wr"; c] -> feed ms (cl c) EWritable
     | ["rd"; c] -> feed ms (cl c) EReadable
     | ["re"] -> for c = 0 to nmon - 1 do feed ms c ERunEnd done
     | ["w"; c; d; ret; post; tx] ->
         let c = cl c in
         feed ms c (EWrite (bytes_of_hex d, ret = "1", (if post = "-" then None else Some (num c post)), bytes_of_hex tx))
     | ["h"; c; tx] -> feed ms (cl c) (EHand (bytes_of_hex tx))
     | ["b"; c] -> feed ms (cl c) EBlock
     | ["f"; c] -> feed ms (cl c) EFault
     | ["cb"; c; name] -> feed ms (cl c) (ECb (cbk name))
     | ["su"; c; b] -> feed ms (cl c) (ESusp (b = "1"))
     | ["sz"; c; n] -> let c = cl c in feed ms c (ESize (num c n))
     | ["pr"; c; d] -> feed ms (cl c) (EPeer (bytes_of_hex d))
     | _ -> failwith "event")
   with
   | Unreadable_size c -> ms.bad <- Some (ms.nev, "size", c)
   | _ -> ms.bad <- Some (ms.nev, "malformed", 0));
  ms.nev <- ms.nev + 1;
  ms

let () =
  let mode = Sys.argv.(1) and file = Sys.argv.(2) in
  if mode = "monitor" then
    run_cases file
      (fun _ -> { mons = Array.make nmon mon_init; bad = None; nev = 0 })
      (fun ms _ toks -> monitor_event ms toks)
      (fun ms -> match ms.bad with
         | None -> emit "verdict ok"
         | Some (i, k, c) -> emit (Printf.sprintf "verdict bad %d %s %d" i k c))
  else
  run_cases file
    (fun cfg ->
       Array.iter (Array.iter Queue.clear) reactq;
       let nc = if List.mem "two" cfg then 2 else if List.mem "three" cfg then 3 else if List.mem "four" cfg then 4 else 1 in
       if mode = "model" then (if nc > 1 then model_machine2 nc else model_machine ())
       else (if nc > 1 then spec_machine2 nc else spec_machine ()))
    (fun m _ toks -> exec m toks false; m)
    (fun m -> let r = m.rest () in if r = "?" then emit "end ?" else emit ("end data=" ^ r))
