(* model / spec driver for component ServerWrite (C13).
   The Coq model has micro-steps (Write, Dispatch, CloseSweep, ...).  This driver composes them the
   way the harness drives the real Server: one `ev`/`poll`/`tick` line is one Server::run() call =
   closing-clients pass ; at most one poll event ; closing-clients pass.  An operation queued with
   `react <callback> <op>` is executed when that callback is delivered, i.e. directly after the
   micro-step that emitted it (every callback of the modelled code is in tail position). *)
open Model
open Zconv

type machine = {
  step : op -> out option;          (* None: the spec makes no claim *)
  state : unit -> string;           (* the ' | ...' sections *)
  rest : unit -> z list option;     (* what the peer has been sent and has not reported yet *)
}

let parse_outcome s = match s with
  | "wb" -> WouldBlock | "full" -> Full | "zero" -> Zero | "err" -> Error
  | _ when String.length s > 1 && s.[0] = 's' -> Sent (z_of_int (int_of_string (String.sub s 1 (String.length s - 1))))
  | _ -> failwith ("bad outcome " ^ s)

let parse_mask s = { nin = String.contains s 'i'; nout = String.contains s 'o'; nhup = String.contains s 'h' }

let cb_name c = match c with OnRead -> "onRead" | OnWrite -> "onWrite" | OnClosed -> "onClosed"
let cb_index c = match c with OnRead -> 0 | OnWrite -> 1 | OnClosed -> 2

(* accumulated view of one op line *)
type acc = { mutable ret : string; mutable num : string; mutable cbs : string list; mutable tx : z list;
             mutable sends : string list; mutable data : z list; mutable dead : bool; mutable unspec : bool }
let new_acc () = { ret = "-"; num = "-"; cbs = []; tx = []; sends = []; data = []; dead = false; unspec = false }

let add_out a (o : out) first =
  (match o.o_ret with
   | Some b -> a.ret <- (if b then "1" else "0"); a.num <- dec_of_z o.o_num
   | None -> ());
  a.cbs <- a.cbs @ List.map cb_name o.o_cbs;
  a.tx <- a.tx @ o.o_tx;
  a.sends <- a.sends @ List.map (fun (n, r) -> dec_of_z n ^ ">" ^ dec_of_z r) o.o_sends;
  a.data <- a.data @ o.o_data;
  (* "dead" = the operation found the client removed; a removal from inside one of its own
     callbacks does not make the operation itself dead *)
  if o.o_dead && first then a.dead <- true

let lst l = if l = [] then "-" else String.concat "," l

let print_acc name a m =
  if a.unspec then emit "??*"
  else
    emit (Printf.sprintf "%s r=%s n=%s cb=%s tx=%s sends=%s data=%s%s%s" name a.ret a.num (lst a.cbs) (hex_of_bytes a.tx)
            (lst a.sends) (hex_of_bytes a.data) (if a.dead then " dead" else "") (m.state ()))

let reactq : string list Queue.t array = Array.init 3 (fun _ -> Queue.create ())

let is_run name = name = "ev" || name = "poll" || name = "tick"

let rec exec m (toks : string list) (nested : bool) : unit =
  match toks with
  | "react" :: cbn :: rest ->
      let w = if cbn = "onRead" then 0 else if cbn = "onWrite" then 1 else 2 in
      if Queue.length reactq.(w) < 64 then Queue.add rest reactq.(w);
      emit "react"
  | name :: args ->
      let a = new_acc () in
      (* one micro-step; reactions run right after a delivered callback *)
      let nmicro = ref 0 in
      let micro (x : op) : out option =
        incr nmicro;
        match m.step x with
        | None -> a.unspec <- true; None
        | Some o ->
            add_out a o (!nmicro = 1);
            List.iter (fun c ->
                let w = cb_index c in
                if not (Queue.is_empty reactq.(w)) then exec m (Queue.pop reactq.(w)) true) o.o_cbs;
            Some o in
      let rec sweep fuel =
        if fuel > 0 then
          match micro CloseSweep with
          | Some o when List.mem OnClosed o.o_cbs -> sweep (fuel - 1)
          | _ -> () in
      let run_with (ev : op option) =
        sweep 1000;
        (match ev with Some x -> ignore (micro x) | None -> ());
        sweep 1000 in
      if nested && is_run name then begin
        (* run() is not re-entered from a callback: flagged and skipped on both sides *)
        a.dead <- true
      end else begin
        match name, args with
        | "write", [h; o] -> ignore (micro (Write (bytes_of_hex h, parse_outcome o)))
        | "ev", [mk; o] -> run_with (Some (Dispatch (parse_mask mk, parse_outcome o)))
        | "poll", [o] -> run_with (Some (PollReal (parse_outcome o)))
        | "tick", [] -> run_with None
        | "suspend", [] -> ignore (micro Suspend)
        | "resume", [] -> ignore (micro Resume)
        | "read", [n] -> ignore (micro (Read (z_of_int (int_of_string n))))
        | "remove", [] -> ignore (micro Remove)
        | "peerwrite", [h] -> ignore (micro (PeerWrite (bytes_of_hex h)))
        | "peerread", [] -> ignore (micro PeerRead)
        | "peerclose", [] -> ignore (micro PeerClose)
        | _ -> failwith ("bad op: " ^ String.concat " " toks)
      end;
      print_acc name a m
  | [] -> ()

let model_machine () : machine =
  let st = ref init in
  { step = (fun x -> let (s', o) = step !st x in st := s'; Some o);
    state = (fun () ->
        let s = !st in
        if s.removed then " | sb=- susp=- | k=-"
        else Printf.sprintf " | sb=%s susp=%d | k=%s" (dec_of_z (getSendBufferSize s)) (if isSuspended s then 1 else 0)
            (if not s.registered then "-"
             else if not s.int_r && not s.int_w then "0"
             else (if s.int_r then "r" else "") ^ (if s.int_w then "w" else "")));
    rest = (fun () -> let s = !st in Some (if s.peer_closed then [] else s.wire)) }

let spec_machine () : machine =
  let st = ref spec_init in
  let lost = ref false in     (* some operation was outside the spec's claims: its bookkeeping of the wire is void *)
  { step = (fun x -> let (t', o) = spec_step !st x in st := t'; (if o = None then lost := true); o);
    state = (fun () ->
        let t = !st in
        if t.s_dead then " | sb=- susp=-"
        else Printf.sprintf " | sb=%s susp=%d" (dec_of_z (zlen t.q)) (if t.s_susp then 1 else 0));
    rest = (fun () -> let t = !st in
             if !lost then None else Some (if t.s_peer_closed then [] else t.s_wire)) }

let () =
  let mode = Sys.argv.(1) and file = Sys.argv.(2) in
  run_cases file
    (fun _ -> Array.iter Queue.clear reactq; if mode = "model" then model_machine () else spec_machine ())
    (fun m _ toks -> exec m toks false; m)
    (fun m -> match m.rest () with
       | Some l -> emit ("end data=" ^ hex_of_bytes l)
       | None -> emit "end ?")
