(* model / spec driver for component Callback (C12) *)
open Model
open Zconv

let n = nat_of_int
let i = int_of_nat

let parse_action toks = match toks with
  | ["c"; e; sg; l; s] -> AConnect (n (int_of_string e), n (int_of_string sg), n (int_of_string l), n (int_of_string s))
  | ["d"; e; sg; l; s] -> ADisconnect (n (int_of_string e), n (int_of_string sg), n (int_of_string l), n (int_of_string s))
  | ["e"; e; sg] -> AEmit (n (int_of_string e), n (int_of_string sg))
  | ["xl"; l] -> ADestroyL (n (int_of_string l))
  | ["xe"; e] -> ADestroyE (n (int_of_string e))
  | _ -> failwith ("bad action: " ^ String.concat " " toks)

(* a script entry: guard (0 = at every invocation, k = at the k-th invocation of that slot in the case; plus = and later) *)
type entry = { g : int; plus : bool; a : action }
type cfg = { ne : int; nl : int; nsg : int; maxd : int; tbl : (int * int, entry list) Hashtbl.t;
             seen : (int * int, int) Hashtbl.t;        (* invocations of each slot in the earlier top-level operations of the case *)
             picks : int list }                        (* reference object only: choices among identical connections, see pick_of *)

(* configuration: ne nl nsg maxd, then tokens recognised by their first letter.  `a<digits>` (arity of each signal index),
   `k<digits>` / `j<digits>` (kinds of the listener / emitter objects) only concern the harness: neither the model nor the
   reference object looks at the arguments of a signal or at the layout of the client's classes.  `p<digits>`: which of
   several identical connections the reference object's disconnect cancels, one digit per AMBIGUOUS disconnect in the
   order they are executed (0 = oldest, clamped to the newest; 0 when the digits are used up). *)
let cfg_of toks =
  let picks = List.concat (List.map (fun t ->
    if String.length t > 1 && t.[0] = 'p' then List.init (String.length t - 1) (fun k -> Char.code t.[k + 1] - 48) else []) toks) in
  match toks with
  | ne :: nl :: nsg :: maxd :: _ ->
      { ne = int_of_string ne; nl = int_of_string nl; nsg = int_of_string nsg; maxd = int_of_string maxd;
        tbl = Hashtbl.create 16; seen = Hashtbl.create 16; picks }
  | _ -> { ne = 2; nl = 2; nsg = 1; maxd = 3; tbl = Hashtbl.create 16; seen = Hashtbl.create 16; picks }

(* the slot is a program with memory: what it does depends on how often it has been invoked (the log of the operation in
   progress, whose head is the invocation being served, plus the earlier operations of the case) *)
let sc cfg : scripts = fun lg l s ->
  let l = i l and s = i s in
  let here = List.length (List.filter (fun v -> i v.i_l = l && i v.i_s = s) lg) in
  let nth = here + (try Hashtbl.find cfg.seen (l, s) with Not_found -> 0) in
  let es = try Hashtbl.find cfg.tbl (l, s) with Not_found -> [] in
  List.map (fun e -> e.a) (List.filter (fun e -> e.g = 0 || nth = e.g || (e.plus && nth > e.g)) es)
let remember cfg lg =
  List.iter (fun v -> let k = (i v.i_l, i v.i_s) in
              Hashtbl.replace cfg.seen k (1 + (try Hashtbl.find cfg.seen k with Not_found -> 0))) lg
let add_def cfg l s toks =
  let (g, plus, rest) = match toks with
    | t :: rest when String.length t > 1 && t.[0] = '@' ->
        let plus = t.[String.length t - 1] = '+' in
        let num = String.sub t 1 (String.length t - 1 - (if plus then 1 else 0)) in
        (max 1 (int_of_string num), plus, rest)
    | _ -> (0, false, toks) in
  let old = try Hashtbl.find cfg.tbl (l, s) with Not_found -> [] in
  Hashtbl.replace cfg.tbl (l, s) (old @ [{ g; plus; a = parse_action rest }])

(* the reference object's policy for identical connections, fed from a list of choices; `asked` receives the number of
   candidates of the first ambiguous disconnect met after the list was used up *)
let pick_of (choices : int list ref) (asked : int option ref) : picker = fun st e sg l s ->
  let m = List.length (List.filter (fun c -> c.c_e = e && c.c_sg = sg && c.c_l = l && c.c_s = s) st.sp_conns) in
  if m < 2 then O else
  match !choices with
  | k :: r -> choices := r; n k
  | [] -> (if !asked = None then asked := Some m); O

let fuel = nat_of_int 100000
let nslots = 4

let log_str lg =
  if lg = [] then "-" else
  String.concat " " (List.rev_map (fun v -> Printf.sprintf "%d.%d>%d.%d" (i v.i_e) (i v.i_sg) (i v.i_l) (i v.i_s)) lg)

let range k = List.init k (fun x -> x)

(* ---- model dumps ---- *)
let st_char = function Connected -> "" | Connecting -> "!c" | Disconnected -> "!d"
let model_pub cfg st =
  let es = List.map (fun e ->
    let em = st.st_E (n e) in
    if not em.e_alive then Printf.sprintf "E%dx" e else
    let parts = List.filter_map (fun sg -> match em.e_sigs (n sg) with
      | Some sd when sd.sd_slots <> [] ->
          Some (Printf.sprintf "%d:%s" sg (String.concat "," (List.map (fun x -> Printf.sprintf "%d.%d%s" (i x.s_recv) (i x.s_slot) (st_char x.s_state)) sd.sd_slots)))
      | _ -> None) (range cfg.nsg) in
    Printf.sprintf "E%d[%s]" e (String.concat ";" parts)) (range cfg.ne) in
  let ls = List.map (fun l ->
    let li = st.st_L (n l) in
    if not li.l_alive then Printf.sprintf "L%dx" l else
    let ents = List.concat (List.map (fun e -> match li.l_ems (n e) with
      | Some xs -> List.map (fun (sg, s) -> (e, i sg, i s)) xs | None -> []) (range cfg.ne)) in
    let ents = List.sort compare ents in
    Printf.sprintf "L%d[%s]" l (String.concat "," (List.map (fun (e, sg, s) -> Printf.sprintf "%d.%d.%d" e sg s) ents))) (range cfg.nl) in
  String.concat " " (es @ ls)

let model_int cfg st =
  let es = List.concat (List.map (fun e ->
    let em = st.st_E (n e) in
    if not em.e_alive then [] else
    List.filter_map (fun sg -> match em.e_sigs (n sg) with
      | Some sd -> Some (Printf.sprintf "I%d.%d:%d%d" e sg (if sd.sd_dirty then 1 else 0) (if sd.sd_acts <> [] then 1 else 0))
      | None -> None) (range cfg.nsg)) (range cfg.ne)) in
  let ls = List.concat (List.map (fun l ->
    let li = st.st_L (n l) in
    if not li.l_alive then [] else
    List.filter_map (fun e -> match li.l_ems (n e) with
      | Some xs -> Some (Printf.sprintf "K%d.%d:%s" l e (if xs = [] then "-" else String.concat "," (List.map (fun (sg, s) -> Printf.sprintf "%d.%d" (i sg) (i s)) xs)))
      | None -> None) (range cfg.ne)) (range cfg.nl)) in
  let all = es @ ls in
  if all = [] then "-" else String.concat " " all

(* the trace of the emitting signal's internal data at every slot entry (<) and exit (>) *)
let snap_str (((entry, e), sg), sdo) =
  let head = Printf.sprintf "%s%d.%d:" (if entry then "<" else ">") (i e) (i sg) in
  match sdo with
  | None -> head ^ "x"
  | Some sd ->
      head ^ String.concat "," (List.map (fun x -> Printf.sprintf "%d.%d%s" (i x.s_recv) (i x.s_slot) (st_char x.s_state)) sd.sd_slots)
      ^ (if sd.sd_dirty then ":1:" else ":0:")
      ^ String.concat "" (List.map (fun a -> if a.a_inval then "1" else "0") sd.sd_acts)
let trace_str tr = if tr = [] then "-" else String.concat " " (List.rev_map snap_str tr)

(* ---- spec dump ---- *)
let spec_pub cfg st =
  let es = List.map (fun e ->
    if not (st.sp_E (n e)) then Printf.sprintf "E%dx" e else
    let parts = List.filter_map (fun sg ->
      let cs = List.filter (fun c -> i c.c_e = e && i c.c_sg = sg) st.sp_conns in
      if cs = [] then None else
      Some (Printf.sprintf "%d:%s" sg (String.concat "," (List.map (fun c -> Printf.sprintf "%d.%d" (i c.c_l) (i c.c_s)) cs)))) (range cfg.nsg) in
    Printf.sprintf "E%d[%s]" e (String.concat ";" parts)) (range cfg.ne) in
  let ls = List.map (fun l ->
    if not (st.sp_L (n l)) then Printf.sprintf "L%dx" l else
    let ents = List.sort compare (List.filter_map (fun c -> if i c.c_l = l then Some (i c.c_e, i c.c_sg, i c.c_s) else None) st.sp_conns) in
    Printf.sprintf "L%d[%s]" l (String.concat "," (List.map (fun (e, sg, s) -> Printf.sprintf "%d.%d.%d" e sg s) ents))) (range cfg.nl) in
  String.concat " " (es @ ls)

let is_def toks = match toks with "def" :: _ -> true | _ -> false
let do_def cfg toks = match toks with
  | "def" :: l :: s :: a -> add_def cfg (int_of_string l) (int_of_string s) a
  | _ -> failwith "def"

(* one case of the reference object under a given list of choices -> its lines, and the width of the first open choice *)
let spec_case cfg_toks ops choices =
  let cfg = cfg_of cfg_toks in
  let ch = ref choices and asked = ref None in
  let pick = pick_of ch asked in
  let lines = ref [] in
  let st = ref (Some (sp_init (n cfg.ne) (n cfg.nl) (n cfg.nsg))) in
  List.iter (fun toks ->
    match !st with
    | None -> ()
    | Some p ->
      if is_def toks then (do_def cfg toks; lines := "def" :: !lines) else
      (match spec_step pick (sc cfg) (n cfg.maxd) fuel p (parse_action toks) with
       | Done (p', lg) -> remember cfg lg; lines := Printf.sprintf "%s | %s" (log_str lg) (spec_pub cfg p') :: !lines; st := Some p'
       | OutOfFuel _ -> lines := "! fuel" :: !lines; st := None
       | Fail _ -> lines := "! uaf" :: !lines; st := None)) ops;
  (List.rev !lines, !asked)

let () =
  let mode = Sys.argv.(1) and file = Sys.argv.(2) in
  if mode = "model" then
    run_cases file (fun toks -> let cfg = cfg_of toks in (cfg, Some (init (n cfg.ne) (n cfg.nl) (n cfg.nsg))))
      (fun (cfg, sto) _ toks ->
         match sto with
         | None -> (cfg, None)
         | Some st when is_def toks -> do_def cfg toks; emit "def"; (cfg, Some st)
         | Some st ->
           (match step_tr (sc cfg) (n cfg.maxd) fuel st (parse_action toks) with
            | Done ((st', lg), tr) -> remember cfg lg; emit (Printf.sprintf "%s | %s | %s | %s" (log_str lg) (model_pub cfg st') (model_int cfg st') (trace_str tr)); (cfg, Some st')
            | OutOfFuel _ -> emit "! fuel"; (cfg, None)
            | Fail _ -> emit "! uaf"; (cfg, None)))
      (fun _ -> ())
  else if mode = "cost" then
    (* generator support: is the case small enough?  (at most `cap` slot invocations in total) *)
    let cap = 200 in
    let cnt = ref 0 in
    run_cases file (fun toks -> cnt := 0; let cfg = cfg_of toks in (cfg, Some (sp_init (n cfg.ne) (n cfg.nl) (n cfg.nsg))))
      (fun (cfg, sto) _ toks ->
         match sto with
         | None -> (cfg, None)
         | Some st when is_def toks -> do_def cfg toks; (cfg, Some st)
         | Some st ->
           let sc' lg l s = incr cnt; if !cnt > cap then raise Exit else sc cfg lg l s in
           (match (try spec_step oldest sc' (n cfg.maxd) fuel st (parse_action toks) with Exit -> OutOfFuel []) with
            | Done (st', lg) -> remember cfg lg; (cfg, Some st')
            | _ -> (cfg, None)))
      (fun (_, sto) -> emit (match sto with Some _ -> "ok" | None -> "big"))
  else if mode = "specall" then
    (* every behaviour the reference object allows: the tree of choices among identical connections is explored
       completely (up to `cap` runs); leaf number j is printed as lines `~j <line>`, `~cap` when the tree was cut *)
    let cap = 96 in
    run_cases file (fun toks -> (toks, ref []))
      (fun (cfgt, ops) _ toks -> ops := toks :: !ops; (cfgt, ops))
      (fun (cfgt, ops) ->
         let ops = List.rev !ops in
         let runs = ref 0 and leaf = ref 0 and cut = ref false in
         let rec explore choices =
           if !runs >= cap then cut := true else begin
             incr runs;
             let (lines, asked) = spec_case cfgt ops choices in
             match asked with
             | None -> List.iter (fun l -> emit (Printf.sprintf "~%d %s" !leaf l)) lines; incr leaf
             | Some m -> for k = 0 to m - 1 do explore (choices @ [k]) done
           end in
         explore (cfg_of cfgt).picks;
         if !cut then emit "~cap")
  else
    (* the reference object under the policy of the configuration (`p<digits>`; the oldest when absent) *)
    run_cases file (fun toks -> (toks, ref []))
      (fun (cfgt, ops) _ toks -> ops := toks :: !ops; (cfgt, ops))
      (fun (cfgt, ops) ->
         let (lines, _) = spec_case cfgt (List.rev !ops) (cfg_of cfgt).picks in
         List.iter emit lines)
