(* model / spec driver for component Callback (C12) *)
open Model
open Zconv

let n = nat_of_int
let i = int_of_nat

let parse_action toks = match toks with
  | ["c"; e; sg; l; s] -> AConnect (n (int_of_string e), n (int_of_string sg), n (int_of_string l), n (int_of_string s))
  | ["d"; e; sg; l; s] -> ADisconnect (n (int_of_string e), n (int_of_string sg), n (int_of_string l), n (int_of_string s))
  | ["e"; e; sg] -> AEmit (n (int_of_string e), n (int_of_string sg))
  | ["xl"; l] -> ADestroyL (n (int_of_string l))
  | ["xe"; e] -> ADestroyE (n (int_of_string e))
  | _ -> failwith ("bad action: " ^ String.concat " " toks)

type cfg = { ne : int; nl : int; nsg : int; maxd : int; tbl : (int * int, action list) Hashtbl.t }

(* configuration: ne nl nsg maxd [a<digits>]; the fifth token (arity of each signal index) only concerns the
   harness: neither the model nor the reference object looks at the arguments of a signal *)
let cfg_of toks = match toks with
  | ne :: nl :: nsg :: maxd :: _ ->
      { ne = int_of_string ne; nl = int_of_string nl; nsg = int_of_string nsg; maxd = int_of_string maxd; tbl = Hashtbl.create 16 }
  | _ -> { ne = 2; nl = 2; nsg = 1; maxd = 3; tbl = Hashtbl.create 16 }

let sc cfg : scripts = fun l s -> try Hashtbl.find cfg.tbl (i l, i s) with Not_found -> []
let add_def cfg l s a =
  let old = try Hashtbl.find cfg.tbl (l, s) with Not_found -> [] in
  Hashtbl.replace cfg.tbl (l, s) (old @ [a])

let fuel = nat_of_int 100000
let nslots = 4

let log_str lg =
  if lg = [] then "-" else
  String.concat " " (List.rev_map (fun v -> Printf.sprintf "%d.%d>%d.%d" (i v.i_e) (i v.i_sg) (i v.i_l) (i v.i_s)) lg)

let range k = List.init k (fun x -> x)

(* ---- model dumps ---- *)
let st_char = function Connected -> "" | Connecting -> "!c" | Disconnected -> "!d"
let model_pub cfg st =
  let es = List.map (fun e ->
    let em = st.st_E (n e) in
    if not em.e_alive then Printf.sprintf "E%dx" e else
    let parts = List.filter_map (fun sg -> match em.e_sigs (n sg) with
      | Some sd when sd.sd_slots <> [] ->
          Some (Printf.sprintf "%d:%s" sg (String.concat "," (List.map (fun x -> Printf.sprintf "%d.%d%s" (i x.s_recv) (i x.s_slot) (st_char x.s_state)) sd.sd_slots)))
      | _ -> None) (range cfg.nsg) in
    Printf.sprintf "E%d[%s]" e (String.concat ";" parts)) (range cfg.ne) in
  let ls = List.map (fun l ->
    let li = st.st_L (n l) in
    if not li.l_alive then Printf.sprintf "L%dx" l else
    let ents = List.concat (List.map (fun e -> match li.l_ems (n e) with
      | Some xs -> List.map (fun (sg, s) -> (e, i sg, i s)) xs | None -> []) (range cfg.ne)) in
    let ents = List.sort compare ents in
    Printf.sprintf "L%d[%s]" l (String.concat "," (List.map (fun (e, sg, s) -> Printf.sprintf "%d.%d.%d" e sg s) ents))) (range cfg.nl) in
  String.concat " " (es @ ls)

let model_int cfg st =
  let es = List.concat (List.map (fun e ->
    let em = st.st_E (n e) in
    if not em.e_alive then [] else
    List.filter_map (fun sg -> match em.e_sigs (n sg) with
      | Some sd -> Some (Printf.sprintf "I%d.%d:%d%d" e sg (if sd.sd_dirty then 1 else 0) (if sd.sd_acts <> [] then 1 else 0))
      | None -> None) (range cfg.nsg)) (range cfg.ne)) in
  let ls = List.concat (List.map (fun l ->
    let li = st.st_L (n l) in
    if not li.l_alive then [] else
    List.filter_map (fun e -> match li.l_ems (n e) with
      | Some xs -> Some (Printf.sprintf "K%d.%d:%s" l e (if xs = [] then "-" else String.concat "," (List.map (fun (sg, s) -> Printf.sprintf "%d.%d" (i sg) (i s)) xs)))
      | None -> None) (range cfg.ne)) (range cfg.nl)) in
  let all = es @ ls in
  if all = [] then "-" else String.concat " " all

(* the trace of the emitting signal's internal data at every slot entry (<) and exit (>) *)
let snap_str (((entry, e), sg), sdo) =
  let head = Printf.sprintf "%s%d.%d:" (if entry then "<" else ">") (i e) (i sg) in
  match sdo with
  | None -> head ^ "x"
  | Some sd ->
      head ^ String.concat "," (List.map (fun x -> Printf.sprintf "%d.%d%s" (i x.s_recv) (i x.s_slot) (st_char x.s_state)) sd.sd_slots)
      ^ (if sd.sd_dirty then ":1:" else ":0:")
      ^ String.concat "" (List.map (fun a -> if a.a_inval then "1" else "0") sd.sd_acts)
let trace_str tr = if tr = [] then "-" else String.concat " " (List.rev_map snap_str tr)

(* ---- spec dump ---- *)
let spec_pub cfg st =
  let es = List.map (fun e ->
    if not (st.sp_E (n e)) then Printf.sprintf "E%dx" e else
    let parts = List.filter_map (fun sg ->
      let cs = List.filter (fun c -> i c.c_e = e && i c.c_sg = sg) st.sp_conns in
      if cs = [] then None else
      Some (Printf.sprintf "%d:%s" sg (String.concat "," (List.map (fun c -> Printf.sprintf "%d.%d" (i c.c_l) (i c.c_s)) cs)))) (range cfg.nsg) in
    Printf.sprintf "E%d[%s]" e (String.concat ";" parts)) (range cfg.ne) in
  let ls = List.map (fun l ->
    if not (st.sp_L (n l)) then Printf.sprintf "L%dx" l else
    let ents = List.sort compare (List.filter_map (fun c -> if i c.c_l = l then Some (i c.c_e, i c.c_sg, i c.c_s) else None) st.sp_conns) in
    Printf.sprintf "L%d[%s]" l (String.concat "," (List.map (fun (e, sg, s) -> Printf.sprintf "%d.%d.%d" e sg s) ents))) (range cfg.nl) in
  String.concat " " (es @ ls)

let () =
  let mode = Sys.argv.(1) and file = Sys.argv.(2) in
  if mode = "model" then
    run_cases file (fun toks -> let cfg = cfg_of toks in (cfg, Some (init (n cfg.ne) (n cfg.nl) (n cfg.nsg))))
      (fun (cfg, sto) _ toks ->
         match sto, toks with
         | None, _ -> (cfg, None)
         | Some st, "def" :: l :: s :: a -> add_def cfg (int_of_string l) (int_of_string s) (parse_action a); emit "def"; (cfg, Some st)
         | Some st, _ ->
           (match step_tr (sc cfg) (n cfg.maxd) fuel st (parse_action toks) with
            | Done ((st', lg), tr) -> emit (Printf.sprintf "%s | %s | %s | %s" (log_str lg) (model_pub cfg st') (model_int cfg st') (trace_str tr)); (cfg, Some st')
            | OutOfFuel _ -> emit "! fuel"; (cfg, None)
            | Fail _ -> emit "! uaf"; (cfg, None)))
      (fun _ -> ())
  else if mode = "cost" then
    (* generator support: is the case small enough?  (at most `cap` slot invocations in total) *)
    let cap = 200 in
    let cnt = ref 0 in
    run_cases file (fun toks -> cnt := 0; let cfg = cfg_of toks in (cfg, Some (sp_init (n cfg.ne) (n cfg.nl) (n cfg.nsg))))
      (fun (cfg, sto) _ toks ->
         match sto, toks with
         | None, _ -> (cfg, None)
         | Some st, "def" :: l :: s :: a -> add_def cfg (int_of_string l) (int_of_string s) (parse_action a); (cfg, Some st)
         | Some st, _ ->
           let sc' l s = incr cnt; if !cnt > cap then raise Exit else sc cfg l s in
           (match (try spec_step sc' (n cfg.maxd) fuel st (parse_action toks) with Exit -> OutOfFuel []) with
            | Done (st', _) -> (cfg, Some st')
            | _ -> (cfg, None)))
      (fun (_, sto) -> emit (match sto with Some _ -> "ok" | None -> "big"))
  else
    run_cases file (fun toks -> let cfg = cfg_of toks in (cfg, Some (sp_init (n cfg.ne) (n cfg.nl) (n cfg.nsg))))
      (fun (cfg, sto) _ toks ->
         match sto, toks with
         | None, _ -> (cfg, None)
         | Some st, "def" :: l :: s :: a -> add_def cfg (int_of_string l) (int_of_string s) (parse_action a); emit "def"; (cfg, Some st)
         | Some st, _ ->
           (match spec_step (sc cfg) (n cfg.maxd) fuel st (parse_action toks) with
            | Done (st', lg) -> emit (Printf.sprintf "%s | %s" (log_str lg) (spec_pub cfg st')); (cfg, Some st')
            | OutOfFuel _ -> emit "! fuel"; (cfg, None)
            | Fail _ -> emit "! uaf"; (cfg, None)))
      (fun _ -> ())
