#!/bin/sh
# Run the repository's own test-suite (guard OFF: no -DLIBNSTD_VERIF) on a tree, in a scratch
# build directory outside /repo and /verif, removed afterwards.   usage: repo_tests.sh [tree]
tree=${1:-/repo}
d=$(mktemp -d /tmp/nstd-suite.XXXXXX) || exit 2
( cmake -G Ninja -S "$tree" -B "$d" -DCMAKE_BUILD_TYPE=RelWithDebInfo -DCMAKE_CXX_FLAGS=-Wno-error >"$d/configure.log" 2>&1 \
  && cmake --build "$d" -j16 >"$d/build.log" 2>&1 \
  && ctest --test-dir "$d" -j8 --timeout 900 2>&1 | tail -15 )
rc=$?
[ $rc -ne 0 ] && tail -30 "$d/build.log" 2>/dev/null
rm -rf "$d"
exit $rc
