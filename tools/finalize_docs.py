#!/usr/bin/env python3
"""Refreshes the generated numbers in DESIGN.md (10.2 fix counts, 10.7 theorem counts) from known_findings.json and
evidence/*.json, then calls mkdesign10.py (10.4 from reports/, 10.5/10.6/10.7 from reports/section_*.md)."""
import json, re, glob, collections, os, subprocess
os.chdir(os.path.dirname(os.path.dirname(os.path.abspath(__file__))))
k = json.load(open('known_findings.json'))
c = collections.Counter(f['property'] for f in k if f.get('status') == 'fixed')
fixes = '%d commits at the time of writing, by property: %s.' % (sum(c.values()), ', '.join('%s ×%d' % (p, c[p]) for p in sorted(c)))
tot = 0; axiomatic = []
for f in sorted(glob.glob('evidence/C??.json')):
    e = json.load(open(f))
    tot += e['coverage']['obligations']
s = open('DESIGN.md').read()
s = re.sub(r'\d+ commits at the time of writing, by property: [^\n]*?\.(?=\n)', fixes, s, count=1)
open('DESIGN.md', 'w').write(s)
p = 'reports/section_10_6.md'
t = open(p).read()
t = re.sub(r'for \d+ of the \d+ property theorems', 'for %d of the %d property theorems' % (tot - 1, tot), t)
open(p, 'w').write(t)
subprocess.run(['python3', 'tools/mkdesign10.py'])
print(fixes); print('theorems:', tot)
