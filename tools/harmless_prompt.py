"""Prompt given to an independent sub-agent (it sees only this text and its own scratch worktree of /repo).  usage: harmless_prompt.py <property id>"""
import sys
pid=sys.argv[1]
import json
o=[json.loads(l) for l in open('/verif/properties.jsonl') if json.loads(l)['id']==pid][0]
q=o.get('quantifier'); q=q.get('text') if isinstance(q,dict) else q
a=o.get('anchors'); a=a.get('files') if isinstance(a,dict) else a
prop='Property %s: %s\n\nStatement: %s\n\nQuantifier: %s\n\nAnchored files: %s\n' % (pid, o.get('title'), o.get('statement'), q, ', '.join(a or []))
print(f"""You are testing a verification effort for false alarms. You have your own scratch git worktree of the C++ library craflin/libnstd at /tmp/hl-{pid} (work ONLY there; do not read or touch /verif or /repo or other /tmp directories — your work must be independent of the checks that exist).

The library satisfies this semantic property:

{prop}
Produce FOUR different, independent changes to the library source (src/ or include/ — not the tests) that are HARMLESS with respect to this property: after the change the property, read literally, still holds for every input/history/schedule it quantifies over — but the change is real: it alters internal structure, an implementation choice, or observable behaviour that the property text does NOT constrain. Examples of the kind wanted (pick what fits this property): a different growth policy or rounding of a capacity; a different but valid choice where the text leaves a choice (which of two equal neighbours, which free slot is reused first, predecessor instead of successor, a different hash function or bucket count, a different traversal order where order is unspecified); different wording of an error message, a different errno; a different internal buffer size or block size; splitting or merging internal steps (one send instead of two, when the text allows it); a different value for bytes/fields the text calls unspecified; an equivalent refactoring (loop to recursion, reordered independent statements, early exit that provably gives the same result); a stronger behaviour where the text only gives one direction. Do NOT change anything the text does constrain, and do not break other obvious contracts of the library (the existing test-suite must still pass). Make the four changes different in kind and location.

For each change k = 1..4 create /tmp/hl-{pid}/out/k/ containing:
 - patch.diff : `git diff` of the change against HEAD (only that change; applies with `git apply` to a clean HEAD),
 - meta.json : {{"property":"{pid}","title":…,"what_changes":…,"why_the_property_still_holds":"<an argument against the property text, clause by clause where relevant>","files":[…]}}.
You must CONFIRM for each change that the library builds and the full existing suite passes with it: `cmake -G Ninja -S /tmp/hl-{pid} -B /tmp/hl-{pid}/_b -DCMAKE_BUILD_TYPE=RelWithDebInfo -DCMAKE_CXX_FLAGS=-Wno-error && cmake --build /tmp/hl-{pid}/_b -j8 && ctest --test-dir /tmp/hl-{pid}/_b -j8 --timeout 900` (34 tests; ~15 s). Between changes restore the tree with `git checkout -- .` (never `git stash`; keep out/ — it is untracked). When finished leave the worktree clean at HEAD except for out/, delete _b, and reply with a 10-line summary of the four changes. No network is available.""")
