#!/bin/sh
# usage: tools/thorough_some.sh C01 C02 …   — thorough tier of the named checks, one after the other; prints one line per check
for id in "$@"; do
  s=$(date +%s)
  timeout 7200 ./check $id --tier thorough > thorough-$id.out 2> thorough-$id.err; rc=$?
  echo "$id rc=$rc $(( $(date +%s)-s ))s viol=$(grep -c VIOLATION thorough-$id.out) | $(tail -1 thorough-$id.err | cut -c1-160)"
done
