#!/usr/bin/env python3
"""usage: keep_seed.py <prop> <k> <srcdir> <check_outcome text>  -> seeded/<prop>-s<k>/ (patch.diff, demo.*, meta.json)"""
import sys, os, json, shutil, subprocess
prop, k, src, outcome = sys.argv[1:5]
dst = os.path.join('/verif/seeded', '%s-%s%s' % (prop, os.environ.get('SEED_WAVE_LETTER','s'), k))
os.makedirs(dst, exist_ok=True)
for f in os.listdir(src):
    if os.path.isfile(os.path.join(src, f)) and os.path.getsize(os.path.join(src, f)) < 200000:
        shutil.copy(os.path.join(src, f), dst)
m = json.load(open(os.path.join(src, 'meta.json')))
m['breaks_property'] = prop
m['repo_head_when_seeded'] = subprocess.run(['git', '-C', '/repo', 'rev-parse', '--short', 'HEAD'], capture_output=True, text=True).stdout.strip()
m['confirmed_by'] = 'tools/confirm_seed.sh (scratch copy of /repo HEAD): demo exits 0 on the clean tree; with patch.diff applied the library builds, the 34 repository tests pass, the demo fails'
m['what_i_ran'] = 'tools/confirm_seed.sh <dir>; tools/run_seeded.sh %s <dir>/patch.diff' % prop
m['check_outcome'] = outcome
if os.environ.get('SEED_WAVE'): m['wave'] = int(os.environ['SEED_WAVE'])
json.dump(m, open(os.path.join(dst, 'meta.json'), 'w'), indent=1)
print('kept', dst)
