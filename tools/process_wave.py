#!/usr/bin/env python3
"""usage: tools/process_wave.py <prop> <seed worktree> <letter> <wave>
For out/1..3 of a seeding agent's worktree: confirm the change (tools/confirm_seed.sh: demo passes on the clean tree; with the
patch the suite passes and the demo fails), run the check of the property on it (tools/run_seeded.sh), and keep the confirmed
ones as seeded/<prop>-<letter><k>/ with the first-run outcome in meta.json."""
import sys, os, re, subprocess, json
prop, wt, letter, wave = sys.argv[1:5]
os.chdir('/verif')
for k in '123':
    d = os.path.join(wt, 'out', k)
    if not os.path.exists(os.path.join(d, 'patch.diff')):
        print('[%s-%s%s] missing' % (prop, letter, k), flush=True); continue
    c = subprocess.run(['tools/confirm_seed.sh', d], capture_output=True, text=True).stdout
    c = ' '.join(l for l in c.split('\n') if 'WARNING' not in l).strip()
    ok = ('clean_demo_exit=0' in c and 'suite_passes_with_patch=1' in c and re.search(r'patched_demo_exit=(?!0\b)\d+', c))
    print('[%s-%s%s] confirm: %s%s' % (prop, letter, k, c, '' if ok else '   -> NOT CONFIRMED, not kept'), flush=True)
    if not ok:
        continue
    r = subprocess.run(['tools/run_seeded.sh', prop, os.path.join(d, 'patch.diff')], capture_output=True, text=True)
    out = '\n'.join(l for l in r.stdout.split('\n') if 'WARNING' not in l)
    if r.returncode == 0:
        res = 'first run: MISSED (exit 0)'
    elif re.search(r'VIOLATION property=\S+ replay=\S+\s*$', out, flags=re.M):
        res = 'first run: caught, failing input'
    elif 'no-failing-input-found' in out:
        res = 'first run: caught, no-failing-input-found'
    else:
        res = 'first run: exit %d without VIOLATION line' % r.returncode
    rep = [l.strip()[:260] for l in out.split('\n') if 'replay:' in l][:2]
    print('[%s-%s%s] %s %s' % (prop, letter, k, res, ' / '.join(rep)), flush=True)
    env = dict(os.environ, SEED_WAVE_LETTER=letter, SEED_WAVE=wave)
    subprocess.run(['python3', 'tools/keep_seed.py', prop, k, d, res + (': ' + rep[0] if rep else '')], env=env, capture_output=True)
