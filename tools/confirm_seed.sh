#!/bin/sh
# usage: tools/confirm_seed.sh <dir with patch.diff, demo.cpp, meta.json>
# Confirms in a scratch copy of /repo HEAD: demo passes on the clean tree; with the patch the library
# builds, the repository's own 34 tests pass, and the demo fails.  Prints one line per fact.
d=$(cd "$1" && pwd)
w=$(mktemp -d /tmp/seedconf.XXXXXX) || exit 2
git -C /repo archive HEAD | tar -x -C "$w"
cd "$w" && git init -q . >/dev/null
extra=""; grep -q -- '-lm' "$d/demo.cpp" && extra="-lm"
build() { g++ -std=gnu++11 -w -I include $(grep -q NDEBUG "$d/demo.cpp" && echo -DNDEBUG) "$d/demo.cpp" src/*.cpp src/*/*.cpp -lpthread -lrt -ldl $extra -o "$1" 2>"$1.log"; }
build demo_clean || { echo "demo does not build on clean tree"; tail -5 demo_clean.log; }
timeout 60 ./demo_clean >/dev/null 2>&1; echo "clean_demo_exit=$?"
pf="$d/patch.diff"; [ -f "$d/patch.rebased.diff" ] && pf="$d/patch.rebased.diff"
git apply "$pf" || { echo "patch does not apply"; cd /; rm -rf "$w"; exit 3; }
/verif/tools/repo_tests.sh "$w" 2>&1 | grep -c '100% tests passed' | sed 's/^/suite_passes_with_patch=/'
build demo_patched || { echo "demo does not build on patched tree"; tail -5 demo_patched.log; }
timeout 60 ./demo_patched >/dev/null 2>&1; echo "patched_demo_exit=$?"
cd /; rm -rf "$w"
