#!/usr/bin/env python3
"""Regenerates MANIFEST.json from the check classes (attributes title/level_text/level_note/technique)."""
import os, sys, glob, json, importlib
HERE = os.path.dirname(os.path.dirname(os.path.abspath(__file__)))
sys.path.insert(0, os.path.join(HERE, 'lib')); sys.path.insert(0, os.path.join(HERE, 'checks'))
props = [json.loads(l) for l in open(os.path.join(HERE, 'properties.jsonl'))]
na_reasons = json.load(open(os.path.join(HERE, 'tools', 'not_applicable.json')))
registered = json.load(open(os.path.join(HERE, 'tools', 'registered.json')))
checks, na = [], []
for p in props:
    cid = p['id']
    if cid not in registered or not os.path.exists(os.path.join(HERE, 'checks', cid + '.py')):
        na.append({'property_id': cid, 'reason': na_reasons.get(cid, 'no check registered: the Coq model, proofs and correspondence harness for this property are not built yet (the technique applies, see DESIGN.md section 4)')})
        continue
    c = importlib.import_module(cid).CHECK
    checks.append({
        'property_id': cid,
        'quick_cmd': './check %s --tier quick' % cid,
        'thorough_cmd': './check %s --tier thorough' % cid,
        'evidence_file': 'evidence/%s.json' % cid,
        'replay_cmd_template': './check %s --replay {path}' % cid,
        'engine': 'coq-model+proofs / extracted-model driver / differential harness',
        'level_claimed': {'category': 'proof', 'text': getattr(c, 'level_text', ''), 'design_ref': 'DESIGN.md section 4, ' + cid},
        'level_note': getattr(c, 'level_note', ''),
        'technique': getattr(c, 'technique', 'machine-checked proof in Coq about a hand-written Gallina model; model tied to the code by an extracted-model vs implementation correspondence check'),
    })
m = {
    'version': 1,
    'setup_cmd': './setup.sh',
    'hooks': {
        'guard': 'LIBNSTD_VERIF',
        'enable': 'checks compile /repo sources and the harness with -DLIBNSTD_VERIF (plus ASan/UBSan); instrumentation is injected at harness build time (access override in harness TUs, symbol interposition, --wrap), repo sources carry no hook code',
        'baseline_off_cmd': 'tools/repo_tests.sh /repo',
        'source_commits': [],
        'add_only': True,
    },
    'engines': [
        {'name': 'coq-model+proofs', 'path': 'coq/', 'serves_properties': [c['property_id'] for c in checks], 'kind_free_text': 'Gallina spec + model + proofs per component, Properties_<id>.v holds the property theorems; Coq 8.16.1 kernel'},
        {'name': 'extracted-model drivers', 'path': 'ocaml/', 'serves_properties': [c['property_id'] for c in checks], 'kind_free_text': 'ExtrOcamlBasic extraction of model and spec, one OCaml driver per component'},
        {'name': 'differential harness', 'path': 'harness/', 'serves_properties': [c['property_id'] for c in checks], 'kind_free_text': 'C++ harness per component built from the current /repo tree with ASan+UBSan; lib/vf.py compares implementation, model and spec observation by observation, shrinks and classifies'},
        {'name': 'table translator', 'path': 'gen/', 'serves_properties': [x for x in ['C02', 'C03', 'C05', 'C06', 'C12', 'C16', 'C17', 'C18'] if x in [c['property_id'] for c in checks]], 'kind_free_text': 'translators (gen/tables.py, gen/tables_xml.py, gen/tables_callback.py, gen_seq/gen_stable in checks/) regenerate coq/*/Gen_*.v (constant tables, block sizes, overload families) from the source text on every run; the theorems over them are re-checked against what the code says now, a table that cannot be located uniquely raises TieBroken'},
    ],
    'checks': checks,
    'not_applicable': na,
    'notes': 'All checks: cwd /verif, seed from VERIF_SEED, repository tree from VERIF_REPO (default /repo). See DESIGN.md and FRAMEWORK.md.',
}
json.dump(m, open(os.path.join(HERE, 'MANIFEST.json'), 'w'), indent=1)
print('MANIFEST.json: %d checks, %d not claimed' % (len(checks), len(na)))
