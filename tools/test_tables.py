#!/usr/bin/env python3
"""Self-test of the table translator gen/tables.py (trusted base): feeds it adversarial variants of the
repository sources (audit C17C18 F2/F4) and asserts that it either raises TieBroken or still reads the
table the compiled code uses.  Nothing is written to coq/ (only the read_* halves are called).
usage: python3 tools/test_tables.py        (exit 0 = all expectations met)"""
import os, shutil, sys, tempfile
V = os.path.dirname(os.path.dirname(os.path.abspath(__file__)))
sys.path.insert(0, os.path.join(V, 'gen'))
sys.path.insert(0, os.path.join(V, 'lib'))
import tables
from vf import TieBroken, REPO

FILES = ['src/Crypto/Sha256.cpp', 'include/nstd/Crypto/Sha256.hpp', 'include/nstd/Base.hpp', 'src/String.cpp', 'include/nstd/Unicode.hpp']
SHA, HPP, BASE, STR, UNI = FILES


def tree(edits):
    """scratch tree with the five files; edits = [(file, old, new)], every old text must occur exactly once"""
    d = tempfile.mkdtemp(prefix='test_tables.')
    for f in FILES:
        os.makedirs(os.path.dirname(os.path.join(d, f)), exist_ok=True)
        shutil.copyfile(os.path.join(REPO, f), os.path.join(d, f))
    for f, old, new in edits:
        p = os.path.join(d, f)
        s = open(p, encoding='latin-1').read()
        assert s.count(old) == 1, 'test is stale: %r occurs %d times in %s' % (old[:40], s.count(old), f)
        open(p, 'w', encoding='latin-1').write(s.replace(old, new))
    return d


GOOD = {}
FAILED = []


def expect(name, reader, edits, want):
    """want = 'tie' (TieBroken) or 'same' (the tables of the unchanged tree) or a dict of overrides"""
    d = tree(edits)
    try:
        try:
            got = reader(d)
        except TieBroken as e:
            got = 'tie'
            msg = str(e)
        if want == 'tie':
            ok = got == 'tie'
        else:
            exp = dict(GOOD[reader.__name__])
            if isinstance(want, dict):
                exp.update(want)
            ok = got == exp
        print('%-4s %-58s %s' % ('ok' if ok else 'FAIL', name, ('TieBroken: ' + msg[:110]) if got == 'tie' else 'tables read'))
        if not ok:
            FAILED.append(name)
    finally:
        shutil.rmtree(d)


def main():
    for r in (tables.read_sha, tables.read_codec, tables.read_str):
        GOOD[r.__name__] = r(tree([]))
    g = GOOD['read_sha']
    assert g['K'][0] == 0x428a2f98 and g['K'][63] == 0xc67178f2 and len(g['K']) == 64 and g['K_type'] == (32, False)
    assert g['H0'][0] == 0x6a09e667 and g['H0'][7] == 0x5be0cd19 and (g['opad'], g['ipad']) == (0x5c, 0x36)
    c = GOOD['read_codec']
    assert len(c['base64de']) == 123 and c['base64de'][43] == 62 and c['base64de'][122] == 51 and c['base64de_type'] == (8, False)
    assert bytes(c['hexdigits']) == b'0123456789ABCDEF' and c['utf8Offsets'] == [0, 0, 0x3080, 0xE2080, 0x3C82080] and c['utf8Offsets_type'] == (32, False)
    s = GOOD['read_str']
    assert s['lowerCaseMap'][65] == 97 and s['upperCaseMap'][97] == 65 and len(s['lowerCaseMap']) == 256

    sha, codec, strr = tables.read_sha, tables.read_codec, tables.read_str
    K0 = 'const UInt32 Sha256::Private::K[64] = {'
    # ---- audit F2: silent picks ------------------------------------------------------------------------
    expect('second utf8Offsets[] inside length()', codec,
           [(UNI, '    if((ch & 0x80) == 0)\n      return 1;', '    static const uint32 utf8Offsets[] = {7,7,7,7,7};\n    if((ch & 0x80) == 0)\n      return 1;')], 'same')
    expect('second utf8Offsets[] shadowing inside fromString()', codec,
           [(UNI, '    uint32 result = 0;\n', '    uint32 result = 0;\n    { static const uint32 utf8Offsets[] = {7,7,7,7,7}; result = utf8Offsets[0]; }\n')], 'tie')
    expect('overload fromBase64(const char*) with its own base64de[] first', codec,
           [(STR, 'String String::fromBase64(const String& data)\n{',
             'String String::fromBase64(const char* data)\n{\n  const unsigned char base64de[] = {1, 2, 3};\n  return String(data, base64de[0]);\n}\n\n'
             'String String::fromBase64(const String& data)\n{')], 'same')
    expect('second definition fromBase64(const String&) under #if 0', codec,
           [(STR, 'String String::fromBase64(const String& data)\n{',
             '#if 0\nString String::fromBase64(const String& data)\n{\n  const unsigned char base64de[] = {1, 2, 3};\n  return String();\n}\n#endif\n'
             'String String::fromBase64(const String& data)\n{')], 'tie')
    expect('name not anchored: xbase64de[] before base64de[]', codec,
           [(STR, '    const unsigned char base64de[] = {', '    const unsigned char xbase64de[] = {1, 2, 3};\n    const unsigned char base64de[] = {')], 'same')
    expect('base64de[256] with 123 entries (C zero-fill)', codec,
           [(STR, 'const unsigned char base64de[] = {', 'const unsigned char base64de[256] = {')], 'tie')
    expect('base64de[123] with 123 entries', codec,
           [(STR, 'const unsigned char base64de[] = {', 'const unsigned char base64de[123] = {')], 'same')
    expect('uint16 utf8Offsets[] (entries do not fit)', codec,
           [(UNI, 'static const uint32 utf8Offsets[]', 'static const uint16 utf8Offsets[]')], 'tie')
    expect('element type of K changed through its typedef', sha,
           [(SHA, 'typedef unsigned int UInt32;', 'typedef unsigned short UInt32;')], 'tie')
    expect('element type of base64de unknown', codec,
           [(STR, 'const unsigned char base64de[] = {', 'const tabletype base64de[] = {')], 'tie')
    expect('hex reassigned: if(size > 64) hex = lower', codec,
           [(STR, '  const char* hex = "0123456789ABCDEF";\n', '  const char* hex = "0123456789ABCDEF";\n  if(size > 64) hex = "0123456789abcdef";\n')], 'tie')
    expect('hex advanced: ++hex', codec,
           [(STR, '  const char* hex = "0123456789ABCDEF";\n', '  const char* hex = "0123456789ABCDEF";\n  ++hex;\n')], 'tie')
    expect('hex used through an alias', codec,
           [(STR, '  const char* hex = "0123456789ABCDEF";\n', '  const char* hex = "0123456789ABCDEF";\n  const char* h2 = hex + 1;\n')], 'tie')
    expect('hex digit string with an escape', codec,
           [(STR, '"0123456789ABCDEF"', '"0123456789ABCDE\\x46"')], 'tie')
    expect('dead #if 0 K[64] = {1,2,3} before the live table', sha,
           [(SHA, K0, '#if 0\nconst UInt32 Sha256::Private::K[64] = {1, 2, 3};\n#endif\n' + K0)], 'tie')
    expect('correct K under a dead #ifdef, wrong K in the live #else', sha,
           [(SHA, K0, '#ifdef NEVER_DEFINED\n' + K0), (SHA, '0xbef9a3f7, 0xc67178f2\n};', '0xbef9a3f7, 0xc67178f2\n};\n#else\nconst UInt32 Sha256::Private::K[64] = {1, 2, 3};\n#endif')], 'tie')
    expect('K inside an #ifndef region (single initialiser)', sha,
           [(SHA, K0, '#ifndef SOMETHING\n' + K0), (SHA, '0xbef9a3f7, 0xc67178f2\n};', '0xbef9a3f7, 0xc67178f2\n};\n#endif')], 'tie')
    expect('conditional entry inside the K initialiser', sha,
           [(SHA, '  0x428a2f98, 0x71374491,', '#ifdef X\n  1,\n#else\n  0x428a2f98,\n#endif\n  0x71374491,')], 'tie')
    expect('K[64] with 63 entries', sha, [(SHA, '0xbef9a3f7, 0xc67178f2\n};', '0xbef9a3f7\n};')], 'tie')
    expect('K entry is an expression', sha, [(SHA, '  0x428a2f98,', '  0x428a2f98 + 1,')], 'tie')
    expect('preprocessor conditional between function start and table', codec,
           [(STR, '    unsigned char c;\n    const unsigned char base64de[] = {', '    unsigned char c;\n#ifdef ALT_TABLE\n    return String();\n#endif\n    const unsigned char base64de[] = {')], 'tie')
    expect('#define between function start and table', codec,
           [(UNI, '    static const uint32 utf8Offsets[]', '#define utf8Offsets otherOffsets\n    static const uint32 utf8Offsets[]')], 'tie')
    expect('pad with a trailing term: ^ 0x5c ^ 0x01;', sha, [(HPP, 'hashKey[i] ^ 0x5c;', 'hashKey[i] ^ 0x5c ^ 0x01;')], 'tie')
    expect('pad assigned a second time', sha, [(HPP, '      iKeyPad[i] = hashKey[i] ^ 0x36;\n', '      iKeyPad[i] = hashKey[i] ^ 0x36;\n      iKeyPad[i] ^= 1;\n')], 'tie')
    expect('pad constant changed (must be read, the proof then fails)', sha, [(HPP, 'hashKey[i] ^ 0x5c;', 'hashKey[i] ^ 0x5d;')], {'opad': 0x5d})
    expect('second hmac overload with other pads first', sha,
           [(HPP, '  static void hmac(const byte* key,', '  static void hmac(const byte* key, usize n, byte* oKeyPad, byte* iKeyPad, const byte* hashKey)\n  {\n    for(int i = 0; i < 64; ++i) { oKeyPad[i] = hashKey[i] ^ 0x11; iKeyPad[i] = hashKey[i] ^ 0x22; }\n  }\n\n  static void hmac(const byte* key,')], 'same')
    expect('reset with if/else around state[0]', sha,
           [(SHA, '  p->state[0] = 0x6a09e667;', '  if(p->count) p->state[0] = 0x6a09e667; else p->state[0] = 0x6a09e668;')], 'tie')
    expect('reset assigns state[7] twice', sha,
           [(SHA, '  p->count = 0;', '  p->state[7] = 0x5be0cd18;\n  p->count = 0;')], 'tie')
    expect('reset with a loop after the assignments', sha,
           [(SHA, '  p->count = 0;', '  for(int i = 0; i < 8; ++i) p->state[i] ^= 1;\n  p->count = 0;')], 'tie')
    expect('reset sets count to 1', sha, [(SHA, '  p->count = 0;', '  p->count = 1;')], 'tie')
    expect('state word changed (must be read, the proof then fails)', sha,
           [(SHA, 'p->state[3] = 0xa54ff53a;', 'p->state[3] = 0xa54ff53b;')], {'H0': g['H0'][:3] + [0xa54ff53b] + g['H0'][4:]})
    expect('state[] narrowed to uint16 in the header', sha, [(HPP, '  uint32 state[8];', '  uint16 state[8];')], 'tie')
    expect('second Sha256::reset definition', sha,
           [(SHA, 'void Sha256::reset()\n{', 'void Sha256::reset()\n{\n  state[0] = 1;\n}\n\nvoid Sha256::reset()\n{')], 'tie')
    # ---- audit F4: comment stripping and character escapes ------------------------------------------------
    expect('// comment containing /* (must not swallow the next lines)', sha,
           [(SHA, '  0x428a2f98, 0x71374491, 0xb5c0fbcf, 0xe9b5dba5,\n', '  0x428a2f98, 0x71374491, 0xb5c0fbcf, 0xe9b5dba5, // see /* below\n'),
            (SHA, '  0xd807aa98, 0x12835b01, 0x243185be, 0x550c7dc3,\n', '  0xd807aa98, 0x12835b01, 0x243185be, 0x550c7dc3, /* here */\n')], 'same')
    expect('string literal containing // before the table', codec,
           [(STR, '    unsigned char c;\n    const unsigned char base64de[] = {', '    unsigned char c; const char* u = "http://x/*"; (void)u;\n    const unsigned char base64de[] = {')], 'same')
    expect('string literal containing a closing brace before the table', codec,
           [(STR, '    unsigned char c;\n    const unsigned char base64de[] = {', '    unsigned char c; const char* u = "}"; (void)u;\n    const unsigned char base64de[] = {')], 'same')
    expect("entries as character literals '\\a' (7) and '+'", codec,
           [(STR, '           255, 255, 255, 255, 255, 255, 255, 255,\n    \n        /*  bs,', "           255, 255, 255, 255, 255, 255, 255, '\\a',\n    \n        /*  bs,")],
           {'base64de': c['base64de'][:7] + [7] + c['base64de'][8:]})
    expect("entry with an unknown escape '\\e'", codec,
           [(STR, '           255, 255, 255, 255, 255, 255, 255, 255,\n    \n        /*  bs,', "           255, 255, 255, 255, 255, 255, 255, '\\e',\n    \n        /*  bs,")], 'tie')
    expect('unterminated comment at the end of the file', codec, [(UNI, '  static bool isValid(const String& str)', '  /* open\n  static bool isValid(const String& str)')], 'tie')
    # ---- C06 tables ---------------------------------------------------------------------------------------
    expect('second lowerCaseMap definition under #if 0', strr,
           [(STR, 'char String::upperCaseMap[0x101]', '#if 0\nchar String::lowerCaseMap[0x101] = "\\x00";\n#endif\nchar String::upperCaseMap[0x101]')], 'tie')
    expect('upperCaseMap inside an #ifdef region', strr,
           [(STR, 'char String::upperCaseMap[0x101]', '#ifdef X\nchar String::upperCaseMap[0x101]'), (STR, '\n\nint String::printf(const char* format, ...)', '\n#endif\n\nint String::printf(const char* format, ...)')], 'tie')
    print('%d failed' % len(FAILED) if FAILED else 'all expectations met')
    return 1 if FAILED else 0


if __name__ == '__main__':
    sys.exit(main())
