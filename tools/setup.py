#!/usr/bin/env python3
import os, sys, glob, importlib, time
HERE = os.path.dirname(os.path.dirname(os.path.abspath(__file__)))
sys.path.insert(0, os.path.join(HERE, 'lib')); sys.path.insert(0, os.path.join(HERE, 'checks'))
import vf

t0 = time.time()
rc = 0
seen = {}
import json
mods = sorted(c['property_id'] for c in json.load(open(os.path.join(HERE, 'MANIFEST.json')))['checks'])
for m in mods:
    try:
        chk = importlib.import_module(m).CHECK()
    except Exception as e:
        print('setup: cannot import checks/%s.py: %s' % (m, e)); rc = 1; continue
    os.makedirs(os.path.join(vf.BUILD, chk.id), exist_ok=True)
    try:
        chk.gen_tables()
    except Exception as e:
        print('setup: %s tables: %s' % (m, e))
    ok, log = vf.coq_build_closure(chk.comp, seen)
    for comp, _ in chk.more_pfiles():
        o2, l2 = vf.coq_build_closure(comp, seen)
        ok = ok and o2; log += l2
    if not ok:
        print('setup: coq build of %s (for %s) failed:\n%s' % (chk.comp, m, log[-1500:])); rc = 1
    b = chk.build()
    for e in b['errors']:
        print('setup: %s: %s' % (m, e[:1500])); rc = 1
    print('setup: %s coq=%s model=%s impl=%s  (%.0fs)' % (m, ok, b['model_ok'], b['impl_ok'], time.time() - t0), flush=True)
sys.exit(rc)
