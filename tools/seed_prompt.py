"""Prompt given to an independent sub-agent (it sees only this text and its own scratch worktree of /repo).  usage: seed_prompt.py <property id>"""
import sys
pid=sys.argv[1]
import json
o=[json.loads(l) for l in open('/verif/properties.jsonl') if json.loads(l)['id']==pid][0]
q=o.get('quantifier'); q=q.get('text') if isinstance(q,dict) else q
a=o.get('anchors'); a=a.get('files') if isinstance(a,dict) else a
prop='Property %s: %s\n\nStatement: %s\n\nQuantifier: %s\n\nAnchored files: %s\n' % (pid, o.get('title'), o.get('statement'), q, ', '.join(a or []))
print(f"""You are testing a verification effort by playing the adversary. You have your own scratch git worktree of the C++ library craflin/libnstd at /tmp/seed2-{pid} (work ONLY there; do not read or touch /verif or /repo — the point is that your work is independent of the checks that exist).

The library is supposed to satisfy this semantic property:

{prop}
Produce THREE different, independent changes to the library source (src/ or include/ — not the tests) that each BREAK this property while the library still compiles and the existing test-suite still passes unedited. Each change should look like a plausible maintenance edit or regression (a refactoring slip, an 'optimisation', an off-by-one at a boundary, a reordered statement, a wrong constant in one table entry, a dropped check), not sabotage of the common path: ordinary use must NOT expose it at once. It should need something specific to manifest — an unusual input or length, a multi-step sequence of operations, a particular interleaving, a fault at a particular point, or two cooperating sites that each look fine alone. Make the three changes different in kind and location.

For each change k = 1,2,3 create /tmp/seed2-{pid}/out/k/ containing:
 - patch.diff : `git diff` of the change against HEAD (only that change; applies with `git apply` to a clean HEAD),
 - demo.cpp (or demo.sh + sources): a small stand-alone program that exits 0 on the unchanged library and non-zero (or crashes / hangs > 10 s) with the change applied, demonstrating the property violation; say how to build it in a comment at the top (e.g. g++ -std=gnu++11 -I include demo.cpp src/*.cpp src/*/*.cpp -lpthread -lrt -ldl),
 - meta.json : {{"property":"{pid}","title":…,"what_it_breaks":…,"needs_to_manifest":…,"files":[…]}}.
You must CONFIRM for each change: (a) the library builds and the full existing suite passes with the change: `cmake -G Ninja -S /tmp/seed2-{pid} -B /tmp/seed2-{pid}/_b -DCMAKE_BUILD_TYPE=RelWithDebInfo -DCMAKE_CXX_FLAGS=-Wno-error && cmake --build /tmp/seed2-{pid}/_b -j8 && ctest --test-dir /tmp/seed2-{pid}/_b -j8 --timeout 900` (34 tests; ~15 s); (b) the demo passes on clean HEAD and fails with the change. Between changes restore the tree with `git checkout -- .` (never use `git stash`: the stash is shared between worktrees) (keep out/ — it is untracked). Note translation units that include nstd headers must not include C++ std headers that pull in <new> (vector/string/map): nstd/Base.hpp defines placement operator new itself; use C headers (stdio.h, string.h) in demos. When finished leave the worktree clean at HEAD except for out/, delete _b, and reply with a 10-line summary of the three changes. No network is available.""")
