#!/bin/sh
# usage: tools/run_seeded.sh <property id> <patch file> [tier]
# Applies the patch to a scratch copy of /repo HEAD (outside /repo and /verif), runs the check for
# the property from a snapshot copy of /verif against it, prints the outcome, removes everything.
id=$1; patch=$2; tier=${3:-quick}
w=$(mktemp -d /tmp/seedrun.XXXXXX) || exit 2
mkdir "$w/repo" "$w/verif"
git -C /repo archive HEAD | tar -x -C "$w/repo"
( cd "$w/repo" && git init -q . && git apply "$patch" ) || { echo "PATCH DOES NOT APPLY: $patch"; rm -rf "$w"; exit 3; }
rsync -a --exclude .git --exclude build/libnstd --exclude 'replays/*' /verif/ "$w/verif/"
( cd "$w/verif" && VERIF_REPO="$w/repo" timeout 3000 ./check "$id" --tier "$tier" > "$w/out.txt" 2> "$w/err.txt" ); rc=$?
echo "== $id $(basename $(dirname $patch))/$(basename $patch): exit $rc"
grep -h 'VIOLATION\|KNOWN-FINDING' "$w/out.txt" | head -5
for r in $(grep -o 'replay=[^ ]*' "$w/out.txt" | head -2 | cut -d= -f2); do python3 - "$w/verif/$r" <<'P'
import json,sys
r=json.load(open(sys.argv[1])); print('   replay:',r['kind'],'|',' ; '.join(r.get('ops',[]))[:160],'|',str(r.get('detail',{}).get('reason',r.get('broken')))[:200])
P
done
tail -2 "$w/err.txt" | cut -c1-300
rm -rf "$w"
exit $rc
