#!/usr/bin/env python3
"""Append 'fixed' entries to known_findings.json for fixes/*/*.patch whose .msg subject is a commit in /repo."""
import subprocess, json, glob, os
os.chdir(os.path.dirname(os.path.dirname(os.path.abspath(__file__))))
log = subprocess.run(['git', '-C', '/repo', 'log', '--format=%h\t%s'], capture_output=True, text=True).stdout.strip().split('\n')
bysubj = {l.split('\t', 1)[1]: l.split('\t', 1)[0] for l in log if '\t' in l}
kf = json.load(open('known_findings.json'))
have = {k.get('patch') for k in kf}
for p in sorted(glob.glob('fixes/*/*.patch')):
    if p in have or not os.path.exists(p[:-6] + '.msg'):
        continue
    subj = open(p[:-6] + '.msg').read().split('\n')[0]
    if subj in bysubj:
        pid = p.split('/')[1]
        what = subj[len('fix: '):]
        kf.append({'property': pid, 'status': 'fixed', 'commit': bysubj[subj], 'title': what, 'patch': p,
                   'line': 'fixed: property=%s %s %s' % (pid, bysubj[subj], what)})
        print('recorded', p, bysubj[subj])
    else:
        print('NOT in /repo:', p)
json.dump(kf, open('known_findings.json', 'w'), indent=1)
