#!/usr/bin/env python3
"""tools/coverage.py [-j N] [--timeout S] [--keep] [--no-summary] <id> [<id> ...]

Which code of the anchored files (properties.jsonl: anchors.files) does `./check <id> --tier quick` EXECUTE?

Per id:
  1. snapshot of /verif (rsync; without .git, build/libnstd and the build dirs of other ids) and of /repo HEAD
     (git archive) in a scratch directory - nobody is disturbed;
  2. `VERIF_COVERAGE=1 VERIF_REPO=<copy> ./check <id> --tier quick` there.  lib/vf.py adds `--coverage -O0` to the
     library and harness builds when VERIF_COVERAGE=1 and links the objects named by VERIF_COVERAGE_LINK: a tiny
     extra translation unit (FLUSH_TU below) that calls __gcov_dump() when the harness dies under a sanitizer
     (death callback), in the watchdog (SIGALRM), in abort(), SIGTERM and _exit(), turns vfork into fork and dumps
     before execvpe - so the counters of crashed/killed harness runs are kept where that is possible at all
     (not for SIGKILL; the flush log says how many processes were lost);
  3. gcov --json-format on every .gcno of the harness and of the library, aggregated per anchored source file over
     ALL translation units: execution count per line, entered or not per function (every template instantiation);
  4. clang++ -Xclang -ast-dump=json lists every function DEFINITION of the anchored file with its line range:
     definitions for which no translation unit contains code (member functions of class templates never
     instantiated, inline functions never used) are reported as "never instantiated";
  5. reports/coverage/<id>.md (+ <id>.json with the raw per-function / per-line data); SUMMARY.md over all
     <id>.json files present.
"""
import sys, os, json, re, subprocess, tempfile, shutil, time, signal, glob
from concurrent.futures import ThreadPoolExecutor

VERIF = os.path.dirname(os.path.dirname(os.path.abspath(__file__)))
REPO = '/repo'
OUT = os.path.join(VERIF, 'reports', 'coverage')
SCRATCH_BASE = os.environ.get('VERIF_COV_TMP', '/tmp')

FLUSH_TU = r'''
/* linked into the harness in coverage mode only (tools/coverage.py): keep the gcov counters of a dying process */
#define _GNU_SOURCE
#include <signal.h>
#include <unistd.h>
#include <dlfcn.h>
#include <link.h>
#include <stdlib.h>
#include <string.h>
#include <stdio.h>
#include <fcntl.h>
#include <errno.h>
#include <sys/types.h>
#include <sys/syscall.h>

extern void __gcov_dump(void);
extern void __gcov_reset(void);
extern void __sanitizer_set_death_callback(void (*)(void)) __attribute__((weak));

static int (*real_sigaction)(int, const struct sigaction*, struct sigaction*);
static void (*real_exit)(int);
static int (*real_execvpe)(const char*, char* const*, char* const*);
static char logpath[512];
static volatile int dumping;

static void covlog(const char* what, int n)
{
  if(!logpath[0]) return;
  int e = errno;
  int fd = open(logpath, O_WRONLY | O_APPEND | O_CREAT, 0644);
  if(fd >= 0) {
    char b[96];
    int len = snprintf(b, sizeof(b), "%s %d %d\n", what, (int)getpid(), n);
    if(len > 0) { ssize_t w = write(fd, b, (size_t)len); (void)w; }
    close(fd);
  }
  errno = e;
}

static void dump(const char* why, int n)
{
  if(__sync_lock_test_and_set(&dumping, 1)) return;
  covlog(why, n);
  __gcov_dump();
  covlog("D", n);
}

static void unblock(int sig)
{
  sigset_t s; sigemptyset(&s); sigaddset(&s, sig);
  pthread_sigmask(SIG_UNBLOCK, &s, 0);
}

static void on_signal(int sig)
{
  struct sigaction dfl; memset(&dfl, 0, sizeof(dfl)); dfl.sa_handler = SIG_DFL;
  /* the dump is not async-signal-safe: should it block, the real SIGALRM ends the process 5 s later */
  real_sigaction(SIGALRM, &dfl, 0); unblock(SIGALRM); alarm(5);
  dump("S", sig);
  real_sigaction(sig, &dfl, 0); unblock(sig);
  raise(sig);
}

static void on_death(void)
{
  struct sigaction dfl; memset(&dfl, 0, sizeof(dfl)); dfl.sa_handler = SIG_DFL;
  real_sigaction(SIGALRM, &dfl, 0); unblock(SIGALRM); alarm(5);
  dump("A", 0);
}

/* libasan and libubsan (and libtsan) each carry their own copy of sanitizer_common with its own Die(): tell all of them */
static int each_runtime(struct dl_phdr_info* info, size_t size, void* data)
{
  (void)size; (void)data;
  if(info->dlpi_name && strstr(info->dlpi_name, "san.so")) {
    void* h = dlopen(info->dlpi_name, RTLD_NOLOAD | RTLD_LAZY);
    if(h) {
      void (*set)(void (*)(void)) = (void (*)(void (*)(void)))dlsym(h, "__sanitizer_set_death_callback");
      if(set) set(on_death);
    }
  }
  return 0;
}

static void on_exit_log(void) { covlog("X", 0); }

static int wanted(int sig) { return sig == SIGALRM || sig == SIGABRT || sig == SIGTERM; }

static void resolve(void)
{
  if(!real_sigaction) real_sigaction = (int (*)(int, const struct sigaction*, struct sigaction*))dlsym(RTLD_NEXT, "sigaction");
  if(!real_exit) real_exit = (void (*)(int))dlsym(RTLD_NEXT, "_exit");
  if(!real_execvpe) real_execvpe = (int (*)(const char*, char* const*, char* const*))dlsym(RTLD_NEXT, "execvpe");
}

/* "back to the default action" (the harness watchdogs do signal(SIGALRM, SIG_DFL); raise(SIGALRM)) = dump, then default */
int sigaction(int sig, const struct sigaction* act, struct sigaction* old)
{
  resolve();
  struct sigaction mine;
  if(act && wanted(sig) && !(act->sa_flags & SA_SIGINFO) && act->sa_handler == SIG_DFL) {
    mine = *act; mine.sa_handler = on_signal; act = &mine;
  }
  int r = real_sigaction(sig, act, old);
  if(r == 0 && old && !(old->sa_flags & SA_SIGINFO) && old->sa_handler == on_signal) old->sa_handler = SIG_DFL;
  return r;
}

typedef void (*handler_t)(int);
handler_t signal(int sig, handler_t h)
{
  struct sigaction a, o; memset(&a, 0, sizeof(a));
  a.sa_handler = h; a.sa_flags = SA_RESTART; sigemptyset(&a.sa_mask);
  if(sigaction(sig, &a, &o) != 0) return SIG_ERR;
  return o.sa_handler;
}

void _exit(int rc)
{
  resolve();
  dump("E", rc);
  if(real_exit) real_exit(rc);
  syscall(SYS_exit_group, rc);
  for(;;) {}
}

/* vfork shares the counters (and libgcov's "already dumped" flag) with the parent: use fork, fresh counters in the child */
pid_t vfork(void)
{
  pid_t p = fork();
  if(p == 0) { __gcov_reset(); dumping = 0; }
  return p;
}

/* gcc wraps execv/execvp/execve... of instrumented code, not execvpe */
int execvpe(const char* file, char* const argv[], char* const envp[])
{
  resolve();
  __gcov_dump();
  int r = real_execvpe(file, argv, envp);
  int e = errno;
  __gcov_reset();
  errno = e;
  return r;
}

__attribute__((constructor)) static void cov_init(void)
{
  const char* p = getenv("VERIF_COVERAGE_LOG");
  if(p && strlen(p) < sizeof(logpath)) strcpy(logpath, p);
  resolve();
  covlog("B", 0);
  atexit(on_exit_log);
  if(__sanitizer_set_death_callback) __sanitizer_set_death_callback(on_death);
  dl_iterate_phdr(each_runtime, 0);
  static const int sigs[] = { SIGALRM, SIGABRT, SIGTERM };
  for(unsigned i = 0; i < sizeof(sigs) / sizeof(sigs[0]); ++i) {
    struct sigaction cur;
    if(real_sigaction(sigs[i], 0, &cur) == 0 && !(cur.sa_flags & SA_SIGINFO) && cur.sa_handler == SIG_DFL) {
      struct sigaction a; memset(&a, 0, sizeof(a)); a.sa_handler = on_signal; sigemptyset(&a.sa_mask);
      real_sigaction(sigs[i], &a, 0);
    }
  }
}
'''


def log(*a):
    print(*a, file=sys.stderr, flush=True)


def run(cmd, cwd=None, env=None, timeout=None, stdout=None, stderr=None):
    """own session, whole group killed at the end (harnesses leave children behind); rc 124 on timeout"""
    p = subprocess.Popen(cmd, cwd=cwd, env=env, stdin=subprocess.DEVNULL, stdout=stdout, stderr=stderr, start_new_session=True)
    try:
        rc = p.wait(timeout=timeout)
    except subprocess.TimeoutExpired:
        rc = 124
        try:
            os.killpg(p.pid, signal.SIGTERM)      # SIGTERM first: the flush hook dumps the counters
        except (ProcessLookupError, PermissionError):
            pass
        time.sleep(3)
    finally:
        try:
            os.killpg(p.pid, signal.SIGKILL)
        except (ProcessLookupError, PermissionError):
            pass
        try:
            p.wait(timeout=10)
        except Exception:
            pass
    return rc


def properties():
    props = {}
    for line in open(os.path.join(VERIF, 'properties.jsonl')):
        line = line.strip()
        if line:
            p = json.loads(line)
            props[p['id']] = p
    return props


# ------------------------------------------------------------------------------------------------------
# step 1+2: snapshot, instrumented run
# ------------------------------------------------------------------------------------------------------

def snapshot(cid, scratch):
    sv = os.path.join(scratch, 'verif')
    sr = os.path.join(scratch, 'repo')
    os.makedirs(sv)
    os.makedirs(sr)
    ex = ['--exclude=/.git', '--exclude=/build/libnstd', '--exclude=/reports/coverage', '--exclude=__pycache__']
    for d in sorted(glob.glob(os.path.join(VERIF, 'build', '*'))):
        b = os.path.basename(d)
        if b not in (cid, 'libnstd'):
            ex.append('--exclude=/build/' + b)
    rc = subprocess.call(['rsync', '-a'] + ex + [VERIF + '/', sv + '/'])
    if rc not in (0, 24):       # 24: files vanished while copying (other agents are at work)
        raise RuntimeError('rsync failed rc=%d' % rc)
    p1 = subprocess.Popen(['git', '-C', REPO, 'archive', 'HEAD'], stdout=subprocess.PIPE)
    p2 = subprocess.Popen(['tar', '-x', '-C', sr], stdin=p1.stdout)
    p1.stdout.close()
    if p2.wait() != 0 or p1.wait() != 0:
        raise RuntimeError('git archive | tar failed')
    # leftovers of uninstrumented runs are of no use
    for f in glob.glob(os.path.join(sv, 'build', cid, '*.gc??')):
        os.unlink(f)
    return sv, sr


def instrumented_run(cid, scratch, sv, sr, timeout):
    tu = os.path.join(scratch, 'cov_flush.c')
    obj = os.path.join(scratch, 'cov_flush.o')
    open(tu, 'w').write(FLUSH_TU)
    subprocess.check_call(['gcc', '-O1', '-w', '-c', tu, '-o', obj])
    env = dict(os.environ)
    env.update({'VERIF_COVERAGE': '1', 'VERIF_COVERAGE_LINK': obj, 'VERIF_REPO': sr,
                'VERIF_COVERAGE_LOG': os.path.join(scratch, 'flush.log')})
    env.pop('GCOV_PREFIX', None)
    env.pop('GCOV_PREFIX_STRIP', None)      # .gcda next to the objects of the snapshot (absolute paths)
    t0 = time.time()
    with open(os.path.join(scratch, 'check.out'), 'wb') as fo, open(os.path.join(scratch, 'check.err'), 'wb') as fe:
        rc = run([os.path.join(sv, 'check'), cid, '--tier', 'quick'], cwd=sv, env=env, timeout=timeout, stdout=fo, stderr=fe)
    wall = time.time() - t0
    st = {'rc': rc, 'wall_s': round(wall, 1), 'started': 0, 'flushed_at_exit': 0, 'flushed_dying': {}, 'lost': 0}
    seen = {}
    try:
        for line in open(os.path.join(scratch, 'flush.log')):
            w = line.split()
            if len(w) == 3:
                seen.setdefault(w[1], []).append((w[0], w[2]))
    except OSError:
        pass
    names = {'S': 'signal', 'A': 'sanitizer report', 'E': '_exit'}
    for pid, evs in seen.items():
        kinds = [k for k, _ in evs]
        if 'B' in kinds:
            st['started'] += 1
        if 'X' in kinds and 'D' not in kinds:
            st['flushed_at_exit'] += 1
        elif 'D' in kinds:
            why = [k for k in kinds if k in names]
            key = names.get(why[0], '?') if why else '?'
            if why and why[0] == 'S':
                key += ' %s' % [n for k, n in evs if k == 'S'][0]
            st['flushed_dying'][key] = st['flushed_dying'].get(key, 0) + 1
        elif 'B' in kinds:
            st['lost'] += 1
    out = open(os.path.join(scratch, 'check.out'), errors='replace').read()
    err = open(os.path.join(scratch, 'check.err'), errors='replace').read()
    st['stdout_tail'] = out.strip().split('\n')[-6:]
    st['stderr_tail'] = [l[:300] for l in err.strip().split('\n')[-8:]]
    return st


# ------------------------------------------------------------------------------------------------------
# step 3: gcov
# ------------------------------------------------------------------------------------------------------

def gcov_json(gcno):
    d = os.path.dirname(gcno)
    p = subprocess.run(['gcov', '--json-format', '--stdout', '-b', '-c', os.path.basename(gcno)], cwd=d,
                       stdout=subprocess.PIPE, stderr=subprocess.PIPE)
    docs = []
    for line in p.stdout.decode('utf-8', 'replace').split('\n'):
        line = line.strip()
        if line.startswith('{'):
            try:
                docs.append(json.loads(line))
            except ValueError:
                pass
    return gcno, docs, os.path.exists(gcno[:-5] + '.gcda')


class FileCov:
    def __init__(self, rel):
        self.rel = rel
        self.lines = {}         # line -> total count
        self.partial = {}       # line -> number of (TU, instantiation) records with a never-taken branch / unexecuted block
        self.taken = {}         # line -> {branch index -> count}  (summed over records with the same arity)
        self.funcs = {}         # (start_line, start_col, demangled) -> dict(count, end_line, tus)


def aggregate(sv, sr, cid, anchored):
    gcnos = glob.glob(os.path.join(sv, 'build', cid, '*.gcno')) + glob.glob(os.path.join(sv, 'build', 'libnstd', '*', '*.gcno'))
    cov = {rel: FileCov(rel) for rel in anchored}
    ntu = nda = 0
    with ThreadPoolExecutor(max_workers=6) as ex:
        for gcno, docs, has_da in ex.map(gcov_json, gcnos):
            ntu += 1
            nda += 1 if has_da else 0
            tu = os.path.relpath(gcno, os.path.join(sv, 'build'))
            for doc in docs:
                cwd = doc.get('current_working_directory', '')
                for f in doc.get('files', []):
                    path = f['file']
                    if not os.path.isabs(path):
                        path = os.path.join(cwd, path)
                    path = os.path.realpath(path)
                    base = os.path.realpath(sr) + os.sep
                    if not path.startswith(base):
                        continue
                    rel = path[len(base):]
                    fc = cov.get(rel)
                    if fc is None:
                        continue
                    for fn in f.get('functions', []):
                        key = (fn['start_line'], fn.get('start_column', 0), fn.get('demangled_name') or fn['name'])
                        e = fc.funcs.setdefault(key, {'count': 0, 'end_line': fn['end_line'], 'tus': 0})
                        e['count'] += fn.get('execution_count', 0)
                        e['tus'] += 1
                        e['end_line'] = max(e['end_line'], fn['end_line'])
                    for ln in f.get('lines', []):
                        n = ln['line_number']
                        fc.lines[n] = fc.lines.get(n, 0) + ln.get('count', 0)
                        br = [b for b in ln.get('branches', []) if not b.get('throw')]
                        if br:
                            t = fc.taken.setdefault(n, {}).setdefault(len(br), [0] * len(br))
                            for i, b in enumerate(br):
                                t[i] += b.get('count', 0)
    return cov, ntu, nda


# ------------------------------------------------------------------------------------------------------
# step 4: every function definition of a file (clang AST)
# ------------------------------------------------------------------------------------------------------

FN_KINDS = {'FunctionDecl', 'CXXMethodDecl', 'CXXConstructorDecl', 'CXXDestructorDecl', 'CXXConversionDecl'}
REC_KINDS = {'CXXRecordDecl', 'ClassTemplateSpecializationDecl', 'ClassTemplatePartialSpecializationDecl'}
ACC_RANK = {'public': 0, 'protected': 1, 'private': 2}


def clang_defs(sr, rel, scratch):
    """[{name, line, col, begin, end, access}] for every function definition whose name is located in sr/rel."""
    target = os.path.realpath(os.path.join(sr, rel))
    if rel.endswith('.hpp') or rel.endswith('.h'):
        src = os.path.join(scratch, 'ast_%s.cpp' % re.sub(r'[^A-Za-z0-9]', '_', rel))
        open(src, 'w').write('#include "%s"\n' % target)
    else:
        src = target
    p = subprocess.run(['clang++', '-std=gnu++11', '-fsyntax-only', '-w', '-DNDEBUG', '-DLIBNSTD_VERIF',
                        '-I' + os.path.join(sr, 'include'), '-I' + os.path.join(sr, 'src'),
                        '-Xclang', '-ast-dump=json', src], stdout=subprocess.PIPE, stderr=subprocess.PIPE)
    if not p.stdout:
        raise RuntimeError('clang: ' + p.stderr.decode('utf-8', 'replace')[-400:])
    ast = json.loads(p.stdout)
    cur = {'file': None, 'line': None}
    idname, idacc = {}, {}
    out = []

    def upd(l):
        # clang prints "file"/"line" only when they differ from the previously printed location
        if not isinstance(l, dict):
            return None
        if 'spellingLoc' in l or 'expansionLoc' in l:
            if 'spellingLoc' in l:
                upd(l['spellingLoc'])
            return upd(l['expansionLoc']) if 'expansionLoc' in l else None
        if 'file' in l:
            cur['file'] = l['file']
        if 'line' in l:
            cur['line'] = l['line']
        if 'offset' not in l:
            return None
        return (cur['file'], cur['line'], l.get('col', 0))

    def walk(n, ctx, acc_outer, acc_here, suppress=False):
        loc = b = e = None
        if 'loc' in n:
            loc = upd(n['loc'])
        if 'range' in n:
            b = upd(n['range'].get('begin'))
            e = upd(n['range'].get('end'))
        k = n.get('kind')
        name = n.get('name', '')
        if k in FN_KINDS:
            acc = max(acc_outer, acc_here, key=lambda a: ACC_RANK[a])
            if 'id' in n:
                idacc[n['id']] = acc
            prev = n.get('previousDecl')
            if prev in idacc:
                acc = idacc[prev]
                idacc[n.get('id')] = acc
            inner = n.get('inner') or []
            if (not suppress) and (not n.get('isImplicit')) and loc and b and e and loc[0] and os.path.realpath(loc[0]) == target and \
                    any(isinstance(c, dict) and c.get('kind') in ('CompoundStmt', 'CXXTryStmt') for c in inner):
                q = ctx
                pid = n.get('parentDeclContextId')
                if pid in idname:
                    q = idname[pid]
                sig = n.get('type', {}).get('qualType', '')
                # parameter list = last top-level parenthesis group of the function type
                params = '()'
                depth = 0
                for i in range(len(sig) - 1, -1, -1):
                    if sig[i] == ')':
                        depth += 1
                    elif sig[i] == '(':
                        depth -= 1
                        if depth == 0:
                            params = sig[i:]
                            break
                out.append({'name': '::'.join([x for x in q if x] + [name]) + params, 'line': loc[1], 'col': loc[2],
                            'begin': b[1] if b[0] == loc[0] else loc[1], 'end': e[1] if e[0] == loc[0] else loc[1], 'access': acc})
            # do not descend into bodies (local classes are rare; lambdas are not C++03 style) - but positions must be tracked
            for c in inner:
                if isinstance(c, dict):
                    walk(c, ctx, acc_outer, acc_here, suppress)
            return
        sub, a_out, a_here = ctx, acc_outer, acc_here
        if k == 'NamespaceDecl':
            sub = ctx + [name] if name else ctx
            if 'id' in n:
                idname[n['id']] = sub
        elif k in REC_KINDS:
            # a nested class defined outside its parent (class Server::Private {...} in the .cpp): parent and access from the declaration
            sub = (idname[n['parentDeclContextId']] if n.get('parentDeclContextId') in idname else ctx) + [name or '(anonymous)']
            a_out = max(acc_outer, acc_here, key=lambda a: ACC_RANK[a])
            if n.get('previousDecl') in idacc:
                a_out = idacc[n['previousDecl']]
            if 'id' in n:
                idname[n['id']] = sub
                idacc[n['id']] = a_out
            a_here = 'private' if n.get('tagUsed') == 'class' else 'public'
        seen_pattern = False
        for c in n.get('inner') or []:
            if not isinstance(c, dict):
                continue
            if c.get('kind') == 'AccessSpecDecl':
                if 'loc' in c:
                    upd(c['loc'])
                if 'range' in c:
                    upd(c['range'].get('begin'))
                    upd(c['range'].get('end'))
                a_here = c.get('access', a_here)
                continue
            # implicit instantiations are listed under the template: same source text again (member functions defined outside
            # the class appear there with the location of their in-class declaration) - walked for the positions only
            sup = suppress
            if k == 'ClassTemplateDecl' and c.get('kind') in REC_KINDS and c.get('kind') != 'CXXRecordDecl':
                sup = True
            if k == 'FunctionTemplateDecl' and c.get('kind') in FN_KINDS:
                if seen_pattern:
                    sup = True
                seen_pattern = True
            walk(c, sub, a_out, a_here, sup)

    sys.setrecursionlimit(200000)
    walk(ast, [], 'public', 'public')
    seen, res = set(), []
    for f in out:
        key = (f['line'], f['col'])
        if key not in seen:
            seen.add(key)
            res.append(f)
    res.sort(key=lambda f: (f['line'], f['col']))
    return res


# ------------------------------------------------------------------------------------------------------
# step 5: per file analysis + report
# ------------------------------------------------------------------------------------------------------

CODE_RX = re.compile(r'[A-Za-z0-9_]')


def looks_executable(text):
    t = text.strip()
    if not t or t.startswith('//') or t.startswith('#') or t.startswith('*') or t.startswith('/*'):
        return False
    if t in ('{', '}', '};', 'else', 'do', 'try', 'public:', 'private:', 'protected:', 'default:', 'break;'):
        return False
    return bool(CODE_RX.search(t))


def group_ranges(nums, executable, maxgap_ok):
    """contiguous runs of uncovered lines; runs are merged over lines that carry no code at all"""
    out = []
    for n in sorted(nums):
        if out and all((m not in executable) for m in range(out[-1][1] + 1, n)) and maxgap_ok(out[-1][1], n):
            out[-1][1] = n
        else:
            out.append([n, n])
    return out


def analyse_file(fc, defs, src_lines):
    """returns a dict with everything the report needs for one anchored file"""
    executable = set(fc.lines)
    executed = {n for n, c in fc.lines.items() if c > 0}
    # gcov function records -> clang definitions
    by_line = {}
    for d in defs:
        d['inst'] = []          # [(demangled, count)]
        by_line.setdefault(d['line'], []).append(d)
    implicit = []
    for (sl, sc, dem), e in sorted(fc.funcs.items()):
        cands = by_line.get(sl, [])
        d = None
        if len(cands) == 1:
            d = cands[0]
        elif cands:
            d = min(cands, key=lambda x: abs(x['col'] - sc))
        else:
            inside = [x for x in defs if x['begin'] <= sl <= x['end']]
            if inside:
                d = min(inside, key=lambda x: x['end'] - x['begin'])
        if d is not None:
            d['inst'].append((dem, e['count']))
        else:
            implicit.append({'name': dem, 'line': sl, 'end': e['end_line'], 'count': e['count']})
    never_entered, never_inst, entered = [], [], []
    for d in defs:
        body_lines = [n for n in range(d['begin'], d['end'] + 1) if n in executable]
        if d['inst']:
            d['calls'] = sum(c for _, c in d['inst'])
        elif body_lines and len([x for x in defs if x['begin'] <= d['line'] <= x['end']]) == 1 and \
                not any(x is not d and d['begin'] <= x['line'] <= d['end'] for x in defs):
            # code exists for the lines of this definition but gcov names the function differently
            d['inst'] = [('?', max(fc.lines[n] for n in body_lines))]
            d['calls'] = d['inst'][0][1]
        else:
            d['calls'] = None
        if d['calls'] is None:
            never_inst.append(d)
        elif d['calls'] == 0 and not any(n in executed for n in body_lines):
            never_entered.append(d)
        else:
            entered.append(d)
    # uncovered ranges inside entered functions
    gaps = []
    owner = {}
    for d in sorted(defs, key=lambda x: x['end'] - x['begin'], reverse=True):
        for n in range(d['begin'], d['end'] + 1):
            owner[n] = d            # innermost definition wins
    for d in entered:
        mine = [n for n in range(d['begin'], d['end'] + 1) if owner.get(n) is d]
        unc = [n for n in mine if n in executable and n not in executed]
        if unc:
            ex_mine = [n for n in mine if n in executable]
            gaps.append({'fn': d, 'uncovered': len(unc), 'executable': len(ex_mine),
                         'ranges': group_ranges(unc, executable, lambda a, b: all(owner.get(m) is d for m in range(a, b + 1)))})
    # executed lines with a branch outcome that never happened (one-line `if(x) return;` and the like)
    partial = []
    for n in sorted(fc.taken):
        if n not in executed:
            continue
        text = src_lines[n - 1] if n - 1 < len(src_lines) else ''
        if not re.search(r'\b(if|while|for|switch|case)\b|\?|&&|\|\|', text):
            continue            # UBSan's division/shift checks are branches of their own: not the program's
        dead = False
        for arity, counts in fc.taken[n].items():
            if any(c == 0 for c in counts):
                dead = True
        d = owner.get(n)
        if dead and d is not None and d in entered:
            partial.append((n, d))
    # executable lines of never-instantiated bodies (estimate) for the adjusted percentage
    est = 0
    for d in never_inst:
        est += sum(1 for n in range(d['begin'], d['end'] + 1) if owner.get(n) is d and n - 1 < len(src_lines) and looks_executable(src_lines[n - 1]))
    return {'executable': len(executable), 'executed': len(executed), 'est_never_inst_lines': est,
            'defs': defs, 'entered': entered, 'never_entered': never_entered, 'never_inst': never_inst,
            'implicit': implicit, 'gaps': gaps, 'partial': partial}


def pct(a, b):
    return '%.1f%%' % (100.0 * a / b) if b else 'n/a'


def clip(s, n=110):
    s = ' '.join(s.strip().split())
    return s if len(s) <= n else s[:n - 1] + '…'


def range_text(a, b, src):
    lines = [(n, src[n - 1]) for n in range(a, b + 1) if n - 1 < len(src) and looks_executable(src[n - 1])]
    if not lines:
        lines = [(a, src[a - 1] if a - 1 < len(src) else '')]
    shown = lines[:3]
    t = ' ⏎ '.join(clip(x, 90) for _, x in shown)
    if len(lines) > len(shown):
        t += ' ⏎ … (+%d lines)' % (len(lines) - len(shown))
    return t


def write_report(cid, prop, st, results, ntu, nda, sr):
    os.makedirs(OUT, exist_ok=True)
    L = []
    L.append('# %s — code executed by `./check %s --tier quick`' % (cid, cid))
    L.append('')
    L.append('%s. Instrumented build: the flags of lib/vf.py + `--coverage -O0` (ASan/UBSan kept), repository HEAD %s.'
             % (time.strftime('%Y-%m-%d %H:%M'), st.get('repo_head', '?')))
    fl = ', '.join('%d by %s' % (v, k) for k, v in sorted(st['flushed_dying'].items())) or 'none'
    L.append('Check: exit code %s%s, %.0f s. Harness processes: %d started, %d flushed at normal exit, flushed while dying (incl. forked children): %s; '
             '**%d lost** (killed without a chance to write their counters). %d translation units with line tables, %d of them executed (.gcda).'
             % (st['rc'], ' (TIMEOUT: coverage of the completed part only)' if st['rc'] == 124 else '', st['wall_s'], st['started'],
                st['flushed_at_exit'], fl, st['lost'], ntu, nda))
    if st['rc'] not in (0,):
        L.append('')
        L.append('Check output (tail): ' + ' / '.join('`%s`' % clip(x, 160) for x in (st['stdout_tail'] + st['stderr_tail'])[-5:] if x.strip()))
    L.append('')
    L.append('Legend: *never entered* = code was generated in some translation unit, 0 calls over the whole run; '
             '*never instantiated* = a definition in the source for which no translation unit (harness or library) contains any code '
             '(member of a class template nobody instantiates, unused inline function). Line percentages are over the lines gcov '
             'knows (generated code); the figure in brackets also counts the bodies of never-instantiated definitions as not executed. '
             '[pub]/[prot]/[priv] = access of the member.')
    L.append('')
    L.append('| file | lines executed | functions defined | entered | never entered | never instantiated |')
    L.append('|---|---|---|---|---|---|')
    for rel, r in results:
        if 'error' in r:
            L.append('| %s | error: %s | | | | |' % (rel, clip(r['error'], 80)))
            continue
        adj = pct(r['executed'], r['executable'] + r['est_never_inst_lines'])
        L.append('| %s | %s (%d/%d) [%s] | %d | %d | %d | %d |' % (rel, pct(r['executed'], r['executable']), r['executed'], r['executable'], adj,
                                                                     len(r['defs']), len(r['entered']), len(r['never_entered']), len(r['never_inst'])))
    L.append('')
    acc = {'public': 'pub', 'protected': 'prot', 'private': 'priv'}
    for rel, r in results:
        if 'error' in r:
            continue
        src = r['src']
        base = os.path.basename(rel)
        L.append('## %s — %s of %d executable lines' % (rel, pct(r['executed'], r['executable']), r['executable']))
        L.append('')
        if r['executable'] == 0 and not r['never_inst']:
            L.append('No code of this file in any translation unit (declarations only).')
            L.append('')
            continue
        if r['never_entered']:
            L.append('**Never entered** (%d):' % len(r['never_entered']))
            for d in r['never_entered']:
                ni = len(d['inst'])
                L.append('- `%s` %s:%d%s [%s]%s' % (d['name'], base, d['line'], ('-%d' % d['end']) if d['end'] != d['line'] else '', acc[d['access']],
                                                   (' (%d instantiations)' % ni) if ni > 1 else ''))
            L.append('')
        if r['never_inst']:
            L.append('**Never instantiated / no code in any TU** (%d):' % len(r['never_inst']))
            for d in r['never_inst']:
                L.append('- `%s` %s:%d%s [%s]' % (d['name'], base, d['line'], ('-%d' % d['end']) if d['end'] != d['line'] else '', acc[d['access']]))
            L.append('')
        imp0 = [i for i in r['implicit'] if i['count'] == 0 and not i['name'].startswith('_GLOBAL__') and '__static_initialization' not in i['name']]
        if imp0:
            L.append('Compiler-generated functions never entered: ' + ', '.join('`%s` (:%d)' % (clip(i['name'], 70), i['line']) for i in imp0[:12]) +
                     (' … +%d' % (len(imp0) - 12) if len(imp0) > 12 else ''))
            L.append('')
        if r['gaps']:
            L.append('**Not executed inside entered functions** (%d lines in %d functions):' % (sum(g['uncovered'] for g in r['gaps']), len(r['gaps'])))
            for g in r['gaps']:
                d = g['fn']
                L.append('- `%s` :%d-%d — %d of %d lines not executed' % (d['name'], d['begin'], d['end'], g['uncovered'], g['executable']))
                for a, b in g['ranges']:
                    L.append('  - %s: `%s`' % (str(a) if a == b else '%d-%d' % (a, b), range_text(a, b, src).replace('`', "'")))
            L.append('')
        if r['partial']:
            cap = 40
            L.append('**Executed lines with a branch outcome that never occurred** (%d; condition always true or always false, or a '
                     'statement on the same line never reached):' % len(r['partial']))
            for n, d in r['partial'][:cap]:
                L.append('- %d: `%s` (in `%s`)' % (n, clip(src[n - 1], 90).replace('`', "'"), clip(d['name'].split('(')[0], 50)))
            if len(r['partial']) > cap:
                L.append('- … +%d more (see %s.json)' % (len(r['partial']) - cap, cid))
            L.append('')
    open(os.path.join(OUT, cid + '.md'), 'w').write('\n'.join(L) + '\n')
    # raw data
    raw = {'id': cid, 'run': {k: v for k, v in st.items()}, 'tus': ntu, 'tus_executed': nda, 'files': {}}
    for rel, r in results:
        if 'error' in r:
            raw['files'][rel] = {'error': r['error']}
            continue
        raw['files'][rel] = {
            'executable_lines': r['executable'], 'executed_lines': r['executed'], 'est_lines_never_instantiated': r['est_never_inst_lines'],
            'line_counts': {str(k): v for k, v in sorted(r['line_counts'].items())},
            'functions': [{'name': d['name'], 'line': d['line'], 'begin': d['begin'], 'end': d['end'], 'access': d['access'],
                           'status': ('never_instantiated' if d in r['never_inst'] else 'never_entered' if d in r['never_entered'] else 'entered'),
                           'instantiations': [{'name': n, 'calls': c} for n, c in d['inst']]} for d in r['defs']],
            'compiler_generated': r['implicit'],
            'partial_lines': [n for n, _ in r['partial']],
        }
    json.dump(raw, open(os.path.join(OUT, cid + '.json'), 'w'), indent=0)


def one(cid, timeout, keep):
    props = properties()
    if cid not in props:
        log('[%s] unknown property' % cid)
        return 2
    anchored = props[cid]['anchors']['files']
    scratch = tempfile.mkdtemp(prefix='verif-cov-%s-' % cid, dir=SCRATCH_BASE)
    try:
        log('[%s] snapshot in %s' % (cid, scratch))
        sv, sr = snapshot(cid, scratch)
        st = instrumented_run(cid, scratch, sv, sr, timeout)
        try:
            st['repo_head'] = subprocess.check_output(['git', '-C', REPO, 'rev-parse', '--short', 'HEAD']).decode().strip()
        except Exception:
            st['repo_head'] = '?'
        log('[%s] check rc=%s in %.0fs; processes started=%d lost=%d' % (cid, st['rc'], st['wall_s'], st['started'], st['lost']))
        cov, ntu, nda = aggregate(sv, sr, cid, anchored)
        results = []
        for rel in anchored:
            try:
                src = open(os.path.join(sr, rel), errors='replace').read().split('\n')
                defs = clang_defs(sr, rel, scratch)
                r = analyse_file(cov[rel], defs, src)
                r['src'] = src
                r['line_counts'] = cov[rel].lines
            except Exception as e:      # keep going: the other files of the property are still worth reporting
                r = {'error': '%s: %s' % (type(e).__name__, e)}
            results.append((rel, r))
        write_report(cid, props[cid], st, results, ntu, nda, sr)
        log('[%s] report: reports/coverage/%s.md' % (cid, cid))
        return 0
    finally:
        if not keep:
            shutil.rmtree(scratch, ignore_errors=True)


def summary():
    rows = []
    for f in sorted(glob.glob(os.path.join(OUT, 'C??.json'))):
        d = json.load(open(f))
        for rel, r in d['files'].items():
            if 'error' in r:
                rows.append((d['id'], rel, 'error', '', '', '', d['run']))
                continue
            fns = r['functions']
            ne = sum(1 for x in fns if x['status'] == 'never_entered')
            ni = sum(1 for x in fns if x['status'] == 'never_instantiated')
            pub = sum(1 for x in fns if x['status'] != 'entered' and x['access'] == 'public')
            rows.append((d['id'], rel, pct(r['executed_lines'], r['executable_lines']) + ' (%d/%d)' % (r['executed_lines'], r['executable_lines']),
                         pct(r['executed_lines'], r['executable_lines'] + r['est_lines_never_instantiated']),
                         '%d + %d = %d of %d' % (ne, ni, ne + ni, len(fns)), pub, d['run']))
    L = ['# Coverage of the anchored files by the quick tier of each check', '',
         'Generated by `tools/coverage.py` (%s). `%% lines` = executed / lines with generated code (gcov, all translation units of harness and '
         'library, -O0); `adj.` also counts the bodies of never-instantiated definitions. `never run` = functions never entered + '
         'definitions never instantiated, of all function definitions of the file; `public` = how many of those are public members / free functions.'
         % time.strftime('%Y-%m-%d %H:%M'), '',
         '| id | file | % lines | adj. | functions never run (never entered + never instantiated) | public among them |', '|---|---|---|---|---|---|']
    last = None
    for cid, rel, p, adj, fn, pub, runinfo in rows:
        L.append('| %s | %s | %s | %s | %s | %s |' % (cid if cid != last else '', rel, p, adj, fn, pub))
        last = cid
    L += ['', '## Runs', '', '| id | check exit | wall s | harness processes | flushed while dying | lost |', '|---|---|---|---|---|---|']
    seen = set()
    for cid, rel, p, adj, fn, pub, runinfo in rows:
        if cid in seen:
            continue
        seen.add(cid)
        L.append('| %s | %s | %s | %s | %s | %s |' % (cid, runinfo['rc'], runinfo['wall_s'], runinfo['started'],
                                                    ', '.join('%d %s' % (v, k) for k, v in sorted(runinfo['flushed_dying'].items())) or '-', runinfo['lost']))
    open(os.path.join(OUT, 'SUMMARY.md'), 'w').write('\n'.join(L) + '\n')


def main():
    a = sys.argv[1:]
    jobs, timeout, keep, do_summary = 3, 1200, False, True
    ids = []
    i = 0
    while i < len(a):
        if a[i] == '-j':
            jobs = max(1, min(3, int(a[i + 1]))); i += 2
        elif a[i] == '--timeout':
            timeout = int(a[i + 1]); i += 2
        elif a[i] == '--keep':
            keep = True; i += 1
        elif a[i] == '--no-summary':
            do_summary = False; i += 1
        elif a[i] == '--summary-only':
            summary(); return 0
        else:
            ids.append(a[i]); i += 1
    if not ids:
        print(__doc__)
        return 2
    os.makedirs(OUT, exist_ok=True)
    rc = 0
    with ThreadPoolExecutor(max_workers=jobs) as ex:
        for cid, r in zip(ids, ex.map(lambda c: safe_one(c, timeout, keep), ids)):
            rc = rc or r
    if do_summary:
        summary()
    return rc


def safe_one(cid, timeout, keep):
    try:
        return one(cid, timeout, keep)
    except Exception as e:
        import traceback
        log('[%s] FAILED: %s' % (cid, traceback.format_exc()))
        return 1


if __name__ == '__main__':
    sys.exit(main())
