#!/bin/sh
# usage: tools/process_seeds.sh <prop> <seed worktree>  — confirm each out/k, run the check on it, print a summary
prop=$1; wt=$2
for k in 1 2 3; do
  d=$wt/out/$k
  [ -f $d/patch.diff ] || { echo "[$prop-$k] missing"; continue; }
  echo "[$prop-$k] confirm: $(/verif/tools/confirm_seed.sh $d 2>&1 | grep -v WARNING | tr '\n' ' ')"
  /verif/tools/run_seeded.sh $prop $d/patch.diff 2>&1 | grep -v WARNING | sed "s/^/[$prop-$k] /"
done
