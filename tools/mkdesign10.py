#!/usr/bin/env python3
"""Rewrites DESIGN.md section 10.4 (per property) from reports/C*.md, 10.5 from seeded/MATRIX.md if present."""
import os, glob, re
os.chdir(os.path.dirname(os.path.dirname(os.path.abspath(__file__))))
s = open('DESIGN.md').read()
i = s.index('### 10.4 Per property')
body = '### 10.4 Per property\n\nOne entry per registered check: theorems of `Properties_<id>.v` (all `exact`-closed, `Print Assumptions`\nunder each), what is only validated by correspondence or modelled, defects, and which of the builder\'s own mutants\n(`mutants/<id>/`) the check catches. Independent seeded changes are in 10.5.\n\n'
for f in sorted(glob.glob('reports/C??.md')):
    body += open(f).read().rstrip() + '\n\n'
for extra in ('reports/section_10_5.md', 'reports/section_10_6.md'):
    if os.path.exists(extra):
        body += open(extra).read().rstrip() + '\n\n'
open('DESIGN.md', 'w').write(s[:i] + body)
print('DESIGN.md 10.4 rewritten from', len(glob.glob('reports/C??.md')), 'reports')
