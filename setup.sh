#!/bin/sh
# Build the framework from files on disk only (offline): every Coq component (full .vo build),
# the OCaml model drivers, and a first sanitizer build of libnstd + harnesses (the checks
# rebuild whatever the working tree of /repo invalidates).
cd "$(dirname "$0")" || exit 2
python3 tools/setup.py "$@"
