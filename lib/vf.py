#!/usr/bin/env python3
"""Shared machinery of the /verif checks (see FRAMEWORK.md).

One check = one property.  A check module (checks/<id>.py) defines a subclass of Check and
this file does the rest: regenerate tables, re-check the Coq theorems, extract the model,
rebuild the harness from the current working tree of the repository, run model, spec and
implementation on the same cases, classify what broke, search for a failing input, shrink,
match known findings, write the evidence and the replay file.
"""
import hashlib, json, os, random, re, shutil, subprocess, sys, time, glob

VERIF = os.path.dirname(os.path.dirname(os.path.abspath(__file__)))
REPO = os.environ.get('VERIF_REPO', '/repo')
BUILD = os.path.join(VERIF, 'build')
COQ = os.path.join(VERIF, 'coq')
NCPU = os.cpu_count() or 4

SAN_FLAGS = ['-O1', '-g', '-fsanitize=address,undefined', '-fno-sanitize-recover=all',
             '-fno-omit-frame-pointer']
GUARD = 'LIBNSTD_VERIF'
# line-coverage measurement (tools/coverage.py): nothing changes unless VERIF_COVERAGE=1
COV_FLAGS = ['--coverage', '-O0', '-fprofile-update=prefer-atomic'] if os.environ.get('VERIF_COVERAGE') == '1' else []
COV_LINK = os.environ.get('VERIF_COVERAGE_LINK', '').split() if COV_FLAGS else []   # extra objects (gcov flush hooks)


def log(*a):
    print(*a, file=sys.stderr, flush=True)


def sh(cmd, cwd=None, timeout=None, env=None, stdin=None):
    """Run, return (rc, stdout, stderr); rc 124 on timeout.
    The child gets its own session and writes to temporary files (not pipes): a harness that leaves
    orphaned grandchildren behind (a child process that never sees end-of-file, say) can then neither
    keep our read blocked nor survive the run - the whole process group is killed afterwards."""
    import tempfile, signal
    fo = tempfile.TemporaryFile()
    fe = tempfile.TemporaryFile()
    fi = None
    if stdin is not None:
        fi = tempfile.TemporaryFile()
        fi.write(stdin)
        fi.seek(0)
    p = subprocess.Popen(cmd, cwd=cwd, env=env, stdin=fi if fi is not None else subprocess.DEVNULL,
                         stdout=fo, stderr=fe, start_new_session=True)
    try:
        rc = p.wait(timeout=timeout)
    except subprocess.TimeoutExpired:
        rc = 124
    finally:
        try:
            os.killpg(p.pid, signal.SIGKILL)
        except (ProcessLookupError, PermissionError):
            pass
        try:
            p.wait(timeout=10)
        except Exception:
            pass
    fo.seek(0)
    fe.seek(0)
    out = fo.read().decode('utf-8', 'replace')
    err = fe.read().decode('utf-8', 'replace')
    for f in (fo, fe, fi):
        if f is not None:
            f.close()
    return rc, out, err


# ------------------------------------------------------------------------------------------
# Coq
# ------------------------------------------------------------------------------------------

def coq_make(comp, targets=None, timeout=1500):
    """(Re)build a component directory coq/<comp> with coq_makefile; full .vo build.
    Returns (ok, log).  -k so that independent files still build when one proof breaks."""
    d = os.path.join(COQ, comp)
    if not os.path.exists(os.path.join(d, '_CoqProject')):
        return False, 'no _CoqProject in ' + d
    mk = os.path.join(d, 'Makefile.coq')
    if (not os.path.exists(mk)) or os.path.getmtime(mk) < os.path.getmtime(os.path.join(d, '_CoqProject')):
        rc, o, e = sh(['coq_makefile', '-f', '_CoqProject', '-o', 'Makefile.coq'], cwd=d, timeout=60)
        if rc != 0:
            return False, o + e
    cmd = ['make', '-f', 'Makefile.coq', '-k', '-j%d' % NCPU] + (targets or [])
    rc, o, e = sh(cmd, cwd=d, timeout=timeout)
    return rc == 0, o + e


def coq_deps_of(comp):
    """Components this one depends on, from '-Q ../X X' lines of its _CoqProject (in order)."""
    deps = []
    try:
        for line in open(os.path.join(COQ, comp, '_CoqProject')):
            m = re.match(r'\s*-[QR]\s+\.\./(\S+)\s+', line)
            if m and m.group(1) != comp:
                deps.append(m.group(1))
    except OSError:
        pass
    return deps


def coq_build_closure(comp, seen=None):
    """Build dependencies first (depth first), then the component itself."""
    seen = seen if seen is not None else {}
    if comp in seen:
        return seen[comp]
    seen[comp] = (True, '')
    logs = []
    ok = True
    for d in coq_deps_of(comp):
        o, l = coq_build_closure(d, seen)
        ok = ok and o
        logs.append(l)
    o, l = coq_make(comp)
    logs.append(l)
    seen[comp] = (ok and o, '\n'.join(logs))
    return seen[comp]


def theorems_in(path):
    src = open(path).read()
    src = re.sub(r'\(\*.*?\*\)', '', src, flags=re.S)
    return re.findall(r'^\s*(?:Theorem|Corollary)\s+([A-Za-z0-9_\']+)', src, flags=re.M)


def enclosing_statement(path, line):
    """Name of the Lemma/Theorem/Definition containing `line` of `path`."""
    try:
        lines = open(path).read().split('\n')
    except OSError:
        return '?'
    for i in range(min(line, len(lines)) - 1, -1, -1):
        m = re.match(r'\s*(?:Local\s+|Global\s+)?(Theorem|Lemma|Corollary|Example|Definition|Fixpoint|Fact|Remark|Proposition|Instance|Function|Equations)\s+([A-Za-z0-9_\']+)', lines[i])
        if m:
            return m.group(2)
    return '?'


def first_coq_error(logtext, comp):
    m = re.search(r'File "([^"]+)", line (\d+), characters[^\n]*\n((?:.*\n){0,12})', logtext)
    if not m:
        return None
    f = m.group(1)
    if not os.path.isabs(f):
        f = os.path.normpath(os.path.join(COQ, comp, f))
    return {'file': os.path.relpath(f, VERIF), 'line': int(m.group(2)),
            'statement': enclosing_statement(f, int(m.group(2))),
            'message': m.group(3).strip()[:600]}


def parse_assumptions(out):
    """Split the output of a Properties file into one block per `Print Assumptions`."""
    blocks = []
    cur = None
    for line in out.split('\n'):
        if line.startswith('Closed under the global context'):
            blocks.append([])
            cur = None
        elif line.startswith('Axioms:'):
            cur = []
            blocks.append(cur)
        elif cur is not None:
            if re.match(r'^\S', line):
                if ' : ' in line or line.rstrip().endswith(':') or re.match(r'^[A-Za-z_][\w\.\']*\s*$', line):
                    cur.append(line.split(' :')[0].strip())
                else:
                    cur = None
    return blocks


FORBIDDEN = re.compile(r'\b(Admitted|admit|Axiom|Axioms|Parameter|Parameters|Conjecture|Conjectures|Admit Obligations|'
                       r'Unset Guard Checking|Unset Positivity Checking|Unset Universe Checking|bypass_check|'
                       r'type-in-type|impredicative-set)\b')


def forbidden_words(comp_dirs):
    """grep the development for declarations the brief forbids; returns list of 'file:line: text'.
    `Variable`/`Hypothesis` are allowed only inside a Section, which is checked syntactically."""
    hits = []
    for c in comp_dirs:
        for f in sorted(glob.glob(os.path.join(COQ, c, '*.v'))) + [os.path.join(COQ, c, '_CoqProject')]:
            try:
                txt = open(f).read()
            except OSError:
                continue
            nocom = re.sub(r'\(\*.*?\*\)', lambda m: re.sub(r'[^\n]', ' ', m.group(0)), txt, flags=re.S)
            depth = 0
            for n, line in enumerate(nocom.split('\n'), 1):
                if re.match(r'\s*Section\s+\w+', line):
                    depth += 1
                if FORBIDDEN.search(line):
                    hits.append('%s:%d: %s' % (os.path.relpath(f, VERIF), n, line.strip()[:100]))
                if depth == 0 and re.match(r'\s*(Variable|Variables|Hypothesis|Hypotheses|Context)\b', line):
                    hits.append('%s:%d: %s (outside a Section)' % (os.path.relpath(f, VERIF), n, line.strip()[:100]))
                if re.match(r'\s*End\s+\w+\s*\.', line) and depth > 0:
                    depth -= 1
    return hits


# ------------------------------------------------------------------------------------------
# building the implementation
# ------------------------------------------------------------------------------------------

def repo_sources():
    srcs = sorted(glob.glob(os.path.join(REPO, 'src', '*.cpp')) +
                  glob.glob(os.path.join(REPO, 'src', '*', '*.cpp')))
    return srcs


def tree_hash(paths, extra=''):
    h = hashlib.sha256(extra.encode())
    for p in sorted(paths):
        h.update(p.encode())
        try:
            h.update(open(p, 'rb').read())
        except OSError:
            h.update(b'<missing>')
    return h.hexdigest()[:16]


def repo_hash(extra=''):
    hdrs = glob.glob(os.path.join(REPO, 'include', 'nstd', '*.hpp')) + \
        glob.glob(os.path.join(REPO, 'include', 'nstd', '*', '*.hpp'))
    return tree_hash(repo_sources() + hdrs, extra)


def build_libnstd(variant='san', extra_flags=(), ndebug=True):
    """Compile every libnstd source of the *current working tree* into a static library.
    Cached by content hash of all sources+headers+flags, so an edited tree is always rebuilt
    and an unchanged one is not.  Returns (path or None, log)."""
    flags = list(SAN_FLAGS if variant == 'san' else ['-O1', '-g']) + list(extra_flags) + COV_FLAGS
    flags += ['-D' + GUARD]
    if ndebug:
        flags += ['-DNDEBUG']
    key = repo_hash(' '.join(flags))
    out = os.path.join(BUILD, 'libnstd', key)
    lib = os.path.join(out, 'libnstd.a')
    if os.path.exists(lib):
        os.utime(out)
        return lib, 'cached ' + key
    os.makedirs(out, exist_ok=True)
    # keep the cache small: drop all but the 3 most recent other builds
    olds = sorted(glob.glob(os.path.join(BUILD, 'libnstd', '*')), key=os.path.getmtime)
    for o in olds[:-12]:
        if o != out and time.time() - os.path.getmtime(o) > 3 * 3600:
            shutil.rmtree(o, ignore_errors=True)
    procs = []
    objs = []
    for s in repo_sources():
        o = os.path.join(out, re.sub(r'[^A-Za-z0-9]', '_', os.path.relpath(s, REPO)) + '.o')
        objs.append(o)
        procs.append((s, subprocess.Popen(['g++'] + flags + ['-w', '-I' + os.path.join(REPO, 'include'), '-c', s, '-o', o],
                                          stdout=subprocess.PIPE, stderr=subprocess.STDOUT)))
    logtxt = ''
    ok = True
    for s, p in procs:
        o, _ = p.communicate()
        if p.returncode != 0:
            ok = False
            logtxt += '--- %s\n%s\n' % (s, o.decode('utf-8', 'replace')[-3000:])
    if not ok:
        shutil.rmtree(out, ignore_errors=True)
        return None, logtxt
    rc, o, e = sh(['ar', 'rcs', lib] + objs)
    if rc != 0:
        shutil.rmtree(out, ignore_errors=True)
        return None, o + e
    return lib, 'built ' + key


def build_harness(cid, sources, lib=None, extra_flags=(), link_flags=(), variant='san', name='harness', ndebug=True):
    """Compile harness sources (each its own TU) against the working tree's headers."""
    out = os.path.join(BUILD, cid)
    os.makedirs(out, exist_ok=True)
    exe = os.path.join(out, name)
    flags = list(SAN_FLAGS if variant == 'san' else ['-O1', '-g']) + list(extra_flags) + COV_FLAGS + ['-D' + GUARD]
    if ndebug:
        flags += ['-DNDEBUG']
    key = repo_hash(' '.join(flags) + tree_hash([os.path.join(VERIF, s) for s in sources] +
                                                glob.glob(os.path.join(VERIF, 'harness', 'common', '*'))) + str(lib))
    stamp = exe + '.key'
    if os.path.exists(exe) and os.path.exists(stamp) and open(stamp).read() == key:
        return exe, 'cached'
    procs = []
    objs = []
    for s in sources:
        o = os.path.join(out, name + '_' + re.sub(r'[^A-Za-z0-9]', '_', s) + '.o')
        objs.append(o)
        procs.append((s, subprocess.Popen(['g++'] + flags + ['-w', '-I' + os.path.join(REPO, 'include'),
                                                             '-I' + os.path.join(REPO, 'src'),
                                                             '-I' + os.path.join(VERIF, 'harness', 'common'),
                                                             '-c', os.path.join(VERIF, s), '-o', o],
                                          stdout=subprocess.PIPE, stderr=subprocess.STDOUT)))
    logtxt = ''
    ok = True
    for s, p in procs:
        o, _ = p.communicate()
        if p.returncode != 0:
            ok = False
            logtxt += '--- %s\n%s\n' % (s, o.decode('utf-8', 'replace')[-4000:])
    if not ok:
        return None, logtxt
    cmd = ['g++'] + flags + objs + ([lib] if lib else []) + list(link_flags) + COV_LINK + ['-lpthread', '-lrt', '-ldl', '-o', exe]
    rc, o, e = sh(cmd)
    if rc != 0:
        return None, o + e
    open(stamp, 'w').write(key)
    return exe, 'built'


def build_ocaml(cid, comp, ml_files, name='driver'):
    """ocamlfind ocamlopt the extracted model (coq/<comp>/<x>.ml[i]) + a driver."""
    out = os.path.join(BUILD, cid, 'ocaml_' + name)
    os.makedirs(out, exist_ok=True)
    exe = os.path.join(out, name)
    srcs = []
    for f in ml_files:
        p = f if os.path.isabs(f) else os.path.join(VERIF, f)
        if not os.path.exists(p):
            return None, 'missing ' + p
        srcs.append(p)
    key = tree_hash(srcs)
    stamp = exe + '.key'
    if os.path.exists(exe) and os.path.exists(stamp) and open(stamp).read() == key:
        return exe, 'cached'
    local = []
    for p in srcs:
        q = os.path.join(out, os.path.basename(p))
        shutil.copyfile(p, q)
        local.append(os.path.basename(p))
    rc, o, e = sh(['ocamlfind', 'ocamlopt', '-O3', '-w', '-a', '-package', 'str', '-linkpkg'] + local + ['-o', name], cwd=out, timeout=600)
    if rc != 0:
        rc, o, e = sh(['ocamlfind', 'ocamlopt', '-w', '-a', '-package', 'str', '-linkpkg'] + local + ['-o', name], cwd=out, timeout=600)
    if rc != 0:
        return None, o + e
    open(stamp, 'w').write(key)
    return exe, 'built'


# ------------------------------------------------------------------------------------------
# running cases
# ------------------------------------------------------------------------------------------

CRASH_KINDS = [
    (r'heap-use-after-free|stack-use-after-(return|scope)', 'uaf'),
    (r'attempting double-free', 'dblfree'),
    (r'attempting free on address which was not malloc|alloc-dealloc-mismatch|bad-free', 'badfree'),
    (r'(heap|stack|global)-buffer-overflow|stack-buffer-underflow|container-overflow|dynamic-stack-buffer-overflow|use-after-poison|negative-size-param', 'oob'),
    (r'use-of-uninitialized-value', 'uninit'),
    (r'runtime error:', 'ub'),
    (r'stack-overflow', 'stackoverflow'),
    (r'SEGV|DEADLYSIGNAL', 'segv'),
    (r'allocation-size-too-big|out of memory|requested allocation size', 'oom'),
    (r'LeakSanitizer', 'leak'),
]


def classify_crash(rc, err):
    for rx, k in CRASH_KINDS:
        if re.search(rx, err):
            return k
    if rc in (124, -14, 142):
        return 'timeout'
    if rc in (-6, 134):
        return 'abort'
    if rc in (-11, 139):
        return 'segv'
    if rc in (-9, 137):
        return 'killed'
    return 'exit%d' % rc


def write_cases(path, cases, first=0):
    with open(path, 'w') as f:
        for i, c in enumerate(cases):
            ops = c
            if c and c[0].startswith('@'):      # '@<config…>' as first line = per-case configuration
                f.write('case %d %s\n' % (first + i, c[0][1:].strip()))
                ops = c[1:]
            else:
                f.write('case %d\n' % (first + i))
            for line in ops:
                f.write(line + '\n')
            f.write('end\n')


def parse_obs(text, ncases, first=0):
    """Observation lines are '<case> <rest…>'.  Returns list (per case) of lists of strings.
    Lines starting with '#' are ignored."""
    res = [[] for _ in range(ncases)]
    for line in text.split('\n'):
        if not line or line[0] == '#':
            continue
        sp = line.find(' ')
        head = line if sp < 0 else line[:sp]
        try:
            k = int(head) - first
        except ValueError:
            continue
        if 0 <= k < ncases:
            res[k].append('' if sp < 0 else line[sp + 1:])
    return res


def run_exe_on_cases(exe, cases, workdir, tag, args=(), timeout=None, env=None, is_impl=False, per_case_timeout=10):
    """Run an executable over all cases (ops file as last argument).  For the implementation a
    crash (sanitizer report, signal, watchdog) ends the process: the case in progress gets a
    final line '! <kind>' and the run resumes with the next case."""
    os.makedirs(workdir, exist_ok=True)
    n = len(cases)
    res = [[] for _ in range(n)]
    crashes = {}
    start = 0
    e = dict(os.environ)
    e.setdefault('ASAN_OPTIONS', 'detect_leaks=0:abort_on_error=0:allocator_may_return_null=1:max_allocation_size_mb=2048')
    e.setdefault('UBSAN_OPTIONS', 'print_stacktrace=0')
    e['VERIF_CASE_TIMEOUT'] = str(per_case_timeout)
    if env:
        e.update(env)
    rounds = 0
    while start < n:
        rounds += 1
        opsf = os.path.join(workdir, '%s.ops' % tag)
        write_cases(opsf, cases[start:], first=start)
        to = timeout or (60 + per_case_timeout * 3 + (n - start) * 0.05)
        rc, out, err = sh([exe] + list(args) + [opsf], cwd=workdir, timeout=to, env=e)
        part = parse_obs(out, n - start, first=start)
        if rc == 0:
            for i, p in enumerate(part):
                res[start + i] = p
            break
        if not is_impl:
            raise RuntimeError('%s failed rc=%d\n%s\n%s' % (exe, rc, out[-2000:], err[-4000:]))
        # find the case in progress: last '#case k' marker
        ms = re.findall(r'^#case (\d+)', out, flags=re.M)
        cur = int(ms[-1]) if ms else start
        done = re.findall(r'^#end (\d+)', out, flags=re.M)
        if done and int(done[-1]) >= cur:
            cur = int(done[-1]) + 1  # crashed between cases (e.g. at exit)
            if cur >= n:
                for i, p in enumerate(part):
                    res[start + i] = p
                # crash after the last case: attribute to the run as a whole
                crashes[n - 1] = (classify_crash(rc, err), err[-3000:])
                res[n - 1] = res[n - 1] + ['! ' + classify_crash(rc, err) + ' (at exit)']
                break
        for i in range(start, min(cur + 1, n)):
            res[i] = part[i - start]
        kind = classify_crash(rc, err)
        if cur < n:
            res[cur] = res[cur] + ['! ' + kind]
            crashes[cur] = (kind, err[-3000:])
        start = cur + 1
        if rounds > 400:
            # the tree is thoroughly broken: stop here, the cases not run are dropped by the caller
            log('too many crashes in one stream (%d): remaining %d cases not run' % (rounds, n - start))
            for i in range(start, n):
                res[i] = ['! notrun']
            break
    return res, crashes


def run_sharded(exe, cases, workdir, tag, args):
    """Model/spec drivers are pure: shard the cases over the cores."""
    n = len(cases)
    if n < 48:
        return run_exe_on_cases(exe, cases, workdir, tag, args=args)[0]
    from concurrent.futures import ThreadPoolExecutor
    k = min(NCPU, max(1, n // 16))
    size = (n + k - 1) // k
    shards = [(i, cases[i:i + size]) for i in range(0, n, size)]
    with ThreadPoolExecutor(max_workers=k) as ex:
        futs = [ex.submit(run_exe_on_cases, exe, sh_cases, workdir, '%s_s%d' % (tag, j), args) for j, (i, sh_cases) in enumerate(shards)]
        res = []
        for f in futs:
            res += f.result()[0]
    return res


def line_matches(spec, impl):
    """spec line may contain '?' tokens (wildcards: unspecified value) and fewer ' | ' sections."""
    if spec == impl:
        return True
    ss = spec.split(' | ')
    ii = impl.split(' | ')
    if len(ss) > len(ii):
        return False
    for s, i in zip(ss, ii):
        if s == i:
            continue
        st, it = s.split(' '), i.split(' ')
        if len(st) != len(it):
            if st and st[-1] == '??*':
                if len(it) < len(st) - 1:
                    return False
                st = st[:-1] + ['?'] * (len(it) - len(st) + 1)
            else:
                return False
        for a, b in zip(st, it):
            if a != b and a != '?':
                return False
    return True


def first_diff(expected, actual):
    """index of first differing line between two per-case observation lists, or None."""
    for k in range(max(len(expected), len(actual))):
        if k >= len(expected) or k >= len(actual):
            return k
        if not line_matches(expected[k], actual[k]):
            return k
    return None


# ------------------------------------------------------------------------------------------
# the check
# ------------------------------------------------------------------------------------------

class TieBroken(Exception):
    pass


class Stream:
    def __init__(self, name, cases, exhaustive=False, note=''):
        self.name = name
        self.cases = cases
        self.exhaustive = exhaustive
        self.note = note


class Check:
    """Subclass per property.  Attributes / hooks (see FRAMEWORK.md)."""
    id = None
    comp = None                 # coq/<comp>
    prop_file = None            # defaults to Properties_<id>.v in coq/<comp>
    extracted = []              # paths (relative to /verif) of extracted .mli/.ml + driver .ml, in link order
    harness_sources = []        # relative to /verif
    harness_flags = []
    harness_link_flags = []
    needs_lib = True
    lib_flags = []
    ndebug = True
    per_case_timeout = 10
    retry_timeouts = True      # re-run a case that ended in a watchdog time-out once, alone (off where a hang seen once is evidence: real threads)
    level_note = ''
    rule = ''                   # how cases are generated, what counts as non-trivial
    model_args = ['model']
    spec_args = ['spec']
    has_spec = True             # the driver has a `spec` mode (property oracle as expected observations)
    assumptions = []
    coqchk_in_thorough = True

    # ---- hooks ---------------------------------------------------------------------------
    def gen_tables(self):
        """Regenerate coq/<comp>/Gen_*.v from REPO.  Raise TieBroken(msg) if a table cannot be located."""
        return []

    def streams(self, tier, rng):
        return []

    def nontrivial(self, case, impl_obs):
        return len(case) >= 3

    def judge(self, cases, impl_obs, spec_obs):
        """Property oracle on the implementation's observations.  Default: compare with the
        spec's expected observations.  Returns list of (case_index, line_index, reason)."""
        fails = []
        for i, (s, o) in enumerate(zip(spec_obs, impl_obs)):
            k = first_diff(s, o)
            if k is not None:
                exp = s[k] if k < len(s) else '<nothing>'
                got = o[k] if k < len(o) else '<nothing>'
                fails.append((i, k, 'spec expects `%s`, implementation gives `%s`' % (exp, got)))
        return fails

    def extra_checks(self, tier, rng, ctx):
        """Optional additional component-specific work; may append to ctx['violations']."""
        return

    # ---- main ----------------------------------------------------------------------------
    def __init__(self):
        self.t0 = time.time()
        self.ev = {}
        self.exes = {}

    def pfile(self):
        return os.path.join(COQ, self.comp, self.prop_file or ('Properties_%s.v' % self.id))

    def more_pfiles(self):
        """[(comp, file)] further property files in other components (C04/C05 aggregate several)."""
        return []

    def corpus_cases(self):
        out = []
        for f in sorted(glob.glob(os.path.join(VERIF, 'corpus', self.id, '*.ops'))):
            cases = []
            cur = None
            for line in open(f).read().split('\n'):
                line = line.rstrip('\n')
                if line.startswith('case'):
                    cur = []
                elif line == 'end':
                    if cur is not None:
                        cases.append(cur)
                    cur = None
                elif cur is not None and line and not line.startswith('#'):
                    cur.append(line)
            for c in cases:
                out.append((os.path.basename(f), c))
        return out

    def prove(self, tier):
        """Step 1: tables + proofs.  Returns dict(ok, obligations, discharged, failing, assumptions, cmds)."""
        info = {'ok': True, 'failing': None, 'cmds': [], 'assumptions': {}, 'tables': []}
        try:
            info['tables'] = self.gen_tables() or []
        except TieBroken as e:
            info['ok'] = False
            info['failing'] = {'file': 'gen', 'line': 0, 'statement': 'table translator', 'message': str(e)}
        thms = theorems_in(self.pfile())
        info['obligations'] = len(thms)
        info['theorems'] = thms
        if tier == 'thorough':
            # clean rebuild of this component (dependencies are rebuilt if stale)
            sh(['make', '-f', 'Makefile.coq', 'clean'], cwd=os.path.join(COQ, self.comp), timeout=120)
        ok, logtxt = coq_build_closure(self.comp)
        info['cmds'].append('coq_makefile -f _CoqProject -o Makefile.coq && make -f Makefile.coq -k -j%d   (in coq/%s and its dependencies %s)'
                            % (NCPU, self.comp, coq_deps_of(self.comp)))
        open(os.path.join(BUILD, self.id, 'coq_make.log'), 'w').write(logtxt)
        pv = self.pfile()
        vo = pv[:-2] + '.vo'
        if not ok or not os.path.exists(vo) or os.path.getmtime(vo) < os.path.getmtime(pv):
            info['ok'] = False
            err = first_coq_error(logtxt, self.comp)
            if err and not info['failing']:
                info['failing'] = err
            elif not info['failing']:
                info['failing'] = {'file': os.path.relpath(pv, VERIF), 'line': 0, 'statement': '?', 'message': logtxt[-800:]}
        # which theorems of the properties file are discharged
        if ok and os.path.exists(vo) and os.path.getmtime(vo) >= os.path.getmtime(pv):
            # recompile the (tiny) properties file alone to collect Print Assumptions
            args = coqproject_args(self.comp)
            rc, o, e = sh(['coqc'] + args + [os.path.basename(pv)], cwd=os.path.join(COQ, self.comp), timeout=900)
            info['cmds'].append('coqc %s %s   (Print Assumptions under every theorem)' % (' '.join(args), os.path.basename(pv)))
            if rc == 0:
                blocks = parse_assumptions(o)
                for t, b in zip(thms, blocks):
                    info['assumptions'][t] = b
                info['discharged'] = len(thms) if ok else len(thms)
            else:
                info['ok'] = False
                info['discharged'] = 0
                info['failing'] = first_coq_error(o + e, self.comp) or info['failing']
        else:
            f = info['failing'] or {}
            if f.get('file', '').endswith(os.path.basename(pv)):
                # theorems stated before the failing line are still checked
                src = open(pv).read().split('\n')
                before = '\n'.join(src[:max(0, f['line'] - 1)])
                done = [t for t in thms if re.search(r'(Theorem|Corollary)\s+%s\b' % re.escape(t), before)]
                failing_thm = f.get('statement')
                info['discharged'] = len([t for t in done if t != failing_thm])
            else:
                info['discharged'] = 0
        bad = forbidden_words([self.comp] + coq_deps_of(self.comp))
        info['forbidden'] = bad
        if bad:
            info['ok'] = False
            if not info['failing']:
                info['failing'] = {'file': bad[0].split(':')[0], 'line': 0, 'statement': 'forbidden declaration',
                                   'message': '; '.join(bad[:5])}
        if tier == 'thorough' and self.coqchk_in_thorough and info['ok']:
            mod = '%s.%s' % (self.comp, os.path.basename(pv)[:-2])
            args = []
            for d in [self.comp] + all_deps(self.comp):
                args += ['-Q', os.path.join(COQ, d), d]
            rc, o, e = sh(['coqchk', '-o', '-silent'] + args + [mod], cwd=COQ, timeout=3000)
            info['cmds'].append('coqchk -o -silent %s %s' % (' '.join(args), mod))
            info['coqchk'] = (o + e)[-3000:]
            if rc != 0:
                info['ok'] = False
                info['failing'] = {'file': os.path.relpath(pv, VERIF), 'line': 0, 'statement': 'coqchk', 'message': (o + e)[-800:]}
        return info

    def refresh_for_replay(self):
        """--replay does not re-check the theorems, but the generated tables and the extracted model must belong to the
        tree the replay runs on: coq/<comp>/Gen_*.v and model.ml may be left over from a run on another VERIF_REPO.
        Regenerate the tables and let make rebuild what became stale (nothing, if the tables did not change)."""
        info = {'ok': True, 'obligations': 0, 'discharged': 0, 'assumptions': {}, 'cmds': [], 'failing': None, 'forbidden': [], 'tables': []}
        try:
            info['tables'] = self.gen_tables() or []
        except TieBroken as e:
            info['ok'] = False
            info['failing'] = {'file': 'gen', 'line': 0, 'statement': 'table translator', 'message': str(e)}
        if self.comp and os.path.exists(os.path.join(COQ, self.comp, '_CoqProject')):
            ok, logtxt = coq_build_closure(self.comp)
            if not ok:
                info['ok'] = False
                info['failing'] = info['failing'] or first_coq_error(logtxt, self.comp) or \
                    {'file': 'coq/' + self.comp, 'line': 0, 'statement': '?', 'message': logtxt[-800:]}
        return info

    def build(self):
        """Step 2: model driver + harness from the current tree.  Returns dict with errors."""
        b = {'model_ok': False, 'impl_ok': False, 'errors': []}
        if self.extracted:
            exe, l = build_ocaml(self.id, self.comp, self.extracted)
            if exe:
                self.exes['model'] = exe
                b['model_ok'] = True
            else:
                b['errors'].append('model driver: ' + l[-1500:])
        lib = None
        if self.needs_lib:
            lib, l = build_libnstd(extra_flags=self.lib_flags, ndebug=self.ndebug)
            if not lib:
                b['errors'].append('libnstd build: ' + l[-3000:])
                return b
        if self.harness_sources:
            exe, l = build_harness(self.id, self.harness_sources, lib, self.harness_flags, self.harness_link_flags, ndebug=self.ndebug)
            if exe:
                self.exes['impl'] = exe
                b['impl_ok'] = True
            else:
                b['errors'].append('harness build: ' + l[-3000:])
        return b

    def run_model(self, cases, tag='model'):
        return run_sharded(self.exes['model'], cases, os.path.join(BUILD, self.id, 'run'), tag, self.model_args)

    def run_spec(self, cases, tag='spec'):
        return run_sharded(self.exes['model'], cases, os.path.join(BUILD, self.id, 'run'), tag, self.spec_args)

    def run_impl(self, cases, tag='impl'):
        return run_exe_on_cases(self.exes['impl'], cases, os.path.join(BUILD, self.id, 'run'), tag, is_impl=True,
                                per_case_timeout=self.per_case_timeout)

    def property_fails(self, case):
        """Does the property fail on the implementation for this single case?  -> reason or None"""
        impl, _ = self.run_impl([case], tag='shr_impl')
        spec = self.run_spec([case], tag='shr_spec') if self.has_spec else [[]]
        f = self.judge([case], impl, spec)
        return f[0] if f else None

    def shrink(self, case, pred, budget=400):
        """ddmin on op lines; pred(case) -> truthy when still failing."""
        head = []
        if case and case[0].startswith('@'):
            head, case = [case[0]], case[1:]
            inner = pred
            pred = lambda c: inner(head + c)
        cur = list(case)
        n = 2
        calls = 0
        while len(cur) >= 2 and calls < budget:
            chunk = max(1, len(cur) // n)
            reduced = False
            for i in range(0, len(cur), chunk):
                cand = cur[:i] + cur[i + chunk:]
                calls += 1
                if cand and pred(cand):
                    cur = cand
                    n = max(n - 1, 2)
                    reduced = True
                    break
                if calls >= budget:
                    break
            if not reduced:
                if chunk == 1:
                    break
                n = min(len(cur), n * 2)
        return head + cur

    def known_findings(self):
        try:
            kf = json.load(open(os.path.join(VERIF, 'known_findings.json')))
        except OSError:
            return []
        return [k for k in kf if k.get('property') == self.id]

    def match_known(self, case, reason, stream=''):
        for k in self.known_findings():
            if k.get('status') != 'open':
                continue
            m = k.get('match', {})
            ok = True
            for rx in m.get('ops_contains', []):
                if not any(re.search(rx, l) for l in case):
                    ok = False
            if 'reason_regex' in m and not re.search(m['reason_regex'], reason or ''):
                ok = False
            if 'stream' in m and m['stream'] != stream:
                ok = False
            if ok and m:
                return k
        return None

    def write_replay(self, kind, broken, case, detail):
        os.makedirs(os.path.join(VERIF, 'replays'), exist_ok=True)
        body = {'property': self.id, 'kind': kind, 'broken': broken, 'seed': self.seed,
                'ops': case, 'detail': detail,
                'replay_cmd': './check %s --replay replays/<this file>' % self.id}
        h = hashlib.sha256(json.dumps(body, sort_keys=True).encode()).hexdigest()[:10]
        p = os.path.join('replays', '%s-%s.json' % (self.id, h))
        body['replay_cmd'] = './check %s --replay %s' % (self.id, p)
        json.dump(body, open(os.path.join(VERIF, p), 'w'), indent=1)
        return p

    def main(self, tier, seed, replay=None):
        self.seed = seed
        self.tier = tier
        os.makedirs(os.path.join(BUILD, self.id), exist_ok=True)
        rng = random.Random((seed * 1000003) ^ int(hashlib.sha256(self.id.encode()).hexdigest()[:8], 16))
        violations = []      # (replay_path, suffix)
        known_printed = []
        ctx = {'violations': violations, 'known': known_printed}

        pr = self.prove(tier) if not replay else self.refresh_for_replay()
        if not pr['ok']:
            log('[%s] proof side broken: %s' % (self.id, json.dumps(pr['failing'])[:600]))
        b = self.build()
        for e in b['errors']:
            log('[%s] build problem: %s' % (self.id, e))

        self._retries_left = 8
        stats = {'streams': {}, 'evaluations': 0, 'distinct_nontrivial': 0, 'samples': [], 'crashes': {}, 'op_kinds': {}}
        seen_hashes = set()
        corr_breaks = []     # (stream, case, line idx, model line, impl line)
        prop_fails = []      # (stream, case, reason)
        exhaustive_all = True

        if replay:
            rp = json.load(open(replay if os.path.isabs(replay) else os.path.join(VERIF, replay)))
            streams = [Stream('replay', [rp['ops']])] if rp.get('ops') else []
        else:
            streams = []
            cc = self.corpus_cases()
            if cc:
                streams.append(Stream('corpus', [c for _, c in cc]))
            streams += self.streams(tier, rng)

        can_run = b['impl_ok'] and (b['model_ok'] or not self.extracted)
        if can_run:
            for st in streams:
                if not st.cases:
                    continue
                exhaustive_all = exhaustive_all and st.exhaustive
                t1 = time.time()
                impl, crashes = self.run_impl(st.cases, tag='impl_' + st.name)
                # A watchdog time-out (or a kill from outside) on a busy machine is not an observation of the library:
                # run such a case again, alone and with three times the watchdog; if it then runs to its end, that
                # observation counts.  Bounded, so a tree that really hangs everywhere is still reported in minutes.
                for i, o in enumerate(impl):
                    if self._retries_left <= 0 or not self.retry_timeouts:
                        break
                    if o and (o[-1].startswith('! timeout') or o[-1].startswith('! killed')):
                        self._retries_left -= 1
                        keep = self.per_case_timeout
                        self.per_case_timeout = keep * 3
                        try:
                            again, cr2 = self.run_impl([st.cases[i]], tag='retry_' + st.name)
                        except Exception:
                            again, cr2 = None, None
                        finally:
                            self.per_case_timeout = keep
                        if again and again[0] and not (again[0][-1].startswith('! timeout') or again[0][-1].startswith('! killed')) and again[0] != ['! notrun']:
                            log('[%s] stream %s case %d ended in `%s` and ran to its end when run again alone: the second observation counts'
                                % (self.id, st.name, i, o[-1][:40]))
                            impl[i] = again[0]
                            crashes.pop(i, None)
                            if cr2:
                                crashes[i] = cr2[0]
                ran = [i for i, o in enumerate(impl) if o != ['! notrun']]
                if len(ran) < len(st.cases):
                    st.cases = [st.cases[i] for i in ran]
                    impl = [impl[i] for i in ran]
                    crashes = {ran.index(k): v for k, v in crashes.items() if k in ran}
                model = self.run_model(st.cases, tag='model_' + st.name) if b['model_ok'] else None
                spec = self.run_spec(st.cases, tag='spec_' + st.name) if (b['model_ok'] and self.has_spec) else [[] for _ in st.cases]
                nt = 0
                for i, c in enumerate(st.cases):
                    if model is not None:
                        k = first_diff(model[i], impl[i])
                        if k is not None:
                            corr_breaks.append((st.name, c, k, model[i][k] if k < len(model[i]) else '<nothing>',
                                                impl[i][k] if k < len(impl[i]) else '<nothing>'))
                    h = hashlib.sha256('\n'.join(c).encode()).digest()
                    if h not in seen_hashes:
                        seen_hashes.add(h)
                        if self.nontrivial(c, impl[i]):
                            nt += 1
                    for l in c:
                        kind = l.split(' ', 1)[0]
                        stats['op_kinds'][kind] = stats['op_kinds'].get(kind, 0) + 1
                for (i, k, reason) in self.judge(st.cases, impl, spec):
                    prop_fails.append((st.name, st.cases[i], reason))
                for k, (kind, _) in crashes.items():
                    stats['crashes'][kind] = stats['crashes'].get(kind, 0) + 1
                stats['streams'][st.name] = {'cases': len(st.cases), 'ops': sum(len(c) for c in st.cases),
                                             'nontrivial_distinct': nt, 'exhaustive': st.exhaustive,
                                             'wall_s': round(time.time() - t1, 2), 'note': st.note}
                stats['evaluations'] += len(st.cases)
                stats['distinct_nontrivial'] += nt
                for c, o in list(zip(st.cases, impl))[:1]:
                    stats['samples'].append({'stream': st.name, 'ops': c[:12], 'impl_obs': o[:6]})
            self.extra_checks(tier, rng, ctx)
        else:
            exhaustive_all = False

        # ---- classification (DESIGN 2.3 step 5/6) -------------------------------------------
        reported = set()

        def report_failing_input(stream, case, reason):
            pred = lambda c: self.property_fails(c) is not None
            small = self.shrink(case, pred) if len(case) > 1 else case
            r2 = self.property_fails(small)
            reason2 = r2[2] if r2 else reason
            key = '\n'.join(small)
            if key in reported:
                return
            reported.add(key)
            k = self.match_known(small, reason2, stream)
            if k:
                msg = 'KNOWN-FINDING: property=%s %s' % (self.id, k['title'])
                if msg not in known_printed:
                    known_printed.append(msg)
                    print(msg, flush=True)
                return
            p = self.write_replay('failing-input', 'property oracle on implementation observations (stream %s)' % stream,
                                  small, {'reason': reason2, 'original_length': len(case)})
            violations.append((p, ''))

        # group failing cases by reason shape so that one defect gives one report; bound the work
        groups = {}
        for (stn, c, reason) in prop_fails:
            gk = re.sub(r'\d+', 'N', reason)[:80]
            groups.setdefault(gk, []).append((stn, c, reason))
        for gk, items in list(groups.items())[:12]:
            items.sort(key=lambda x: len(x[1]))
            # a listed open finding must not hide other failing inputs whose reason happens to have the same shape:
            # report the shortest case that matches a listed finding (prints KNOWN-FINDING) AND the shortest that does not
            listed = [x for x in items if self.match_known(x[1], x[2], x[0])]
            others = [x for x in items if not self.match_known(x[1], x[2], x[0])]
            for sub in (listed, others):
                if sub:
                    stn, c, reason = sub[0]
                    report_failing_input(stn, c, reason)

        broken = None
        if not pr['ok']:
            broken = 'proof: %s' % json.dumps(pr['failing'])
        # a case on which the property itself fails (reported above, or a listed known finding)
        # explains its own model/implementation difference
        failing_keys = {'\n'.join(c) for (_, c, _) in prop_fails}
        unexplained = [x for x in corr_breaks if '\n'.join(x[1]) not in failing_keys]
        if unexplained:
            stn, c, k, ml, il = sorted(unexplained, key=lambda x: len(x[1]))[0]
            broken = (broken + ' ; ' if broken else '') + 'correspondence %s stream=%s line#%d model=`%s` impl=`%s` (%d cases differ)' % (
                self.comp, stn, k, ml, il, len(unexplained))
        if not can_run and not replay:
            broken = (broken + ' ; ' if broken else '') + 'build: ' + ' / '.join(x[:300] for x in b['errors'])
        if broken and not violations:
            case = sorted(unexplained, key=lambda x: len(x[1]))[0][1] if unexplained else []
            if unexplained and can_run:
                def still(cand):
                    i, _ = self.run_impl([cand], tag='shr_impl')
                    m = self.run_model([cand], tag='shr_model')
                    return first_diff(m[0], i[0]) is not None
                case = self.shrink(case, still, budget=200)
            p = self.write_replay('no-failing-input-found', broken, case,
                                  {'searched': stats['evaluations'], 'note': 'property oracle found no failing input on the explored cases'})
            violations.append((p, ' no-failing-input-found'))

        # ---- evidence -----------------------------------------------------------------------
        tb = ['Coq 8.16.1 kernel (coqc, vm_compute; no native_compute)',
              'extraction: ExtrOcamlBasic only, OCaml 4.13.1 ocamlopt, hand-written driver',
              'correspondence harness (C++), generators, g++ 12 ASan/UBSan']
        axs = sorted({a for bl in pr['assumptions'].values() for a in bl})
        tb.append('axioms reported by Print Assumptions over all property theorems: ' + (', '.join(axs) if axs else 'none (Closed under the global context)'))
        coverage = {
            'obligations': pr.get('obligations', 0), 'discharged': pr.get('discharged', 0),
            'checker_cmd': ' ; '.join(pr['cmds']) or 'n/a (replay)',
            'trusted_base': tb,
            'theorems': pr.get('theorems', []),
            'assumptions_per_theorem': pr['assumptions'],
            'evaluations': stats['evaluations'], 'distinct_nontrivial': stats['distinct_nontrivial'],
            'rule': self.rule, 'samples': stats['samples'][:8],
            'traces_validated_against_impl': stats['evaluations'] if b['model_ok'] else 0,
            'streams': stats['streams'], 'op_kinds': stats['op_kinds'], 'impl_crash_kinds': stats['crashes'],
            'correspondence_breaks': len(corr_breaks), 'property_failures': len(prop_fails),
            'known_findings_seen': known_printed, 'exhaustive': bool(exhaustive_all and streams),
            'tables_regenerated': pr.get('tables', []), 'repo': REPO, 'repo_tree_hash': repo_hash(),
        }
        ev = {'property_id': self.id, 'tier': tier, 'seed': seed, 'level': 'proof', 'coverage': coverage,
              'assumptions': self.assumptions, 'wall_s': round(time.time() - self.t0, 2), 'violations': len(violations)}
        if not replay:
            os.makedirs(os.path.join(VERIF, 'evidence'), exist_ok=True)
            json.dump(ev, open(os.path.join(VERIF, 'evidence', self.id + '.json'), 'w'), indent=1)
        for p, suffix in violations:
            print('VIOLATION property=%s replay=%s%s' % (self.id, p, suffix), flush=True)
        if not violations:
            log('[%s] ok: %d/%d obligations, %d cases (%d distinct non-trivial), %.1fs' % (
                self.id, coverage['discharged'], coverage['obligations'], stats['evaluations'], stats['distinct_nontrivial'], time.time() - self.t0))
        return 1 if violations else 0


def all_deps(comp, acc=None):
    acc = acc if acc is not None else []
    for d in coq_deps_of(comp):
        if d not in acc:
            acc.append(d)
            all_deps(d, acc)
    return acc


def coqproject_args(comp):
    args = []
    for line in open(os.path.join(COQ, comp, '_CoqProject')):
        line = line.strip()
        m = re.match(r'(-[QR])\s+(\S+)\s+(\S+)', line)
        if m:
            args += [m.group(1), m.group(2), m.group(3)]
        elif line.startswith('-arg'):
            args += line.split()[1:]
    return args


def hexs(bs):
    return bytes(bs).hex() if len(bs) else '-'
