// stack bytes per element used by List::sort: g++ -std=gnu++11 -O0|-O1|-O2 -DNDEBUG -I<tree>/include this.cpp -o depth; ./depth <n> <0=descending|1=ascending|2=scattered>
#include <stdio.h>
#include <stdlib.h>
#include <nstd/List.hpp>
static char* g_hi = 0; static char* g_lo = 0;
struct E { int v; E(int v=0):v(v){} bool operator<(const E& o) const { char c; char* p=&c; if(!g_hi||p>g_hi) g_hi=p; if(!g_lo||p<g_lo) g_lo=p; return v<o.v; } bool operator==(const E&o) const {return v==o.v;} bool operator!=(const E&o) const {return v!=o.v;} };
int main(int argc, char** argv) {
  int n = atoi(argv[1]); int mode = atoi(argv[2]);
  List<E> l; for(int i=0;i<n;++i) l.append(E(mode==0 ? n-i : mode==1 ? i : (i*7919)%n));
  l.sort();
  printf("n %d mode %d stack span %ld bytes = %.1f bytes/element\n", n, mode, (long)(g_hi-g_lo), (double)(g_hi-g_lo)/n);
  int prev=-1; for(List<E>::Iterator i=l.begin();i!=l.end();++i){ if(i->v<prev){printf("UNSORTED\n");return 1;} prev=i->v;}
  return 0;
}
