// Shared helpers for the correspondence harnesses.  C headers only: translation units that
// include nstd headers must not pull in <new> (nstd/Base.hpp defines placement new itself).
#pragma once
#include <stdio.h>
#include <stdlib.h>
#include <string.h>
#include <unistd.h>
#include <signal.h>

namespace vh {

struct Tok {
  char* v[64];
  int n;
};

static inline void split(char* line, Tok& t)
{
  t.n = 0;
  char* save = 0;
  for(char* p = strtok_r(line, " \t\r\n", &save); p && t.n < 64; p = strtok_r(0, " \t\r\n", &save))
    t.v[t.n++] = p;
}

// hex token ("-" = empty) -> exact-size heap copy (so ASan sees a one byte over-read); len out
static inline unsigned char* unhex(const char* s, size_t& len, size_t extra = 0)
{
  if(s[0] == '-' && s[1] == 0) { len = 0; unsigned char* b = (unsigned char*)malloc(extra ? extra : 1); if(extra) memset(b, 0, extra); return b; }
  size_t n = strlen(s) / 2;
  unsigned char* b = (unsigned char*)malloc(n + extra ? n + extra : 1);
  for(size_t i = 0; i < n; ++i) {
    unsigned v; sscanf(s + 2 * i, "%2x", &v); b[i] = (unsigned char)v;
  }
  for(size_t i = 0; i < extra; ++i) b[n + i] = 0;
  len = n;
  return b;
}

static inline void puthex(const unsigned char* b, size_t n)
{
  if(n == 0) { fputs("-", stdout); return; }
  for(size_t i = 0; i < n; ++i) printf("%02x", b[i]);
}

static inline int case_timeout()
{
  const char* e = getenv("VERIF_CASE_TIMEOUT");
  int t = e ? atoi(e) : 10;
  return t > 0 ? t : 10;
}

// Drives the case loop.  The callbacks are plain functions:
//   begin(caseno, ntok, tokens)   called on "case <n> [config…]"
//   op(caseno, opindex, tokens)   called on every op line
//   end(caseno)                   called on "end"
typedef void (*begin_fn)(long c, Tok& t);
typedef void (*op_fn)(long c, long i, Tok& t);
typedef void (*end_fn)(long c);

static inline int run(int argc, char** argv, begin_fn b, op_fn o, end_fn e)
{
  if(argc < 2) { fprintf(stderr, "usage: harness <ops file>\n"); return 2; }
  FILE* f = fopen(argv[argc - 1], "r");
  if(!f) { perror("ops"); return 2; }
  setvbuf(stdout, 0, _IOLBF, 0);
  char* line = 0; size_t cap = 0;
  long c = -1, i = 0;
  int tmo = case_timeout();
  while(getline(&line, &cap, f) > 0) {
    if(line[0] == '#' || line[0] == '\n') continue;
    Tok t; split(line, t);
    if(t.n == 0) continue;
    if(!strcmp(t.v[0], "case")) {
      c = atol(t.v[1]); i = 0;
      printf("#case %ld\n", c); fflush(stdout);
      alarm(tmo);
      if(b) b(c, t);
    } else if(!strcmp(t.v[0], "end")) {
      if(e) e(c);
      alarm(0);
      printf("#end %ld\n", c); fflush(stdout);
    } else {
      o(c, i, t);
      ++i;
    }
  }
  fclose(f);
  free(line);
  return 0;
}

} // namespace vh
