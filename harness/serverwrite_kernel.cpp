// Simulated kernel for C13 (DESIGN E5): this translation unit DEFINES send, epoll_ctl and
// epoll_wait, so the statically linked libnstd objects call these instead of libc's.
//  * send on the client's descriptor is answered by the scripted outcome of the current
//    operation (would-block, k bytes, all, 0, error).  Accepted bytes are recorded as "handed to
//    the operating system" and really sent through the socket pair to the peer end, where
//    they are read back eagerly (in order) into the peer's receive log.
//  * epoll_ctl is forwarded and recorded (which native events the client's descriptor is
//    registered for, and the user data of the registration).
//  * epoll_wait returns, per run() call, first the scripted (or the real, timeout 0) readiness
//    of the client's descriptor filtered the way epoll filters it, then the interrupt event.
// C interface only (no nstd headers here).
#include <stdio.h>
#include <stdlib.h>
#include <string.h>
#include <errno.h>
#include <dlfcn.h>
#include <unistd.h>
#include <sys/types.h>
#include <sys/socket.h>
#include <sys/epoll.h>
#include "serverwrite_kernel.h"

typedef ssize_t (*send_fn)(int, const void*, size_t, int);
typedef ssize_t (*recv_fn)(int, void*, size_t, int);
typedef int (*epoll_ctl_fn)(int, int, int, struct epoll_event*);
typedef int (*epoll_wait_fn)(int, struct epoll_event*, int, int);

static send_fn real_send;
static recv_fn real_recv;
static epoll_ctl_fn real_epoll_ctl;
static epoll_wait_fn real_epoll_wait;

static void resolve()
{
  if(real_send) return;
  real_send = (send_fn)dlsym(RTLD_NEXT, "send");
  real_recv = (recv_fn)dlsym(RTLD_NEXT, "recv");
  real_epoll_ctl = (epoll_ctl_fn)dlsym(RTLD_NEXT, "epoll_ctl");
  real_epoll_wait = (epoll_wait_fn)dlsym(RTLD_NEXT, "epoll_wait");
  if(!real_send || !real_recv || !real_epoll_ctl || !real_epoll_wait) { fprintf(stderr, "dlsym failed\n"); abort(); }
}

struct Bytes { unsigned char* p; size_t n, cap; };
static void b_add(Bytes& b, const void* d, size_t n)
{
  if(b.n + n > b.cap) { b.cap = (b.n + n) * 2 + 64; b.p = (unsigned char*)realloc(b.p, b.cap); }
  if(n) memcpy(b.p + b.n, d, n);
  b.n += n;
}

static int client_fd = -1, peer_fd = -1;
static int peer_open = 0;
static int out_kind = SK_NONE; static long out_k = 0;
static Bytes tx_log, peer_rx;
static char sendlog[512]; static size_t sendlog_n = 0;
static int registered = 0; static unsigned reg_mask = 0; static epoll_data_t reg_data;
static int ev_mode = SK_EV_OFF; static unsigned ev_native = 0; static int phase = 2;
static unsigned last_real = 0; static int last_real_valid = 0;
static long ctl_calls = 0;
// every registration seen (the client is registered by Server::pair before the harness knows its descriptor)
struct Reg { int fd; int on; unsigned mask; epoll_data_t data; };
static Reg regs[64]; static int nregs = 0;
static Reg* reg_of(int fd, int create)
{
  for(int i = 0; i < nregs; ++i) if(regs[i].fd == fd) return &regs[i];
  if(!create || nregs >= 64) return 0;
  regs[nregs].fd = fd; regs[nregs].on = 0; regs[nregs].mask = 0;
  return &regs[nregs++];
}

extern "C" void sk_reset()
{
  resolve();
  client_fd = peer_fd = -1; peer_open = 0;
  out_kind = SK_NONE; out_k = 0;
  tx_log.n = 0; peer_rx.n = 0; sendlog_n = 0; sendlog[0] = 0;
  registered = 0; reg_mask = 0; ev_mode = SK_EV_OFF; ev_native = 0; phase = 2; last_real_valid = 0; ctl_calls = 0;
  nregs = 0;
}

extern "C" void sk_attach(int cfd, int pfd)
{
  client_fd = cfd; peer_fd = pfd; peer_open = 1;
  Reg* r = reg_of(cfd, 0);
  if(r && r->on) { registered = 1; reg_mask = r->mask; reg_data = r->data; }
}
extern "C" void sk_detach_client() { client_fd = -1; registered = 0; }
extern "C" void sk_set_outcome(int kind, long k) { out_kind = kind; out_k = k; }
extern "C" void sk_get_outcome(int* kind, long* k) { *kind = out_kind; *k = out_k; }
extern "C" void sk_arm_event(int mode, unsigned native) { ev_mode = mode; ev_native = native; phase = 0; last_real_valid = 0; }
extern "C" void sk_disarm_event() { ev_mode = SK_EV_OFF; phase = 2; }

static void drain_peer()
{
  if(!peer_open) return;
  unsigned char buf[65536];
  for(;;) {
    ssize_t r = real_recv(peer_fd, buf, sizeof(buf), MSG_DONTWAIT);
    if(r <= 0) break;
    b_add(peer_rx, buf, (size_t)r);
  }
}

extern "C" void sk_peer_drain() { drain_peer(); }
extern "C" void sk_peer_close() { drain_peer(); peer_open = 0; }

extern "C" size_t sk_take_tx(unsigned char** p) { *p = tx_log.p; size_t n = tx_log.n; tx_log.n = 0; return n; }
extern "C" size_t sk_take_peer(unsigned char** p) { *p = peer_rx.p; size_t n = peer_rx.n; peer_rx.n = 0; return n; }
extern "C" const char* sk_take_sendlog() { static char copy[512]; memcpy(copy, sendlog, sizeof(copy)); sendlog_n = 0; sendlog[0] = 0; return copy; }
extern "C" int sk_registered() { return registered; }
extern "C" unsigned sk_reg_mask() { return reg_mask; }
extern "C" int sk_last_real(unsigned* m) { *m = last_real; return last_real_valid; }

static void log_send(size_t n, long r, const char* note)
{
  int w = snprintf(sendlog + sendlog_n, sizeof(sendlog) - sendlog_n, "%s%zu>%ld%s", sendlog_n ? "," : "", n, r, note);
  if(w > 0 && sendlog_n + (size_t)w < sizeof(sendlog)) sendlog_n += (size_t)w;
}

extern "C" ssize_t send(int fd, const void* data, size_t n, int flags)
{
  resolve();
  if(fd != client_fd || client_fd < 0)
    return real_send(fd, data, n, flags);
  int kind = out_kind; long k = out_k;
  out_kind = SK_NONE;                         // one scripted answer per operation
  const char* note = "";
  if(kind == SK_NONE) { kind = SK_FULL; note = "!unscripted"; }
  if((flags & MSG_NOSIGNAL) == 0) note = "!nosignal-missing";
  long r;
  switch(kind) {
  case SK_WOULDBLOCK: log_send(n, -1, note); errno = EAGAIN; return -1;
  case SK_ERROR: log_send(n, -1, note); errno = ECONNRESET; return -1;
  case SK_ZERO: log_send(n, 0, note); return 0;
  case SK_FULL: r = (long)n; break;
  default: r = k < 1 ? 1 : k; if((size_t)r > n) r = (long)n; break;
  }
  // the kernel takes r bytes: they are now the operating system's, in this order
  b_add(tx_log, data, (size_t)r);
  if(peer_open) {
    const unsigned char* p = (const unsigned char*)data; size_t left = (size_t)r;
    int spins = 0;
    while(left) {
      ssize_t w = real_send(fd, p, left, MSG_NOSIGNAL | MSG_DONTWAIT);
      if(w > 0) { p += w; left -= (size_t)w; continue; }
      if(w < 0 && (errno == EAGAIN || errno == EWOULDBLOCK) && ++spins < 100000) { drain_peer(); continue; }
      fprintf(stderr, "simulated kernel: real send failed: %s\n", strerror(errno)); abort();
    }
    drain_peer();
  }
  log_send(n, r, note);
  return r;
}

extern "C" int epoll_ctl(int epfd, int op, int fd, struct epoll_event* ev)
{
  resolve();
  if(Reg* r = reg_of(fd, 1)) {
    if(op == EPOLL_CTL_DEL) { r->on = 0; r->mask = 0; }
    else { r->on = 1; r->mask = ev->events; r->data = ev->data; }
  }
  if(fd == client_fd && client_fd >= 0) {
    ++ctl_calls;
    if(op == EPOLL_CTL_DEL) { registered = 0; reg_mask = 0; }
    else { registered = 1; reg_mask = ev->events; reg_data = ev->data; }
  }
  return real_epoll_ctl(epfd, op, fd, ev);
}

extern "C" int epoll_wait(int epfd, struct epoll_event* events, int maxevents, int timeout)
{
  resolve();
  if(ev_mode == SK_EV_OFF)
    return real_epoll_wait(epfd, events, maxevents, timeout);
  if(phase == 0) {
    phase = 1;
    if(ev_mode == SK_EV_SCRIPT) {
      if(registered) {
        unsigned d = (ev_native & reg_mask) | (ev_native & (EPOLLHUP | EPOLLERR));
        if(d) { events[0].events = d; events[0].data = reg_data; return 1; }
      }
    } else if(ev_mode == SK_EV_REAL) {
      struct epoll_event tmp[64];
      int c = real_epoll_wait(epfd, tmp, 64, 0);
      int m = 0;
      last_real = 0; last_real_valid = 1;
      for(int i = 0; i < c && m < maxevents; ++i)
        if(tmp[i].data.ptr) { events[m++] = tmp[i]; last_real |= tmp[i].events; }   // drop the interrupt eventfd here
      if(m) return m;
    }
  }
  // the interrupt event (Server::interrupt() was called before run(), the eventfd is readable)
  phase = 2;
  events[0].events = EPOLLIN; events[0].data.ptr = 0;
  return 1;
}
