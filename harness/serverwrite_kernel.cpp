// Simulated kernel for C13 (DESIGN E5): this translation unit DEFINES send, epoll_ctl and
// epoll_wait, so the statically linked libnstd objects call these instead of libc's.
//  * send on a client's descriptor is answered by the next scripted outcome (would-block, k bytes,
//    all, 0, error).  Accepted bytes are recorded as "handed to the operating system" and really
//    sent through the socket pair to the peer end, where they are read back eagerly (in order)
//    into the peer's receive log.
//  * epoll_ctl is forwarded and recorded (which native events each client descriptor is
//    registered for, and the user data of the registration).
//  * epoll_wait returns, per run() call, first ONE batch with the scripted readiness of the client
//    descriptors (in the scripted order, filtered the way epoll filters: registered events plus
//    EPOLLHUP/EPOLLERR) or the real readiness (timeout 0), then the interrupt event.
//  * a send call the script has no answer for (the implementation issues more send calls than the
//    history anticipated) is answered would-block and marked `!unscripted` in the send log: a defined
//    answer of the kernel that no oracle judges by itself.
//  * every send call on a client descriptor is also recorded as a token of the ordered event trace
//    the property monitor reads (serverwrite_kernel.h).
//  * epoll_wait also tells the trace what the kernel finds when asked: O<i> socket writable, I<i> unread input.
//  * `sk_with_interrupt`: the interrupt event is reported in the SAME batch as the scripted client events (a real
//    kernel does that whenever interrupt() races with readiness): Poll::poll keeps the batch cached and returns
//    without flags; the following run() hands the cached events out.
// Up to SK_NC client descriptors (A = 0, B = 1, ...).  C interface only (no nstd headers here).
#include <stdio.h>
#include <stdlib.h>
#include <string.h>
#include <errno.h>
#include <dlfcn.h>
#include <unistd.h>
#include <sys/types.h>
#include <sys/socket.h>
#include <sys/epoll.h>
#include <sys/ioctl.h>
#include "serverwrite_kernel.h"

typedef ssize_t (*send_fn)(int, const void*, size_t, int);
typedef ssize_t (*recv_fn)(int, void*, size_t, int);
typedef int (*epoll_ctl_fn)(int, int, int, struct epoll_event*);
typedef int (*epoll_wait_fn)(int, struct epoll_event*, int, int);

static send_fn real_send;
static recv_fn real_recv;
static epoll_ctl_fn real_epoll_ctl;
static epoll_wait_fn real_epoll_wait;

static void resolve()
{
  if(real_send) return;
  real_send = (send_fn)dlsym(RTLD_NEXT, "send");
  real_recv = (recv_fn)dlsym(RTLD_NEXT, "recv");
  real_epoll_ctl = (epoll_ctl_fn)dlsym(RTLD_NEXT, "epoll_ctl");
  real_epoll_wait = (epoll_wait_fn)dlsym(RTLD_NEXT, "epoll_wait");
  if(!real_send || !real_recv || !real_epoll_ctl || !real_epoll_wait) { fprintf(stderr, "dlsym failed\n"); abort(); }
}

struct Bytes { unsigned char* p; size_t n, cap; };
static void b_add(Bytes& b, const void* d, size_t n)
{
  if(b.n + n > b.cap) { b.cap = (b.n + n) * 2 + 64; b.p = (unsigned char*)realloc(b.p, b.cap); }
  if(n) memcpy(b.p + b.n, d, n);
  b.n += n;
}

#define NC SK_NC
static int client_fd[NC] = {-1, -1, -1, -1}, peer_fd[NC] = {-1, -1, -1, -1};
static int peer_open[NC];
static sk_outcomes outq;
static Bytes tx_log[NC], peer_rx[NC];
static char sendlog[1024]; static size_t sendlog_n = 0;
static Bytes trace, trace_copy;
static int tag_sends = 0;
static int registered[NC]; static unsigned reg_mask[NC]; static epoll_data_t reg_data[NC];
static int ev_mode = SK_EV_OFF; static int phase = 2; static int with_intr = 0; static int intr_seen = 0;
static int ev_n = 0; static int ev_idx[8]; static unsigned ev_native[8];
// every registration seen (a client is registered by Server::pair before the harness knows its descriptor)
struct Reg { int fd; int on; unsigned mask; epoll_data_t data; };
static Reg regs[64]; static int nregs = 0;
static Reg* reg_of(int fd, int create)
{
  for(int i = 0; i < nregs; ++i) if(regs[i].fd == fd) return &regs[i];
  if(!create || nregs >= 64) return 0;
  regs[nregs].fd = fd; regs[nregs].on = 0; regs[nregs].mask = 0;
  return &regs[nregs++];
}
static int idx_of(int fd)
{
  if(fd < 0) return -1;
  for(int i = 0; i < NC; ++i) if(client_fd[i] == fd) return i;
  return -1;
}

extern "C" void sk_reset()
{
  resolve();
  for(int i = 0; i < NC; ++i) {
    client_fd[i] = peer_fd[i] = -1; peer_open[i] = 0; tx_log[i].n = 0; peer_rx[i].n = 0;
    registered[i] = 0; reg_mask[i] = 0;
  }
  outq.n = 0;
  sendlog_n = 0; sendlog[0] = 0; tag_sends = 0;
  trace.n = 0;
  ev_mode = SK_EV_OFF; ev_n = 0; phase = 2; with_intr = 0; intr_seen = 0;
  nregs = 0;
}

extern "C" void sk_attach(int idx, int cfd, int pfd)
{
  client_fd[idx] = cfd; peer_fd[idx] = pfd; peer_open[idx] = 1;
  Reg* r = reg_of(cfd, 0);
  if(r && r->on) { registered[idx] = 1; reg_mask[idx] = r->mask; reg_data[idx] = r->data; }
}
extern "C" void sk_tag_sends(int on) { tag_sends = on; }
extern "C" void sk_detach_client(int idx) { client_fd[idx] = -1; registered[idx] = 0; }
extern "C" void sk_set_outcome(int kind, long k) { outq.n = 0; if(kind != SK_NONE) { outq.kind[0] = kind; outq.k[0] = k; outq.n = 1; } }
extern "C" void sk_push_outcome(int kind, long k) { if(outq.n < SK_MAXQ) { outq.kind[outq.n] = kind; outq.k[outq.n] = k; ++outq.n; } }
extern "C" void sk_get_outcomes(sk_outcomes* o) { *o = outq; }
extern "C" void sk_put_outcomes(const sk_outcomes* o) { outq = *o; }
extern "C" void sk_arm_event(int mode) { ev_mode = mode; ev_n = 0; phase = 0; with_intr = 0; intr_seen = 0; }
extern "C" void sk_with_interrupt(int on) { with_intr = on; }
extern "C" int sk_interrupt_seen() { return intr_seen; }
extern "C" void sk_add_event(int idx, unsigned native) { if(ev_n < 8) { ev_idx[ev_n] = idx; ev_native[ev_n] = native; ++ev_n; } }
extern "C" void sk_disarm_event() { ev_mode = SK_EV_OFF; phase = 2; }

static void drain_peer(int idx)
{
  if(!peer_open[idx]) return;
  unsigned char buf[65536];
  for(;;) {
    ssize_t r = real_recv(peer_fd[idx], buf, sizeof(buf), MSG_DONTWAIT);
    if(r <= 0) break;
    b_add(peer_rx[idx], buf, (size_t)r);
  }
}

extern "C" void sk_peer_drain(int idx) { drain_peer(idx); }
extern "C" void sk_peer_close(int idx) { drain_peer(idx); peer_open[idx] = 0; }

extern "C" size_t sk_take_tx(int idx, unsigned char** p) { *p = tx_log[idx].p; size_t n = tx_log[idx].n; tx_log[idx].n = 0; return n; }
extern "C" size_t sk_take_peer(int idx, unsigned char** p) { *p = peer_rx[idx].p; size_t n = peer_rx[idx].n; peer_rx[idx].n = 0; return n; }
extern "C" const char* sk_take_sendlog() { static char copy[1024]; memcpy(copy, sendlog, sizeof(copy)); sendlog_n = 0; sendlog[0] = 0; return copy; }
extern "C" int sk_registered(int idx) { return registered[idx]; }
extern "C" unsigned sk_reg_mask(int idx) { return reg_mask[idx]; }

extern "C" void sk_trace_add(const char* token)
{
  if(trace.n) b_add(trace, ",", 1);
  b_add(trace, token, strlen(token));
}
extern "C" const char* sk_take_trace()
{
  trace_copy.n = 0;
  b_add(trace_copy, trace.p, trace.n);
  b_add(trace_copy, "", 1);
  trace.n = 0;
  return (const char*)trace_copy.p;
}
static void trace_send(int idx, size_t n, long r, char kind, int unscripted)
{
  char tok[96];
  snprintf(tok, sizeof(tok), "S%d:%zu:%ld:%c%s", idx, n, r, kind, unscripted ? "u" : "");
  sk_trace_add(tok);
}

static void log_send(int idx, size_t n, long r, const char* note)
{
  char tag[4] = {0, 0, 0, 0};
  if(tag_sends) { tag[0] = (char)('A' + idx); tag[1] = ':'; }
  int w = snprintf(sendlog + sendlog_n, sizeof(sendlog) - sendlog_n, "%s%s%zu>%ld%s", sendlog_n ? "," : "", tag, n, r, note);
  if(w > 0 && sendlog_n + (size_t)w < sizeof(sendlog)) sendlog_n += (size_t)w;
}

extern "C" ssize_t send(int fd, const void* data, size_t n, int flags)
{
  resolve();
  int idx = idx_of(fd);
  if(idx < 0)
    return real_send(fd, data, n, flags);
  int kind = SK_NONE; long k = 0;
  if(outq.n > 0) {                            // one scripted answer per send call
    kind = outq.kind[0]; k = outq.k[0];
    for(int i = 1; i < outq.n; ++i) { outq.kind[i - 1] = outq.kind[i]; outq.k[i - 1] = outq.k[i]; }
    --outq.n;
  }
  const char* note = "";
  int unscripted = 0;
  if(kind == SK_NONE) { kind = SK_WOULDBLOCK; note = "!unscripted"; unscripted = 1; }
  if((flags & MSG_NOSIGNAL) == 0) note = "!nosignal-missing";
  long r;
  switch(kind) {
  case SK_WOULDBLOCK: log_send(idx, n, -1, note); trace_send(idx, n, -1, 'w', unscripted); errno = EAGAIN; return -1;
  case SK_ERROR: log_send(idx, n, -1, note); trace_send(idx, n, -1, 'f', 0); errno = ECONNRESET; return -1;
  case SK_ZERO: log_send(idx, n, 0, note); trace_send(idx, n, 0, n ? 'f' : 'z', 0); return 0;
  case SK_FULL: r = (long)n; break;
  default: r = k < 1 ? 1 : k; if((size_t)r > n) r = (long)n; break;
  }
  trace_send(idx, n, r, r > 0 ? 't' : n ? 'f' : 'z', 0);   // a send of 0 bytes returns 0: the library takes that for a closed connection
  // the kernel takes r bytes: they are now the operating system's, in this order
  b_add(tx_log[idx], data, (size_t)r);
  if(peer_open[idx]) {
    const unsigned char* p = (const unsigned char*)data; size_t left = (size_t)r;
    int spins = 0;
    while(left) {
      ssize_t w = real_send(fd, p, left, MSG_NOSIGNAL | MSG_DONTWAIT);
      if(w > 0) { p += w; left -= (size_t)w; continue; }
      if(w < 0 && (errno == EAGAIN || errno == EWOULDBLOCK) && ++spins < 100000) { drain_peer(idx); continue; }
      fprintf(stderr, "simulated kernel: real send failed: %s\n", strerror(errno)); abort();
    }
    drain_peer(idx);
  }
  log_send(idx, n, r, note);
  return r;
}

extern "C" int epoll_ctl(int epfd, int op, int fd, struct epoll_event* ev)
{
  resolve();
  if(Reg* r = reg_of(fd, 1)) {
    if(op == EPOLL_CTL_DEL) { r->on = 0; r->mask = 0; }
    else { r->on = 1; r->mask = ev->events; r->data = ev->data; }
  }
  int idx = idx_of(fd);
  if(idx >= 0) {
    if(op == EPOLL_CTL_DEL) { registered[idx] = 0; reg_mask[idx] = 0; }
    else { registered[idx] = 1; reg_mask[idx] = ev->events; reg_data[idx] = ev->data; }
  }
  return real_epoll_ctl(epfd, op, fd, ev);
}

extern "C" int epoll_wait(int epfd, struct epoll_event* events, int maxevents, int timeout)
{
  resolve();
  if(ev_mode == SK_EV_OFF)
    return real_epoll_wait(epfd, events, maxevents, timeout);
  if(phase == 0) {
    phase = 1;
    if(ev_mode == SK_EV_SCRIPT) {
      int m = 0;
      for(int i = 0; i < ev_n; ++i) {             // what the kernel finds, whatever the library registered for
        if(client_fd[ev_idx[i]] < 0) continue;
        char tok[8];
        if(ev_native[i] & EPOLLOUT) { snprintf(tok, sizeof(tok), "O%d", ev_idx[i]); sk_trace_add(tok); }
        if(ev_native[i] & EPOLLIN) { snprintf(tok, sizeof(tok), "I%d", ev_idx[i]); sk_trace_add(tok); }
      }
      for(int i = 0; i < ev_n && m < maxevents; ++i) {
        int idx = ev_idx[i];
        if(!registered[idx]) continue;
        unsigned d = (ev_native[i] & reg_mask[idx]) | (ev_native[i] & (EPOLLHUP | EPOLLERR));
        if(d) { events[m].events = d; events[m].data = reg_data[idx]; ++m; }
      }
      if(with_intr && m < maxevents) {            // the interrupt raced with the readiness: same batch
        events[m].events = EPOLLIN; events[m].data.ptr = 0; ++m;
        phase = 2; intr_seen = 1;
      }
      if(m) return m;
    } else if(ev_mode == SK_EV_REAL) {
      struct epoll_event tmp[64];
      for(int i = 0; i < NC; ++i)                 // the send queue of the real socket pair is never full
        if(client_fd[i] >= 0) {
          char tok[8]; snprintf(tok, sizeof(tok), "O%d", i); sk_trace_add(tok);
          int avail = 0;
          if((ioctl(client_fd[i], FIONREAD, &avail) == 0 && avail > 0) || !peer_open[i]) { snprintf(tok, sizeof(tok), "I%d", i); sk_trace_add(tok); }
        }
      int c = real_epoll_wait(epfd, tmp, 64, 0);
      int m = 0;
      for(int i = 0; i < c && m < maxevents; ++i)
        if(tmp[i].data.ptr) events[m++] = tmp[i];   // drop the interrupt eventfd here
      if(m) return m;
    }
  }
  // the interrupt event (Server::interrupt() was called before run(), the eventfd is readable)
  phase = 2; intr_seen = 1;
  events[0].events = EPOLLIN; events[0].data.ptr = 0;
  return 1;
}
