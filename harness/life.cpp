// Correspondence harness for C04: drives the real Array / List / Map / MultiMap / HashMap /
// HashSet / PoolList / PoolMap with an element type that owns a heap cell and records every
// construction, copy, assignment and destruction in a registry of instances.  After every
// operation it prints the contents of all container variables, the number of live instances that
// the contents account for (all live instances minus what an empty container of each kind holds,
// measured at start-up), the number of lifetime anomalies the registry saw (an instance found at
// another address than the one it was constructed at is an anomaly), then - model section - the
// number of all live instances, the events of the operation in the order
// they happened (instance ids = construction serials; container allocations = allocation
// serials, taken from ASan's malloc/free hooks inside the window of the library call), the
// number of live container allocations and capacity() / the length of the free-item list.
#include "vh.hpp"
#include <errno.h>
#include <nstd/Base.hpp>

extern "C" int __sanitizer_install_malloc_and_free_hooks(void (*malloc_hook)(const volatile void*, size_t),
                                                         void (*free_hook)(const volatile void*));

// ---- registry of element instances ----------------------------------------------------------
enum { MAXI = 1 << 20, EVCAP = 1 << 18, MAXB = 4096, RUNAWAY = 200000 };
static unsigned char g_state[MAXI];   // 0 never constructed, 1 live, 2 destroyed
static int g_next = 1;
static long g_live = 0, g_bad = 0;
static volatile int g_intr = 0;       // inside element code: its own cell is not a container allocation
static volatile int g_win = 0;        // inside a library call
static char g_ev[EVCAP];
static int g_evlen = 0;

static void ev(const char* fmt, long a, long b)
{
  if(g_evlen > EVCAP - 64) return;
  if(g_evlen) g_ev[g_evlen++] = ',';
  g_evlen += snprintf(g_ev + g_evlen, 48, fmt, a, b);
}

// ---- ledger of container allocations ----------------------------------------------------------
static const volatile void* g_baddr[MAXB];
static int g_bser[MAXB];
static int g_nb = 0, g_bnext = 1;
static void on_malloc(const volatile void* p, size_t)
{
  if(!g_win || g_intr || !p) return;
  if(g_nb < MAXB) { g_baddr[g_nb] = p; g_bser[g_nb] = g_bnext; ++g_nb; }
  ev("+%ld", g_bnext++, 0);
}
static void on_free(const volatile void* p)
{
  if(!p) return;
  for(int i = g_nb - 1; i >= 0; --i)
    if(g_baddr[i] == p) {
      ev("-%ld", g_bser[i], 0);
      g_baddr[i] = g_baddr[g_nb - 1]; g_bser[i] = g_bser[g_nb - 1]; --g_nb;
      return;
    }
}

// ---- the element type -----------------------------------------------------------------------------
// a constructor argument of PoolList::append(a1, ..., an): an integer, or a reference (held as a
// pointer) to an existing instance that the constructor reads
struct Src { const void* ref; int z; };

template<int TAG> struct Tr
{
  int* cell;
  int id;
  unsigned magic;
  const Tr* self;                     // where this instance was constructed: an instance that was moved
                                      // bitwise (memcpy / realloc relocation) is not a constructed instance
  enum { LIVE = 0x51AB1E00u + TAG, GONE = 0xDEAD0000u + TAG };

  bool alive() const { return magic == LIVE && self == this && id > 0 && id < MAXI && g_state[id] == 1; }
  int read() const { if(!alive()) ++g_bad; return *cell; }          // *cell of a dead instance: ASan
  int peek() const { return *cell; }
  void init(int v)
  {
    ++g_intr;
    cell = (int*)malloc(sizeof(int)); *cell = v;
    --g_intr;
    id = g_next++; magic = LIVE; self = this;
    if(id < MAXI) g_state[id] = 1;
    if(++g_live > RUNAWAY) { fflush(stdout); fprintf(stderr, "runaway: %ld live instances\n", g_live); _exit(3); }
  }
  Tr() { init(0); ev("D%ld", id, 0); }
  explicit Tr(int v) { init(v); ev("V%ld=%ld", id, v); }
  Tr(const Tr& o) { int v = o.read(); init(v); ev("C%ld<%ld", id, o.id); }
  // T(a1, ..., an): reads the arguments in order, payload = their sum
  void make(const Src* a, int n)
  {
    int v = 0; long ids[8]; int nid = 0;
    for(int i = 0; i < n; ++i) {
      if(a[i].ref) { const Tr* r = (const Tr*)a[i].ref; v += r->read(); ids[nid++] = r->id; }
      else v += a[i].z;
    }
    init(v);
    ev("M%ld=%ld", id, v);
    for(int i = 0; i < nid && g_evlen < EVCAP - 64; ++i) g_evlen += snprintf(g_ev + g_evlen, 24, "<%ld", ids[i]);
  }
  explicit Tr(Src a) { Src v[] = {a}; make(v, 1); }
  Tr(Src a, Src b) { Src v[] = {a, b}; make(v, 2); }
  Tr(Src a, Src b, Src c) { Src v[] = {a, b, c}; make(v, 3); }
  Tr(Src a, Src b, Src c, Src d) { Src v[] = {a, b, c, d}; make(v, 4); }
  Tr(Src a, Src b, Src c, Src d, Src e) { Src v[] = {a, b, c, d, e}; make(v, 5); }
  Tr(Src a, Src b, Src c, Src d, Src e, Src f) { Src v[] = {a, b, c, d, e, f}; make(v, 6); }
  Tr(Src a, Src b, Src c, Src d, Src e, Src f, Src g) { Src v[] = {a, b, c, d, e, f, g}; make(v, 7); }
  Tr& operator=(const Tr& o)
  {
    int v = o.read();
    if(!alive()) ++g_bad;
    if(this != &o) {
      ++g_intr;
      free(cell); cell = (int*)malloc(sizeof(int)); *cell = v;
      --g_intr;
    }
    ev("A%ld<%ld", id, o.id);
    return *this;
  }
  ~Tr()
  {
    if(alive()) { g_state[id] = 2; --g_live; } else ++g_bad;
    ev("X%ld", id, 0);
    ++g_intr;
    free(cell);                                                       // second destruction: ASan double free
    --g_intr;
    magic = GONE;
  }
  bool operator==(const Tr& o) const { return read() == o.read(); }
  bool operator!=(const Tr& o) const { return read() != o.read(); }
  bool operator<(const Tr& o) const { return read() < o.read(); }
  bool operator>(const Tr& o) const { return read() > o.read(); }
  bool operator<=(const Tr& o) const { return read() <= o.read(); }
  bool operator>=(const Tr& o) const { return read() >= o.read(); }
};
template<int TAG> inline usize hash(const Tr<TAG>& t) { return (usize)t.read(); }
typedef Tr<0> K;
typedef Tr<1> V;

#define private public
#define protected public
#include <nstd/Array.hpp>
#include <nstd/List.hpp>
#include <nstd/Map.hpp>
#include <nstd/MultiMap.hpp>
#include <nstd/HashMap.hpp>
#include <nstd/HashSet.hpp>
#include <nstd/PoolList.hpp>
#include <nstd/PoolMap.hpp>
#undef private
#undef protected

// is `a = b` available for C?  (MultiMap had no usable copy assignment before the repair)
template<typename C> struct can_assign
{
  template<typename U> static char test(int, decltype((*(U*)0 = *(const U*)0), 0) = 0);
  template<typename U> static long test(...);
  enum { value = sizeof(test<C>(0)) == sizeof(char) };
};
template<typename C, bool OK> struct do_assign { static bool go(C& a, const C& b) { a = b; return true; } };
template<typename C> struct do_assign<C, false> { static bool go(C&, const C&) { return false; } };

// ---- container variables ----------------------------------------------------------------------------
enum Kind { DEADV = 0, ARRAY, LIST, MAP, MULTIMAP, HASHMAP, HASHSET, POOLLIST, POOLMAP };
static const char* kind_names[] = { "-", "array", "list", "map", "multimap", "hashmap", "hashset", "poollist", "poolmap" };
enum { NV = 3 };

typedef Array<V> TA;
typedef List<V> TL;
typedef Map<K, V> TM;
typedef MultiMap<K, V> TMM;
typedef HashMap<K, V> THM;
typedef HashSet<K> THS;
typedef PoolList<V> TPL;
typedef PoolMap<K, V> TPM;

union Store { char a[sizeof(TA)]; char l[sizeof(TL)]; char m[sizeof(TM)]; char mm[sizeof(TMM)]; char hm[sizeof(THM)];
              char hs[sizeof(THS)]; char pl[sizeof(TPL)]; char pm[sizeof(TPM)]; long long al; double d; };
static Store store[NV];
static Kind kindv[NV];
#define AS(T, x) ((T*)(void*)&store[x])

static bool has_key(Kind k) { return k == MAP || k == MULTIMAP || k == HASHMAP || k == HASHSET || k == POOLMAP; }
static bool has_val(Kind k) { return k != HASHSET && k != DEADV; }
static bool copyable(Kind k) { return k != POOLLIST && k != POOLMAP; }
static bool livev(long x) { return x >= 0 && x < NV && kindv[x] != DEADV; }

template<typename C> static long csize(const C& c) { return (long)c.size(); }
static long size_of(int x)
{
  switch(kindv[x]) {
  case ARRAY: return csize(*AS(TA, x));
  case LIST: return csize(*AS(TL, x));
  case MAP: return csize(*AS(TM, x));
  case MULTIMAP: return csize(*AS(TMM, x));
  case HASHMAP: return csize(*AS(THM, x));
  case HASHSET: return csize(*AS(THS, x));
  case POOLLIST: return csize(*AS(TPL, x));
  case POOLMAP: return csize(*AS(TPM, x));
  default: return 0;
  }
}

template<typename C> static typename C::Iterator iter_at(C& c, long i)
{
  typename C::Iterator it = c.begin();
  for(long k = 0; k < i && it != c.end(); ++k) ++it;
  return it;
}

// references to stored keys / values
static const K* key_ref(int y, long i)
{
  if(!livev(y) || !has_key(kindv[y]) || i < 0 || i >= size_of(y)) return 0;
  switch(kindv[y]) {
  case MAP: return &iter_at(*AS(TM, y), i).key();
  case MULTIMAP: return &iter_at(*AS(TMM, y), i).key();
  case HASHMAP: return &iter_at(*AS(THM, y), i).key();
  case HASHSET: return &*iter_at(*AS(THS, y), i);
  case POOLMAP: return &iter_at(*AS(TPM, y), i).key();
  default: return 0;
  }
}
static const V* val_ref(int y, long i)
{
  if(!livev(y) || !has_val(kindv[y]) || i < 0 || i >= size_of(y)) return 0;
  switch(kindv[y]) {
  case ARRAY: return &((V*)*AS(TA, y))[i];
  case LIST: return &*iter_at(*AS(TL, y), i);
  case MAP: return &*iter_at(*AS(TM, y), i);
  case MULTIMAP: return &*iter_at(*AS(TMM, y), i);
  case HASHMAP: return &*iter_at(*AS(THM, y), i);
  case POOLLIST: return &*iter_at(*AS(TPL, y), i);
  case POOLMAP: return &*iter_at(*AS(TPM, y), i);
  default: return 0;
  }
}

// an argument: 0 = invalid, 1 = integer (a temporary is constructed around the call), 2 = reference
struct Arg { int mode; int z; const K* k; const V* v; };
static Arg parse_arg(const char* s, bool want_key)
{
  Arg a; a.mode = 0; a.z = 0; a.k = 0; a.v = 0;
  if(!strcmp(s, "-")) { a.mode = 1; return a; }
  if(s[0] == 'k' || s[0] == 'v') {
    int y = 0; long i = 0;
    if(sscanf(s + 1, "%d.%ld", &y, &i) != 2) return a;
    if(s[0] == 'k' && want_key) { a.k = key_ref(y, i); a.mode = a.k ? 2 : 0; }
    else if(s[0] == 'v' && !want_key) { a.v = val_ref(y, i); a.mode = a.v ? 2 : 0; }
    return a;
  }
  a.mode = 1; a.z = atoi(s);
  return a;
}

// ---- printing -------------------------------------------------------------------------------------------
template<typename C> static void dump_kv(C& c)
{
  bool first = true;
  for(typename C::Iterator i = c.begin(), e = c.end(); i != e; ++i) {
    printf(first ? "%d:%d" : " %d:%d", i.key().peek(), (*i).peek()); first = false;
  }
}
template<typename C> static void dump_v(C& c)
{
  bool first = true;
  for(typename C::Iterator i = c.begin(), e = c.end(); i != e; ++i) {
    printf(first ? "_:%d" : " _:%d", (*i).peek()); first = false;
  }
}
template<typename C> static void dump_k(C& c)
{
  bool first = true;
  for(typename C::Iterator i = c.begin(), e = c.end(); i != e; ++i) {
    printf(first ? "%d:_" : " %d:_", (*i).peek()); first = false;
  }
}
template<typename C> static long free_len(C& c)
{
  long n = 0;
  for(typename C::Item* i = c.freeItem; i; i = i->prev) ++n;
  return n;
}

static void dump_state(void)
{
  for(int x = 0; x < NV; ++x) {
    if(x) printf(" ; ");
    if(kindv[x] == DEADV) { printf("-"); continue; }
    printf("%s[", kind_names[kindv[x]]);
    switch(kindv[x]) {
    case ARRAY: dump_v(*AS(TA, x)); break;
    case LIST: dump_v(*AS(TL, x)); break;
    case MAP: dump_kv(*AS(TM, x)); break;
    case MULTIMAP: dump_kv(*AS(TMM, x)); break;
    case HASHMAP: dump_kv(*AS(THM, x)); break;
    case HASHSET: dump_k(*AS(THS, x)); break;
    case POOLLIST: dump_v(*AS(TPL, x)); break;
    case POOLMAP: dump_kv(*AS(TPM, x)); break;
    default: break;
    }
    printf("]");
  }
}
static void dump_caps(void)
{
  for(int x = 0; x < NV; ++x) {
    if(x) printf(",");
    switch(kindv[x]) {
    case ARRAY: printf("%ld", (long)AS(TA, x)->capacity()); break;
    case LIST: printf("f%ld", free_len(*AS(TL, x))); break;
    case MAP: printf("f%ld", free_len(*AS(TM, x))); break;
    case MULTIMAP: printf("f%ld", free_len(*AS(TMM, x))); break;
    case HASHMAP: printf("f%ld", free_len(*AS(THM, x))); break;
    case HASHSET: printf("f%ld", free_len(*AS(THS, x))); break;
    case POOLLIST: printf("f%ld", free_len(*AS(TPL, x))); break;
    case POOLMAP: printf("f%ld", free_len(*AS(TPM, x))); break;
    default: printf("-"); break;
    }
  }
}

// instances an empty container of each kind holds for itself (the element inside the embedded end item
// of the node containers): measured once at start-up, not assumed
static long g_base[POOLMAP + 1];
// MultiMap::insert(position, key, value) in the case whose landing place depends on the tree shape: how many
// places behind the hinted element's successor position the new element was linked (model section)
static bool g_tie_set = false;
static long g_tie = 0;
// Array::remove(index), size <= index: the element the call took out, if any (do_remout)
static bool g_out_set = false;
static long g_out = 0;

static void line(long c, const char* res)
{
  printf("%ld %s | ", c, res);
  dump_state();
  // stored = the live instances that the contents account for: all of them minus what the containers
  // themselves hold when they are empty
  long stored = g_live;
  for(int x = 0; x < NV; ++x) stored -= g_base[kindv[x]];
  printf(" ; stored=%ld bad=%ld | live=%ld ev=%s nb=%d caps=", stored, g_bad, g_live, g_evlen ? g_ev : ".", g_nb);
  dump_caps();
  if(g_tie_set) printf(" tie=%ld", g_tie);
  if(g_out_set) printf(" out=%ld", g_out);
  printf("\n");
}

// ---- operations ---------------------------------------------------------------------------------------------
static void destroy_var(int x)
{
  g_win = 1;
  switch(kindv[x]) {
  case ARRAY: AS(TA, x)->~TA(); break;
  case LIST: AS(TL, x)->~TL(); break;
  case MAP: AS(TM, x)->~TM(); break;
  case MULTIMAP: AS(TMM, x)->~TMM(); break;
  case HASHMAP: AS(THM, x)->~THM(); break;
  case HASHSET: AS(THS, x)->~THS(); break;
  case POOLLIST: AS(TPL, x)->~TPL(); break;
  case POOLMAP: AS(TPM, x)->~TPM(); break;
  default: break;
  }
  g_win = 0;
  kindv[x] = DEADV;
}

static void begin(long, vh::Tok&)
{
  // a case that crashed is not resumed in this process, so every variable is dead here
  for(int x = 0; x < NV; ++x) kindv[x] = DEADV;
  memset(g_state, 0, sizeof(g_state));
  g_next = 1; g_live = 0; g_bad = 0; g_nb = 0; g_bnext = 1; g_evlen = 0; g_ev[0] = 0;
}

static Kind kind_of(const char* s)
{
  for(int k = 1; k <= POOLMAP; ++k) if(!strcmp(s, kind_names[k])) return (Kind)k;
  return DEADV;
}

// position token: f, b or an index
struct Pos { int mode; long i; };   // 0 front, 1 back, 2 at
static Pos parse_pos(const char* s)
{
  Pos p; p.i = 0;
  if(!strcmp(s, "f")) p.mode = 0; else if(!strcmp(s, "b")) p.mode = 1; else { p.mode = 2; p.i = atol(s); }
  return p;
}
template<typename C> static typename C::Iterator pos_iter(C& c, Pos p)
{
  if(p.mode == 0) return c.begin();
  if(p.mode == 1) return c.end();
  return iter_at(c, p.i);
}

static bool do_ins(int x, Pos p, Arg ka, Arg va)
{
  Kind k = kindv[x];
  bool need_key = has_key(k), need_val = has_val(k) && k != POOLMAP;
  if(need_key && !ka.mode) return false;
  if(need_val && !va.mode) return false;
  if(k == POOLLIST) {
    g_win = 1;
    // append(v) deduces `template<typename A> T& append(A a)` with A = V: a by-value parameter
    if(va.mode == 1) AS(TPL, x)->append<int>(va.z); else AS(TPL, x)->append(*va.v);
    g_win = 0;
    return true;
  }
  // the caller's temporaries: key first, value second; destroyed in reverse order
  char kbuf[sizeof(K)] __attribute__((aligned(8)));
  char vbuf[sizeof(V)] __attribute__((aligned(8)));
  const K* kr = 0; const V* vr = 0;
  K* kt = 0; V* vt = 0;
  if(need_key) { if(ka.mode == 1) { kt = new(kbuf) K(ka.z); kr = kt; } else kr = ka.k; }
  if(need_val) { if(va.mode == 1) { vt = new(vbuf) V(va.z); vr = vt; } else vr = va.v; }
  g_win = 1;
  switch(k) {
  case ARRAY: AS(TA, x)->append(*vr); break;
  case LIST: AS(TL, x)->insert(pos_iter(*AS(TL, x), p), *vr); break;
  case MAP: AS(TM, x)->insert(*kr, *vr); break;
  case MULTIMAP: AS(TMM, x)->insert(*kr, *vr); break;
  case HASHMAP: AS(THM, x)->insert(pos_iter(*AS(THM, x), p), *kr, *vr); break;
  case HASHSET: AS(THS, x)->insert(pos_iter(*AS(THS, x), p), *kr); break;
  case POOLMAP: AS(TPM, x)->insert(pos_iter(*AS(TPM, x), p), *kr); break;
  default: break;
  }
  g_win = 0;
  if(vt) vt->~V();
  if(kt) kt->~K();
  return true;
}

// the one-line wrappers: List::prepend / append(value), HashMap::prepend / append(key, value),
// HashSet::prepend / append(key), PoolMap::append(key)
static bool do_insw(int x, bool front, Arg ka, Arg va)
{
  Kind k = kindv[x];
  if(!(k == LIST || k == HASHMAP || k == HASHSET || (k == POOLMAP && !front))) return false;
  bool need_key = has_key(k), need_val = has_val(k) && k != POOLMAP;
  if(need_key && !ka.mode) return false;
  if(need_val && !va.mode) return false;
  char kbuf[sizeof(K)] __attribute__((aligned(8)));
  char vbuf[sizeof(V)] __attribute__((aligned(8)));
  const K* kr = 0; const V* vr = 0;
  K* kt = 0; V* vt = 0;
  if(need_key) { if(ka.mode == 1) { kt = new(kbuf) K(ka.z); kr = kt; } else kr = ka.k; }
  if(need_val) { if(va.mode == 1) { vt = new(vbuf) V(va.z); vr = vt; } else vr = va.v; }
  g_win = 1;
  switch(k) {
  case LIST: if(front) AS(TL, x)->prepend(*vr); else AS(TL, x)->append(*vr); break;
  case HASHMAP: if(front) AS(THM, x)->prepend(*kr, *vr); else AS(THM, x)->append(*kr, *vr); break;
  case HASHSET: if(front) AS(THS, x)->prepend(*kr); else AS(THS, x)->append(*kr); break;
  case POOLMAP: AS(TPM, x)->append(*kr); break;
  default: break;
  }
  g_win = 0;
  if(vt) vt->~V();
  if(kt) kt->~K();
  return true;
}

static bool do_remat(int x, long i)
{
  if(i < 0 || i >= size_of(x)) return false;
  g_win = 1;
  switch(kindv[x]) {
  case ARRAY: AS(TA, x)->remove((usize)i); break;
  case LIST: AS(TL, x)->remove(iter_at(*AS(TL, x), i)); break;
  case MAP: AS(TM, x)->remove(iter_at(*AS(TM, x), i)); break;
  case MULTIMAP: AS(TMM, x)->remove(iter_at(*AS(TMM, x), i)); break;
  case HASHMAP: AS(THM, x)->remove(iter_at(*AS(THM, x), i)); break;
  case HASHSET: AS(THS, x)->remove(iter_at(*AS(THS, x), i)); break;
  case POOLLIST: AS(TPL, x)->remove(iter_at(*AS(TPL, x), i)); break;
  case POOLMAP: AS(TPM, x)->remove(iter_at(*AS(TPM, x), i)); break;
  default: break;
  }
  g_win = 0;
  return true;
}

// round 6 - Array::remove(usize index) with an index that is NOT in the array (size <= index, any usize): the
// one removal by index / position that the containers accept although it names no element (remove(end()) of
// the node containers and Array::remove(end()) dereference / destroy the end position: not driven).  What the
// array contains afterwards is not C04's business; the harness reports WHICH element, if any, the call took
// out (` out=<j>`, model section; the largest j that explains the contents) and the check hands that outcome to
// model and spec.  The lifecycle counters (stored=, bad=, sanitizer) are judged as for every other call.
enum { SNAP = 4096 };
static int g_snap[SNAP];
static bool do_remout(int x, const char* tok)
{
  if(kindv[x] != ARRAY || tok[0] < '0' || tok[0] > '9') return false;
  char* endp = 0;
  errno = 0;
  unsigned long long idx = strtoull(tok, &endp, 10);
  if(errno || *endp) return false;
  TA& a = *AS(TA, x);
  unsigned long long n = (unsigned long long)a.size();
  if(idx < n) return false;
  if(n <= SNAP) for(unsigned long long k = 0; k < n; ++k) g_snap[k] = ((V*)a)[k].peek();
  g_win = 1;
  a.remove((usize)idx);
  g_win = 0;
  unsigned long long m = (unsigned long long)a.size();
  if(n && n <= SNAP && m == n - 1) {
    // removed element j: before[0..j) = after[0..j) and before(j..n) = after[j..m)
    for(long j = (long)n - 1; j >= 0; --j) {
      bool fits = true;
      for(unsigned long long k = 0; k < m && fits; ++k)
        if(((V*)a)[k].peek() != g_snap[k < (unsigned long long)j ? k : k + 1]) fits = false;
      if(fits) { g_out_set = true; g_out = j; break; }
    }
  }
  return true;
}

// Array::remove(const Iterator&)
static bool do_rematit(int x, long i)
{
  if(kindv[x] != ARRAY || i < 0 || i >= size_of(x)) return false;
  g_win = 1;
  AS(TA, x)->remove(iter_at(*AS(TA, x), i));
  g_win = 0;
  return true;
}

// removeFront() / removeBack()
static bool do_rempop(int x, bool front)
{
  if(size_of(x) <= 0) return false;
  g_win = 1;
  switch(kindv[x]) {
  case ARRAY: if(front) AS(TA, x)->removeFront(); else AS(TA, x)->removeBack(); break;
  case LIST: if(front) AS(TL, x)->removeFront(); else AS(TL, x)->removeBack(); break;
  case MAP: if(front) AS(TM, x)->removeFront(); else AS(TM, x)->removeBack(); break;
  case MULTIMAP: if(front) AS(TMM, x)->removeFront(); else AS(TMM, x)->removeBack(); break;
  case HASHMAP: if(front) AS(THM, x)->removeFront(); else AS(THM, x)->removeBack(); break;
  case HASHSET: if(front) AS(THS, x)->removeFront(); else AS(THS, x)->removeBack(); break;
  case POOLLIST: if(front) AS(TPL, x)->removeFront(); else AS(TPL, x)->removeBack(); break;
  case POOLMAP: if(front) AS(TPM, x)->removeFront(); else AS(TPM, x)->removeBack(); break;
  default: break;
  }
  g_win = 0;
  return true;
}

static bool do_remkey(int x, const char* s)
{
  Kind k = kindv[x];
  if(k == ARRAY || k == POOLLIST) return false;
  Arg a = parse_arg(s, has_key(k));
  if(!a.mode) return false;
  char kbuf[sizeof(K)] __attribute__((aligned(8)));
  char vbuf[sizeof(V)] __attribute__((aligned(8)));
  const K* kr = a.k; const V* vr = a.v;
  K* kt = 0; V* vt = 0;
  if(a.mode == 1) { if(has_key(k)) { kt = new(kbuf) K(a.z); kr = kt; } else { vt = new(vbuf) V(a.z); vr = vt; } }
  g_win = 1;
  switch(k) {
  case LIST: AS(TL, x)->remove(*vr); break;
  case MAP: AS(TM, x)->remove(*kr); break;
  case MULTIMAP: AS(TMM, x)->remove(*kr); break;
  case HASHMAP: AS(THM, x)->remove(*kr); break;
  case HASHSET: AS(THS, x)->remove(*kr); break;
  case POOLMAP: AS(TPM, x)->remove(*kr); break;
  default: break;
  }
  g_win = 0;
  if(vt) vt->~V();
  if(kt) kt->~K();
  return true;
}

// find(key) / find(value): the index of the element the returned iterator points at, -1 = end()
template<typename C> static long index_of(C& c, const typename C::Iterator& it)
{
  long i = 0;
  for(typename C::Iterator j = c.begin(), e = c.end(); j != e; ++j, ++i) if(j == it) return i;
  return -1;
}
static bool do_find(int x, const char* s, long* found)
{
  Kind k = kindv[x];
  if(k == POOLLIST) return false;
  Arg a = parse_arg(s, has_key(k));
  if(!a.mode) return false;
  char kbuf[sizeof(K)] __attribute__((aligned(8)));
  char vbuf[sizeof(V)] __attribute__((aligned(8)));
  const K* kr = a.k; const V* vr = a.v;
  K* kt = 0; V* vt = 0;
  if(a.mode == 1) { if(has_key(k)) { kt = new(kbuf) K(a.z); kr = kt; } else { vt = new(vbuf) V(a.z); vr = vt; } }
  g_win = 1;
  switch(k) {
  case ARRAY: { TA::Iterator it = AS(TA, x)->find(*vr); g_win = 0; *found = index_of(*AS(TA, x), it); break; }
  case LIST: { TL::Iterator it = AS(TL, x)->find(*vr); g_win = 0; *found = index_of(*AS(TL, x), it); break; }
  case MAP: { TM::Iterator it = AS(TM, x)->find(*kr); g_win = 0; *found = index_of(*AS(TM, x), it); break; }
  case MULTIMAP: { TMM::Iterator it = AS(TMM, x)->find(*kr); g_win = 0; *found = index_of(*AS(TMM, x), it); break; }
  case HASHMAP: { THM::Iterator it = AS(THM, x)->find(*kr); g_win = 0; *found = index_of(*AS(THM, x), it); break; }
  case HASHSET: { THS::Iterator it = AS(THS, x)->find(*kr); g_win = 0; *found = index_of(*AS(THS, x), it); break; }
  case POOLMAP: { TPM::Iterator it = AS(TPM, x)->find(*kr); g_win = 0; *found = index_of(*AS(TPM, x), it); break; }
  default: break;
  }
  g_win = 0;
  if(vt) vt->~V();
  if(kt) kt->~K();
  return true;
}

// PoolList::append(a1, ..., an): every argument is a Src (an integer, or a pointer to a stored value)
static bool do_emplace(int x, vh::Tok& t)
{
  int n = t.n - 2;
  if(kindv[x] != POOLLIST || n < 0 || n > 7) return false;
  Src a[7];
  for(int i = 0; i < n; ++i) {
    Arg g = parse_arg(t.v[2 + i], false);
    if(!g.mode) return false;
    a[i].ref = g.mode == 2 ? (const void*)g.v : 0; a[i].z = g.z;
  }
  TPL& l = *AS(TPL, x);
  g_win = 1;
  switch(n) {
  case 0: l.append(); break;
  case 1: l.append(a[0]); break;
  case 2: l.append(a[0], a[1]); break;
  case 3: l.append(a[0], a[1], a[2]); break;
  case 4: l.append(a[0], a[1], a[2], a[3]); break;
  case 5: l.append(a[0], a[1], a[2], a[3], a[4]); break;
  case 6: l.append(a[0], a[1], a[2], a[3], a[4], a[5]); break;
  case 7: l.append(a[0], a[1], a[2], a[3], a[4], a[5], a[6]); break;
  }
  g_win = 0;
  return true;
}

// Map / MultiMap::insert(position, key, value).  For the MultiMap call whose result depends on the tree
// shape (key of the hinted item <= key, key of the item behind it == key) the place where the new element
// landed is reported (tie=<offset behind the hinted element's successor position>).
template<typename C> static bool hint_tie(C& c, long h, int kz)
{
  long n = (long)c.size();
  if(h + 1 >= n) return false;
  typename C::Iterator it = iter_at(c, h), nx = iter_at(c, h + 1);
  return it.key().peek() <= kz && nx.key().peek() == kz;
}
static bool do_inshint(int x, Pos p, Arg ka, Arg va)
{
  Kind k = kindv[x];
  if(k != MAP && k != MULTIMAP) return false;
  if(!ka.mode || !va.mode) return false;
  long n = size_of(x);
  long h = p.mode == 0 ? 0 : p.mode == 1 ? n : (p.i < n ? p.i : n);
  int kz = ka.mode == 1 ? ka.z : ka.k->peek();
  bool tie = k == MULTIMAP && hint_tie(*AS(TMM, x), h, kz);
  char kbuf[sizeof(K)] __attribute__((aligned(8)));
  char vbuf[sizeof(V)] __attribute__((aligned(8)));
  const K* kr = 0; const V* vr = 0;
  K* kt = 0; V* vt = 0;
  if(ka.mode == 1) { kt = new(kbuf) K(ka.z); kr = kt; } else kr = ka.k;
  if(va.mode == 1) { vt = new(vbuf) V(va.z); vr = vt; } else vr = va.v;
  g_win = 1;
  if(k == MAP) AS(TM, x)->insert(pos_iter(*AS(TM, x), p), *kr, *vr);
  else {
    TMM::Iterator it = AS(TMM, x)->insert(pos_iter(*AS(TMM, x), p), *kr, *vr);
    g_win = 0;
    if(tie) { g_tie_set = true; g_tie = index_of(*AS(TMM, x), it) - (h + 1); }
  }
  g_win = 0;
  if(vt) vt->~V();
  if(kt) kt->~K();
  return true;
}

static void op(long c, long, vh::Tok& t)
{
  g_evlen = 0; g_ev[0] = 0; g_tie_set = false; g_out_set = false;
  const char* o = t.v[0];
  long x = t.n > 1 ? atol(t.v[1]) : -1;
  bool did = false;
  if(!strcmp(o, "new") && t.n == 3) {
    Kind k = kind_of(t.v[2]);
    if(x >= 0 && x < NV && kindv[x] == DEADV && k != DEADV) {
      g_win = 1;
      switch(k) {
      case ARRAY: new(AS(TA, x)) TA; break;
      case LIST: new(AS(TL, x)) TL; break;
      case MAP: new(AS(TM, x)) TM; break;
      case MULTIMAP: new(AS(TMM, x)) TMM; break;
      case HASHMAP: new(AS(THM, x)) THM; break;
      case HASHSET: new(AS(THS, x)) THS; break;
      case POOLLIST: new(AS(TPL, x)) TPL; break;
      case POOLMAP: new(AS(TPM, x)) TPM; break;
      default: break;
      }
      g_win = 0;
      kindv[x] = k; did = true;
    }
  } else if(!strcmp(o, "del") && t.n == 2) {
    if(livev(x)) { destroy_var((int)x); did = true; }
  } else if(!strcmp(o, "copy") && t.n == 3) {
    long y = atol(t.v[2]);
    if(livev(y) && x >= 0 && x < NV && kindv[x] == DEADV && copyable(kindv[y])) {
      g_win = 1;
      switch(kindv[y]) {
      case ARRAY: new(AS(TA, x)) TA(*AS(TA, y)); break;
      case LIST: new(AS(TL, x)) TL(*AS(TL, y)); break;
      case MAP: new(AS(TM, x)) TM(*AS(TM, y)); break;
      case MULTIMAP: new(AS(TMM, x)) TMM(*AS(TMM, y)); break;
      case HASHMAP: new(AS(THM, x)) THM(*AS(THM, y)); break;
      case HASHSET: new(AS(THS, x)) THS(*AS(THS, y)); break;
      default: break;
      }
      g_win = 0;
      kindv[x] = kindv[y]; did = true;
    }
  } else if(!strcmp(o, "asg") && t.n == 3) {
    long y = atol(t.v[2]);
    if(livev(x) && livev(y) && kindv[x] == kindv[y] && copyable(kindv[x])) {
      bool ok = true;
      g_win = 1;
      switch(kindv[x]) {
      case ARRAY: *AS(TA, x) = *AS(TA, y); break;
      case LIST: *AS(TL, x) = *AS(TL, y); break;
      case MAP: *AS(TM, x) = *AS(TM, y); break;
      case MULTIMAP: ok = do_assign<TMM, can_assign<TMM>::value>::go(*AS(TMM, x), *AS(TMM, y)); break;
      case HASHMAP: *AS(THM, x) = *AS(THM, y); break;
      case HASHSET: *AS(THS, x) = *AS(THS, y); break;
      default: break;
      }
      g_win = 0;
      if(!ok) { line(c, "no-copy-assignment"); return; }
      did = true;
    }
  } else if(!strcmp(o, "swap") && t.n == 3) {
    long y = atol(t.v[2]);
    if(livev(x) && livev(y) && kindv[x] == kindv[y]) {
      g_win = 1;
      switch(kindv[x]) {
      case ARRAY: AS(TA, x)->swap(*AS(TA, y)); break;
      case LIST: AS(TL, x)->swap(*AS(TL, y)); break;
      case HASHMAP: AS(THM, x)->swap(*AS(THM, y)); break;
      case HASHSET: AS(THS, x)->swap(*AS(THS, y)); break;
      case POOLLIST: AS(TPL, x)->swap(*AS(TPL, y)); break;
      case POOLMAP: AS(TPM, x)->swap(*AS(TPM, y)); break;
      default: g_win = 0; line(c, "skip"); return;    // Map and MultiMap have no swap
      }
      g_win = 0;
      did = true;
    }
  } else if(!strcmp(o, "clear") && t.n == 2) {
    if(livev(x)) {
      g_win = 1;
      switch(kindv[x]) {
      case ARRAY: AS(TA, x)->clear(); break;
      case LIST: AS(TL, x)->clear(); break;
      case MAP: AS(TM, x)->clear(); break;
      case MULTIMAP: AS(TMM, x)->clear(); break;
      case HASHMAP: AS(THM, x)->clear(); break;
      case HASHSET: AS(THS, x)->clear(); break;
      case POOLLIST: AS(TPL, x)->clear(); break;
      case POOLMAP: AS(TPM, x)->clear(); break;
      default: break;
      }
      g_win = 0;
      did = true;
    }
  } else if(!strcmp(o, "ins") && t.n == 5) {
    if(livev(x)) did = do_ins((int)x, parse_pos(t.v[2]), parse_arg(t.v[3], true), parse_arg(t.v[4], false));
  } else if(!strcmp(o, "insw") && t.n == 5 && (!strcmp(t.v[2], "f") || !strcmp(t.v[2], "b"))) {
    if(livev(x)) did = do_insw((int)x, t.v[2][0] == 'f', parse_arg(t.v[3], true), parse_arg(t.v[4], false));
  } else if(!strcmp(o, "remat") && t.n == 3) {
    if(livev(x)) did = do_remat((int)x, atol(t.v[2]));
  } else if(!strcmp(o, "remkey") && t.n == 3) {
    if(livev(x)) did = do_remkey((int)x, t.v[2]);
  } else if(!strcmp(o, "addall") && t.n == 4) {
    long y = atol(t.v[3]);
    Pos p = parse_pos(t.v[2]);
    if(livev(x) && livev(y) && kindv[x] == kindv[y]) {
      did = true;
      g_win = 1;
      switch(kindv[x]) {
      case ARRAY: AS(TA, x)->append(*AS(TA, y)); break;
      case LIST:
        if(p.mode == 0) AS(TL, x)->prepend(*AS(TL, y));
        else if(p.mode == 1) AS(TL, x)->append(*AS(TL, y));
        else AS(TL, x)->insert(iter_at(*AS(TL, x), p.i), *AS(TL, y));
        break;
      case MAP: AS(TM, x)->insert(*AS(TM, y)); break;
      case HASHSET: AS(THS, x)->append(*AS(THS, y)); break;
      default: did = false; break;
      }
      g_win = 0;
    }
  } else if(!strcmp(o, "remall") && t.n == 3) {
    long y = atol(t.v[2]);
    if(livev(x) && livev(y) && kindv[x] == HASHSET && kindv[y] == HASHSET) {
      g_win = 1;
      AS(THS, x)->remove(*AS(THS, y));
      g_win = 0;
      did = true;
    }
  } else if(!strcmp(o, "reserve") && t.n == 3) {
    if(livev(x) && kindv[x] == ARRAY) {
      g_win = 1;
      AS(TA, x)->reserve((usize)atol(t.v[2]));
      g_win = 0;
      did = true;
    }
  } else if(!strcmp(o, "resize") && t.n == 4) {
    if(livev(x) && kindv[x] == ARRAY) {
      Arg a = parse_arg(t.v[3], false);
      if(a.mode) {
        char vbuf[sizeof(V)] __attribute__((aligned(8)));
        const V* vr = a.v; V* vt = 0;
        if(a.mode == 1) { vt = new(vbuf) V(a.z); vr = vt; }
        g_win = 1;
        AS(TA, x)->resize((usize)atol(t.v[2]), *vr);
        g_win = 0;
        if(vt) vt->~V();
        did = true;
      }
    }
  } else if(!strcmp(o, "apprange") && t.n == 5) {
    // x.append(&y[i], n): a pointer into y's storage (y may be x)
    long y = atol(t.v[2]), i = atol(t.v[3]), n = atol(t.v[4]);
    if(livev(x) && livev(y) && kindv[x] == ARRAY && kindv[y] == ARRAY && i >= 0 && n >= 0 && i + n <= size_of((int)y)) {
      const V* p = (V*)*AS(TA, y) + i;
      g_win = 1;
      AS(TA, x)->append(p, (usize)n);
      g_win = 0;
      did = true;
    }
  } else if(!strcmp(o, "remout") && t.n == 3) {
    if(livev(x)) did = do_remout((int)x, t.v[2]);
  } else if(!strcmp(o, "rematit") && t.n == 3) {
    if(livev(x)) did = do_rematit((int)x, atol(t.v[2]));
  } else if(!strcmp(o, "rempop") && t.n == 3) {
    if(livev(x)) did = do_rempop((int)x, !strcmp(t.v[2], "f"));
  } else if(!strcmp(o, "newcap") && t.n == 4) {
    Kind k = kind_of(t.v[2]);
    usize cap = (usize)atol(t.v[3]);
    if(x >= 0 && x < NV && kindv[x] == DEADV && (k == ARRAY || k == HASHMAP || k == HASHSET || k == POOLMAP)) {
      g_win = 1;
      switch(k) {
      case ARRAY: new(AS(TA, x)) TA(cap); break;
      case HASHMAP: new(AS(THM, x)) THM(cap); break;
      case HASHSET: new(AS(THS, x)) THS(cap); break;
      case POOLMAP: new(AS(TPM, x)) TPM(cap); break;
      default: break;
      }
      g_win = 0;
      kindv[x] = k; did = true;
    }
  } else if(!strcmp(o, "find") && t.n == 3) {
    long found = -1;
    if(livev(x)) did = do_find((int)x, t.v[2], &found);
    if(did) {
      char tok[32];
      if(found >= 0) snprintf(tok, sizeof tok, "ok@%ld", found); else snprintf(tok, sizeof tok, "ok@-");
      line(c, tok);
      return;
    }
  } else if(!strcmp(o, "emplace") && t.n >= 2) {
    if(livev(x)) did = do_emplace((int)x, t);
  } else if(!strcmp(o, "appvals") && t.n >= 2 && t.n <= 2 + 64) {
    if(livev(x) && kindv[x] == ARRAY) {
      int n = t.n - 2;
      static char buf[sizeof(V) * 64] __attribute__((aligned(16)));
      V* b = (V*)(void*)buf;
      for(int i = 0; i < n; ++i) new(b + i) V(atoi(t.v[2 + i]));
      g_win = 1;
      AS(TA, x)->append((const V*)b, (usize)n);
      g_win = 0;
      for(int i = n - 1; i >= 0; --i) b[i].~V();
      did = true;
    }
  } else if(!strcmp(o, "inshint") && t.n == 5) {
    if(livev(x)) did = do_inshint((int)x, parse_pos(t.v[2]), parse_arg(t.v[3], true), parse_arg(t.v[4], false));
  } else if(!strcmp(o, "sort") && t.n == 2) {
    if(livev(x) && kindv[x] == LIST) {
      g_win = 1;
      AS(TL, x)->sort();
      g_win = 0;
      did = true;
    }
  } else {
    printf("%ld ?unknown-op\n", c);
    return;
  }
  line(c, did ? "ok" : "skip");
}

static void end(long c)
{
  g_evlen = 0; g_ev[0] = 0;
  for(int x = 0; x < NV; ++x) if(kindv[x] != DEADV) destroy_var(x);
  printf("%ld end | live=%ld bad=%ld nb=%d | ev=%s\n", c, g_live, g_bad, g_nb, g_evlen ? g_ev : ".");
}

template<typename C> static long base_of(void)
{
  long before = g_live;
  C* c = new(AS(C, 0)) C;
  long n = g_live - before;
  c->~C();
  return n;
}

int main(int argc, char** argv)
{
  g_base[ARRAY] = base_of<TA>(); g_base[LIST] = base_of<TL>(); g_base[MAP] = base_of<TM>(); g_base[MULTIMAP] = base_of<TMM>();
  g_base[HASHMAP] = base_of<THM>(); g_base[HASHSET] = base_of<THS>(); g_base[POOLLIST] = base_of<TPL>(); g_base[POOLMAP] = base_of<TPM>();
  __sanitizer_install_malloc_and_free_hooks(on_malloc, on_free);
  return vh::run(argc, argv, begin, op, end);
}
