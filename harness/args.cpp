// Correspondence harness for C20: Process::Arguments, the command-line splitter and the launch
// paths of Process (POSIX).  Process.cpp is compiled into this translation unit (it defines the
// file-local class Process::Private whose splitCommandLine is one of the units under test); the
// copy in libnstd.a is then not linked.  Internals are only read, except for that one call.
#include "vh.hpp"
#include <getopt.h>
#include <setjmp.h>
#include <sys/time.h>
#include <sys/stat.h>
#include <fcntl.h>
#include <errno.h>
#include <pthread.h>
#include <alloca.h>
#include <sys/types.h>
#include <sys/wait.h>
#include <dirent.h>
#include <sys/resource.h>
#include <cstdlib>
#include <cstdio>
#include <cstring>
#include <cerrno>
#include "args_kernel.h"
// vfork cannot be wrapped by a function (the child would return into a dead frame): the vfork of
// Process.cpp is routed through a macro that lets the recorder fail it (EAGAIN) or note it.  A
// function-like macro is not expanded inside its own expansion, so the inner vfork() is libc's.
#define vfork() (vk_vfork_fails() ? (pid_t)-1 : vfork())
#define private public
#include <nstd/Process.hpp>
#include <Process.cpp>
#undef private
#undef vfork
#include <nstd/List.hpp>
#include <nstd/Map.hpp>

extern char** environ;
#define CHILD_PATH "./ac"

// ---- per-case data ---------------------------------------------------------------------------
// More op lines than these limits is an error of the case (`?too-many ..` instead of observations), never a silent cut.
enum { MAXOPT = 16, MAXSTR = 1024, MAXENV = 256 };
static const char* too_many = 0;         // which limit the case went over
static Process::Option table[MAXOPT];
static int ntable = 0;
static char* strs[MAXSTR];
static int nstrs = 0;
static char* envk[MAXENV];
static char* envv[MAXENV];
static int nenv = 0;

static char* cstr_exact(const char* hex)     // exact-size heap string (len + terminator)
{
  size_t n; unsigned char* b = vh::unhex(hex, n, 1);
  return (char*)b;
}

static void puthexs(const char* s, size_t n)
{
  if(n == 0) { fputs("-", stdout); return; }
  for(size_t i = 0; i < n; ++i) printf("%02x", (unsigned char)s[i]);
}

static int p_code = 0, p_mode = 0;          // case <n> P <exit code> <mode>: the script of the helper child
static void env_reset();
static void pobj_reset();

// case <n> T <char>:<name hex or ~>:<flags> ...      (the option table is the case configuration)
static void begin(long, vh::Tok& t)
{
  env_reset(); pobj_reset();
  p_code = p_mode = 0;
  if(t.n >= 5 && !strcmp(t.v[2], "P")) { p_code = atoi(t.v[3]); p_mode = atoi(t.v[4]); return; }
  for(int i = 0; i < ntable; ++i) free((void*)table[i].name);
  for(int i = 0; i < nstrs; ++i) free(strs[i]);
  for(int i = 0; i < nenv; ++i) { free(envk[i]); free(envv[i]); }
  ntable = nstrs = nenv = 0;
  too_many = 0;
  for(int k = 3; k < t.n; ++k) {
    if(ntable >= MAXOPT) { too_many = "option-table-rows"; break; }
    char* a = t.v[k];
    char* b = strchr(a, ':'); if(!b) continue; *b++ = 0;
    char* d = strchr(b, ':'); if(!d) continue; *d++ = 0;
    table[ntable].character = atoi(a);
    table[ntable].name = strcmp(b, "~") ? cstr_exact(b) : 0;
    table[ntable].flags = (uint32)atoi(d);
    ++ntable;
  }
}

// ---- A: Process::Arguments -------------------------------------------------------------------
template<usize N> static Process::Arguments* mk(int argc, char** argv, Process::Option* t)
{
  return new Process::Arguments(argc, argv, *(const Process::Option(*)[N])t);
}

static void cursor_out(Process::Arguments* a, char** base)
{
  long idx = (long)(a->argv - base);
  long pos = 0;
  if(idx >= 2) pos = (long)(a->arg - base[idx - 1]);
  printf(" | %ld %ld %d %d\n", idx, pos, a->inOpt ? 1 : 0, a->skipOpt ? 1 : 0);
}

// parse   : Arguments(argc, argv) with argv[0] = "prog", read() until false, then twice more
// parse0  : Arguments(0, empty array)  (the constructor steps past argvEnd)
static void do_parse(long c, bool argc0)
{
  if(too_many) { printf("%ld ?too-many %s\n", c, too_many); return; }
  if(ntable == 0) { printf("%ld ?no-table\n", c); return; }
  // the table and argv arrays are exact-size heap blocks as well
  Process::Option* t = (Process::Option*)malloc(sizeof(Process::Option) * (ntable ? ntable : 1));
  memcpy(t, table, sizeof(Process::Option) * ntable);
  int argc = argc0 ? 0 : nstrs + 1;
  char** argv = (char**)malloc(sizeof(char*) * (argc ? argc : 1));
  char prog[] = "prog";
  if(!argc0) {
    argv[0] = prog;
    for(int i = 0; i < nstrs; ++i) argv[i + 1] = strs[i];
  }
  Process::Arguments* a;
  switch(ntable) {
  case 1: a = mk<1>(argc, argv, t); break;
  case 2: a = mk<2>(argc, argv, t); break;
  case 3: a = mk<3>(argc, argv, t); break;
  case 4: a = mk<4>(argc, argv, t); break;
  case 5: a = mk<5>(argc, argv, t); break;
  case 6: a = mk<6>(argc, argv, t); break;
  case 7: a = mk<7>(argc, argv, t); break;
  case 8: a = mk<8>(argc, argv, t); break;
  case 9: a = mk<9>(argc, argv, t); break;
  case 10: a = mk<10>(argc, argv, t); break;
  case 11: a = mk<11>(argc, argv, t); break;
  case 12: a = mk<12>(argc, argv, t); break;
  case 13: a = mk<13>(argc, argv, t); break;
  case 14: a = mk<14>(argc, argv, t); break;
  case 15: a = mk<15>(argc, argv, t); break;
  case 16: a = mk<16>(argc, argv, t); break;
  default: printf("%ld ?too-many option-table-rows\n", c); free(argv); free(t); return;   // not reached: begin() refuses longer tables
  }
  int character;
  String argument;
  int guard = 0;
  for(;;) {
    character = -1;
    bool ok = a->read(character, argument);
    if(!ok) {
      printf("%ld end", c); cursor_out(a, argv);
      for(int k = 0; k < 2; ++k) {              // false is final: the same answer, the same cursor
        character = -1;
        bool again = a->read(character, argument);
        printf("%ld again %d", c, again ? 1 : 0); cursor_out(a, argv);
      }
      break;
    }
    printf("%ld r %d ", c, character);
    puthexs((const char*)argument, argument.length());
    cursor_out(a, argv);
    if(++guard > 4000) { printf("%ld ! runaway\n", c); break; }
  }
  delete a;
  free(argv);
  free(t);
}

// glibc getopt_long on the same table and strings (search oracle only)
static void do_getopt(long c)
{
  if(too_many) { printf("%ld ?too-many %s\n", c, too_many); return; }
  if(ntable == 0) { printf("%ld ?no-table\n", c); return; }
  char optstring[4 * MAXOPT + 3];
  struct option longopts[MAXOPT + 1];
  int no = 0, nl = 0;
  optstring[no++] = '-';
  optstring[no++] = ':';
  for(int i = 0; i < ntable; ++i) {
    int has = (table[i].flags & Process::argumentFlag) ? ((table[i].flags & Process::optionalFlag) ? 2 : 1) : 0;
    int ch = table[i].character;
    if(ch > 0 && ch < 128) {
      bool dup = false;
      for(int k = 2; k < no; ++k) if(optstring[k] == ch) dup = true;
      if(!dup) {
        optstring[no++] = (char)ch;
        for(int k = 0; k < has; ++k) optstring[no++] = ':';
      }
    }
    if(table[i].name) {
      longopts[nl].name = table[i].name; longopts[nl].has_arg = has; longopts[nl].flag = 0; longopts[nl].val = ch; ++nl;
    }
  }
  optstring[no] = 0;
  memset(&longopts[nl], 0, sizeof(longopts[nl]));
  int argc = nstrs + 1;
  char** argv = (char**)malloc(sizeof(char*) * (argc + 1));
  char prog[] = "prog";
  argv[0] = prog;
  for(int i = 0; i < nstrs; ++i) argv[i + 1] = strs[i];
  argv[argc] = 0;
  optind = 0; opterr = 0;
  for(int guard = 0; guard < 400; ++guard) {
    int idx = -1;
    optarg = 0;
    int r = getopt_long(argc, argv, optstring, longopts, &idx);
    if(r == -1) break;
    if(r == 1) { printf("%ld r 0 ", c); puthexs(optarg, strlen(optarg)); printf("\n"); }
    else if(r == '?' || r == ':') printf("%ld r %d ?\n", c, r);
    else { printf("%ld r %d ", c, r); if(optarg) puthexs(optarg, strlen(optarg)); else printf("-"); printf("\n"); }
  }
  for(int i = optind; i < argc; ++i) { printf("%ld r 0 ", c); puthexs(argv[i], strlen(argv[i])); printf("\n"); }
  printf("%ld end\n", c);
  free(argv);
}

// ---- B: splitCommandLine ---------------------------------------------------------------------
// Two seams, chosen at compile time:
//  direct (L-int): the file-local helper  static void Process::Private::splitCommandLine(const String&, C&)  where C is
//          whatever container of String the code fills (List<String> today); it is found by SFINAE and C is deduced
//          from the function's type, so a change of the container or of the loop inside does not break the harness.
//  public: when there is no such function (renamed, inlined, other signature) the line is split by the PUBLIC
//          Process::open(commandLine, stdoutStream): the helper child is started with  "./ac " + line  and echoes its
//          argument vector; the words are argv[1..].  (After the first word and its space the scanner is in its initial
//          state again, so for the reference  split("./ac " + l) = "./ac" :: split(l).)  One exec per case: slower,
//          and `harness --seam` says `public` so that the check writes into the evidence that the L-int seam was not
//          available on this tree.
static sigjmp_buf jb;
static volatile int armed = 0;
static void on_vtalrm(int) { if(armed) { armed = 0; siglongjmp(jb, 1); } }

static void arm(long ms)
{
  struct itimerval it; memset(&it, 0, sizeof(it));
  it.it_value.tv_sec = ms / 1000; it.it_value.tv_usec = (ms % 1000) * 1000;
  armed = ms ? 1 : 0;
  setitimer(ITIMER_VIRTUAL, &it, 0);
}

struct Buf { unsigned char* d; size_t n, cap; };
static void buf_add(Buf& b, const void* p, size_t n)
{
  if(b.n + n > b.cap) { b.cap = (b.n + n) * 2 + 4096; b.d = (unsigned char*)realloc(b.d, b.cap); }
  memcpy(b.d + b.n, p, n); b.n += n;
}

template<class P> struct SplitSeam {
  template<class C> static C* container_of(void (*)(const String&, C&));
  template<class Q> static char (&probe(decltype(container_of(&Q::splitCommandLine))))[2];
  template<class Q> static char (&probe(...))[1];
  enum { direct = sizeof(probe<P>(0)) == 2 };
};

template<class C> static void split_direct_with(void (*split)(const String&, C&), long c, const char* s, size_t n)
{
  // String keeps its own copy; give it an exact-size one too (String(const char*, len) allocates len+1)
  String* cmdline = new String(s, n);
  C* words = new C;
  if(sigsetjmp(jb, 1) == 0) {
    arm(10 + (long)n / 100);      // CPU time; the loop in question spins without allocating
    split(*cmdline, *words);
    arm(0);
    printf("%ld words %d", c, (int)words->size());
    for(typename C::Iterator i = words->begin(), end = words->end(); i != end; ++i) {
      const String& w = *i;
      printf(" "); puthexs((const char*)w, w.length());
    }
    printf("\n");
    delete words;
    delete cmdline;
  } else {
    arm(0);
    printf("%ld ! timeout\n", c);   // words/cmdline are leaked on purpose (state unknown)
  }
}

template<bool direct> struct Splitter;
template<> struct Splitter<true> {
  template<class P> static void run(long c, const char* s, size_t n) { split_direct_with(&P::splitCommandLine, c, s, n); }
  static const char* name() { return "direct"; }
};
template<> struct Splitter<false> {
  template<class P> static void run(long c, const char* s, size_t n)
  {
    FILE* f = fopen("./ac.ctl", "w"); fprintf(f, "0 0\n"); fclose(f);
    fflush(stdout);
    char* line = (char*)malloc(n + sizeof(CHILD_PATH) + 1);         // exact size
    memcpy(line, CHILD_PATH " ", sizeof(CHILD_PATH)); memcpy(line + sizeof(CHILD_PATH), s, n + 1);
    String* cmdline = new String(line, strlen(line));
    Process* p = new Process;
    Buf out = {0, 0, 0};
    bool ok = false;
    if(sigsetjmp(jb, 1) == 0) {
      arm(60 + (long)n / 100);     // CPU time of the parent up to the vfork (the splitting happens in there)
      ok = p->open(*cmdline, Process::stdoutStream);
      arm(0);
    } else {
      arm(0);
      printf("%ld ! timeout\n", c); // p/cmdline are leaked on purpose (state unknown)
      free(line);
      return;
    }
    if(ok) {
      static unsigned char rb[65536];
      for(;;) { ssize r = p->read(rb, sizeof(rb)); if(r < 0 && errno == EINTR) continue; if(r <= 0) break; buf_add(out, rb, (size_t)r); }
    }
    uint32 code = 777; bool joined = ok && p->join(code);
    delete p; delete cmdline; free(line);
    // "A <hex>" per argument up to the line "."; the first one is the helper itself
    int nw = -1; size_t i = 0; bool complete = false;
    Buf ws = {0, 0, 0};
    while(i < out.n) {
      size_t j = i; while(j < out.n && out.d[j] != '\n') ++j;
      if(j - i == 1 && out.d[i] == '.') { complete = true; break; }
      if(j - i >= 2 && out.d[i] == 'A' && out.d[i + 1] == ' ') {
        if(++nw > 0) { buf_add(ws, " ", 1); buf_add(ws, out.d + i + 2, j - i - 2); }
      }
      i = j + 1;
    }
    if(!ok || !joined || code != 0 || !complete || nw < 0) printf("%ld words ! open=%d join=%d exit=%u\n", c, ok ? 1 : 0, joined ? 1 : 0, (unsigned)code);
    else { printf("%ld words %d", c, nw); if(ws.n) fwrite(ws.d, 1, ws.n, stdout); printf("\n"); }
    free(out.d); free(ws.d);
  }
  static const char* name() { return "public"; }
};
typedef Splitter<SplitSeam<Process::Private>::direct> TheSplitter;

static void do_split(long c, const char* hex)
{
  char* s = cstr_exact(hex);
  TheSplitter::run<Process::Private>(c, s, strlen(s));
  free(s);
}

// ---- C: launch -------------------------------------------------------------------------------
static void buf_file(Buf& b, const char* path)
{
  int fd = ::open(path, O_RDONLY);
  if(fd < 0) return;
  unsigned char tmp[65536];
  for(;;) { ssize_t r = ::read(fd, tmp, sizeof(tmp)); if(r <= 0) break; buf_add(b, tmp, (size_t)r); }
  ::close(fd);
}

struct WriterArg { Process* p; const unsigned char* data; size_t n; size_t chunk; int failed; };
static void* writer(void* v)
{
  WriterArg* w = (WriterArg*)v;
  size_t off = 0;
  while(off < w->n) {
    size_t k = w->n - off < w->chunk ? w->n - off : w->chunk;
    ssize r = w->p->write(w->data + off, k);
    if(r <= 0) { if(r < 0 && errno == EINTR) continue; w->failed = 1; break; }
    off += (size_t)r;
  }
  w->p->close(Process::stdinStream);
  return 0;
}

static void hexlist_from_lines(const unsigned char* d, size_t n, char tag)
{
  // lines "<tag> <hex>\n"; prints hex,hex,... or "none"
  bool any = false;
  size_t i = 0;
  while(i < n) {
    size_t j = i; while(j < n && d[j] != '\n') ++j;
    if(j - i >= 2 && d[i] == (unsigned char)tag && d[i + 1] == ' ') {
      if(any) printf(",");
      fwrite(d + i + 2, 1, j - i - 2, stdout);
      any = true;
    }
    i = j + 1;
  }
  if(!any) printf("none");
}

static bool env_is_inherited(const unsigned char* d, size_t n)
{
  // the child's E lines equal this process's environ, in order
  char** e = environ;
  size_t i = 0;
  while(i < n) {
    size_t j = i; while(j < n && d[j] != '\n') ++j;
    if(j - i >= 2 && d[i] == 'E' && d[i + 1] == ' ') {
      if(!*e) return false;
      const char* s = *e; size_t k = i + 2;
      if(!*s) { if(!(j - k == 1 && d[k] == '-')) return false; }
      else {
        for(; *s; ++s, k += 2) {
          char h[3];
          if(k + 1 >= j) return false;
          snprintf(h, sizeof(h), "%02x", (unsigned char)*s);
          if(d[k] != (unsigned char)h[0] || d[k + 1] != (unsigned char)h[1]) return false;
        }
        if(k != j) return false;
      }
      ++e;
    }
    i = j + 1;
  }
  return *e == 0;
}

// Watchdog of one launch: a child that never sees end-of-file on its stdin (or never ends) would
// block read()/join() for the whole per-case budget.  After the launch's own budget the child is
// killed (everything blocked on it returns) and the case reports `! timeout`; should that not
// unblock the harness either, the second alarm ends the process (vf.py then reports the timeout).
static volatile pid_t watch_pid = 0;
static volatile int watch_fired = 0;
static void on_alarm(int)
{
  if(watch_fired++ == 0) {
    if(watch_pid > 0) ::kill(watch_pid, SIGKILL);
    alarm(5);
  } else {
    signal(SIGALRM, SIG_DFL);
    raise(SIGALRM);
  }
}
static void watchdog_arm(unsigned seconds)
{
  struct sigaction sa; memset(&sa, 0, sizeof(sa));
  sa.sa_handler = on_alarm; sa.sa_flags = SA_RESTART;
  sigaction(SIGALRM, &sa, 0);
  watch_fired = 0; watch_pid = 0;
  alarm(seconds);
}
static void watchdog_disarm()
{
  alarm(0);
  signal(SIGALRM, SIG_DFL);
  watch_pid = 0;
  alarm((unsigned)vh::case_timeout());      // the per-case watchdog of vh::run is back
}

static void do_launch(long c, vh::Tok& t)
{
  // launch <api:open|start> <form:cmd|argv|argv0|list> <streams> <exit> <mode> <size> <seed> <hex: command line or executable> [profile]
  // profile: norm (default) | again (a second open/start on the running Process must be refused: all four entry points
  //          return false and the running process is not disturbed; the errno each one leaves is printed in a second
  //          section that only the model predicts - the property text does not name an errno)
  //          | fd0 (descriptor 0 of the parent is closed while the process is opened)
  //          | noexec (the executable does not exist: the child reports on stderr and exits with EXIT_FAILURE)
  //          | manyfds (the parent has more than FD_SETSIZE descriptors open while the process is opened, read and joined:
  //            the pipe ends get numbers above 1024)
  //          | vpause (VIRTUAL silence of the child: before every read(buffer, length, streams) the recorder is told that
  //            nothing becomes readable for 5 s of virtual time, see args_kernel.h - a reader that waits with a shorter
  //            time-out gets time-out answers first, without any real waiting; always the multi-stream read);
  //            vpause:<ms> asks for another length of the silence (the corpus has one of 2000 s)
  //          | pause (REAL silence: bit 8 of the helper's mode makes it sleep 1.2 s after its header and again after the
  //            copied payload before it exits; always the multi-stream read)
  if(too_many) { printf("%ld ?too-many %s\n", c, too_many); return; }
  const char* profile = t.n >= 10 ? t.v[9] : "norm";
  bool p_again = !strcmp(profile, "again"), p_fd0 = !strcmp(profile, "fd0"), p_noexec = !strcmp(profile, "noexec");
  bool p_manyfds = !strcmp(profile, "manyfds"), p_vpause = !strncmp(profile, "vpause", 6), p_pause = !strcmp(profile, "pause");
  long vpause_ms = (p_vpause && profile[6] == ':') ? atol(profile + 7) : 5000;
  const char* api = t.v[1]; const char* form = t.v[2];
  unsigned streams = (unsigned)atoi(t.v[3]);
  int code = atoi(t.v[4]), mode = atoi(t.v[5]);
  size_t size = (size_t)atol(t.v[6]);
  unsigned seed = (unsigned)atol(t.v[7]);
  char* first = cstr_exact(t.v[8]);
  bool is_open = !strcmp(api, "open");
  if(!is_open) streams = 0;

  FILE* f = fopen("./ac.ctl", "w");
  fprintf(f, "%d %d\n", code, mode | (p_pause ? 8 : 0));
  fclose(f);

  // manyfds: fill the descriptor table beyond FD_SETSIZE (the soft limit is raised as far as the hard limit allows)
  enum { MANY = 1100 };
  static int many[MANY]; int nmany = 0;
  if(p_manyfds) {
    struct rlimit rl;
    if(getrlimit(RLIMIT_NOFILE, &rl) == 0 && rl.rlim_cur < 2048) { rl.rlim_cur = rl.rlim_max < 2048 ? rl.rlim_max : 2048; setrlimit(RLIMIT_NOFILE, &rl); }
    int nul = ::open("/dev/null", O_RDONLY);
    while(nmany < MANY) { int d = dup(nul); if(d < 0) break; many[nmany++] = d; }
    ::close(nul);
    if(nmany < MANY || many[nmany - 1] < FD_SETSIZE) {      // the configuration cannot be set up here (descriptor limit)
      for(int i = 0; i < nmany; ++i) ::close(many[i]);
      printf("%ld L ?descriptor-limit\n", c);
      free(first);
      return;
    }
  }

  unsigned char* payload = (unsigned char*)malloc(size ? size : 1);
  unsigned x = seed * 2654435761u + 12345u;
  for(size_t i = 0; i < size; ++i) { x = x * 1664525u + 1013904223u; payload[i] = (unsigned char)(x >> 24); }

  Map<String, String> env;
  for(int i = nenv - 1; i >= 0; --i) env.insert(String(envk[i], strlen(envk[i])), String(envv[i], strlen(envv[i])));

  // streams that are not redirected go to/come from files for the time of the launch
  fflush(stdout); fflush(stderr);
  int save0 = dup(0), save1 = dup(1), save2 = dup(2);
  if(!(streams & Process::stdoutStream)) { int fd = ::open("./ac.out", O_CREAT | O_TRUNC | O_WRONLY, 0600); dup2(fd, 1); ::close(fd); }
  if(!(streams & Process::stderrStream)) { int fd = ::open("./ac.err", O_CREAT | O_TRUNC | O_WRONLY, 0600); dup2(fd, 2); ::close(fd); }
  if(p_fd0)
    ::close(0);                                  // pipe() may now hand out descriptor 0
  else if(!(streams & Process::stdinStream)) {
    int fd = ::open("./ac.in", O_CREAT | O_TRUNC | O_WRONLY, 0600);
    size_t off = 0; while(off < size) { ssize_t w = ::write(fd, payload + off, size - off); if(w <= 0) break; off += (size_t)w; }
    ::close(fd);
    fd = ::open("./ac.in", O_RDONLY); dup2(fd, 0); ::close(fd);
  }

  watchdog_arm(4 + (unsigned)(size >> 18) + (p_pause ? 3 : 0));        // 4 s + 4 s per MiB of payload
  Process* p = new Process;
  bool ok = false;
  if(!strcmp(form, "cmd")) {
    String cmd(first, strlen(first));
    ok = is_open ? p->open(cmd, streams, env) : p->start(cmd, env) != 0;
  } else if(!strcmp(form, "list")) {
    List<String> args;
    for(int i = 0; i < nstrs; ++i) args.append(String(strs[i], strlen(strs[i])));
    ok = p->open(String(first, strlen(first)), args, streams, env);
  } else {
    bool nullterm = !strcmp(form, "argv0");
    int argc = nstrs + (nullterm ? 1 : 0);
    char** argv = (char**)malloc(sizeof(char*) * (argc ? argc : 1));   // exactly argc pointers
    for(int i = 0; i < nstrs; ++i) argv[i] = strs[i];
    if(nullterm) argv[nstrs] = 0;
    String exe(first, strlen(first));
    ok = is_open ? p->open(exe, argc, argv, streams, env) : p->start(exe, argc, argv, env) != 0;
    free(argv);
  }
  int err = errno;
  watch_pid = ok ? (pid_t)p->pid : 0;
  int again_r[4] = {-1, -1, -1, -1}, again_e[4] = {0, 0, 0, 0};
  if(ok && p_again) {                            // the Process is running: all four entry points must refuse
    String exe(CHILD_PATH, strlen(CHILD_PATH));
    char* none[1] = {0};
    errno = 0; again_r[0] = p->open(exe, 1, none, streams, env) ? 1 : 0; again_e[0] = errno;
    errno = 0; again_r[1] = p->open(exe, streams, env) ? 1 : 0; again_e[1] = errno;
    errno = 0; again_r[2] = p->start(exe, 1, none, env) != 0 ? 1 : 0; again_e[2] = errno;
    errno = 0; again_r[3] = p->start(exe, env) != 0 ? 1 : 0; again_e[3] = errno;
  }
  if(!p_fd0) dup2(save0, 0);
  dup2(save1, 1); dup2(save2, 2);
  ::close(save1); ::close(save2);

  if(!ok) {
    if(p_fd0) dup2(save0, 0);
    ::close(save0);
    for(int i = 0; i < nmany; ++i) ::close(many[i]);
    watchdog_disarm();
    printf("%ld L fail %d\n", c, err);
    delete p; free(payload); free(first);
    return;
  }

  Buf out = {0, 0, 0}, errb = {0, 0, 0};
  WriterArg wa = { p, payload, size, (size_t)(1 + seed % 70000), 0 };
  pthread_t th; bool have_thread = false;
  if(streams & Process::stdinStream) { pthread_create(&th, 0, writer, &wa); have_thread = true; }

  unsigned open_streams = streams & (Process::stdoutStream | Process::stderrStream);
  static unsigned char rb[70001];
  size_t rlen = 1 + (seed / 7) % 70000;
  int readfail = 0, spin = 0;
  while(open_streams) {
    uint s = open_streams;
    ssize r;
    if(open_streams == Process::stdoutStream && (seed & 1) && !p_vpause && !p_pause) r = p->read(rb, rlen);
    else {
      if(p_vpause) vk_pause(vpause_ms);
      r = p->read(rb, rlen, s);
      if(p_vpause) { if(vk_spun()) spin = 1; vk_pause(0); }
    }
    if(r < 0) {
      if(errno == EINTR && !spin) continue;
      readfail = 1;
      p->close(open_streams);                      // nobody reads any more: a child blocked in write() gets EPIPE and ends
      break;
    }
    if(r == 0) { p->close(s); open_streams &= ~s; continue; }
    buf_add(s == Process::stdoutStream ? out : errb, rb, (size_t)r);
  }
  if(have_thread) pthread_join(th, 0);
  uint32 exitCode = 777;
  bool joined = p->join(exitCode);
  bool running = p->isRunning();
  delete p;
  if(p_fd0) dup2(save0, 0);                        // descriptor 0 of the harness is back
  ::close(save0);
  for(int i = 0; i < nmany; ++i) ::close(many[i]);
  int timed_out = watch_fired;
  watchdog_disarm();
  if(timed_out) {
    printf("%ld ! timeout\n", c);
    free(out.d); free(errb.d); free(payload); free(first);
    return;
  }
  if(!(streams & Process::stdoutStream)) buf_file(out, "./ac.out");
  if(!(streams & Process::stderrStream)) buf_file(errb, "./ac.err");

  // header = lines up to ".\n"
  size_t h = 0; bool found = false;
  while(h < out.n) {
    size_t j = h; while(j < out.n && out.d[j] != '\n') ++j;
    if(j - h == 1 && out.d[h] == '.') { found = true; h = j + 1; break; }
    h = j + 1;
  }
  printf("%ld L ok argv=", c);
  if(!found) printf("!"); else hexlist_from_lines(out.d, h, 'A');
  printf(" env=");
  if(!found) printf("!");
  else if(env_is_inherited(out.d, h)) printf("inherit");
  else hexlist_from_lines(out.d, h, 'E');
  size_t on = found ? out.n - h : 0;
  const unsigned char* od = found ? out.d + h : 0;
  bool out_ok = (mode & 1) ? (on == size && (size == 0 || !memcmp(od, payload, size))) : on == 0;
  bool err_ok = (mode & 2) ? (errb.n == size && (size == 0 || !memcmp(errb.d, payload, size))) : errb.n == 0;
  if(p_noexec) {                                   // "<executable>: <strerror(ENOENT)>\n" on the child's stderr, nothing else
    char exe[256]; size_t el = 0;                 // command-line form: the executable is the first word
    while(first[el] && (strcmp(form, "cmd") || first[el] != ' ') && el + 1 < sizeof(exe)) { exe[el] = first[el]; ++el; }
    exe[el] = 0;
    char msg[512]; int ml = snprintf(msg, sizeof(msg), "%s: %s\n", exe, strerror(ENOENT));
    err_ok = ml > 0 && errb.n == (size_t)ml && !memcmp(errb.d, msg, (size_t)ml);
    out_ok = out.n == 0;
    on = out.n;
  }
  printf(" join=%d exit=%u running=%d out=%lu:%s err=%lu:%s io=%s", joined ? 1 : 0, (unsigned)exitCode, running ? 1 : 0,
         (unsigned long)on, out_ok ? "ok" : "bad", (unsigned long)errb.n, err_ok ? "ok" : "bad",
         spin ? "spin" : (wa.failed || readfail) ? "fail" : "ok");     // spin: the reader kept asking select/poll with a zero time-out
  if(p_again) printf(" again=%d,%d,%d,%d | errno=%d,%d,%d,%d", again_r[0], again_r[1], again_r[2], again_r[3], again_e[0], again_e[1], again_e[2], again_e[3]);
  printf("\n");
  free(out.d); free(errb.d); free(payload); free(first);
}


// ---- D: the process environment --------------------------------------------------------------
// ev <hex>   one string of the environment the case starts with (installed as ::environ at the
//            first environment operation; the harness's own environment is put back at the end)
enum { MAXEV = 64 };
static char* evs[MAXEV]; static int nevs = 0;
static char** saved_environ = 0; static bool env_installed = false;

static void env_install()
{
  if(env_installed) return;
  char** arr = (char**)malloc(sizeof(char*) * (nevs + 1));     // exact size; glibc copies it before changing it
  for(int i = 0; i < nevs; ++i) arr[i] = evs[i];
  arr[nevs] = 0;
  saved_environ = environ;
  environ = arr;
  env_installed = true;
}
static void env_reset()
{
  if(env_installed) { environ = saved_environ; env_installed = false; }
  nevs = 0;                                                      // the strings stay allocated (glibc may still point at them)
}
static String str_of_hex(const char* hex)
{
  size_t n; unsigned char* b = vh::unhex(hex, n, 1);
  String r((const char*)b, n);
  free(b);
  return r;
}
static void put_environ_raw()
{
  if(!environ || !environ[0]) { printf("none"); return; }
  for(int i = 0; environ[i]; ++i) { if(i) printf(","); puthexs(environ[i], strlen(environ[i])); }
}
static int cmp_entry_key(const void* a, const void* b)
{
  const unsigned char* x = *(const unsigned char* const*)a; const unsigned char* y = *(const unsigned char* const*)b;
  for(;; ++x, ++y) {
    bool ex = *x == '=' || !*x, ey = *y == '=' || !*y;
    if(ex || ey) return ex ? (ey ? 0 : -1) : 1;
    if(*x != *y) return *x < *y ? -1 : 1;
  }
}

static void do_env(long c, vh::Tok& t)
{
  if(too_many) { printf("%ld ?too-many %s\n", c, too_many); return; }
  env_install();
  const char* o = t.v[0];
  if(!strcmp(o, "eget") && t.n >= 3) {
    String v = Process::getEnvironmentVariable(str_of_hex(t.v[1]), str_of_hex(t.v[2]));
    printf("%ld get ", c); puthexs((const char*)v, v.length()); printf("\n");
  } else if(!strcmp(o, "eset") && t.n >= 3) {
    bool ok = Process::setEnvironmentVariable(str_of_hex(t.v[1]), str_of_hex(t.v[2]));
    printf("%ld set %d | ", c, ok ? 1 : 0); put_environ_raw(); printf("\n");
  } else if(!strcmp(o, "evars")) {
    Map<String, String> m = Process::getEnvironmentVariables();
    printf("%ld vars ", c);
    if(m.isEmpty()) printf("none");
    bool first = true;
    for(Map<String, String>::Iterator i = m.begin(), end = m.end(); i != end; ++i) {
      if(!first) printf(","); first = false;
      puthexs((const char*)i.key(), i.key().length()); printf(":"); puthexs((const char*)*i, i->length());
    }
    printf("\n");
  } else if(!strcmp(o, "echild")) {
    // a child started with an empty environment map inherits ::environ: it echoes what it got
    FILE* f = fopen("./ac.ctl", "w"); fprintf(f, "0 0\n"); fclose(f);
    fflush(stdout);
    Process* p = new Process;
    Buf out = {0, 0, 0};
    bool ok = p->open(String(CHILD_PATH, strlen(CHILD_PATH)), Process::stdoutStream);
    if(ok) {
      static unsigned char rb[65536];
      for(;;) { ssize r = p->read(rb, sizeof(rb)); if(r < 0 && errno == EINTR) continue; if(r <= 0) break; buf_add(out, rb, (size_t)r); }
    }
    uint32 code = 777; bool joined = ok && p->join(code);
    delete p;
    if(!ok || !joined || code != 0) { printf("%ld child ! %d %d %u\n", c, ok ? 1 : 0, joined ? 1 : 0, (unsigned)code); free(out.d); return; }
    // E lines, raw order; then those with '=' sorted by name
    char* lines[256]; int nl = 0;
    size_t i = 0;
    while(i < out.n && nl < 256) {
      size_t j = i; while(j < out.n && out.d[j] != '\n') ++j;
      if(j - i == 1 && out.d[i] == '.') break;
      if(j - i >= 2 && out.d[i] == 'E' && out.d[i + 1] == ' ') {
        out.d[j] = 0;
        size_t n; lines[nl++] = (char*)vh::unhex((const char*)out.d + i + 2, n, 1);
      }
      i = j + 1;
    }
    char* vis[256]; int nv = 0;
    for(int k = 0; k < nl; ++k) if(strchr(lines[k], '=')) vis[nv++] = lines[k];
    qsort(vis, (size_t)nv, sizeof(char*), cmp_entry_key);
    printf("%ld child ", c);
    if(!nv) printf("none");
    for(int k = 0; k < nv; ++k) { if(k) printf(","); puthexs(vis[k], strlen(vis[k])); }
    printf(" | ");
    if(!nl) printf("none");
    for(int k = 0; k < nl; ++k) { if(k) printf(","); puthexs(lines[k], strlen(lines[k])); }
    printf("\n");
    for(int k = 0; k < nl; ++k) free(lines[k]);
    free(out.d);
  }
}

// ---- E: the Process object -------------------------------------------------------------------
// One object per case (a new one after pdel).  Around every call the recorder of args_kernel.cpp
// logs the system calls the Process code makes; failures are injected through it.  Descriptor 0
// of the harness is a scratch file for the time of the case, so that a read()/write() that goes to
// descriptor 0 is seen (the file offset moves).  The number of open descriptors of the harness
// process is counted in /proc/self/fd before the case and after every call.
static Process* pp = 0;
static bool p_ready = false;
static int p_base = 0, p_save0 = -1;
static pid_t p_live = 0;                   // child started and not known to be reaped
static bool p_intr = false;                // an interrupt() that no wait() has consumed yet
static bool p_waited = false;              // wait() or interrupt() was called in this case

static void stdin_scratch()
{
  int fd = ::open("./ac.in", O_CREAT | O_TRUNC | O_RDWR, 0600);
  char fill[64]; memset(fill, 'x', sizeof(fill));
  if(::write(fd, fill, sizeof(fill)) != (ssize_t)sizeof(fill)) { }
  lseek(fd, 0, SEEK_SET);
  if(fd != 0) { dup2(fd, 0); ::close(fd); }
}
static void pobj_setup()
{
  if(p_ready) return;
  p_ready = true;
  FILE* f = fopen("./ac.ctl", "w"); fprintf(f, "%d %d\n", p_code, p_mode); fclose(f);
  fflush(stdout);
  p_save0 = dup(0);
  stdin_scratch();
  vk_begin_case();
  p_base = vk_count_fds();
}
static void reap_live()
{
  if(p_live > 0) { ::kill(p_live, SIGKILL); int st; waitpid(p_live, &st, 0); p_live = 0; }
}
static void pobj_reset()
{
  if(!p_ready) return;
  if(pp) { if(p_live > 0) ::kill(p_live, SIGKILL); delete pp; pp = 0; }
  reap_live();
  // Process::wait/interrupt keep two static variables: bring them back to their initial values through the interface
  // (an interrupt is pending after this call at the latest; the wait consumes it and returns at once)
  if(p_waited) { Process::interrupt(); Process::wait(0, 0); p_waited = false; }
  p_intr = false;
  dup2(p_save0, 0); ::close(p_save0); p_save0 = -1;
  p_ready = false;
}
static bool has_flag(vh::Tok& t, const char* f) { for(int i = 1; i < t.n; ++i) if(!strcmp(t.v[i], f)) return true; return false; }
// What a call answers is printed as the caller sees it (1 / 0 for the bool results, data / eof / err for read and write).
// Which errno a FAILED call leaves is not part of the property text: it goes into the second section (errno=EINVAL / other /
// - when the call did not fail), which only the model predicts.
static const char* io_class(ssize r) { return r > 0 ? "data" : r == 0 ? "eof" : "err"; }
static const char* errno_class(bool failed, int e) { return !failed ? "-" : e == EINVAL ? "EINVAL" : "other"; }

static void do_pobj(long c, vh::Tok& t)
{
  pobj_setup();
  const char* o = t.v[0];
  if(!strcmp(o, "psig")) {                  // the harness (not the library) signals the child and waits until it is dead
    if(pp && pp->pid) { ::kill((pid_t)pp->pid, atoi(t.v[1])); siginfo_t si; waitid(P_PID, (id_t)pp->pid, &si, WEXITED | WNOWAIT); }
    return;
  }
  if(!pp) pp = new Process;
  bool launch = !strcmp(o, "popen") || !strcmp(o, "pstart");
  bool fd0 = has_flag(t, "fd0");
  unsigned streams = (t.n >= 2 && (launch || !strcmp(o, "pclose") || !strcmp(o, "pread2"))) ? (unsigned)atoi(t.v[1]) : 0;
  char res[64]; res[0] = 0;
  const char* ecl = "-";
  static char buf[65536];
  int s1 = -1, s2 = -1;
  {                                         // descriptor 0: the scratch file with its 64 bytes, offset 0
    char fill[64]; memset(fill, 'x', sizeof(fill));
    if(ftruncate(0, 0) != 0 || lseek(0, 0, SEEK_SET) != 0 || ::write(0, fill, sizeof(fill)) != (ssize_t)sizeof(fill)) { }
    lseek(0, 0, SEEK_SET);
  }
  if(launch) {                              // a stream that is not redirected must not end up in the observations
    fflush(stdout); fflush(stderr);
    s1 = dup(1); s2 = dup(2);
    int n = ::open("/dev/null", O_WRONLY); dup2(n, 1); dup2(n, 2); ::close(n);
  }
  if(fd0) ::close(0);
  for(int k = 1; k <= 3; ++k) { char f[16]; snprintf(f, sizeof(f), "pipefail%d", k); if(has_flag(t, f)) vk_inject(VK_PIPEFAIL, k); }
  if(has_flag(t, "dupfail")) vk_inject(VK_DUPFAIL, 0);
  if(has_flag(t, "waitfail")) vk_inject(VK_WAITFAIL, 0);
  if(has_flag(t, "vforkfail")) vk_inject(VK_VFORKFAIL, 0);
  errno = 0;
  vk_enter();
  if(!strcmp(o, "popen")) {
    char* none[1] = {0};
    bool ok = pp->open(String(CHILD_PATH, strlen(CHILD_PATH)), 1, none, streams);
    int e = errno;
    snprintf(res, sizeof(res), "%s", ok ? "1" : "0"); ecl = errno_class(!ok, e);
  } else if(!strcmp(o, "pstart")) {
    char* none[1] = {0};
    uint32 r = pp->start(String(CHILD_PATH, strlen(CHILD_PATH)), 1, none);
    int e = errno;
    snprintf(res, sizeof(res), "%s", r ? "1" : "0"); ecl = errno_class(!r, e);
  } else if(!strcmp(o, "pjoin")) {
    uint32 code = 777;
    bool ok = pp->join(code);
    int e = errno;
    if(ok) snprintf(res, sizeof(res), "1:%u", (unsigned)code); else snprintf(res, sizeof(res), "0");
    ecl = errno_class(!ok, e);
  } else if(!strcmp(o, "pjoin0")) {          // join() without an exit code
    bool ok = pp->join();
    int e = errno;
    snprintf(res, sizeof(res), "%s", ok ? "1" : "0"); ecl = errno_class(!ok, e);
  } else if(!strcmp(o, "pwait")) {           // Process::wait on this one object: the object, or 0 (interrupted / no child)
    Process* which = Process::wait(&pp, 1);
    p_intr = false; p_waited = true;
    snprintf(res, sizeof(res), "%s", which == pp ? "1" : which ? "other" : "0");
  } else if(!strcmp(o, "pintr")) {           // Process::interrupt(): the next wait returns 0 at once
    Process::interrupt();
    p_intr = true; p_waited = true;
    snprintf(res, sizeof(res), "-");
  } else if(!strcmp(o, "pkill")) {
    bool ok = pp->kill();
    int e = errno;
    snprintf(res, sizeof(res), "%s", ok ? "1" : "0"); ecl = errno_class(!ok, e);
  } else if(!strcmp(o, "pclose")) {
    pp->close(streams);
    snprintf(res, sizeof(res), "-");
  } else if(!strcmp(o, "pread")) {
    ssize r = pp->read(buf, sizeof(buf));
    int e = errno;
    snprintf(res, sizeof(res), "%s", io_class(r)); ecl = errno_class(r < 0, e);
  } else if(!strcmp(o, "pread2")) {
    uint s = streams;
    bool vp = has_flag(t, "pause");          // virtual silence of 5 s first (args_kernel.h); the answer must be the same
    if(vp) vk_pause(5000);
    ssize r = pp->read(buf, sizeof(buf), s);
    int e = errno;
    bool spin = vp && vk_spun();
    if(vp) vk_pause(0);
    if(spin) snprintf(res, sizeof(res), "spin");
    else if(r >= 0) snprintf(res, sizeof(res), "%s:%u", io_class(r), (unsigned)s); else snprintf(res, sizeof(res), "%s", io_class(r));
    ecl = errno_class(r < 0, e);
  } else if(!strcmp(o, "pwrite")) {
    size_t n = t.n >= 2 ? (size_t)atol(t.v[1]) : 1;
    if(n > sizeof(buf)) n = sizeof(buf);
    memset(buf, 'w', n);
    ssize r = pp->write(buf, n);
    int e = errno;
    snprintf(res, sizeof(res), "%s", io_class(r)); ecl = errno_class(r < 0, e);
  } else if(!strcmp(o, "prun")) {
    snprintf(res, sizeof(res), "%d", pp->isRunning() ? 1 : 0);
  } else if(!strcmp(o, "pdel")) {
    delete pp; pp = 0;
    snprintf(res, sizeof(res), "-");
  } else snprintf(res, sizeof(res), "?unknown-op");
  vk_leave();
  long in0 = fd0 ? 0 : (long)lseek(0, 0, SEEK_CUR);
  // with descriptor 0 closed for the call, the count is taken before it is put back: a pipe end left on 0 counts
  int count_now = vk_count_fds() + (fd0 ? 1 : 0);      // the harness itself closed descriptor 0 for this call
  if(fd0) stdin_scratch();                  // descriptor 0 of the harness is back
  if(launch) { dup2(s1, 1); dup2(s2, 2); ::close(s1); ::close(s2); }
  const char* lg = vk_log();
  if(launch && pp && pp->pid) p_live = (pid_t)pp->pid;
  if(strstr(lg, "wait:ok")) p_live = 0;
  int held = count_now - p_base - ((launch) ? 2 : 0);      // s1/s2 (the saved stdout/stderr) were still open when counted
  printf("%ld %s %s run %d held %d stray %d in0 %ld | out=%d err=%d in=%d errno=%s | %s\n", c, o, res,
         pp && pp->isRunning() ? 1 : 0, held, vk_stray(), in0,
         pp && pp->fdStdOutRead ? 1 : 0, pp && pp->fdStdErrRead ? 1 : 0, pp && pp->fdStdInWrite ? 1 : 0, ecl, lg);
  if(!pp) reap_live();                      // a destructor whose waitpid was made to fail leaves the child behind
}

// ---- dispatch ----------------------------------------------------------------------------------
static void end_case(long) { env_reset(); pobj_reset(); }

static void op(long c, long, vh::Tok& t)
{
  if(!strcmp(t.v[0], "s") && t.n >= 2) {
    if(nstrs < MAXSTR) strs[nstrs++] = cstr_exact(t.v[1]); else too_many = "argument-strings";
  } else if(!strcmp(t.v[0], "env") && t.n >= 3) {
    if(nenv < MAXENV) { envk[nenv] = cstr_exact(t.v[1]); envv[nenv] = cstr_exact(t.v[2]); ++nenv; } else too_many = "environment-entries";
  } else if(!strcmp(t.v[0], "parse")) {
    do_parse(c, false);
  } else if(!strcmp(t.v[0], "parse0")) {
    do_parse(c, true);
  } else if(!strcmp(t.v[0], "getopt")) {
    do_getopt(c);
  } else if(!strcmp(t.v[0], "split") && t.n >= 2) {
    do_split(c, t.v[1]);
  } else if(!strcmp(t.v[0], "launch") && t.n >= 9) {
    do_launch(c, t);
  } else if(!strcmp(t.v[0], "rt") && t.n >= 2) {
    do_split(c, t.v[1]);                      // rt <joined> <word>...: the words are for the model/reference side
  } else if(!strcmp(t.v[0], "ev") && t.n >= 2) {
    if(nevs < MAXEV) evs[nevs++] = cstr_exact(t.v[1]); else too_many = "environ-strings";
  } else if(t.v[0][0] == 'e' && (!strcmp(t.v[0], "eget") || !strcmp(t.v[0], "eset") || !strcmp(t.v[0], "evars") || !strcmp(t.v[0], "echild"))) {
    do_env(c, t);
  } else if(t.v[0][0] == 'p' && strcmp(t.v[0], "parse") && strcmp(t.v[0], "parse0")) {
    do_pobj(c, t);
  } else {
    printf("%ld ?unknown-op\n", c);
  }
}

int main(int argc, char** argv)
{
  if(argc >= 2 && !strcmp(argv[1], "--seam")) { printf("split %s\n", TheSplitter::name()); return 0; }
  signal(SIGPIPE, SIG_IGN);
  struct sigaction sa; memset(&sa, 0, sizeof(sa));
  sa.sa_handler = on_vtalrm;
  sigaction(SIGVTALRM, &sa, 0);
  return vh::run(argc, argv, begin, op, end_case);
}
