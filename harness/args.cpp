// Correspondence harness for C20: Process::Arguments, the command-line splitter and the launch
// paths of Process (POSIX).  Process.cpp is compiled into this translation unit (it defines the
// file-local class Process::Private whose splitCommandLine is one of the units under test); the
// copy in libnstd.a is then not linked.  Internals are only read, except for that one call.
#include "vh.hpp"
#include <getopt.h>
#include <setjmp.h>
#include <sys/time.h>
#include <sys/stat.h>
#include <fcntl.h>
#include <errno.h>
#include <pthread.h>
#include <alloca.h>
#include <sys/types.h>
#include <sys/wait.h>
#include <dirent.h>
#include <cstdlib>
#include <cstdio>
#include <cstring>
#include <cerrno>
#define private public
#include <nstd/Process.hpp>
#include <Process.cpp>
#undef private
#include <nstd/List.hpp>
#include <nstd/Map.hpp>

extern char** environ;
#define CHILD_PATH "./ac"

// ---- per-case data ---------------------------------------------------------------------------
enum { MAXOPT = 8, MAXSTR = 32, MAXENV = 8 };
static Process::Option table[MAXOPT];
static int ntable = 0;
static char* strs[MAXSTR];
static int nstrs = 0;
static char* envk[MAXENV];
static char* envv[MAXENV];
static int nenv = 0;

static char* cstr_exact(const char* hex)     // exact-size heap string (len + terminator)
{
  size_t n; unsigned char* b = vh::unhex(hex, n, 1);
  return (char*)b;
}

static void puthexs(const char* s, size_t n)
{
  if(n == 0) { fputs("-", stdout); return; }
  for(size_t i = 0; i < n; ++i) printf("%02x", (unsigned char)s[i]);
}

// case <n> T <char>:<name hex or ~>:<flags> ...      (the option table is the case configuration)
static void begin(long, vh::Tok& t)
{
  for(int i = 0; i < ntable; ++i) free((void*)table[i].name);
  for(int i = 0; i < nstrs; ++i) free(strs[i]);
  for(int i = 0; i < nenv; ++i) { free(envk[i]); free(envv[i]); }
  ntable = nstrs = nenv = 0;
  for(int k = 3; k < t.n && ntable < MAXOPT; ++k) {
    char* a = t.v[k];
    char* b = strchr(a, ':'); if(!b) continue; *b++ = 0;
    char* d = strchr(b, ':'); if(!d) continue; *d++ = 0;
    table[ntable].character = atoi(a);
    table[ntable].name = strcmp(b, "~") ? cstr_exact(b) : 0;
    table[ntable].flags = (uint32)atoi(d);
    ++ntable;
  }
}

// ---- A: Process::Arguments -------------------------------------------------------------------
template<usize N> static Process::Arguments* mk(int argc, char** argv, Process::Option* t)
{
  return new Process::Arguments(argc, argv, *(const Process::Option(*)[N])t);
}

static void cursor_out(Process::Arguments* a, char** base)
{
  long idx = (long)(a->argv - base);
  long pos = 0;
  if(idx >= 2) pos = (long)(a->arg - base[idx - 1]);
  printf(" | %ld %ld %d %d\n", idx, pos, a->inOpt ? 1 : 0, a->skipOpt ? 1 : 0);
}

// parse   : Arguments(argc, argv) with argv[0] = "prog", read() until false, then twice more
// parse0  : Arguments(0, empty array)  (the constructor steps past argvEnd)
static void do_parse(long c, bool argc0)
{
  if(ntable == 0) { printf("%ld ?no-table\n", c); return; }
  // the table and argv arrays are exact-size heap blocks as well
  Process::Option* t = (Process::Option*)malloc(sizeof(Process::Option) * (ntable ? ntable : 1));
  memcpy(t, table, sizeof(Process::Option) * ntable);
  int argc = argc0 ? 0 : nstrs + 1;
  char** argv = (char**)malloc(sizeof(char*) * (argc ? argc : 1));
  char prog[] = "prog";
  if(!argc0) {
    argv[0] = prog;
    for(int i = 0; i < nstrs; ++i) argv[i + 1] = strs[i];
  }
  Process::Arguments* a;
  switch(ntable) {
  case 1: a = mk<1>(argc, argv, t); break;
  case 2: a = mk<2>(argc, argv, t); break;
  case 3: a = mk<3>(argc, argv, t); break;
  case 4: a = mk<4>(argc, argv, t); break;
  case 5: a = mk<5>(argc, argv, t); break;
  case 6: a = mk<6>(argc, argv, t); break;
  case 7: a = mk<7>(argc, argv, t); break;
  default: a = mk<8>(argc, argv, t); break;
  }
  int character;
  String argument;
  int guard = 0;
  for(;;) {
    character = -1;
    bool ok = a->read(character, argument);
    if(!ok) {
      printf("%ld end", c); cursor_out(a, argv);
      for(int k = 0; k < 2; ++k) {              // false is final: the same answer, the same cursor
        character = -1;
        bool again = a->read(character, argument);
        printf("%ld again %d", c, again ? 1 : 0); cursor_out(a, argv);
      }
      break;
    }
    printf("%ld r %d ", c, character);
    puthexs((const char*)argument, argument.length());
    cursor_out(a, argv);
    if(++guard > 400) { printf("%ld ! runaway\n", c); break; }
  }
  delete a;
  free(argv);
  free(t);
}

// glibc getopt_long on the same table and strings (search oracle only)
static void do_getopt(long c)
{
  if(ntable == 0) { printf("%ld ?no-table\n", c); return; }
  char optstring[4 * MAXOPT + 3];
  struct option longopts[MAXOPT + 1];
  int no = 0, nl = 0;
  optstring[no++] = '-';
  optstring[no++] = ':';
  for(int i = 0; i < ntable; ++i) {
    int has = (table[i].flags & Process::argumentFlag) ? ((table[i].flags & Process::optionalFlag) ? 2 : 1) : 0;
    int ch = table[i].character;
    if(ch > 0 && ch < 128) {
      bool dup = false;
      for(int k = 2; k < no; ++k) if(optstring[k] == ch) dup = true;
      if(!dup) {
        optstring[no++] = (char)ch;
        for(int k = 0; k < has; ++k) optstring[no++] = ':';
      }
    }
    if(table[i].name) {
      longopts[nl].name = table[i].name; longopts[nl].has_arg = has; longopts[nl].flag = 0; longopts[nl].val = ch; ++nl;
    }
  }
  optstring[no] = 0;
  memset(&longopts[nl], 0, sizeof(longopts[nl]));
  int argc = nstrs + 1;
  char** argv = (char**)malloc(sizeof(char*) * (argc + 1));
  char prog[] = "prog";
  argv[0] = prog;
  for(int i = 0; i < nstrs; ++i) argv[i + 1] = strs[i];
  argv[argc] = 0;
  optind = 0; opterr = 0;
  for(int guard = 0; guard < 400; ++guard) {
    int idx = -1;
    optarg = 0;
    int r = getopt_long(argc, argv, optstring, longopts, &idx);
    if(r == -1) break;
    if(r == 1) { printf("%ld r 0 ", c); puthexs(optarg, strlen(optarg)); printf("\n"); }
    else if(r == '?' || r == ':') printf("%ld r %d ?\n", c, r);
    else { printf("%ld r %d ", c, r); if(optarg) puthexs(optarg, strlen(optarg)); else printf("-"); printf("\n"); }
  }
  for(int i = optind; i < argc; ++i) { printf("%ld r 0 ", c); puthexs(argv[i], strlen(argv[i])); printf("\n"); }
  printf("%ld end\n", c);
  free(argv);
}

// ---- B: splitCommandLine ---------------------------------------------------------------------
static sigjmp_buf jb;
static volatile int armed = 0;
static void on_vtalrm(int) { if(armed) { armed = 0; siglongjmp(jb, 1); } }

static void arm(long ms)
{
  struct itimerval it; memset(&it, 0, sizeof(it));
  it.it_value.tv_sec = ms / 1000; it.it_value.tv_usec = (ms % 1000) * 1000;
  armed = ms ? 1 : 0;
  setitimer(ITIMER_VIRTUAL, &it, 0);
}

static void do_split(long c, const char* hex)
{
  char* s = cstr_exact(hex);
  size_t n = strlen(s);
  // String keeps its own copy; give it an exact-size one too (String(const char*, len) allocates len+1)
  String* cmdline = new String(s, n);
  List<String>* words = new List<String>;
  if(sigsetjmp(jb, 1) == 0) {
    arm(10 + (long)n / 100);      // CPU time; the loop in question spins without allocating
    Process::Private::splitCommandLine(*cmdline, *words);
    arm(0);
    printf("%ld words %d", c, (int)words->size());
    for(List<String>::Iterator i = words->begin(), end = words->end(); i != end; ++i) {
      printf(" "); puthexs((const char*)*i, i->length());
    }
    printf("\n");
    delete words;
    delete cmdline;
  } else {
    arm(0);
    printf("%ld ! timeout\n", c);   // words/cmdline are leaked on purpose (state unknown)
  }
  free(s);
}

// ---- C: launch -------------------------------------------------------------------------------
struct Buf { unsigned char* d; size_t n, cap; };
static void buf_add(Buf& b, const void* p, size_t n)
{
  if(b.n + n > b.cap) { b.cap = (b.n + n) * 2 + 4096; b.d = (unsigned char*)realloc(b.d, b.cap); }
  memcpy(b.d + b.n, p, n); b.n += n;
}
static void buf_file(Buf& b, const char* path)
{
  int fd = ::open(path, O_RDONLY);
  if(fd < 0) return;
  unsigned char tmp[65536];
  for(;;) { ssize_t r = ::read(fd, tmp, sizeof(tmp)); if(r <= 0) break; buf_add(b, tmp, (size_t)r); }
  ::close(fd);
}

struct WriterArg { Process* p; const unsigned char* data; size_t n; size_t chunk; int failed; };
static void* writer(void* v)
{
  WriterArg* w = (WriterArg*)v;
  size_t off = 0;
  while(off < w->n) {
    size_t k = w->n - off < w->chunk ? w->n - off : w->chunk;
    ssize r = w->p->write(w->data + off, k);
    if(r <= 0) { if(r < 0 && errno == EINTR) continue; w->failed = 1; break; }
    off += (size_t)r;
  }
  w->p->close(Process::stdinStream);
  return 0;
}

static void hexlist_from_lines(const unsigned char* d, size_t n, char tag)
{
  // lines "<tag> <hex>\n"; prints hex,hex,... or "none"
  bool any = false;
  size_t i = 0;
  while(i < n) {
    size_t j = i; while(j < n && d[j] != '\n') ++j;
    if(j - i >= 2 && d[i] == (unsigned char)tag && d[i + 1] == ' ') {
      if(any) printf(",");
      fwrite(d + i + 2, 1, j - i - 2, stdout);
      any = true;
    }
    i = j + 1;
  }
  if(!any) printf("none");
}

static bool env_is_inherited(const unsigned char* d, size_t n)
{
  // the child's E lines equal this process's environ, in order
  char** e = environ;
  size_t i = 0;
  while(i < n) {
    size_t j = i; while(j < n && d[j] != '\n') ++j;
    if(j - i >= 2 && d[i] == 'E' && d[i + 1] == ' ') {
      if(!*e) return false;
      const char* s = *e; size_t k = i + 2;
      if(!*s) { if(!(j - k == 1 && d[k] == '-')) return false; }
      else {
        for(; *s; ++s, k += 2) {
          char h[3];
          if(k + 1 >= j) return false;
          snprintf(h, sizeof(h), "%02x", (unsigned char)*s);
          if(d[k] != (unsigned char)h[0] || d[k + 1] != (unsigned char)h[1]) return false;
        }
        if(k != j) return false;
      }
      ++e;
    }
    i = j + 1;
  }
  return *e == 0;
}

// Watchdog of one launch: a child that never sees end-of-file on its stdin (or never ends) would
// block read()/join() for the whole per-case budget.  After the launch's own budget the child is
// killed (everything blocked on it returns) and the case reports `! timeout`; should that not
// unblock the harness either, the second alarm ends the process (vf.py then reports the timeout).
static volatile pid_t watch_pid = 0;
static volatile int watch_fired = 0;
static void on_alarm(int)
{
  if(watch_fired++ == 0) {
    if(watch_pid > 0) ::kill(watch_pid, SIGKILL);
    alarm(5);
  } else {
    signal(SIGALRM, SIG_DFL);
    raise(SIGALRM);
  }
}
static void watchdog_arm(unsigned seconds)
{
  struct sigaction sa; memset(&sa, 0, sizeof(sa));
  sa.sa_handler = on_alarm; sa.sa_flags = SA_RESTART;
  sigaction(SIGALRM, &sa, 0);
  watch_fired = 0; watch_pid = 0;
  alarm(seconds);
}
static void watchdog_disarm()
{
  alarm(0);
  signal(SIGALRM, SIG_DFL);
  watch_pid = 0;
  alarm((unsigned)vh::case_timeout());      // the per-case watchdog of vh::run is back
}

static void do_launch(long c, vh::Tok& t)
{
  // launch <api:open|start> <form:cmd|argv|argv0|list> <streams> <exit> <mode> <size> <seed> <hex: command line or executable> [profile]
  // profile: norm (default) | again (a second open/start on the running Process must fail with EINVAL)
  //          | fd0 (descriptor 0 of the parent is closed while the process is opened)
  //          | noexec (the executable does not exist: the child reports on stderr and exits with EXIT_FAILURE)
  const char* profile = t.n >= 10 ? t.v[9] : "norm";
  bool p_again = !strcmp(profile, "again"), p_fd0 = !strcmp(profile, "fd0"), p_noexec = !strcmp(profile, "noexec");
  const char* api = t.v[1]; const char* form = t.v[2];
  unsigned streams = (unsigned)atoi(t.v[3]);
  int code = atoi(t.v[4]), mode = atoi(t.v[5]);
  size_t size = (size_t)atol(t.v[6]);
  unsigned seed = (unsigned)atol(t.v[7]);
  char* first = cstr_exact(t.v[8]);
  bool is_open = !strcmp(api, "open");
  if(!is_open) streams = 0;

  FILE* f = fopen("./ac.ctl", "w");
  fprintf(f, "%d %d\n", code, mode);
  fclose(f);

  unsigned char* payload = (unsigned char*)malloc(size ? size : 1);
  unsigned x = seed * 2654435761u + 12345u;
  for(size_t i = 0; i < size; ++i) { x = x * 1664525u + 1013904223u; payload[i] = (unsigned char)(x >> 24); }

  Map<String, String> env;
  for(int i = nenv - 1; i >= 0; --i) env.insert(String(envk[i], strlen(envk[i])), String(envv[i], strlen(envv[i])));

  // streams that are not redirected go to/come from files for the time of the launch
  fflush(stdout); fflush(stderr);
  int save0 = dup(0), save1 = dup(1), save2 = dup(2);
  if(!(streams & Process::stdoutStream)) { int fd = ::open("./ac.out", O_CREAT | O_TRUNC | O_WRONLY, 0600); dup2(fd, 1); ::close(fd); }
  if(!(streams & Process::stderrStream)) { int fd = ::open("./ac.err", O_CREAT | O_TRUNC | O_WRONLY, 0600); dup2(fd, 2); ::close(fd); }
  if(p_fd0)
    ::close(0);                                  // pipe() may now hand out descriptor 0
  else if(!(streams & Process::stdinStream)) {
    int fd = ::open("./ac.in", O_CREAT | O_TRUNC | O_WRONLY, 0600);
    size_t off = 0; while(off < size) { ssize_t w = ::write(fd, payload + off, size - off); if(w <= 0) break; off += (size_t)w; }
    ::close(fd);
    fd = ::open("./ac.in", O_RDONLY); dup2(fd, 0); ::close(fd);
  }

  watchdog_arm(4 + (unsigned)(size >> 18));        // 4 s + 4 s per MiB of payload
  Process* p = new Process;
  bool ok = false;
  if(!strcmp(form, "cmd")) {
    String cmd(first, strlen(first));
    ok = is_open ? p->open(cmd, streams, env) : p->start(cmd, env) != 0;
  } else if(!strcmp(form, "list")) {
    List<String> args;
    for(int i = 0; i < nstrs; ++i) args.append(String(strs[i], strlen(strs[i])));
    ok = p->open(String(first, strlen(first)), args, streams, env);
  } else {
    bool nullterm = !strcmp(form, "argv0");
    int argc = nstrs + (nullterm ? 1 : 0);
    char** argv = (char**)malloc(sizeof(char*) * (argc ? argc : 1));   // exactly argc pointers
    for(int i = 0; i < nstrs; ++i) argv[i] = strs[i];
    if(nullterm) argv[nstrs] = 0;
    String exe(first, strlen(first));
    ok = is_open ? p->open(exe, argc, argv, streams, env) : p->start(exe, argc, argv, env) != 0;
    free(argv);
  }
  int err = errno;
  watch_pid = ok ? (pid_t)p->pid : 0;
  int again_r[4] = {-1, -1, -1, -1}, again_e[4] = {0, 0, 0, 0};
  if(ok && p_again) {                            // the Process is running: all four entry points must refuse
    String exe(CHILD_PATH, strlen(CHILD_PATH));
    char* none[1] = {0};
    errno = 0; again_r[0] = p->open(exe, 1, none, streams, env) ? 1 : 0; again_e[0] = errno;
    errno = 0; again_r[1] = p->open(exe, streams, env) ? 1 : 0; again_e[1] = errno;
    errno = 0; again_r[2] = p->start(exe, 1, none, env) != 0 ? 1 : 0; again_e[2] = errno;
    errno = 0; again_r[3] = p->start(exe, env) != 0 ? 1 : 0; again_e[3] = errno;
  }
  if(!p_fd0) dup2(save0, 0);
  dup2(save1, 1); dup2(save2, 2);
  ::close(save1); ::close(save2);

  if(!ok) {
    if(p_fd0) dup2(save0, 0);
    ::close(save0);
    watchdog_disarm();
    printf("%ld L fail %d\n", c, err);
    delete p; free(payload); free(first);
    return;
  }

  Buf out = {0, 0, 0}, errb = {0, 0, 0};
  WriterArg wa = { p, payload, size, (size_t)(1 + seed % 70000), 0 };
  pthread_t th; bool have_thread = false;
  if(streams & Process::stdinStream) { pthread_create(&th, 0, writer, &wa); have_thread = true; }

  unsigned open_streams = streams & (Process::stdoutStream | Process::stderrStream);
  static unsigned char rb[70001];
  size_t rlen = 1 + (seed / 7) % 70000;
  int readfail = 0;
  while(open_streams) {
    uint s = open_streams;
    ssize r;
    if(open_streams == Process::stdoutStream && (seed & 1)) r = p->read(rb, rlen);
    else r = p->read(rb, rlen, s);
    if(r < 0) { if(errno == EINTR) continue; readfail = 1; break; }
    if(r == 0) { p->close(s); open_streams &= ~s; continue; }
    buf_add(s == Process::stdoutStream ? out : errb, rb, (size_t)r);
  }
  if(have_thread) pthread_join(th, 0);
  uint32 exitCode = 777;
  bool joined = p->join(exitCode);
  bool running = p->isRunning();
  delete p;
  if(p_fd0) dup2(save0, 0);                        // descriptor 0 of the harness is back
  ::close(save0);
  int timed_out = watch_fired;
  watchdog_disarm();
  if(timed_out) {
    printf("%ld ! timeout\n", c);
    free(out.d); free(errb.d); free(payload); free(first);
    return;
  }
  if(!(streams & Process::stdoutStream)) buf_file(out, "./ac.out");
  if(!(streams & Process::stderrStream)) buf_file(errb, "./ac.err");

  // header = lines up to ".\n"
  size_t h = 0; bool found = false;
  while(h < out.n) {
    size_t j = h; while(j < out.n && out.d[j] != '\n') ++j;
    if(j - h == 1 && out.d[h] == '.') { found = true; h = j + 1; break; }
    h = j + 1;
  }
  printf("%ld L ok argv=", c);
  if(!found) printf("!"); else hexlist_from_lines(out.d, h, 'A');
  printf(" env=");
  if(!found) printf("!");
  else if(env_is_inherited(out.d, h)) printf("inherit");
  else hexlist_from_lines(out.d, h, 'E');
  size_t on = found ? out.n - h : 0;
  const unsigned char* od = found ? out.d + h : 0;
  bool out_ok = (mode & 1) ? (on == size && (size == 0 || !memcmp(od, payload, size))) : on == 0;
  bool err_ok = (mode & 2) ? (errb.n == size && (size == 0 || !memcmp(errb.d, payload, size))) : errb.n == 0;
  if(p_noexec) {                                   // "<executable>: <strerror(ENOENT)>\n" on the child's stderr, nothing else
    char exe[256]; size_t el = 0;                 // command-line form: the executable is the first word
    while(first[el] && (strcmp(form, "cmd") || first[el] != ' ') && el + 1 < sizeof(exe)) { exe[el] = first[el]; ++el; }
    exe[el] = 0;
    char msg[512]; int ml = snprintf(msg, sizeof(msg), "%s: %s\n", exe, strerror(ENOENT));
    err_ok = ml > 0 && errb.n == (size_t)ml && !memcmp(errb.d, msg, (size_t)ml);
    out_ok = out.n == 0;
    on = out.n;
  }
  printf(" join=%d exit=%u running=%d out=%lu:%s err=%lu:%s io=%s", joined ? 1 : 0, (unsigned)exitCode, running ? 1 : 0,
         (unsigned long)on, out_ok ? "ok" : "bad", (unsigned long)errb.n, err_ok ? "ok" : "bad",
         (wa.failed || readfail) ? "fail" : "ok");
  if(p_again) printf(" again=%d:%d,%d:%d,%d:%d,%d:%d", again_r[0], again_e[0], again_r[1], again_e[1], again_r[2], again_e[2], again_r[3], again_e[3]);
  printf("\n");
  free(out.d); free(errb.d); free(payload); free(first);
}

// ---- dispatch ----------------------------------------------------------------------------------
static void op(long c, long, vh::Tok& t)
{
  if(!strcmp(t.v[0], "s") && t.n >= 2) {
    if(nstrs < MAXSTR) strs[nstrs++] = cstr_exact(t.v[1]);
  } else if(!strcmp(t.v[0], "env") && t.n >= 3) {
    if(nenv < MAXENV) { envk[nenv] = cstr_exact(t.v[1]); envv[nenv] = cstr_exact(t.v[2]); ++nenv; }
  } else if(!strcmp(t.v[0], "parse")) {
    do_parse(c, false);
  } else if(!strcmp(t.v[0], "parse0")) {
    do_parse(c, true);
  } else if(!strcmp(t.v[0], "getopt")) {
    do_getopt(c);
  } else if(!strcmp(t.v[0], "split") && t.n >= 2) {
    do_split(c, t.v[1]);
  } else if(!strcmp(t.v[0], "launch") && t.n >= 9) {
    do_launch(c, t);
  } else {
    printf("%ld ?unknown-op\n", c);
  }
}

int main(int argc, char** argv)
{
  signal(SIGPIPE, SIG_IGN);
  struct sigaction sa; memset(&sa, 0, sizeof(sa));
  sa.sa_handler = on_vtalrm;
  sigaction(SIGVTALRM, &sa, 0);
  return vh::run(argc, argv, begin, op, 0);
}
