// Correspondence harness for C19: the real path functions of File (part A) and the real
// File / Directory operations on a scratch tree inside a private root (part B).
#include "vh.hpp"
#include <sys/types.h>
#include <sys/stat.h>
#include <fcntl.h>
#include <dirent.h>
#include <errno.h>
#include <stdint.h>
#define private public            // read-only use: the descriptor of a File, for the cursor dump
#include <nstd/File.hpp>
#undef private
#include <nstd/Directory.hpp>
#include <nstd/String.hpp>

static String arg(const char* hex)
{
  size_t n; unsigned char* d = vh::unhex(hex, n);
  String s((const char*)d, n);
  free(d);
  return s;
}

static void put(const String& s) { vh::puthex((const unsigned char*)(const char*)s, s.length()); }

static bool path_op(long c, vh::Tok& t)
{
  if(!strcmp(t.v[0], "parts")) {
    String p = arg(t.v[1]);
    printf("%ld ", c);
    put(File::getDirectoryName(p)); printf(" ");
    put(File::getBaseName(p)); printf(" ");
    put(File::getStem(p)); printf(" ");
    put(File::getExtension(p)); printf("\n");
  } else if(!strcmp(t.v[0], "basex")) {
    String p = arg(t.v[1]), e = arg(t.v[2]);
    printf("%ld ", c);
    put(File::getBaseName(p, e)); printf(" ");
    put(File::getStem(p, e)); printf("\n");
  } else if(!strcmp(t.v[0], "simp")) {
    String p = arg(t.v[1]);
    String s1 = File::simplifyPath(p);
    printf("%ld ", c);
    put(s1); printf(" ");
    put(File::simplifyPath(s1)); printf("\n");
  } else if(!strcmp(t.v[0], "abs")) {
    printf("%ld %d\n", c, File::isAbsolutePath(arg(t.v[1])) ? 1 : 0);
  } else if(!strcmp(t.v[0], "rel")) {
    String f = arg(t.v[1]), to = arg(t.v[2]);
    String r = File::getRelativePath(f, to);
    String joined = f;                  // `from` with the answer appended ("" is the current directory)
    if(!f.isEmpty())
      joined.append('/');
    joined.append(r);
    printf("%ld ", c);
    put(r); printf(" ");
    put(File::simplifyPath(joined)); printf("\n");
  } else
    return false;
  return true;
}

// ---- part B: the real File / Directory code on a scratch tree ------------------------------------
//
// Layout (everything below the directory the harness is started in, i.e. build/C19/run):
//   fs-<pid>/g1/g2/g3/in    current directory of a case; the tree the operations are meant for
//   fs-<pid>/g1/g2/g3/out   the outside sentinel, reached through "../out" and symbolic links
// g1..g3 are guard levels: an operation that climbs out of in/out is seen in the snapshot
// (entries marked '!') and still lands inside fs-<pid>.  Set-up and snapshots use plain system
// calls, never the library under test.  The scratch tree is removed at the end of every case.

static char base_dir[4096];     // absolute path of fs-<pid>
static char home_dir[4096];     // where the harness was started
static bool fs_active = false;
static File* hnd[8];

static void rm_tree(const char* path)           // never follows symbolic links
{
  struct stat sb;
  if(lstat(path, &sb) != 0) return;
  if(S_ISDIR(sb.st_mode)) {
    DIR* d = opendir(path);
    if(d) {
      struct dirent* e;
      while((e = readdir(d))) {
        if(!strcmp(e->d_name, ".") || !strcmp(e->d_name, "..")) continue;
        char sub[8192];
        snprintf(sub, sizeof(sub), "%s/%s", path, e->d_name);
        rm_tree(sub);
      }
      closedir(d);
    }
    rmdir(path);
  } else
    unlink(path);
}

static char** snap; static size_t snap_n, snap_cap;
static void snap_add(char* s)
{
  if(snap_n == snap_cap) { snap_cap = snap_cap ? 2 * snap_cap : 64; snap = (char**)realloc(snap, snap_cap * sizeof(char*)); }
  snap[snap_n++] = s;
}
static int snap_cmp(const void* a, const void* b) { return strcmp(*(char* const*)a, *(char* const*)b); }

static void hexcat(char* dst, const unsigned char* b, size_t n)
{
  if(n == 0) { strcat(dst, "-"); return; }
  size_t l = strlen(dst);
  for(size_t i = 0; i < n; ++i) sprintf(dst + l + 2 * i, "%02x", b[i]);
}

// abs: path in the real file system; rel: path below fs-<pid> ("" for the root)
static void snap_walk(const char* abs, const char* rel)
{
  DIR* d = opendir(abs);
  if(!d) return;
  struct dirent* e;
  while((e = readdir(d))) {
    if(!strcmp(e->d_name, ".") || !strcmp(e->d_name, "..")) continue;
    char a2[8192], r2[8192];
    snprintf(a2, sizeof(a2), "%s/%s", abs, e->d_name);
    if(*rel) snprintf(r2, sizeof(r2), "%s/%s", rel, e->d_name); else snprintf(r2, sizeof(r2), "%s", e->d_name);
    struct stat sb;
    if(lstat(a2, &sb) != 0) continue;
    const char* shown = r2;
    bool guard = !strcmp(r2, "g1") || !strcmp(r2, "g1/g2") || !strcmp(r2, "g1/g2/g3");
    bool inside = !strncmp(r2, "g1/g2/g3/", 9);
    if(inside) shown = r2 + 9;
    char* line = 0;
    if(S_ISDIR(sb.st_mode)) {
      if(!guard) { line = (char*)malloc(strlen(r2) + 8); sprintf(line, "%s%s:d", inside ? "" : "!", shown); }
    } else if(S_ISLNK(sb.st_mode)) {
      char t[4096]; ssize_t n = readlink(a2, t, sizeof(t));
      if(n < 0) n = 0;
      line = (char*)malloc(strlen(r2) + 2 * (size_t)n + 16); sprintf(line, "%s%s:l:", inside ? "" : "!", shown);
      hexcat(line, (const unsigned char*)t, (size_t)n);
    } else {
      size_t cap = (size_t)sb.st_size + 1; unsigned char* buf = (unsigned char*)malloc(cap);
      size_t n = 0;
      int fd = open(a2, O_RDONLY | O_NOFOLLOW);
      if(fd >= 0) { ssize_t k; while(n < cap && (k = read(fd, buf + n, cap - n)) > 0) n += (size_t)k; close(fd); }
      line = (char*)malloc(strlen(r2) + 2 * n + 16); sprintf(line, "%s%s:f:", inside ? "" : "!", shown);
      hexcat(line, buf, n);
      free(buf);
    }
    if(line) snap_add(line);
    if(S_ISDIR(sb.st_mode)) snap_walk(a2, r2);
  }
  closedir(d);
}

static void print_snapshot()
{
  snap_n = 0;
  snap_walk(base_dir, "");
  qsort(snap, snap_n, sizeof(char*), snap_cmp);
  if(snap_n == 0) printf("-");
  for(size_t i = 0; i < snap_n; ++i) { printf("%s%s", i ? " " : "", snap[i]); free(snap[i]); }
}

static bool handle_is_dir(int h)
{
  struct stat sb;
  return fstat((int)(intptr_t)hnd[h]->fp, &sb) == 0 && S_ISDIR(sb.st_mode);
}

static void print_handles()
{
  bool any = false;
  for(int h = 0; h < 8; ++h)
    if(hnd[h] && hnd[h]->isOpen()) {
      long long pos = (long long)lseek((int)(intptr_t)hnd[h]->fp, 0, SEEK_CUR);
      if(handle_is_dir(h)) printf("%sh%d@dir", any ? " " : "", h);   // the cursor of a directory is the file system's business
      else printf("%sh%d@%lld", any ? " " : "", h, pos);
      any = true;
    }
  if(!any) printf("-");
}

static void fin(long c)
{
  printf(" | "); print_snapshot(); printf(" | "); print_handles(); printf("\n");
  (void)c;
}

static void fs_end()
{
  if(!fs_active) return;
  for(int h = 0; h < 8; ++h) { delete hnd[h]; hnd[h] = 0; }
  if(chdir(home_dir) != 0) _exit(3);
  rm_tree(base_dir);
  fs_active = false;
}

static void fs_begin()
{
  fs_end();
  if(!getcwd(home_dir, sizeof(home_dir))) _exit(3);
  snprintf(base_dir, sizeof(base_dir), "%s/fs-%ld", home_dir, (long)getpid());
  rm_tree(base_dir);
  char p[8192];
  const char* levels[] = {"", "/g1", "/g1/g2", "/g1/g2/g3", "/g1/g2/g3/in", "/g1/g2/g3/out"};
  for(int i = 0; i < 6; ++i) { snprintf(p, sizeof(p), "%s%s", base_dir, levels[i]); if(mkdir(p, 0755) != 0) { perror(p); _exit(3); } }
  snprintf(p, sizeof(p), "%s/g1/g2/g3/in", base_dir);
  if(chdir(p) != 0) _exit(3);
  fs_active = true;
}

static bool fs_op(long c, vh::Tok& t)
{
  const char* o = t.v[0];
  int h = (t.n > 1 && (!strcmp(o, "open") || !strcmp(o, "close") || !strcmp(o, "write") || !strcmp(o, "read") ||
                       !strcmp(o, "readall") || !strcmp(o, "seek") || !strcmp(o, "size"))) ? atoi(t.v[1]) & 7 : -1;
  bool handle_op = h >= 0 && strcmp(o, "open") && strcmp(o, "close");
  if(!fs_active) return false;
  if(handle_op && !(hnd[h] && hnd[h]->isOpen())) { printf("%ld ?closed", c); fin(c); return true; }
  if(handle_op && handle_is_dir(h)) { printf("%ld ?dir", c); fin(c); return true; }
  if(!strcmp(o, "mkd")) {
    printf("%ld %d", c, mkdir(arg(t.v[1]), 0755) == 0 ? 1 : 0);
  } else if(!strcmp(o, "mkf")) {
    String p = arg(t.v[1]); size_t n; unsigned char* d = vh::unhex(t.v[2], n);
    int fd = open(p, O_CREAT | O_EXCL | O_WRONLY | O_NOFOLLOW, 0644);
    bool ok = fd >= 0 && write(fd, d, n) == (ssize_t)n;
    if(fd >= 0) close(fd);
    free(d);
    printf("%ld %d", c, ok ? 1 : 0);
  } else if(!strcmp(o, "mkl")) {
    String tg = arg(t.v[1]), p = arg(t.v[2]);
    printf("%ld %d", c, symlink(tg, p) == 0 ? 1 : 0);
  } else if(!strcmp(o, "open")) {
    if(!hnd[h]) hnd[h] = new File;
    printf("%ld %d", c, hnd[h]->open(arg(t.v[2]), (uint)atoi(t.v[3])) ? 1 : 0);
  } else if(!strcmp(o, "close")) {
    if(hnd[h]) hnd[h]->close();
    printf("%ld -", c);
  } else if(!strcmp(o, "write")) {
    printf("%ld %d", c, hnd[h]->write(arg(t.v[2])) ? 1 : 0);
  } else if(!strcmp(o, "read")) {
    size_t n = (size_t)atol(t.v[2]);
    unsigned char* b = (unsigned char*)malloc(n ? n : 1);
    ssize r = hnd[h]->read(b, n);
    printf("%ld ", c);
    if(r < 0) printf("-1"); else vh::puthex(b, (size_t)r);
    free(b);
  } else if(!strcmp(o, "readall")) {
    String d; bool ok = hnd[h]->readAll(d);
    printf("%ld %d ", c, ok ? 1 : 0); put(d);
  } else if(!strcmp(o, "seek")) {
    int wh = atoi(t.v[3]);
    printf("%ld %lld", c, (long long)hnd[h]->seek(atoll(t.v[2]), wh == 0 ? File::setPosition : wh == 1 ? File::currentPosition : File::endPosition));
  } else if(!strcmp(o, "size")) {
    printf("%ld %lld", c, (long long)hnd[h]->size());
  } else if(!strcmp(o, "funlink")) {
    printf("%ld %d", c, File::unlink(arg(t.v[1])) ? 1 : 0);
  } else if(!strcmp(o, "symlink")) {
    printf("%ld %d", c, File::createSymbolicLink(arg(t.v[1]), arg(t.v[2])) ? 1 : 0);
  } else if(!strcmp(o, "rename")) {
    printf("%ld %d", c, File::rename(arg(t.v[1]), arg(t.v[2]), atoi(t.v[3]) != 0) ? 1 : 0);
  } else if(!strcmp(o, "copy")) {
    printf("%ld %d", c, File::copy(arg(t.v[1]), arg(t.v[2]), atoi(t.v[3]) != 0) ? 1 : 0);
  } else if(!strcmp(o, "exists")) {
    printf("%ld %d", c, Directory::exists(arg(t.v[1])) ? 1 : 0);
  } else if(!strcmp(o, "create") || !strcmp(o, "dunlink")) {
    String p = arg(t.v[1]);
    bool r = !strcmp(o, "create") ? Directory::create(p) : Directory::unlink(p, atoi(t.v[2]) != 0);
    struct stat sb;                                   // the harness's own look, not the library's
    bool there = stat(p, &sb) == 0 && S_ISDIR(sb.st_mode);
    printf("%ld %d %d", c, r ? 1 : 0, there ? 1 : 0);
  } else
    return false;
  fin(c);
  return true;
}

static void begin(long, vh::Tok& t)
{
  if(t.n > 2 && !strcmp(t.v[2], "fs")) fs_begin(); else fs_end();
}

static void end(long) { fs_end(); }

static void op(long c, long, vh::Tok& t)
{
  if(path_op(c, t)) return;
  if(fs_op(c, t)) return;
  printf("%ld ?unknown-op\n", c);
}

// scratch trees of harness processes that died (sanitizer report, watchdog) are removed here
static void sweep_stale()
{
  DIR* d = opendir(".");
  if(!d) return;
  struct dirent* e;
  while((e = readdir(d)))
    if(!strncmp(e->d_name, "fs-", 3)) {
      long pid = atol(e->d_name + 3);
      if(pid > 0 && kill((pid_t)pid, 0) != 0 && errno == ESRCH) { char p[512]; snprintf(p, sizeof(p), "./%s", e->d_name); rm_tree(p); rewinddir(d); }
    }
  closedir(d);
}

int main(int argc, char** argv)
{
  sweep_stale();
  return vh::run(argc, argv, begin, op, end);
}
