// Correspondence harness for C19: the real path functions of File (part A) and the real
// File / Directory operations on a scratch tree inside a private root (part B).
#include "vh.hpp"
#include <nstd/File.hpp>
#include <nstd/Directory.hpp>
#include <nstd/String.hpp>

static String arg(const char* hex)
{
  size_t n; unsigned char* d = vh::unhex(hex, n);
  String s((const char*)d, n);
  free(d);
  return s;
}

static void put(const String& s) { vh::puthex((const unsigned char*)(const char*)s, s.length()); }

static bool path_op(long c, vh::Tok& t)
{
  if(!strcmp(t.v[0], "parts")) {
    String p = arg(t.v[1]);
    printf("%ld ", c);
    put(File::getDirectoryName(p)); printf(" ");
    put(File::getBaseName(p)); printf(" ");
    put(File::getStem(p)); printf(" ");
    put(File::getExtension(p)); printf("\n");
  } else if(!strcmp(t.v[0], "basex")) {
    String p = arg(t.v[1]), e = arg(t.v[2]);
    printf("%ld ", c);
    put(File::getBaseName(p, e)); printf(" ");
    put(File::getStem(p, e)); printf("\n");
  } else if(!strcmp(t.v[0], "simp")) {
    String p = arg(t.v[1]);
    String s1 = File::simplifyPath(p);
    printf("%ld ", c);
    put(s1); printf(" ");
    put(File::simplifyPath(s1)); printf("\n");
  } else if(!strcmp(t.v[0], "abs")) {
    printf("%ld %d\n", c, File::isAbsolutePath(arg(t.v[1])) ? 1 : 0);
  } else if(!strcmp(t.v[0], "rel")) {
    String f = arg(t.v[1]), to = arg(t.v[2]);
    String r = File::getRelativePath(f, to);
    String joined = f;
    joined.append('/');
    joined.append(r);
    printf("%ld ", c);
    put(r); printf(" ");
    put(File::simplifyPath(joined)); printf("\n");
  } else
    return false;
  return true;
}

static void begin(long, vh::Tok&) {}

static void op(long c, long, vh::Tok& t)
{
  if(path_op(c, t)) return;
  printf("%ld ?unknown-op\n", c);
}

int main(int argc, char** argv) { return vh::run(argc, argv, begin, op, 0); }
