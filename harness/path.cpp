// Correspondence harness for C19: the real path functions of File (part A) and the real
// File / Directory operations on a scratch tree inside a private root (part B).
#include "vh.hpp"
#include <sys/types.h>
#include <sys/stat.h>
#include <fcntl.h>
#include <dirent.h>
#include <errno.h>
#include <stdint.h>
#include <dlfcn.h>
#include <sys/sendfile.h>
#define private public            // read-only use: the descriptor of a File, for the cursor dump
#include <nstd/File.hpp>
#undef private
#include <nstd/Directory.hpp>
#include <nstd/String.hpp>

static String arg(const char* hex)
{
  size_t n; unsigned char* d = vh::unhex(hex, n);
  String s((const char*)d, n);
  free(d);
  return s;
}

static void put(const String& s) { vh::puthex((const unsigned char*)(const char*)s, s.length()); }

static bool path_op(long c, vh::Tok& t)
{
  if(!strcmp(t.v[0], "parts")) {
    String p = arg(t.v[1]);
    printf("%ld ", c);
    put(File::getDirectoryName(p)); printf(" ");
    put(File::getBaseName(p)); printf(" ");
    put(File::getStem(p)); printf(" ");
    put(File::getExtension(p)); printf("\n");
  } else if(!strcmp(t.v[0], "basex")) {
    String p = arg(t.v[1]), e = arg(t.v[2]);
    printf("%ld ", c);
    put(File::getBaseName(p, e)); printf(" ");
    put(File::getStem(p, e)); printf("\n");
  } else if(!strcmp(t.v[0], "simp")) {
    String p = arg(t.v[1]);
    String s1 = File::simplifyPath(p);
    printf("%ld ", c);
    put(s1); printf(" ");
    put(File::simplifyPath(s1)); printf("\n");
  } else if(!strcmp(t.v[0], "abs")) {
    printf("%ld %d\n", c, File::isAbsolutePath(arg(t.v[1])) ? 1 : 0);
  } else if(!strcmp(t.v[0], "rel")) {
    String f = arg(t.v[1]), to = arg(t.v[2]);
    String r = File::getRelativePath(f, to);
    String joined = f;                  // `from` with the answer appended ("" is the current directory)
    if(!f.isEmpty())
      joined.append('/');
    joined.append(r);
    printf("%ld ", c);
    put(r); printf(" ");
    put(File::simplifyPath(joined)); printf("\n");
  } else
    return false;
  return true;
}

// ---- part B: the real File / Directory code on a scratch tree ------------------------------------
//
// Layout (everything below the directory the harness is started in, i.e. build/C19/run):
//   fs-<pid>/g1/g2/g3/in    current directory of a case; the tree the operations are meant for
//   fs-<pid>/g1/g2/g3/out   the outside sentinel, reached through "../out" and symbolic links
// g1..g3 are guard levels: an operation that climbs out of in/out is seen in the snapshot
// (entries marked '!') and still lands inside fs-<pid>.  Set-up, snapshots and probes use plain
// system calls, never the library under test.  The scratch tree is removed at the end of every case.
//
// Two modes: "@fs" (relative paths only) and "@fsroot" (the process chroots into fs-<pid> for the
// case, so that absolute path texts and absolute link targets mean the same as in the model, whose
// root is fs-<pid>; needs uid 0 - without it every operation of the case answers ?nochroot).
//
// Observation line:  result | snapshot | handles | probes
// A probe is what the real kernel (stat / lstat / fstat) says a path text or descriptor denotes,
// as the name it has in the snapshot ("-" = nothing):  s/e = taken before the operation, d = after.
// Byte strings longer than 128 bytes are shown as #<length>.<crc32>.
// Probes of injected outcomes:  x=<n> after copy = how many outcomes of `inject` the library's sendfile calls
// consumed (0: the library never got an injected answer);  ff=<0|1> fw=<call> after dunlink / purge = whether
// the fault armed by `fault n` made a call of the library fail, and which call.  The property oracle asks for
// the fault-free outcome when nothing was consumed and for the order-independent part of the text otherwise.

static char base_dir[4096];     // absolute path of fs-<pid>
static char home_dir[4096];     // where the harness was started
static const char* walk_root = base_dir;   // what the snapshot walks: base_dir, or "/" inside the chroot
static bool fs_active = false, fs_chrooted = false, fs_refuse = false;
static int old_root = -1;
static File* hnd[8];

static void rm_tree(const char* path)           // never follows symbolic links
{
  struct stat sb;
  if(lstat(path, &sb) != 0) return;
  if(S_ISDIR(sb.st_mode)) {
    DIR* d = opendir(path);
    if(d) {
      struct dirent* e;
      while((e = readdir(d))) {
        if(!strcmp(e->d_name, ".") || !strcmp(e->d_name, "..")) continue;
        char sub[8192];
        snprintf(sub, sizeof(sub), "%s/%s", path, e->d_name);
        rm_tree(sub);
      }
      closedir(d);
    }
    rmdir(path);
  } else
    unlink(path);
}

static uint32_t crc32_of(const unsigned char* b, size_t n)
{
  uint32_t c = 0xffffffffu;
  for(size_t i = 0; i < n; ++i) {
    c ^= b[i];
    for(int k = 0; k < 8; ++k) c = (c >> 1) ^ (0xedb88320u & (0u - (c & 1u)));
  }
  return ~c;
}

// the deterministic byte pattern of mkfbig / writebig (the drivers and the judge have the same one)
static unsigned char pat(long seed, size_t i) { return (unsigned char)((seed * 17 + (long)i * 131 + (long)(i >> 8) * 7 + (long)(i >> 16) * 3) & 255); }

// A file beyond SPARSE_LIMIT bytes (made by seeking far behind the end: offsets that need more than 32 bits cost no
// content) is not read as a whole: it is shown as ##<size>.<crc32 over (offset as 8 bytes little-endian, byte) of every
// non-zero byte in offset order>, found by walking the data extents (SEEK_DATA / SEEK_HOLE).  The judge computes the
// same from the writes it has seen.
static const off_t SPARSE_LIMIT = (off_t)1 << 26;
static void render_sparse(char* dst, const char* path, off_t size)   // appends to dst
{
  uint32_t c = 0xffffffffu;
  int fd = open(path, O_RDONLY | O_NOFOLLOW);
  if(fd >= 0) {
    static unsigned char buf[65536];
    off_t off = 0;
    for(;;) {
      off_t d = lseek(fd, off, SEEK_DATA);
      if(d < 0) break;
      off_t h = lseek(fd, d, SEEK_HOLE);
      if(h < 0) h = size;
      for(off_t p = d; p < h; ) {
        size_t want = (size_t)(h - p) < sizeof(buf) ? (size_t)(h - p) : sizeof(buf);
        ssize_t k = pread(fd, buf, want, p);
        if(k <= 0) { p = h; break; }
        for(ssize_t i = 0; i < k; ++i)
          if(buf[i]) {
            unsigned char rec[9]; uint64_t o = (uint64_t)(p + i);
            for(int j = 0; j < 8; ++j) rec[j] = (unsigned char)(o >> (8 * j));
            rec[8] = buf[i];
            for(int j = 0; j < 9; ++j) { c ^= rec[j]; for(int b = 0; b < 8; ++b) c = (c >> 1) ^ (0xedb88320u & (0u - (c & 1u))); }
          }
        p += k;
      }
      off = h;
      if(off >= size) break;
    }
    close(fd);
  }
  sprintf(dst + strlen(dst), "##%lld.%08x", (long long)size, (unsigned)~c);
}

static size_t render_len(size_t n) { return n <= 128 ? 2 * n + 2 : 40; }
static void render(char* dst, const unsigned char* b, size_t n)     // appends to dst
{
  size_t l = strlen(dst);
  if(n == 0) { strcpy(dst + l, "-"); return; }
  if(n > 128) { sprintf(dst + l, "#%zu.%08x", n, (unsigned)crc32_of(b, n)); return; }
  for(size_t i = 0; i < n; ++i) sprintf(dst + l + 2 * i, "%02x", b[i]);
}
static void put_bytes(const unsigned char* b, size_t n)
{
  char* s = (char*)malloc(render_len(n) + 1); s[0] = 0; render(s, b, n); fputs(s, stdout); free(s);
}

static char** snap; static size_t snap_n, snap_cap;
static void snap_add(char* s)
{
  if(snap_n == snap_cap) { snap_cap = snap_cap ? 2 * snap_cap : 64; snap = (char**)realloc(snap, snap_cap * sizeof(char*)); }
  snap[snap_n++] = s;
}
static int snap_cmp(const void* a, const void* b) { return strcmp(*(char* const*)a, *(char* const*)b); }

// inode -> name in the snapshot (no hard links in the scratch tree, so the name is unique)
struct Ent { dev_t dev; ino_t ino; char* shown; };
static Ent* tab; static size_t tab_n, tab_cap;
static void tab_clear() { for(size_t i = 0; i < tab_n; ++i) free(tab[i].shown); tab_n = 0; }
static void tab_add(const struct stat& sb, const char* full)       // full: path below fs-<pid>, "" for the root
{
  if(tab_n == tab_cap) { tab_cap = tab_cap ? 2 * tab_cap : 64; tab = (Ent*)realloc(tab, tab_cap * sizeof(Ent)); }
  tab[tab_n].dev = sb.st_dev; tab[tab_n].ino = sb.st_ino; tab[tab_n].shown = strdup(full); ++tab_n;
}
// the name an entry has in the snapshot: below g1/g2/g3 without that prefix, anything else marked '!'
static void shown_name(char* out, size_t cap, const char* full)
{
  if(!strncmp(full, "g1/g2/g3/", 9) && full[9]) snprintf(out, cap, "%s", full + 9);
  else if(!*full) snprintf(out, cap, "!.");
  else snprintf(out, cap, "!%s", full);
}
static const char* full_of(const struct stat& sb)
{
  for(size_t i = 0; i < tab_n; ++i) if(tab[i].dev == sb.st_dev && tab[i].ino == sb.st_ino) return tab[i].shown;
  return 0;
}

// abs: path in the real file system; rel: path below fs-<pid> ("" for the root)
static void snap_walk(const char* abs, const char* rel, bool collect)
{
  DIR* d = opendir(abs);
  if(!d) return;
  struct dirent* e;
  while((e = readdir(d))) {
    if(!strcmp(e->d_name, ".") || !strcmp(e->d_name, "..")) continue;
    char a2[8192], r2[8192];
    snprintf(a2, sizeof(a2), "%s/%s", abs, e->d_name);
    if(*rel) snprintf(r2, sizeof(r2), "%s/%s", rel, e->d_name); else snprintf(r2, sizeof(r2), "%s", e->d_name);
    struct stat sb;
    if(lstat(a2, &sb) != 0) continue;
    const char* shown = r2;
    bool guard = !strcmp(r2, "g1") || !strcmp(r2, "g1/g2") || !strcmp(r2, "g1/g2/g3");
    bool inside = !strncmp(r2, "g1/g2/g3/", 9);
    if(inside) shown = r2 + 9;
    tab_add(sb, r2);
    char* line = 0;
    if(!collect) {
    } else if(S_ISDIR(sb.st_mode)) {
      if(!guard) { line = (char*)malloc(strlen(r2) + 8); sprintf(line, "%s%s:d", inside ? "" : "!", shown); }
    } else if(S_ISLNK(sb.st_mode)) {
      char t[4096]; ssize_t n = readlink(a2, t, sizeof(t));
      if(n < 0) n = 0;
      line = (char*)malloc(strlen(r2) + render_len((size_t)n) + 16); sprintf(line, "%s%s:l:", inside ? "" : "!", shown);
      render(line, (const unsigned char*)t, (size_t)n);
    } else if(sb.st_size > SPARSE_LIMIT) {
      line = (char*)malloc(strlen(r2) + 80); sprintf(line, "%s%s:f:", inside ? "" : "!", shown);
      render_sparse(line, a2, sb.st_size);
    } else {
      size_t cap = (size_t)sb.st_size + 1; unsigned char* buf = (unsigned char*)malloc(cap);
      size_t n = 0;
      int fd = open(a2, O_RDONLY | O_NOFOLLOW);
      if(fd >= 0) { ssize_t k; while(n < cap && (k = read(fd, buf + n, cap - n)) > 0) n += (size_t)k; close(fd); }
      line = (char*)malloc(strlen(r2) + render_len(n) + 16); sprintf(line, "%s%s:f:", inside ? "" : "!", shown);
      render(line, buf, n);
      free(buf);
    }
    if(line) snap_add(line);
    if(S_ISDIR(sb.st_mode)) snap_walk(a2, r2, collect);
  }
  closedir(d);
}

static void take_snapshot(bool print)
{
  snap_n = 0;
  tab_clear();
  struct stat sb;
  if(lstat(walk_root, &sb) == 0) tab_add(sb, "");
  snap_walk(walk_root, "", print);
  if(!print) return;
  qsort(snap, snap_n, sizeof(char*), snap_cmp);
  if(snap_n == 0) printf("-");
  for(size_t i = 0; i < snap_n; ++i) { printf("%s%s", i ? " " : "", snap[i]); free(snap[i]); }
}

// ---- probes ---------------------------------------------------------------------------------------
static char probes[8][8300]; static int probe_n;
static struct { char key[4]; char path[8192]; bool follow; } later[4]; static int later_n;

static void probe_store(const char* key, const char* full)
{
  char nm[8200];
  if(full) shown_name(nm, sizeof(nm), full); else snprintf(nm, sizeof(nm), "-");
  snprintf(probes[probe_n++], sizeof(probes[0]), "%s=%s", key, nm);
}
static void probe_put(const char* key, const char* path, bool follow)
{
  struct stat sb;
  int r = follow ? stat(path, &sb) : lstat(path, &sb);
  probe_store(key, r == 0 ? (full_of(sb) ? full_of(sb) : "?elsewhere") : 0);
}
// the place a path text names: its directory part as the kernel resolves it, plus the last component
// when that is a proper name ("-" otherwise)
static void probe_place(const char* key, const String& path)
{
  const char* p = path; size_t n = path.length();
  size_t cut = n; while(cut > 0 && p[cut - 1] != '/') --cut;          // p[cut..] = last component
  const char* base = p + cut;
  char dir[8192];
  if(cut == 0) snprintf(dir, sizeof(dir), ".");
  else { size_t k = cut; while(k > 1 && p[k - 1] == '/') --k; snprintf(dir, sizeof(dir), "%.*s", (int)k, p); }
  struct stat sb;
  if(!*base || !strcmp(base, ".") || !strcmp(base, "..") || stat(dir, &sb) != 0 || !S_ISDIR(sb.st_mode) || !full_of(sb)) { probe_store(key, 0); return; }
  char full[8300]; const char* d = full_of(sb);
  if(*d) snprintf(full, sizeof(full), "%s/%s", d, base); else snprintf(full, sizeof(full), "%s", base);
  probe_store(key, full);
}
static void probe_now(const char* key, const String& path, bool follow) { probe_put(key, path, follow); }
static void probe_after(const char* key, const String& path, bool follow)
{
  snprintf(later[later_n].key, sizeof(later[0].key), "%s", key);
  snprintf(later[later_n].path, sizeof(later[0].path), "%s", (const char*)path);
  later[later_n].follow = follow; ++later_n;
}
// a probe that is not a name of the snapshot: which injected outcomes / faults the library's calls consumed
static void probe_raw(const char* key, const char* text) { snprintf(probes[probe_n++], sizeof(probes[0]), "%s=%s", key, text); }
static void probe_fd(const char* key, int fd)
{
  struct stat sb;
  probe_store(key, fstat(fd, &sb) == 0 ? (full_of(sb) ? full_of(sb) : "?elsewhere") : 0);
}

static bool handle_is_dir(int h)
{
  struct stat sb;
  return fstat((int)(intptr_t)hnd[h]->fp, &sb) == 0 && S_ISDIR(sb.st_mode);
}

static void print_handles()
{
  bool any = false;
  for(int h = 0; h < 8; ++h)
    if(hnd[h] && hnd[h]->isOpen()) {
      long long pos = (long long)lseek((int)(intptr_t)hnd[h]->fp, 0, SEEK_CUR);
      if(handle_is_dir(h)) printf("%sh%d@dir", any ? " " : "", h);   // the cursor of a directory is the file system's business
      else printf("%sh%d@%lld", any ? " " : "", h, pos);
      any = true;
    }
  if(!any) printf("-");
}

static void fin(long c)
{
  printf(" | "); take_snapshot(true); printf(" | "); print_handles(); printf(" | ");
  for(int i = 0; i < later_n; ++i) probe_put(later[i].key, later[i].path, later[i].follow);
  if(probe_n == 0) printf("-");
  for(int i = 0; i < probe_n; ++i) printf("%s%s", i ? " " : "", probes[i]);
  printf("\n");
  probe_n = later_n = 0;
  (void)c;
}

// ---- outcome oracle for sendfile (a legal kernel may transfer less than asked, or fail) -----------
static long inj[16]; static int inj_n, inj_i;
typedef ssize_t (*sendfile_fn)(int, int, off_t*, size_t);
static ssize_t sendfile_hook(const char* name, int out, int in, off_t* off, size_t count)
{
  sendfile_fn real = (sendfile_fn)dlsym(RTLD_NEXT, name);
  if(inj_i < inj_n) {
    long k = inj[inj_i++];
    if(k < 0) { errno = EIO; return -1; }
    if((size_t)k < count) count = (size_t)k;
    if(count == 0) return 0;
  }
  return real(out, in, off, count);
}
extern "C" ssize_t sendfile(int out, int in, off_t* off, size_t count) { return sendfile_hook("sendfile", out, in, off, count); }
extern "C" ssize_t sendfile64(int out, int in, off64_t* off, size_t count) { return sendfile_hook("sendfile64", out, in, (off_t*)off, count); }

// ---- a system call of Directory::unlink / purge that fails (fault oracle) ---------------------------
// `fault n` arms the next dunlink / purge: the (n+1)-th of the calls rmdir / unlink / opendir / readdir
// that the library makes during that operation fails with EIO.  While armed, readdir hands the
// entries out in a fixed order ("." and ".." first, then by name) - any order is a legal kernel, and
// the generators create the entries in that order, which is the order the model enumerates them in -
// so that what has been removed before the failing call is the same on both sides.
static bool lib_active = false;     // inside the library call of a dunlink / purge
static long fault_at = -1, fault_cnt = 0;
static const char* fault_fired = 0;  // the call the armed fault made fail (0: the fault has not been consumed)
static bool fault_tick(const char* call)
{
  if(!lib_active || fault_at < 0) return false;
  if(fault_cnt++ != fault_at) return false;
  fault_fired = call;
  return true;
}

struct Shim { DIR* dp; struct dirent* ents; size_t n, i; };
static Shim shims[64]; static int shim_n;
static int dirent_cmp(const void* a, const void* b)
{
  const char* x = ((const struct dirent*)a)->d_name; const char* y = ((const struct dirent*)b)->d_name;
  int rx = !strcmp(x, ".") ? 0 : !strcmp(x, "..") ? 1 : 2, ry = !strcmp(y, ".") ? 0 : !strcmp(y, "..") ? 1 : 2;
  if(rx != ry) return rx - ry;
  return strcmp(x, y);
}
typedef struct dirent* (*readdir_fn)(DIR*);
static struct dirent* readdir_hook(const char* name, DIR* dp)
{
  readdir_fn real = (readdir_fn)dlsym(RTLD_NEXT, name);
  if(!lib_active || fault_at < 0) return real(dp);
  if(fault_tick("readdir")) { errno = EIO; return 0; }
  Shim* s = 0;
  for(int i = 0; i < shim_n; ++i) if(shims[i].dp == dp) s = &shims[i];
  if(!s) {
    if(shim_n == 64) _exit(3);
    s = &shims[shim_n++]; s->dp = dp; s->n = s->i = 0; s->ents = 0;
    size_t cap = 0; int keep = errno; struct dirent* e;
    while((e = real(dp))) {
      if(s->n == cap) { cap = cap ? 2 * cap : 16; s->ents = (struct dirent*)realloc(s->ents, cap * sizeof(struct dirent)); }
      memcpy(&s->ents[s->n++], e, sizeof(struct dirent));
    }
    errno = keep;
    if(s->n) qsort(s->ents, s->n, sizeof(struct dirent), dirent_cmp);
  }
  return s->i < s->n ? &s->ents[s->i++] : 0;
}
static void shims_clear() { for(int i = 0; i < shim_n; ++i) free(shims[i].ents); shim_n = 0; }
extern "C" struct dirent* readdir(DIR* dp) { return readdir_hook("readdir", dp); }
extern "C" struct dirent64* readdir64(DIR* dp) { return (struct dirent64*)readdir_hook("readdir64", dp); }
extern "C" int closedir(DIR* dp)
{
  typedef int (*fn)(DIR*); fn real = (fn)dlsym(RTLD_NEXT, "closedir");
  for(int i = 0; i < shim_n; ++i) if(shims[i].dp == dp) { free(shims[i].ents); shims[i] = shims[--shim_n]; break; }
  return real(dp);
}
extern "C" DIR* opendir(const char* path)
{
  typedef DIR* (*fn)(const char*); fn real = (fn)dlsym(RTLD_NEXT, "opendir");
  if(fault_tick("opendir")) { errno = EIO; return 0; }
  return real(path);
}
extern "C" int rmdir(const char* path)
{
  typedef int (*fn)(const char*); fn real = (fn)dlsym(RTLD_NEXT, "rmdir");
  if(fault_tick("rmdir")) { errno = EIO; return -1; }
  return real(path);
}
extern "C" int unlink(const char* path)
{
  typedef int (*fn)(const char*); fn real = (fn)dlsym(RTLD_NEXT, "unlink");
  if(fault_tick("unlink")) { errno = EIO; return -1; }
  return real(path);
}

static Directory* dirs[4];

static int ent_cmp(const void* a, const void* b) { return strcmp(*(char* const*)a, *(char* const*)b); }
// read() until it says false: the entries as <hex name>:d / :f, sorted; then how many of two more reads say true
static void read_all(Directory& d)
{
  char** v = 0; size_t n = 0, cap = 0;
  String name; bool isDir = false;
  while(d.read(name, isDir)) {
    if(n == cap) { cap = cap ? 2 * cap : 16; v = (char**)realloc(v, cap * sizeof(char*)); }
    size_t l = name.length(); char* t = (char*)malloc(2 * l + 8); t[0] = 0;
    if(l == 0) strcpy(t, "-"); else for(size_t i = 0; i < l; ++i) sprintf(t + 2 * i, "%02x", (unsigned char)((const char*)name)[i]);
    strcat(t, isDir ? ":d" : ":f");
    v[n++] = t;
    if(n > 100000) break;
  }
  if(n) qsort(v, n, sizeof(char*), ent_cmp);
  if(n == 0) printf(" -");
  for(size_t i = 0; i < n; ++i) { printf(" %s", v[i]); free(v[i]); }
  free(v);
  int more = 0;
  for(int i = 0; i < 2; ++i) if(d.read(name, isDir)) ++more;
  printf(" end=%d", more);
}

static void fs_end()
{
  if(!fs_active) return;
  for(int h = 0; h < 8; ++h) { delete hnd[h]; hnd[h] = 0; }
  for(int k = 0; k < 4; ++k) { delete dirs[k]; dirs[k] = 0; }
  lib_active = false; fault_at = -1; fault_cnt = 0; fault_fired = 0; shims_clear();
  if(fs_chrooted) {
    if(fchdir(old_root) != 0 || chroot(".") != 0) _exit(3);
    close(old_root); old_root = -1; fs_chrooted = false;
  }
  walk_root = base_dir;
  if(chdir(home_dir) != 0) _exit(3);
  rm_tree(base_dir);
  fs_active = false; fs_refuse = false;
  inj_n = inj_i = 0;
}

static void fs_begin(bool as_root)
{
  fs_end();
  if(!getcwd(home_dir, sizeof(home_dir))) _exit(3);
  snprintf(base_dir, sizeof(base_dir), "%s/fs-%ld", home_dir, (long)getpid());
  rm_tree(base_dir);
  char p[8192];
  const char* levels[] = {"", "/g1", "/g1/g2", "/g1/g2/g3", "/g1/g2/g3/in", "/g1/g2/g3/out"};
  for(int i = 0; i < 6; ++i) { snprintf(p, sizeof(p), "%s%s", base_dir, levels[i]); if(mkdir(p, 0755) != 0) { perror(p); _exit(3); } }
  fs_active = true;
  if(as_root) {
    old_root = open("/", O_RDONLY | O_DIRECTORY);
    if(old_root < 0 || chroot(base_dir) != 0) { if(old_root >= 0) close(old_root); old_root = -1; fs_refuse = true; }
    else { fs_chrooted = true; walk_root = "/"; }
  }
  snprintf(p, sizeof(p), "%s/g1/g2/g3/in", fs_chrooted ? "" : base_dir);
  if(chdir(p) != 0) _exit(3);
  take_snapshot(false);
  probe_n = later_n = 0;
}

static bool fs_op(long c, vh::Tok& t)
{
  const char* o = t.v[0];
  int h = (t.n > 1 && (!strcmp(o, "open") || !strcmp(o, "close") || !strcmp(o, "write") || !strcmp(o, "read") || !strcmp(o, "writebig") ||
                       !strcmp(o, "readall") || !strcmp(o, "seek") || !strcmp(o, "size") || !strcmp(o, "flush"))) ? atoi(t.v[1]) & 7 : -1;
  bool handle_op = h >= 0 && strcmp(o, "open") && strcmp(o, "close");
  if(!fs_active) return false;
  if(fs_refuse) { printf("%ld ?nochroot\n", c); return true; }
  if(handle_op && !(hnd[h] && hnd[h]->isOpen())) { printf("%ld ?closed", c); fin(c); return true; }
  // on a directory: readAll must report failure, flush succeeds; what the cursor calls answer is the file system's business
  if(handle_op && strcmp(o, "readall") && strcmp(o, "flush") && handle_is_dir(h)) { printf("%ld ?dir", c); fin(c); return true; }
  if(handle_op) probe_fd("t", (int)(intptr_t)hnd[h]->fp);
  if(!strcmp(o, "mkd")) {
    printf("%ld %d", c, mkdir(arg(t.v[1]), 0755) == 0 ? 1 : 0);
  } else if(!strcmp(o, "mkf") || !strcmp(o, "mkfbig")) {
    String p = arg(t.v[1]); size_t n; unsigned char* d;
    if(!strcmp(o, "mkf")) d = vh::unhex(t.v[2], n);
    else { long seed = atol(t.v[2]); n = (size_t)atol(t.v[3]); d = (unsigned char*)malloc(n ? n : 1); for(size_t i = 0; i < n; ++i) d[i] = pat(seed, i); }
    int fd = open(p, O_CREAT | O_EXCL | O_WRONLY | O_NOFOLLOW, 0644);
    bool ok = fd >= 0;
    for(size_t done = 0; ok && done < n; ) { ssize_t k = write(fd, d + done, n - done); if(k <= 0) ok = false; else done += (size_t)k; }
    if(fd >= 0) close(fd);
    free(d);
    printf("%ld %d", c, ok ? 1 : 0);
  } else if(!strcmp(o, "mkl")) {
    String tg = arg(t.v[1]), p = arg(t.v[2]);
    printf("%ld %d", c, symlink(tg, p) == 0 ? 1 : 0);
  } else if(!strcmp(o, "inject")) {                   // outcomes of the next sendfile calls: -1 fails, n >= 0 transfers at most n bytes
    inj_n = inj_i = 0;
    for(int i = 1; i < t.n && inj_n < 16; ++i) inj[inj_n++] = atol(t.v[i]);
    printf("%ld -", c);
  } else if(!strcmp(o, "open")) {
    if(!hnd[h]) hnd[h] = new File;
    String p = arg(t.v[2]);
    probe_place("p", p); probe_after("d", p, true);
    printf("%ld %d", c, hnd[h]->open(p, (uint)atoi(t.v[3])) ? 1 : 0);
  } else if(!strcmp(o, "close")) {
    if(hnd[h]) hnd[h]->close();
    printf("%ld -", c);
  } else if(!strcmp(o, "write")) {
    printf("%ld %d", c, hnd[h]->write(arg(t.v[2])) ? 1 : 0);
  } else if(!strcmp(o, "writebig")) {
    long seed = atol(t.v[2]); size_t n = (size_t)atol(t.v[3]);
    char* d = (char*)malloc(n ? n : 1); for(size_t i = 0; i < n; ++i) d[i] = (char)pat(seed, i);
    String s(d, n); free(d);
    printf("%ld %d", c, hnd[h]->write(s) ? 1 : 0);
  } else if(!strcmp(o, "read")) {
    size_t n = (size_t)atol(t.v[2]);
    unsigned char* b = (unsigned char*)malloc(n ? n : 1);
    ssize r = hnd[h]->read(b, n);
    printf("%ld ", c);
    if(r < 0) printf("-1"); else put_bytes(b, (size_t)r);
    free(b);
  } else if(!strcmp(o, "readall")) {
    String d; bool ok = hnd[h]->readAll(d);
    printf("%ld %d ", c, ok ? 1 : 0); put_bytes((const unsigned char*)(const char*)d, d.length());
  } else if(!strcmp(o, "seek")) {
    int wh = atoi(t.v[3]);
    printf("%ld %lld", c, (long long)hnd[h]->seek(atoll(t.v[2]), wh == 0 ? File::setPosition : wh == 1 ? File::currentPosition : File::endPosition));
  } else if(!strcmp(o, "size")) {
    printf("%ld %lld", c, (long long)hnd[h]->size());
  } else if(!strcmp(o, "flush")) {
    printf("%ld %d", c, hnd[h]->flush() ? 1 : 0);
  } else if(!strcmp(o, "readallp")) {                 // the static File::readAll(path, data)
    String p = arg(t.v[1]);
    probe_now("s", p, true);
    String d; bool ok = File::readAll(p, d);
    printf("%ld %d ", c, ok ? 1 : 0); put_bytes((const unsigned char*)(const char*)d, d.length());
  } else if(!strcmp(o, "fexists")) {
    String p = arg(t.v[1]);
    probe_now("s", p, false);
    printf("%ld %d", c, File::exists(p) ? 1 : 0);
  } else if(!strcmp(o, "abspath") || !strcmp(o, "cwd")) {
    // the text without the prefix that leads to fs-<pid> (the model's root), and whether the kernel
    // takes the answer and the argument to the same place (stat, lstat)
    String p = !strcmp(o, "cwd") ? String() : arg(t.v[1]);
    String r = !strcmp(o, "cwd") ? Directory::getCurrentDirectory() : File::getAbsolutePath(p);
    const char* rs = r; size_t rl = r.length(), bl = strlen(base_dir);
    if(!fs_chrooted && rl >= bl && !memcmp(rs, base_dir, bl) && (rl == bl || rs[bl] == '/')) { rs += bl; rl -= bl; }
    printf("%ld ", c);
    if(rl == 0) vh::puthex((const unsigned char*)"/", 1); else vh::puthex((const unsigned char*)rs, rl);
    if(!strcmp(o, "abspath")) {
      struct stat a, b;
      int ra = stat(p, &a), rb = stat(r, &b);
      printf(" %d", (ra != 0 && rb != 0) || (ra == 0 && rb == 0 && a.st_dev == b.st_dev && a.st_ino == b.st_ino) ? 1 : 0);
      ra = lstat(p, &a); rb = lstat(r, &b);
      printf(" %d", (ra != 0 && rb != 0) || (ra == 0 && rb == 0 && a.st_dev == b.st_dev && a.st_ino == b.st_ino) ? 1 : 0);
    }
  } else if(!strcmp(o, "chdir")) {
    String p = arg(t.v[1]);
    probe_now("s", p, true);
    printf("%ld %d", c, Directory::change(p) ? 1 : 0);
  } else if(!strcmp(o, "dlist")) {                    // a Directory of its own: open, read to the end, close
    String p = arg(t.v[1]), pat = arg(t.v[2]);
    probe_now("s", p.isEmpty() ? String(".") : p, true);
    Directory d;
    if(!d.open(p, pat, atoi(t.v[3]) != 0)) printf("%ld 0", c);
    else { printf("%ld 1", c); read_all(d); d.close(); }
  } else if(!strcmp(o, "dopen")) {
    int k = atoi(t.v[1]) & 3;
    if(!dirs[k]) dirs[k] = new Directory;
    String p = arg(t.v[2]), pat = arg(t.v[3]);
    probe_now("s", p.isEmpty() ? String(".") : p, true);
    printf("%ld %d", c, dirs[k]->open(p, pat, atoi(t.v[4]) != 0) ? 1 : 0);
  } else if(!strcmp(o, "dreadall")) {
    int k = atoi(t.v[1]) & 3;
    if(!dirs[k]) dirs[k] = new Directory;
    printf("%ld r", c); read_all(*dirs[k]);
  } else if(!strcmp(o, "dclose")) {
    int k = atoi(t.v[1]) & 3;
    if(dirs[k]) dirs[k]->close();
    printf("%ld -", c);
  } else if(!strcmp(o, "fault")) {
    fault_at = atol(t.v[1]); fault_cnt = 0; fault_fired = 0;
    printf("%ld -", c);
  } else if(!strcmp(o, "funlink")) {
    String p = arg(t.v[1]);
    probe_now("s", p, false);
    printf("%ld %d", c, File::unlink(p) ? 1 : 0);
  } else if(!strcmp(o, "symlink")) {
    String p = arg(t.v[2]);
    probe_after("d", p, false);
    printf("%ld %d", c, File::createSymbolicLink(arg(t.v[1]), p) ? 1 : 0);
  } else if(!strcmp(o, "rename")) {
    String a = arg(t.v[1]), b = arg(t.v[2]);
    probe_now("s", a, false); probe_now("e", b, false); probe_place("p", b); probe_after("d", b, false);
    printf("%ld %d", c, File::rename(a, b, atoi(t.v[3]) != 0) ? 1 : 0);
  } else if(!strcmp(o, "copy")) {
    String a = arg(t.v[1]), b = arg(t.v[2]);
    probe_now("s", a, true); probe_now("e", b, true); probe_now("l", b, false); probe_after("d", b, true);
    printf("%ld %d", c, File::copy(a, b, atoi(t.v[3]) != 0) ? 1 : 0);
    char used[32]; snprintf(used, sizeof(used), "%d", inj_i);      // x = how many injected outcomes the library's sendfile calls consumed
    probe_raw("x", used);
    inj_n = inj_i = 0;
  } else if(!strcmp(o, "exists")) {
    String p = arg(t.v[1]);
    probe_now("s", p, true);
    printf("%ld %d", c, Directory::exists(p) ? 1 : 0);
  } else if(!strcmp(o, "create") || !strcmp(o, "dunlink") || !strcmp(o, "purge")) {
    String p = arg(t.v[1]);
    if(!strcmp(o, "create")) probe_after("d", p, true); else probe_now("s", p, false);
    bool r;
    if(!strcmp(o, "create")) r = Directory::create(p);
    else {
      lib_active = true;
      r = !strcmp(o, "dunlink") ? Directory::unlink(p, atoi(t.v[2]) != 0) : Directory::purge(p, atoi(t.v[2]) != 0);
      // ff = was the armed fault consumed (did a call of the library fail), fw = which call it was
      probe_raw("ff", fault_fired ? "1" : "0"); probe_raw("fw", fault_fired ? fault_fired : "-");
      lib_active = false; fault_at = -1; fault_cnt = 0; fault_fired = 0; shims_clear();
    }
    struct stat sb;                                   // the harness's own look, not the library's
    bool there = stat(p, &sb) == 0 && S_ISDIR(sb.st_mode);
    printf("%ld %d %d", c, r ? 1 : 0, there ? 1 : 0);
  } else
    return false;
  fin(c);
  return true;
}

static void begin(long, vh::Tok& t)
{
  if(t.n > 2 && !strcmp(t.v[2], "fs")) fs_begin(false);
  else if(t.n > 2 && !strcmp(t.v[2], "fsroot")) fs_begin(true);
  else fs_end();
}

static void end(long) { fs_end(); }

static void op(long c, long, vh::Tok& t)
{
  if(path_op(c, t)) return;
  if(fs_op(c, t)) return;
  printf("%ld ?unknown-op\n", c);
}

// scratch trees of harness processes that died (sanitizer report, watchdog) are removed here
static void sweep_stale()
{
  DIR* d = opendir(".");
  if(!d) return;
  struct dirent* e;
  while((e = readdir(d)))
    if(!strncmp(e->d_name, "fs-", 3)) {
      long pid = atol(e->d_name + 3);
      if(pid > 0 && kill((pid_t)pid, 0) != 0 && errno == ESRCH) { char p[512]; snprintf(p, sizeof(p), "./%s", e->d_name); rm_tree(p); rewinddir(d); }
    }
  closedir(d);
}

int main(int argc, char** argv)
{
  sweep_stale();
  return vh::run(argc, argv, begin, op, end);
}
