// Correspondence harness for C13: the real Server with one client (or, case config `two` / `three` / `four`,
// that many clients A, B, C, D) created by Server::pair (connected socket pairs through the Server API), the kernel
// simulated by interposition (serverwrite_kernel.cpp).  Operations are executed between run() calls
// or, when queued with `react`, from inside the clients' callbacks.  One run() call =
// Server::interrupt() followed by Server::run(): closing-clients pass, poll, dispatch, ... until the
// interrupt (or an event without flags) ends it.
//
//   [A.|B.]write <hex> <outcome>    client->write(data, size, &postponed)   outcome: wb | s<k> | full | zero | err
//   [A.|B.]write0 <hex> <outcome>   client->write(data, size) - no postponed pointer
//   [A.|B.]ev <mask> <outcome>      run() with scripted readiness of that client   mask: letters of
//                                   i(n) o(ut) h(up) d(rdhup) e(rr), or -
//   evs <A:mask,B:mask,..> <outcome>*  run() with ONE epoll round reporting these clients in this order;
//                                   the outcomes answer the send calls of the run, in order
//   evsi <A:mask,..> <outcome>*     the same round, but the kernel reports the interrupt event in the SAME batch: the
//                                   library keeps the collected events cached and run() returns; the next run() (tick)
//                                   hands them out
//   poll <outcome>                  run() with the real readiness of the sockets (epoll_wait, timeout 0)
//   tick [outcome*]                 run() without readiness (several clients: events collected earlier may still be cached)
//   [A.|B.]suspend | resume | read <max> | remove | peerwrite <hex> | peerread | peerclose
//   react [A.|B.]<onRead|onWrite|onClosed> <op...> [& <op...>]*   queue an operation (or several, executed one after
//                                   the other inside the same callback invocation) for the next such callback
//
// Observation line:  <op> r= n= cb= tx= sends= data= [dead] | sb= susp= | k= | t=
//   sections 1-3 are what the extracted model predicts call by call (compared for correspondence);
//   section 4 is the ordered event trace of the operation the property monitor (coq/ServerWrite/
//   ServerWriteMonitor.v, `driver monitor`) judges - together with r=, n=, data=, sb= of the line.  Tokens, in real-time order:
//     ~                    first token of an operation executed from inside a callback (`react`)
//     W<i>:<hex>           Client::write called with these bytes (client i: 0 = A, 1 = B)
//     O<i>                 the library polled (epoll_wait) and the kernel finds the socket of client i writable
//                          (scripted EPOLLOUT; real socket pair: always) - whether or not the library asked for that
//     I<i>                 ... and finds unread input on it (scripted EPOLLIN; real socket pair: bytes to read / peer closed)
//     R | X                last token of a run(): it returned after the kernel reported the interrupt (R) / because an
//                          event without flags was handed out while the harness's interrupt was pending (X)
//     S<i>:<req>:<ret>:<t|w|f>[u]   one send call (serverwrite_kernel.h)
//     C<i>:<callback>      callback delivered
//     ^                    the reaction queued for that callback ran here (its line is printed before this one)
#include "vh.hpp"
#include <errno.h>
#include <sys/socket.h>
#include <sys/epoll.h>
#include "serverwrite_kernel.h"
#include <nstd/Socket/Server.hpp>
#include <nstd/Socket/Socket.hpp>

struct Str { char* p; size_t n, cap; };
static void s_add(Str& s, const char* t)
{
  size_t l = strlen(t);
  if(s.n + l + 1 > s.cap) { s.cap = (s.n + l + 1) * 2 + 64; s.p = (char*)realloc(s.p, s.cap); }
  memcpy(s.p + s.n, t, l + 1); s.n += l;
}
static void s_hex(Str& s, const unsigned char* b, size_t n)
{
  if(s.n + 2 * n + 1 > s.cap) { s.cap = (s.n + 2 * n + 1) * 2 + 64; s.p = (char*)realloc(s.p, s.cap); }
  static const char* H = "0123456789abcdef";
  for(size_t i = 0; i < n; ++i) { s.p[s.n++] = H[b[i] >> 4]; s.p[s.n++] = H[b[i] & 15]; }
  s.p[s.n] = 0;
}

// what one operation shows
#define NCL SK_NC
struct Ctx { Str cbs, tx[NCL], sends, data, trace; const char* ret; unsigned long long num; int hasnum; bool dead; };
static void ctx_init(Ctx& c) { memset(&c, 0, sizeof(c)); c.ret = "-"; }
static void ctx_free(Ctx& c) { free(c.cbs.p); for(int i = 0; i < NCL; ++i) free(c.tx[i].p); free(c.sends.p); free(c.data.p); free(c.trace.p); }
static void t_add(Ctx& c, const char* tok) { if(c.trace.n) s_add(c.trace, ","); s_add(c.trace, tok); }

static int nclients = 1;        // 2 in a `two` case, 3 in a `three` case, 4 in a `four` case
static Server* server = 0;
static Server::Client* client[NCL];
static Socket* peer[NCL];
static bool dead[NCL];       // client removed
static bool peer_closed[NCL];
static long caseno = 0;
static Ctx* cur = 0;            // operation in progress

static void collect(Ctx& c)
{
  for(int i = 0; i < nclients; ++i) {
    unsigned char* p; size_t n = sk_take_tx(i, &p);
    s_hex(c.tx[i], p, n);
  }
  const char* l = sk_take_sendlog();
  if(l[0]) { if(c.sends.n) s_add(c.sends, ","); s_add(c.sends, l); }
  const char* t = sk_take_trace();
  if(t[0]) t_add(c, t);
}

#define NREACT 64
struct Reaction { char* line; };
static Reaction reactq[NCL][3][NREACT]; static int reacth[NCL][3], reactt[NCL][3];
static const char* cbname[3] = {"onRead", "onWrite", "onClosed"};

static void exec_line(char* line, bool nested);

static void on_callback(int idx, int which)
{
  if(cur) {
    collect(*cur);                      // what the operation caused so far comes before the callback
    if(cur->cbs.n) s_add(cur->cbs, ",");
    if(nclients >= 2) { char pf[3] = {(char)('A' + idx), '.', 0}; s_add(cur->cbs, pf); }
    s_add(cur->cbs, cbname[which]);
    char tok[32]; snprintf(tok, sizeof(tok), "C%d:%s", idx, cbname[which]);
    t_add(*cur, tok);
  }
  if(reacth[idx][which] < reactt[idx][which]) {
    char* line = reactq[idx][which][reacth[idx][which]++].line;
    Ctx* outer = cur;
    if(outer) t_add(*outer, "^");
    sk_outcomes saved; sk_get_outcomes(&saved);   // the reaction has its own scripted send outcome;
    for(char* part = line; part;) {     // `op & op & ...`: several operations from inside ONE callback invocation
      char* amp = strstr(part, " & ");
      if(amp) *amp = 0;
      if(outer && part != line) t_add(*outer, "^");
      exec_line(part, true);
      cur = outer;
      part = amp ? amp + 3 : 0;
    }
    sk_put_outcomes(&saved);            // the outer operation keeps its (possibly unconsumed) ones
    free(line);
    cur = outer;
  }
}

struct Cb : public Server::Client::ICallback
{
  int idx;
  void onRead() { on_callback(idx, 0); }
  void onWrite() { on_callback(idx, 1); }
  void onClosed() { on_callback(idx, 2); }
} cbobj[NCL];

static void print_mask(int i)
{
  if(!sk_registered(i)) { printf("-"); return; }
  unsigned m = sk_reg_mask(i);
  if(!(m & (EPOLLIN | EPOLLOUT))) printf("0");
  if(m & EPOLLIN) printf("r");
  if(m & EPOLLOUT) printf("w");
  if(m & EPOLLRDHUP) printf("d");
}

static void print_line(const char* name, Ctx& c)
{
  collect(c);
  printf("%ld %s r=%s n=", caseno, name, c.ret);
  if(c.hasnum) printf("%llu", c.num); else printf("-");
  printf(" cb=%s tx=%s", c.cbs.n ? c.cbs.p : "-", c.tx[0].n ? c.tx[0].p : "-");
  for(int i = 1; i < nclients; ++i) printf("/%s", c.tx[i].n ? c.tx[i].p : "-");
  printf(" sends=%s data=%s%s", c.sends.n ? c.sends.p : "-", c.data.n ? c.data.p : "-", c.dead ? " dead" : "");
  printf(" | sb=");
  for(int i = 0; i < nclients; ++i) {
    if(i) printf("/");
    if(dead[i]) printf("-"); else printf("%llu", (unsigned long long)client[i]->getSendBufferSize());
  }
  printf(" susp=");
  for(int i = 0; i < nclients; ++i) {
    if(i) printf("/");
    if(dead[i]) printf("-"); else printf("%d", client[i]->isSuspended() ? 1 : 0);
  }
  printf(" | k=");
  for(int i = 0; i < nclients; ++i) {
    if(i) printf("/");
    if(dead[i]) printf("-"); else print_mask(i);
  }
  printf(" | t=%s\n", c.trace.n ? c.trace.p : "-");
  fflush(stdout);
}

static void parse_outcome(const char* t, int* kind, long* k)
{
  *k = 0;
  if(!strcmp(t, "wb")) *kind = SK_WOULDBLOCK;
  else if(!strcmp(t, "full")) *kind = SK_FULL;
  else if(!strcmp(t, "zero")) *kind = SK_ZERO;
  else if(!strcmp(t, "err")) *kind = SK_ERROR;
  else if(t[0] == 's') { *kind = SK_SENT; *k = atol(t + 1); }
  else *kind = SK_NONE;
}
static void set_outcome(const char* t) { int kind; long k; parse_outcome(t, &kind, &k); sk_set_outcome(kind, k); }

static unsigned parse_mask(const char* p, const char* end)
{
  unsigned m = 0;
  for(; p < end && *p; ++p)
    m |= *p == 'i' ? EPOLLIN : *p == 'o' ? EPOLLOUT : *p == 'h' ? EPOLLHUP : *p == 'd' ? EPOLLRDHUP : *p == 'e' ? EPOLLERR : 0;
  return m;
}

static void run_once(Ctx& c)
{
  server->interrupt();
  server->run();
  collect(c);
  t_add(c, sk_interrupt_seen() ? "R" : "X");
  sk_disarm_event();
}

static void exec_line(char* line, bool nested)
{
  vh::Tok t; vh::split(line, t);
  if(t.n == 0) return;
  const char* name = t.v[0];              // as printed
  int idx = 0;
  const char* opn = name;
  if(opn[0] >= 'A' && opn[0] < 'A' + NCL && opn[1] == '.') { idx = opn[0] - 'A'; opn += 2; }
  if(idx >= nclients) { fprintf(stderr, "no client %c in this case\n", 'A' + idx); abort(); }
  Ctx c; ctx_init(c);
  cur = &c;
  if(nested) t_add(c, "~");
  bool is_run = !strcmp(opn, "ev") || !strcmp(opn, "evs") || !strcmp(opn, "evsi") || !strcmp(opn, "poll") || !strcmp(opn, "tick");
  if(!strcmp(opn, "react")) {
    const char* cbn = t.v[1]; int ci = 0;
    if(cbn[0] >= 'A' && cbn[0] < 'A' + NCL && cbn[1] == '.') { ci = cbn[0] - 'A'; cbn += 2; }
    if(ci >= nclients) { fprintf(stderr, "no client %c in this case\n", 'A' + ci); abort(); }
    int which = !strcmp(cbn, "onRead") ? 0 : !strcmp(cbn, "onWrite") ? 1 : 2;
    Str s; memset(&s, 0, sizeof(s));
    for(int i = 2; i < t.n; ++i) { if(i > 2) s_add(s, " "); s_add(s, t.v[i]); }
    if(reactt[ci][which] < NREACT) reactq[ci][which][reactt[ci][which]++].line = s.p; else free(s.p);
    printf("%ld react\n", caseno); fflush(stdout);
    ctx_free(c); cur = 0;
    return;
  }
  bool run_dead = nclients == 1 ? dead[0] : false;    // one client: a run() of a server without clients shows nothing
  if((is_run && (nested || run_dead)) || (!is_run && dead[idx])) {
    // the object is gone (or run() would be re-entered): nothing is executed
    c.dead = true;
  } else if(!strcmp(opn, "write") || !strcmp(opn, "write0")) {
    size_t n; unsigned char* d = vh::unhex(t.v[1], n);
    set_outcome(t.v[2]);
    { char wt[8]; snprintf(wt, sizeof(wt), "W%d:", idx); if(c.trace.n) s_add(c.trace, ","); s_add(c.trace, wt); if(n) s_hex(c.trace, d, n); else s_add(c.trace, "-"); }
    bool r;
    if(!strcmp(opn, "write")) {
      usize postponed = 12345;
      r = client[idx]->write(d, n, &postponed);
      c.num = (unsigned long long)postponed; c.hasnum = 1;
    } else
      r = client[idx]->write(d, n);
    sk_set_outcome(SK_NONE, 0);
    free(d);
    c.ret = r ? "1" : "0";
  } else if(is_run) {
    if(!strcmp(opn, "ev")) {
      set_outcome(t.v[2]);
      sk_arm_event(SK_EV_SCRIPT);
      sk_add_event(idx, parse_mask(t.v[1], t.v[1] + strlen(t.v[1])));
    } else if(!strcmp(opn, "evs") || !strcmp(opn, "evsi")) {
      sk_set_outcome(SK_NONE, 0);
      for(int i = 2; i < t.n; ++i) { int kind; long k; parse_outcome(t.v[i], &kind, &k); sk_push_outcome(kind, k); }
      sk_arm_event(SK_EV_SCRIPT);
      for(const char* p = t.v[1]; *p;) {        // A:io,B:i
        const char* e = strchr(p, ','); if(!e) e = p + strlen(p);
        if(p[0] >= 'A' && p[0] < 'A' + nclients && p[1] == ':')
          sk_add_event(p[0] - 'A', parse_mask(p + 2, e));
        p = *e ? e + 1 : e;
      }
      if(!strcmp(opn, "evsi")) sk_with_interrupt(1);
    } else if(!strcmp(opn, "poll")) {
      set_outcome(t.v[1]);
      sk_arm_event(SK_EV_REAL);
    } else {                                    // tick [outcome*]: cached events of an earlier round may still be dispatched
      sk_set_outcome(SK_NONE, 0);
      for(int i = 1; i < t.n; ++i) { int kind; long k; parse_outcome(t.v[i], &kind, &k); sk_push_outcome(kind, k); }
      sk_arm_event(SK_EV_TICK);
    }
    run_once(c);
    sk_set_outcome(SK_NONE, 0);
  } else if(!strcmp(opn, "suspend")) client[idx]->suspend();
  else if(!strcmp(opn, "resume")) client[idx]->resume();
  else if(!strcmp(opn, "read")) {
    long max = atol(t.v[1]);
    unsigned char* buf = (unsigned char*)malloc(max > 0 ? (size_t)max : 1);
    usize size = 54321;
    bool r = client[idx]->read(buf, (usize)max, size);
    c.ret = r ? "1" : "0"; c.num = (unsigned long long)size; c.hasnum = 1;
    if(r) s_hex(c.data, buf, size);
    free(buf);
  } else if(!strcmp(opn, "remove")) {
    server->remove(*client[idx]);
    sk_detach_client(idx);
    dead[idx] = true; client[idx] = 0;
  } else {
    c.dead = false;
  }
  // peer side (also possible after the client is gone)
  if(!strcmp(opn, "peerwrite")) {
    c.dead = dead[idx];
    size_t n; unsigned char* d = vh::unhex(t.v[1], n);
    if(!peer_closed[idx] && !dead[idx] && n) {
      ssize_t w = ::send((int)peer[idx]->getFileDescriptor(), d, n, MSG_NOSIGNAL | MSG_DONTWAIT);
      if(w != (ssize_t)n) { fprintf(stderr, "peerwrite: short write\n"); abort(); }
    }
    free(d);
  } else if(!strcmp(opn, "peerread") || !strcmp(opn, "peerclose")) {
    c.dead = dead[idx];
    if(!peer_closed[idx] && !dead[idx]) {
      sk_peer_drain(idx);
      unsigned char* p; size_t n = sk_take_peer(idx, &p);
      s_hex(c.data, p, n);
      if(!strcmp(opn, "peerclose")) { sk_peer_close(idx); peer[idx]->close(); peer_closed[idx] = true; }
    }
  }
  print_line(name, c);
  ctx_free(c);
  cur = 0;
}

static void begin(long c, vh::Tok& t)
{
  caseno = c;
  sk_reset();
  for(int i = 0; i < NCL; ++i)
    for(int w = 0; w < 3; ++w) { while(reacth[i][w] < reactt[i][w]) free(reactq[i][w][reacth[i][w]++].line); reacth[i][w] = reactt[i][w] = 0; }
  delete server; for(int i = 0; i < NCL; ++i) { delete peer[i]; peer[i] = 0; }
  nclients = t.n > 2 ? (!strcmp(t.v[2], "two") ? 2 : !strcmp(t.v[2], "three") ? 3 : !strcmp(t.v[2], "four") ? 4 : 1) : 1;
  server = new Server;
  for(int i = 0; i < nclients; ++i) peer[i] = new Socket;
  for(int i = 0; i < NCL; ++i) { dead[i] = false; peer_closed[i] = false; client[i] = 0; cbobj[i].idx = i; }
  for(int i = 0; i < nclients; ++i) {
    client[i] = server->pair(cbobj[i], *peer[i]);
    if(!client[i]) { fprintf(stderr, "pair failed\n"); abort(); }
    sk_attach(i, (int)client[i]->getSocket().getFileDescriptor(), (int)peer[i]->getFileDescriptor());
  }
  sk_tag_sends(nclients >= 2);
}

static void op(long, long, vh::Tok& t)
{
  Str s; memset(&s, 0, sizeof(s));
  for(int i = 0; i < t.n; ++i) { if(i) s_add(s, " "); s_add(s, t.v[i]); }
  exec_line(s.p, false);
  free(s.p);
}

static void end(long c)
{
  // what the peers have received and not yet reported
  printf("%ld end data=", c);
  for(int i = 0; i < nclients; ++i) {
    Str x; memset(&x, 0, sizeof(x));
    if(!peer_closed[i]) {
      sk_peer_drain(i);
      unsigned char* p; size_t n = sk_take_peer(i, &p);
      s_hex(x, p, n);
    }
    printf("%s%s", i ? "/" : "", x.n ? x.p : "-");
    free(x.p);
  }
  printf("\n");
  delete server; server = 0;
  for(int i = 0; i < NCL; ++i) { client[i] = 0; delete peer[i]; peer[i] = 0; }
  sk_reset();
}

int main(int argc, char** argv) { return vh::run(argc, argv, begin, op, end); }
