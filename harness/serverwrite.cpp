// Correspondence harness for C13: the real Server with one client created by Server::pair
// (a connected socket pair through the Server API), the kernel simulated by interposition
// (serverwrite_kernel.cpp).  Operations are executed between run() calls or, when queued with
// `react`, from inside the client's callbacks.  One run() call = Server::interrupt() followed by
// Server::run(): the closing-clients pass, at most one poll event for the client, the
// closing-clients pass again, then the interrupt.
//
//   write <hex> <outcome>     client->write                  outcome: wb | s<k> | full | zero | err
//   ev <mask> <outcome>       run() with scripted readiness  mask: letters of i(n) o(ut) h(up), or -
//   poll <outcome>            run() with the real readiness of the socket (epoll_wait, timeout 0)
//   tick                      run() without readiness
//   suspend | resume | read <max> | remove
//   peerwrite <hex> | peerread | peerclose
//   react <onRead|onWrite|onClosed> <op...>   queue an operation for the next such callback
#include "vh.hpp"
#include <errno.h>
#include <sys/socket.h>
#include <sys/epoll.h>
#include "serverwrite_kernel.h"
#include <nstd/Socket/Server.hpp>
#include <nstd/Socket/Socket.hpp>

struct Str { char* p; size_t n, cap; };
static void s_add(Str& s, const char* t)
{
  size_t l = strlen(t);
  if(s.n + l + 1 > s.cap) { s.cap = (s.n + l + 1) * 2 + 64; s.p = (char*)realloc(s.p, s.cap); }
  memcpy(s.p + s.n, t, l + 1); s.n += l;
}
static void s_hex(Str& s, const unsigned char* b, size_t n)
{
  if(s.n + 2 * n + 1 > s.cap) { s.cap = (s.n + 2 * n + 1) * 2 + 64; s.p = (char*)realloc(s.p, s.cap); }
  static const char* H = "0123456789abcdef";
  for(size_t i = 0; i < n; ++i) { s.p[s.n++] = H[b[i] >> 4]; s.p[s.n++] = H[b[i] & 15]; }
  s.p[s.n] = 0;
}

// what one operation shows
struct Ctx { Str cbs, tx, sends, data; const char* ret; long num; int hasnum; bool dead; };
static void ctx_init(Ctx& c) { memset(&c, 0, sizeof(c)); c.ret = "-"; }
static void ctx_free(Ctx& c) { free(c.cbs.p); free(c.tx.p); free(c.sends.p); free(c.data.p); }
static void collect(Ctx& c)
{
  unsigned char* p; size_t n = sk_take_tx(&p);
  s_hex(c.tx, p, n);
  const char* l = sk_take_sendlog();
  if(l[0]) { if(c.sends.n) s_add(c.sends, ","); s_add(c.sends, l); }
}

static Server* server = 0;
static Server::Client* client = 0;
static Socket* peer = 0;
static bool dead = false;       // client removed
static bool peer_closed = false;
static long caseno = 0;
static Ctx* cur = 0;            // operation in progress

#define NREACT 64
struct Reaction { char* line; };
static Reaction reactq[3][NREACT]; static int reacth[3], reactt[3];
static const char* cbname[3] = {"onRead", "onWrite", "onClosed"};

static void exec_line(char* line, bool nested);

static void on_callback(int which)
{
  if(cur) { if(cur->cbs.n) s_add(cur->cbs, ","); s_add(cur->cbs, cbname[which]); }
  if(reacth[which] < reactt[which]) {
    char* line = reactq[which][reacth[which]++].line;
    Ctx* outer = cur;
    if(outer) collect(*outer);          // what the outer operation caused so far stays with it
    int ok; long kk; sk_get_outcome(&ok, &kk);   // the reaction has its own scripted send outcome;
    exec_line(line, true);
    sk_set_outcome(ok, kk);             // the outer operation keeps its (possibly unconsumed) one
    free(line);
    cur = outer;
  }
}

struct Cb : public Server::Client::ICallback
{
  void onRead() { on_callback(0); }
  void onWrite() { on_callback(1); }
  void onClosed() { on_callback(2); }
} cbobj;

static void print_line(const char* name, Ctx& c)
{
  collect(c);
  printf("%ld %s r=%s n=", caseno, name, c.ret);
  if(c.hasnum) printf("%ld", c.num); else printf("-");
  printf(" cb=%s tx=%s sends=%s data=%s%s", c.cbs.n ? c.cbs.p : "-", c.tx.n ? c.tx.p : "-", c.sends.n ? c.sends.p : "-",
         c.data.n ? c.data.p : "-", c.dead ? " dead" : "");
  if(dead) printf(" | sb=- susp=- | k=-\n");
  else {
    printf(" | sb=%llu susp=%d | k=", (unsigned long long)client->getSendBufferSize(), client->isSuspended() ? 1 : 0);
    if(!sk_registered()) printf("-");
    else {
      unsigned m = sk_reg_mask();
      if(!(m & (EPOLLIN | EPOLLOUT))) printf("0");
      if(m & EPOLLIN) printf("r");
      if(m & EPOLLOUT) printf("w");
    }
    printf("\n");
  }
  fflush(stdout);
}

static void set_outcome(const char* t)
{
  if(!strcmp(t, "wb")) sk_set_outcome(SK_WOULDBLOCK, 0);
  else if(!strcmp(t, "full")) sk_set_outcome(SK_FULL, 0);
  else if(!strcmp(t, "zero")) sk_set_outcome(SK_ZERO, 0);
  else if(!strcmp(t, "err")) sk_set_outcome(SK_ERROR, 0);
  else if(t[0] == 's') sk_set_outcome(SK_SENT, atol(t + 1));
  else sk_set_outcome(SK_NONE, 0);
}

static void run_once()
{
  server->interrupt();
  server->run();
  sk_disarm_event();
}

static void exec_line(char* line, bool nested)
{
  vh::Tok t; vh::split(line, t);
  if(t.n == 0) return;
  const char* opn = t.v[0];
  Ctx c; ctx_init(c);
  cur = &c;
  bool is_run = !strcmp(opn, "ev") || !strcmp(opn, "poll") || !strcmp(opn, "tick");
  if(!strcmp(opn, "react")) {
    int which = !strcmp(t.v[1], "onRead") ? 0 : !strcmp(t.v[1], "onWrite") ? 1 : 2;
    Str s; memset(&s, 0, sizeof(s));
    for(int i = 2; i < t.n; ++i) { if(i > 2) s_add(s, " "); s_add(s, t.v[i]); }
    if(reactt[which] < NREACT) reactq[which][reactt[which]++].line = s.p; else free(s.p);
    printf("%ld react\n", caseno); fflush(stdout);
    ctx_free(c); cur = 0;
    return;
  }
  if(dead || (nested && is_run)) {        // the object is gone (or run() would be re-entered): nothing is executed
    c.dead = true;
  } else if(!strcmp(opn, "write")) {
    size_t n; unsigned char* d = vh::unhex(t.v[1], n);
    set_outcome(t.v[2]);
    usize postponed = 12345;
    bool r = client->write(d, n, &postponed);
    sk_set_outcome(SK_NONE, 0);
    free(d);
    c.ret = r ? "1" : "0"; c.num = (long)postponed; c.hasnum = 1;
  } else if(is_run) {
    if(!strcmp(opn, "ev")) {
      unsigned m = 0;
      for(const char* p = t.v[1]; *p; ++p) m |= *p == 'i' ? EPOLLIN : *p == 'o' ? EPOLLOUT : *p == 'h' ? (EPOLLHUP | EPOLLRDHUP) : 0;
      set_outcome(t.v[2]);
      sk_arm_event(SK_EV_SCRIPT, m);
    } else if(!strcmp(opn, "poll")) {
      set_outcome(t.v[1]);
      sk_arm_event(SK_EV_REAL, 0);
    } else
      sk_arm_event(SK_EV_TICK, 0);
    run_once();
    sk_set_outcome(SK_NONE, 0);
  } else if(!strcmp(opn, "suspend")) client->suspend();
  else if(!strcmp(opn, "resume")) client->resume();
  else if(!strcmp(opn, "read")) {
    long max = atol(t.v[1]);
    unsigned char* buf = (unsigned char*)malloc(max > 0 ? (size_t)max : 1);
    usize size = 54321;
    bool r = client->read(buf, (usize)max, size);
    c.ret = r ? "1" : "0"; c.num = (long)size; c.hasnum = 1;
    if(r) s_hex(c.data, buf, size);
    free(buf);
  } else if(!strcmp(opn, "remove")) {
    server->remove(*client);
    sk_detach_client();
    dead = true; client = 0;
  } else {
    c.dead = false;
  }
  // peer side (also possible after the client is gone)
  if(!strcmp(opn, "peerwrite")) {
    c.dead = dead;
    size_t n; unsigned char* d = vh::unhex(t.v[1], n);
    if(!peer_closed && !dead && n) {
      ssize_t w = ::send((int)peer->getFileDescriptor(), d, n, MSG_NOSIGNAL | MSG_DONTWAIT);
      if(w != (ssize_t)n) { fprintf(stderr, "peerwrite: short write\n"); abort(); }
    }
    free(d);
  } else if(!strcmp(opn, "peerread") || !strcmp(opn, "peerclose")) {
    c.dead = dead;
    if(!peer_closed && !dead) {
      sk_peer_drain();
      unsigned char* p; size_t n = sk_take_peer(&p);
      s_hex(c.data, p, n);
      if(!strcmp(opn, "peerclose")) { sk_peer_close(); peer->close(); peer_closed = true; }
    }
  }
  print_line(opn, c);
  ctx_free(c);
  cur = 0;
}

static void begin(long c, vh::Tok&)
{
  caseno = c;
  sk_reset();
  for(int w = 0; w < 3; ++w) { while(reacth[w] < reactt[w]) free(reactq[w][reacth[w]++].line); reacth[w] = reactt[w] = 0; }
  delete server; delete peer;
  server = new Server; peer = new Socket;
  dead = false; peer_closed = false;
  client = server->pair(cbobj, *peer);
  if(!client) { fprintf(stderr, "pair failed\n"); abort(); }
  sk_attach((int)client->getSocket().getFileDescriptor(), (int)peer->getFileDescriptor());
}

static void op(long, long, vh::Tok& t)
{
  Str s; memset(&s, 0, sizeof(s));
  for(int i = 0; i < t.n; ++i) { if(i) s_add(s, " "); s_add(s, t.v[i]); }
  exec_line(s.p, false);
  free(s.p);
}

static void end(long c)
{
  // what the peer has received and not yet reported
  Ctx x; ctx_init(x);
  if(!peer_closed) {
    sk_peer_drain();
    unsigned char* p; size_t n = sk_take_peer(&p);
    s_hex(x.data, p, n);
  }
  printf("%ld end data=%s\n", c, x.data.n ? x.data.p : "-");
  ctx_free(x);
  delete server; server = 0; client = 0;
  delete peer; peer = 0;
  sk_reset();
}

int main(int argc, char** argv) { return vh::run(argc, argv, begin, op, end); }
