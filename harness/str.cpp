// Correspondence harness for C06: drives real String objects on the op file and prints, after
// every operation and for every variable, length / bytes (public section) and - read-only through
// `#define private public` - the sharing class of the data pointer, the ref and capacity fields,
// capacity() and whether str[len] is a terminator.  String literals and attached buffers live in
// foreign memory between guard areas that are poisoned for AddressSanitizer (any read or write
// next to them is reported) and filled with a pattern; pattern and buffer bytes are re-read after
// every operation.  Allocations made while an operation runs are tracked through the allocator
// hooks of the sanitizer runtime: at the end of a case, after every variable is destroyed, none
// of them may still be live.
#include "vh.hpp"
#include <sanitizer/asan_interface.h>
extern "C" int __sanitizer_install_malloc_and_free_hooks(void (*malloc_hook)(const volatile void*, size_t), void (*free_hook)(const volatile void*));
#define private public
#include <nstd/String.hpp>
#undef private
#include <nstd/List.hpp>
#include <nstd/HashSet.hpp>

enum { MAXV = 48, MAXR = 128, GUARD = 32, MAXLIT = 40, MAXLIVE = 8192 };

static String* vars[MAXV];
static int nv = 0;
// the foreign buffer a variable was pointed at when it last became a non-owning view (lit, fromBool, attach): two
// fromBool results point at the SAME literal of the library, which the model keeps as two foreign buffers
static int view_hint[MAXV];

struct Region { unsigned char* block; unsigned char* data; size_t len; unsigned char* pristine; };
static Region regs[MAXR];
static int nr = 0;

// ---- allocation ledger -------------------------------------------------------------------
static const volatile void* live_ptr[MAXLIVE];
static int n_live = 0;
static bool tracking = false;
static bool ledger_overflow = false;

static void on_malloc(const volatile void* p, size_t)
{
  if(!tracking || !p) return;
  if(n_live < MAXLIVE) live_ptr[n_live++] = p; else ledger_overflow = true;
}
static void on_free(const volatile void* p)
{
  for(int i = n_live - 1; i >= 0; --i)
    if(live_ptr[i] == p) { live_ptr[i] = live_ptr[--n_live]; return; }
}

// ---- foreign memory ------------------------------------------------------------------------
__attribute__((no_sanitize("address")))
static bool guards_ok()
{
  for(int r = 0; r < nr; ++r) {
    const volatile unsigned char* b = regs[r].block;
    if(!b) continue;                                   // a literal of the library itself: no guard areas
    for(size_t i = 0; i < GUARD; ++i) if(b[i] != 0xA5) return false;
    const volatile unsigned char* e = regs[r].data + regs[r].len;
    for(size_t i = 0; i < GUARD; ++i) if(e[i] != 0x5A) return false;
  }
  return true;
}

static bool regions_ok()
{
  for(int r = 0; r < nr; ++r)
    if(regs[r].len && memcmp(regs[r].data, regs[r].pristine, regs[r].len) != 0) return false;
  return true;
}

static int new_region(const unsigned char* d, size_t n)
{
  Region& R = regs[nr];
  R.block = (unsigned char*)malloc(GUARD + n + GUARD);
  R.data = R.block + GUARD;
  R.len = n;
  memset(R.block, 0xA5, GUARD);
  memcpy(R.data, d, n);
  memset(R.data + n, 0x5A, GUARD);
  R.pristine = (unsigned char*)malloc(n ? n : 1);
  memcpy(R.pristine, d, n);
  ASAN_POISON_MEMORY_REGION(R.block, GUARD);
  ASAN_POISON_MEMORY_REGION(R.data + n, GUARD);
  return nr++;
}

// foreign memory the harness did not allocate: the string literal a String returned by the library points to
static int adopt_region(const unsigned char* d, size_t n)
{
  Region& R = regs[nr];
  R.block = 0;
  R.data = (unsigned char*)d;
  R.len = n;
  R.pristine = (unsigned char*)malloc(n ? n : 1);
  memcpy(R.pristine, d, n);
  return nr++;
}

static void drop_all()
{
  for(int i = nv - 1; i >= 0; --i) { delete vars[i]; vars[i] = 0; }
  nv = 0;
  for(int r = 0; r < nr; ++r) {
    if(regs[r].block) {
      ASAN_UNPOISON_MEMORY_REGION(regs[r].block, GUARD + regs[r].len + GUARD);
      free(regs[r].block);
    }
    free(regs[r].pristine);
  }
  nr = 0;
}

// String(const char(&)[N]) needs the array bound at compile time
typedef String* (*lit_fn)(const unsigned char*);
template<int N> struct Lit {
  static String* make(const unsigned char* p) { return new String(*(const char(*)[N])p); }
  static void fill(lit_fn* t) { t[N] = &make; Lit<N - 1>::fill(t); }
};
template<> struct Lit<0> { static void fill(lit_fn*) {} };
static lit_fn lit_table[MAXLIT + 2];

// operator==(const char(&)[N]) / operator!=(const char(&)[N]): 1 / 0, or -1 when the two disagree
typedef int (*liteq_fn)(const String&, const unsigned char*);
template<int N> struct LitEq {
  static int eq(const String& s, const unsigned char* p) {
    const char (&a)[N] = *(const char(*)[N])p;
    bool e = s == a, ne = s != a;
    return e == ne ? -1 : (e ? 1 : 0);
  }
  static void fill(liteq_fn* t) { t[N] = &eq; LitEq<N - 1>::fill(t); }
};
template<> struct LitEq<0> { static void fill(liteq_fn*) {} };
static liteq_fn liteq_table[MAXLIT + 2];

// operator+(const char(&)[N]) const
typedef String* (*litplus_fn)(const String&, const unsigned char*);
template<int N> struct LitPlus {
  static String* make(const String& s, const unsigned char* p) { return new String(s + *(const char(*)[N])p); }
  static void fill(litplus_fn* t) { t[N] = &make; LitPlus<N - 1>::fill(t); }
};
template<> struct LitPlus<0> { static void fill(litplus_fn*) {} };
static litplus_fn litplus_table[MAXLIT + 2];

// lexicographic order of byte strings (unsigned bytes, a proper prefix first)
static int cmp_tok(const String* a, const String* b)
{
  usize la = a->length(), lb = b->length(), n = la < lb ? la : lb;
  int r = n ? memcmp(a->data->str, b->data->str, n) : 0;
  return r ? r : la < lb ? -1 : la > lb ? 1 : 0;
}

// a byte string as hex digits; above LONGVAL bytes as '#' + its 32-bit FNV-1a checksum (the driver prints the same)
enum { LONGVAL = 1024 };
static void put_val(const unsigned char* b, size_t n)
{
  if(n <= LONGVAL) { vh::puthex(b, n); return; }
  unsigned int h = 2166136261u;
  for(size_t i = 0; i < n; ++i) { h ^= b[i]; h *= 16777619u; }
  printf("#%08x", h);
}

// the tokens of a HashSet in lexicographic order
static void print_set(const HashSet<String>& hs, usize n)
{
  enum { MAXTOK = 4096 };
  static const String* tok[MAXTOK];
  usize k = 0;
  for(HashSet<String>::Iterator i = hs.begin(), e = hs.end(); i != e && k < MAXTOK; ++i) tok[k++] = &*i;
  for(usize i = 1; i < k; ++i) {              // insertion sort
    const String* x = tok[i]; usize j = i;
    for(; j > 0 && cmp_tok(x, tok[j - 1]) < 0; --j) tok[j] = tok[j - 1];
    tok[j] = x;
  }
  printf("L%llu:", (unsigned long long)k);
  for(usize i = 0; i < k; ++i) {
    if(i) printf(",");
    put_val((const unsigned char*)tok[i]->data->str, tok[i]->length());
  }
  if(n != hs.size() || k != hs.size()) printf(" !count");
}

static void begin(long, vh::Tok&)
{
  tracking = false;
  drop_all();
  n_live = 0; ledger_overflow = false;
}

static void end(long c)
{
  tracking = true;
  drop_all();
  tracking = false;
  if(ledger_overflow) printf("%ld end | live=?\n", c);
  else printf("%ld end | live=%d\n", c, n_live);
}

static void dump()
{
  printf(" | %s", (guards_ok() && regions_ok()) ? "M=ok" : "M=bad");
  for(int i = 0; i < nv; ++i) {
    const String& s = *vars[i];
    usize n = s.length();
    printf(" [ %llu ", (unsigned long long)n);
    put_val((const unsigned char*)s.data->str, n);
    printf(" ]");
  }
  printf(" | I");
  const void* cls[MAXV]; int ncls = 0;
  for(int i = 0; i < nv; ++i) {
    const String& s = *vars[i];
    const char* z = s.data->str[s.data->len] == 0 ? "1" : "0";
    if(s.data == &String::emptyData) { printf(" { e k=%llu z=%s }", (unsigned long long)s.capacity(), z); continue; }
    if(s.data == &s._data) {
      int found = -1;
      int hnt = view_hint[i];
      if(hnt >= 0 && hnt < nr && (const unsigned char*)s.data->str >= regs[hnt].data && (const unsigned char*)s.data->str + s.data->len <= regs[hnt].data + regs[hnt].len) found = hnt;
      for(int r = 0; r < nr && found < 0; ++r)
        if((const unsigned char*)s.data->str >= regs[r].data && (const unsigned char*)s.data->str + s.data->len <= regs[r].data + regs[r].len) found = r;
      if(found >= 0) printf(" { v%d:%llu k=%llu z=%s }", found, (unsigned long long)((const unsigned char*)s.data->str - regs[found].data), (unsigned long long)s.capacity(), z);
      else printf(" { v? }");
      continue;
    }
    int id = -1;
    for(int k = 0; k < ncls; ++k) if(cls[k] == (const void*)s.data) id = k;
    if(id < 0) { id = ncls; cls[ncls++] = (const void*)s.data; }
    bool inl = s.data->str == (const char*)s.data + sizeof(String::Data);
    printf(" { b%d r=%llu c=%llu k=%llu z=%s%s }", id, (unsigned long long)s.data->ref, (unsigned long long)s.data->capacity,
           (unsigned long long)s.capacity(), z, inl ? "" : " str-not-inline");
  }
  printf("\n");
}

static int var(const char* s) { int v = atoi(s); return (v >= 0 && v < nv) ? v : -1; }

struct CArg {                       // a NUL-terminated exact-size copy of a hex argument
  unsigned char* p; size_t n;
  CArg(const char* hex) { p = vh::unhex(hex, n, 1); }
  ~CArg() { free(p); }
  const char* c() const { return (const char*)p; }
};
struct BArg {                       // an exact-size (unterminated) copy of a hex argument
  unsigned char* p; size_t n;
  BArg(const char* hex) { p = vh::unhex(hex, n); }
  ~BArg() { free(p); }
  const char* c() const { return (const char*)p; }
};

static int sign(int x) { return x < 0 ? -1 : x > 0 ? 1 : 0; }
static long long off(const String& s, const char* base, const char* p) { return p ? (long long)(p - base) : -1; }

static void op(long c, long, vh::Tok& t)
{
  tracking = true;
  printf("%ld ", c);
  const char* o = t.v[0];
  #define IS(x) (!strcmp(o, x))
  #define A(i) (t.v[i])
  #define N(i) ((usize)strtoull(t.v[i], 0, 10))
  #define V(i) (*vars[var(t.v[i])])
  // argument sanity (the generators only produce valid indices; anything else is a harness error)
  bool ctor = IS("new") || IS("lit") || IS("buf") || IS("fill") || IS("cap") || IS("copy") || IS("drop") || IS("reg") || IS("fromprintf")
           || IS("frombool") || IS("fromcstr") || IS("fromcstrn") || IS("char");
  bool pushes = IS("plus") || IS("pluslit") || IS("substr") || IS("substrd") || IS("tokc") || IS("toks");
  if(IS("stat") && (t.n < 5 || var(t.v[2]) < 0 || var(t.v[3]) < 0)) { printf("! harness: bad variable\n"); tracking = false; return; }
  if(!ctor && !IS("stat") && (t.n < 2 || var(t.v[1]) < 0)) { printf("! harness: bad variable\n"); tracking = false; return; }
  if(((ctor && !IS("drop") && !IS("reg") && !IS("char")) || pushes) && nv >= MAXV) { printf("! harness: too many variables\n"); tracking = false; return; }
  if((IS("lit") || IS("reg") || IS("pluslit") || IS("frombool")) && nr >= MAXR) { printf("! harness: too many regions\n"); tracking = false; return; }
  if(IS("plusasg") && (t.n < 4 || var(t.v[2]) < 0 || var(t.v[3]) < 0)) { printf("! harness: bad variable\n"); tracking = false; return; }
  if((IS("pluseq") || IS("plus")) && (t.n < 3 || var(t.v[2]) < 0)) { printf("! harness: bad variable\n"); tracking = false; return; }

  if(IS("new")) { vars[nv++] = new String; printf("-"); }
  else if(IS("lit")) {
    CArg a(A(1));
    if(a.n > MAXLIT) { printf("! harness: literal too long\n"); tracking = false; return; }
    int r = new_region(a.p, a.n + 1);
    view_hint[nv] = r;
    vars[nv++] = lit_table[a.n + 1](regs[r].data);
    printf("-");
  }
  else if(IS("buf")) { BArg a(A(1)); vars[nv++] = new String(a.c(), a.n); printf("-"); }
  else if(IS("fill")) { vars[nv++] = new String(N(1), (char)atoi(A(2))); printf("-"); }
  else if(IS("cap")) { vars[nv++] = new String(N(1)); printf("-"); }
  else if(IS("copy")) { String* s = new String(V(1)); vars[nv++] = s; printf("-"); }
  else if(IS("drop")) { delete vars[--nv]; vars[nv] = 0; printf("-"); }
  else if(IS("reg")) { BArg a(A(1)); new_region(a.p, a.n); printf("-"); }
  else if(IS("attach")) { int r = atoi(A(2)); V(1).attach((const char*)regs[r].data + N(3), N(4)); view_hint[var(A(1))] = r; printf("-"); }
  else if(IS("asg")) { V(1) = V(2); printf("-"); }
  else if(IS("clear")) { V(1).clear(); printf("-"); }
  else if(IS("detach")) { V(1).detach(); printf("-"); }
  else if(IS("resize")) {
    String& s = V(1); usize old = s.length(), n = N(2);
    s.resize(n);
    if(n > old) { char* p = s; memset(p + old, atoi(A(3)), n - old); }
    printf("-");
  }
  else if(IS("reserve")) { V(1).reserve(N(2)); printf("-"); }
  else if(IS("poke")) { String& s = V(1); char* p = s; p[N(2)] = (char)atoi(A(3)); printf("-"); }
  else if(IS("cstr")) {
    String& s = V(1);
    const char* p = s;
    usize n = s.length();
    put_val((const unsigned char*)p, n);
    printf(" t=%02x", (unsigned char)p[n]);
  }
  else if(IS("apps")) { V(1).append(V(2)); printf("-"); }
  else if(IS("appb")) { BArg a(A(2)); V(1).append(a.c(), a.n); printf("-"); }
  else if(IS("appc")) { V(1).append((char)atoi(A(2))); printf("-"); }
  else if(IS("pres")) { V(1).prepend(V(2)); printf("-"); }
  else if(IS("preb")) { BArg a(A(2)); V(1).prepend(a.c(), a.n); printf("-"); }
  else if(IS("repc")) { V(1).replace((char)atoi(A(2)), (char)atoi(A(3))); printf("-"); }
  else if(IS("reps")) { V(1).replace(V(2), V(3)); printf("-"); }
  else if(IS("lower")) { V(1).toLowerCase(); printf("-"); }
  else if(IS("upper")) { V(1).toUpperCase(); printf("-"); }
  else if(IS("trim")) { CArg a(A(2)); V(1).trim(a.c()); printf("-"); }
  else if(IS("printf")) { CArg a(A(2)); int r = V(1).printf("%s", a.c()); printf("%d", r); }
  else if(IS("join")) {
    List<String> l;
    for(int i = 3; i < t.n; ++i) l.append(V(i));
    V(1).join(l, (char)atoi(A(2)));
    printf("-");
  }
  else if(IS("substr")) { String r = V(1).substr((ssize)atoll(A(2)), (ssize)atoll(A(3))); vars[nv++] = new String(r); printf("-"); }
  else if(IS("tokc")) { usize st = N(3); String r = V(1).token((char)atoi(A(2)), st); vars[nv++] = new String(r); printf("%llu", (unsigned long long)st); }
  else if(IS("toks")) { CArg a(A(2)); usize st = N(3); String r = V(1).token(a.c(), st); vars[nv++] = new String(r); printf("%llu", (unsigned long long)st); }
  else if(IS("split")) {
    CArg a(A(2));
    List<String> l;
    usize n = V(1).split(l, a.c(), atoi(A(3)) != 0);
    printf("L%llu:", (unsigned long long)n);
    bool first = true;
    for(List<String>::Iterator i = l.begin(), e = l.end(); i != e; ++i) {
      if(!first) printf(",");
      first = false;
      put_val((const unsigned char*)i->data->str, i->length());
    }
    if(n != l.size()) printf(" !count");
  }
  else if(IS("eq")) {
    bool e = V(1) == V(2), ne = V(1) != V(2);
    if(e == ne) printf("!eq-ne-inconsistent"); else printf("%d", e ? 1 : 0);
  }
  else if(IS("cmp")) {
    int r = V(1).compare(V(2));
    bool lt = V(1) < V(2), le = V(1) <= V(2), gt = V(1) > V(2), ge = V(1) >= V(2);
    if(lt != (r < 0) || le != (r <= 0) || gt != (r > 0) || ge != (r >= 0)) printf("!relops-inconsistent"); else printf("%d", sign(r));
  }
  else if(IS("cmpn")) printf("%d", sign(V(1).compare(V(2), N(3))));
  else if(IS("cmpi")) printf("%d", sign(V(1).compareIgnoreCase(V(2))));
  else if(IS("cmpin")) printf("%d", sign(V(1).compareIgnoreCase(V(2), N(3))));
  else if(IS("eqi")) printf("%d", V(1).equalsIgnoreCase(V(2)) ? 1 : 0);
  else if(IS("findc")) { const String& s = V(1); const char* p = s.find((char)atoi(A(2))); printf("%lld", off(s, s.data->str, p)); }
  else if(IS("findlc")) { const String& s = V(1); const char* p = s.findLast((char)atoi(A(2))); printf("%lld", off(s, s.data->str, p)); }
  else if(IS("findcf")) { const String& s = V(1); const char* p = s.find((char)atoi(A(2)), N(3)); printf("%lld", off(s, s.data->str, p)); }
  else if(IS("finds")) { CArg a(A(2)); const String& s = V(1); const char* p = s.find(a.c()); printf("%lld", off(s, s.data->str, p)); }
  else if(IS("findsf")) { CArg a(A(2)); const String& s = V(1); const char* p = s.find(a.c(), N(3)); printf("%lld", off(s, s.data->str, p)); }
  else if(IS("findo")) { CArg a(A(2)); const String& s = V(1); const char* p = s.findOneOf(a.c()); printf("%lld", off(s, s.data->str, p)); }
  else if(IS("findof")) { CArg a(A(2)); const String& s = V(1); const char* p = s.findOneOf(a.c(), N(3)); printf("%lld", off(s, s.data->str, p)); }
  else if(IS("findls")) { CArg a(A(2)); const String& s = V(1); const char* p = s.findLast(a.c()); printf("%lld", off(s, s.data->str, p)); }
  else if(IS("findlo")) { CArg a(A(2)); const String& s = V(1); const char* p = s.findLastOf(a.c()); printf("%lld", off(s, s.data->str, p)); }
  else if(IS("starts")) printf("%d", V(1).startsWith(V(2)) ? 1 : 0);
  else if(IS("ends")) printf("%d", V(1).endsWith(V(2)) ? 1 : 0);
  else if(IS("appo")) {              // the source lies in the String's own text
    String& s = V(1); const char* p = s;
    s.append(p + N(2), N(3));
    printf("-");
  }
  else if(IS("preo")) {              // prepend(const char*, len) with the source in the String's own text
    String& s = V(1); const char* p = s;
    s.prepend(p + N(2), N(3));
    printf("-");
  }
  // calls that leave out a defaulted argument: trim(), substr(start), split(list, separators), split(set, separators)
  else if(IS("trimd")) { V(1).trim(); printf("-"); }
  else if(IS("substrd")) { String r = V(1).substr((ssize)atoll(A(2))); vars[nv++] = new String(r); printf("-"); }
  else if(IS("splitd")) {
    CArg a(A(2));
    List<String> l;
    usize n = V(1).split(l, a.c());
    printf("L%llu:", (unsigned long long)n);
    bool first = true;
    for(List<String>::Iterator i = l.begin(), e = l.end(); i != e; ++i) {
      if(!first) printf(",");
      first = false;
      put_val((const unsigned char*)i->data->str, i->length());
    }
    if(n != l.size()) printf(" !count");
  }
  else if(IS("splitsetd")) {
    CArg a(A(2));
    HashSet<String> hs;
    usize n = V(1).split(hs, a.c());
    print_set(hs, n);
  }
  else if(IS("printfs")) {           // an argument of printf is the String's own C-string view
    String& s = V(1); CArg a(A(2)), b(A(3)); const char* p = s;
    int r = s.printf("%s%s%s", a.c(), p, b.c());
    printf("%d", r);
  }
  else if(IS("eqlit")) {
    CArg a(A(2));
    if(a.n > MAXLIT) { printf("! harness: literal too long\n"); tracking = false; return; }
    int r = liteq_table[a.n + 1](V(1), a.p);
    if(r < 0) printf("!eq-ne-inconsistent"); else printf("%d", r);
  }
  else if(IS("splitset")) {
    CArg a(A(2));
    HashSet<String> hs;
    usize n = V(1).split(hs, a.c(), atoi(A(3)) != 0);
    print_set(hs, n);
  }
  else if(IS("fromprintf")) {
    CArg a(A(1));
    String r = String::fromPrintf("%s", a.c());
    vars[nv++] = new String(r);
    printf("-");
  }
  else if(IS("stat")) {
    // the static const char* helpers run on the C-string views of COPIES (the variables keep their representation)
    const char* q = A(1);
    const String& x = *vars[var(t.v[2])]; const String& y = *vars[var(t.v[3])];
    usize n = N(4);
    if(!strcmp(q, "eqin")) printf("%d", x.equalsIgnoreCase(y, n) ? 1 : 0);
    else {
      String cx(x), cy(y);
      const char* px = cx; const char* py = cy;
      if(!strcmp(q, "scmp")) printf("%d", sign(String::compare(px, py)));
      else if(!strcmp(q, "scmpn")) printf("%d", sign(String::compare(px, py, n)));
      else if(!strcmp(q, "scmpi")) printf("%d", sign(String::compareIgnoreCase(px, py)));
      else if(!strcmp(q, "scmpin")) printf("%d", sign(String::compareIgnoreCase(px, py, n)));
      else if(!strcmp(q, "sstarts")) printf("%d", String::startsWith(px, y) ? 1 : 0);
      else if(!strcmp(q, "slen")) printf("%llu", (unsigned long long)String::length(px));
      else if(!strcmp(q, "sfindc")) { const char* p = String::find(px, (char)n); printf("%lld", off(cx, px, p)); }
      else if(!strcmp(q, "sfindlc")) { const char* p = String::findLast(px, (char)n); printf("%lld", off(cx, px, p)); }
      else if(!strcmp(q, "sfinds")) { const char* p = String::find(px, py); printf("%lld", off(cx, px, p)); }
      else if(!strcmp(q, "sfindo")) { const char* p = String::findOneOf(px, py); printf("%lld", off(cx, px, p)); }
      else printf("?unknown-query");
    }
  }
  else if(IS("pluseq")) { V(1) += V(2); printf("-"); }
  else if(IS("pluseqc")) { V(1) += (char)atoi(A(2)); printf("-"); }
  else if(IS("plus")) { vars[nv++] = new String(V(1) + V(2)); printf("-"); }
  else if(IS("pluslit")) {
    CArg a(A(2));
    if(a.n > MAXLIT) { printf("! harness: literal too long\n"); tracking = false; return; }
    int r = new_region(a.p, a.n + 1);
    vars[nv++] = litplus_table[a.n + 1](V(1), regs[r].data);
    printf("-");
  }
  else if(IS("plusasg")) { V(1) = V(2) + V(3); printf("-"); }
  else if(IS("frombool")) {
    String* s = new String(String::fromBool(atoi(A(1)) != 0));
    vars[nv++] = s;
    // the result describes a string literal of the library: from now on that literal is watched like the other foreign memory
    if(s->data == &s->_data) view_hint[nv - 1] = adopt_region((const unsigned char*)s->data->str, s->data->len + 1);
    printf("-");
  }
  else if(IS("fromcstr")) { CArg a(A(1)); vars[nv++] = new String(String::fromCString(a.c())); printf("-"); }
  else if(IS("fromcstrn")) { BArg a(A(1)); vars[nv++] = new String(String::fromCString(a.c(), N(2))); printf("-"); }
  else if(IS("tobool")) { const String& s = V(1); printf("%d", s.toBool() ? 1 : 0); }
  else if(IS("char")) {
    const char* q = A(1); char ch = (char)atoi(A(2));
    if(!strcmp(q, "lower")) printf("%d", (int)(unsigned char)String::toLowerCase(ch));
    else if(!strcmp(q, "upper")) printf("%d", (int)(unsigned char)String::toUpperCase(ch));
    else if(!strcmp(q, "isspace")) printf("%d", String::isSpace(ch) ? 1 : 0);
    else if(!strcmp(q, "isalnum")) printf("%d", String::isAlphanumeric(ch) ? 1 : 0);
    else if(!strcmp(q, "isalpha")) printf("%d", String::isAlpha(ch) ? 1 : 0);
    else if(!strcmp(q, "isdigit")) printf("%d", String::isDigit(ch) ? 1 : 0);
    else if(!strcmp(q, "islower")) printf("%d", String::isLowerCase(ch) ? 1 : 0);
    else if(!strcmp(q, "isprint")) printf("%d", String::isPrint(ch) ? 1 : 0);
    else if(!strcmp(q, "ispunct")) printf("%d", String::isPunct(ch) ? 1 : 0);
    else if(!strcmp(q, "isupper")) printf("%d", String::isUpperCase(ch) ? 1 : 0);
    else if(!strcmp(q, "isxdigit")) printf("%d", String::isHexDigit(ch) ? 1 : 0);
    else printf("?unknown-query");
  }
  else if(IS("len")) {
    const String& s = V(1);
    if(s.isEmpty() != (s.length() == 0)) printf("!isEmpty-inconsistent"); else printf("%llu", (unsigned long long)s.length());
  }
  else printf("?unknown-op");
  dump();
  tracking = false;
}

int main(int argc, char** argv)
{
  Lit<MAXLIT + 1>::fill(lit_table);
  LitEq<MAXLIT + 1>::fill(liteq_table);
  LitPlus<MAXLIT + 1>::fill(litplus_table);
  __sanitizer_install_malloc_and_free_hooks(on_malloc, on_free);
  return vh::run(argc, argv, begin, op, end);
}
