// Correspondence harness for C08: drives real Buffer objects on the op file and prints, after
// every operation and for every live variable, size / bytes / the byte after the end (when the
// Buffer owns storage) and the private pointers in canonical form.  Foreign memory handed to
// attach() sits between guard areas that are (a) poisoned for AddressSanitizer, so that any
// read or write next to the attached range is reported, and (b) filled with a pattern that is
// re-read after every operation; the attached bytes themselves are compared with a pristine copy.
//
// Storage release (round 5): AddressSanitizer's allocation hooks keep a ledger of the blocks that
// were allocated while a Buffer member function ran and are still live; their number is printed
// as `live=<k>` in the internal section and must equal the number of variables that own storage
// (a Buffer that drops its block without delete[] shows up at once, LeakSanitizer is off).
//
// Large sizes (round 5): a case whose `case` line carries the word `big` is printed in compact
// form - size, the first and the last 8 bytes of the window - so that windows of more than 2^32
// bytes over untouched (uncommitted) pages can be observed.
#include "vh.hpp"
#include <sanitizer/asan_interface.h>
extern "C" size_t __sanitizer_get_allocated_size(const volatile void* p);   // libasan (header not shipped with gcc 12)
#define private public
#include <nstd/Buffer.hpp>
#undef private

extern "C" int __sanitizer_install_malloc_and_free_hooks(void (*malloc_hook)(const volatile void*, size_t),
                                                         void (*free_hook)(const volatile void*));

enum { MAXV = 64, MAXR = 256, GUARD = 32, MAXLIVE = 1024 };

// ---- ledger of blocks allocated inside Buffer member functions ---------------------------------
static bool lib_active = false;
static const volatile void* live[MAXLIVE];
static int nlive = 0;
static void on_malloc(const volatile void* p, size_t) { if(lib_active && p && nlive < MAXLIVE) live[nlive++] = p; }
static void on_free(const volatile void* p)
{
  for(int i = 0; i < nlive; ++i) if(live[i] == p) { live[i] = live[--nlive]; return; }
}
struct Lib { Lib() { lib_active = true; } ~Lib() { lib_active = false; } };
static bool big = false;           // compact dump (case configuration `big`)

static Buffer* vars[MAXV];
static int nv = 0;

struct Region { unsigned char* block; unsigned char* data; size_t len; unsigned char* pristine; };
static Region regs[MAXR];
static int nr = 0;
static bool poison = true;

__attribute__((no_sanitize("address")))
static bool guards_ok()
{
  for(int r = 0; r < nr; ++r) {
    const volatile unsigned char* b = regs[r].block;
    for(size_t i = 0; i < GUARD; ++i) if(b[i] != 0xA5) return false;
    const volatile unsigned char* e = regs[r].data + regs[r].len;
    for(size_t i = 0; i < GUARD; ++i) if(e[i] != 0x5A) return false;
  }
  return true;
}

static bool regions_ok()
{
  for(int r = 0; r < nr; ++r)
    if(regs[r].len && memcmp(regs[r].data, regs[r].pristine, regs[r].len) != 0) return false;
  return true;
}

static unsigned char* new_region(const char* hex, size_t& len)
{
  size_t n; unsigned char* d = vh::unhex(hex, n);
  Region& R = regs[nr++];
  R.block = (unsigned char*)malloc(GUARD + n + GUARD);
  R.data = R.block + GUARD;
  R.len = n;
  memset(R.block, 0xA5, GUARD);
  memcpy(R.data, d, n);
  memset(R.data + n, 0x5A, GUARD);
  R.pristine = (unsigned char*)malloc(n ? n : 1);
  memcpy(R.pristine, d, n);
  free(d);
  if(poison) {
    ASAN_POISON_MEMORY_REGION(R.block, GUARD);
    ASAN_POISON_MEMORY_REGION(R.data + n, GUARD);
  }
  len = n;
  return R.data;
}

static void drop_all()
{
  for(int i = nv - 1; i >= 0; --i) { vars[i]->~Buffer(); free(vars[i]); vars[i] = 0; }
  nv = 0;
  for(int r = 0; r < nr; ++r) {
    ASAN_UNPOISON_MEMORY_REGION(regs[r].block, GUARD + regs[r].len + GUARD);
    free(regs[r].block); free(regs[r].pristine);
  }
  nr = 0;
}

static bool rejected = false;      // an op named a variable that does not exist: the rest of the case is skipped
static void begin(long, vh::Tok& t)
{
  drop_all(); rejected = false; nlive = 0;
  big = false;
  for(int i = 2; i < t.n; ++i) if(!strcmp(t.v[i], "big")) big = true;
}
static void end(long) { drop_all(); nlive = 0; }
static void* raw() { return malloc(sizeof(Buffer)); }     // the object itself is not Buffer's storage

static void dump()
{
  printf(" | %s", guards_ok() ? "G=ok" : "G=bad");
  for(int i = 0; i < nv; ++i) {
    Buffer& b = *vars[i];
    usize n = b.size();
    const byte* p = (const byte*)b;
    printf(" [ %llu : ", (unsigned long long)n);
    if(big && n > 16) {
      for(usize k = 0; k < 8; ++k) printf("%02x ", p[k]);
      printf(".. ");
      for(usize k = n - 8; k < n; ++k) printf("%02x ", p[k]);
    }
    else for(usize k = 0; k < n && k < 3000000; ++k) printf("%02x ", p[k]);
    if(b.buffer) {
      byte t = *b.bufferEnd;                       // must be readable and zero
      if(t == 0) printf("T=ok ]"); else printf("T=bad:%02x ]", t);
    } else printf("T=ok ]");
  }
  printf(" | %s live=%d", regions_ok() ? "R=ok" : "R=bad", nlive);
  for(int i = 0; i < nv; ++i) {
    Buffer& b = *vars[i];
    // cap= is what the public capacity() answers; it must be the private member the window arithmetic uses
    if(b.capacity() == b._capacity) printf(" [ own=%d cap=%llu at=", b.buffer ? 1 : 0, (unsigned long long)b.capacity());
    else printf(" [ own=%d cap=%llu!=%llu at=", b.buffer ? 1 : 0, (unsigned long long)b.capacity(), (unsigned long long)b._capacity);
    size_t al = b.buffer ? __sanitizer_get_allocated_size(b.buffer) : 0;
    bool found = false;
    if(b.buffer && b.bufferStart >= b.buffer && b.bufferStart <= b.buffer + al) {
      printf("own:%llu", (unsigned long long)(b.bufferStart - b.buffer)); found = true;
    }
    for(int k = 0; k < nv && !found; ++k)
      if(b.bufferStart == (byte*)&vars[k]->_capacity) { printf("cap:%d", k); found = true; }
    for(int r = 0; r < nr && !found; ++r)
      if(b.bufferStart >= regs[r].data && b.bufferStart <= regs[r].data + regs[r].len) {
        printf("reg:%llu/%llu", (unsigned long long)(b.bufferStart - regs[r].data), (unsigned long long)regs[r].len); found = true;
      }
    if(!found) printf("wild");
    if(b.buffer) printf(" alloc=%llu ]", (unsigned long long)al); else printf(" alloc=- ]");
  }
  printf("\n");
}

static usize usz(const char* s) { return (usize)strtoull(s, 0, 10); }   // every usize, up to 2^64-1
static int var(const char* s) { int v = atoi(s); return (v >= 0 && v < nv) ? v : -1; }

static void op(long c, long, vh::Tok& t)
{
  if(rejected) return;
  printf("%ld ", c);
  const char* o = t.v[0];
  int v = t.n > 1 ? var(t.v[1]) : -1;
  int w = t.n > 2 ? var(t.v[2]) : -1;
  bool is_ctor = !strcmp(o, "new") || !strcmp(o, "newcap") || !strcmp(o, "newdata") || !strcmp(o, "newcopy");
  bool binary = !strcmp(o, "asg") || !strcmp(o, "prependb") || !strcmp(o, "appendb") || !strcmp(o, "swap") || !strcmp(o, "eq");
  bool at = !strcmp(o, "appendat") || !strcmp(o, "assignat") || !strcmp(o, "prependat");
  if(at && v >= 0 && (t.n < 4 || usz(t.v[2]) + usz(t.v[3]) > vars[v]->size())) v = -1;     // the pointer does not point at bytes of v
  if(is_ctor ? (nv >= MAXV || (!strcmp(o, "newcopy") && v < 0)) : (v < 0 || (binary && w < 0))) {
    printf("! not-accepted\n"); rejected = true; return;
  }
  const char* res = "-";
  if(!strcmp(o, "new")) { void* m = raw(); Lib on; vars[nv++] = new(m) Buffer; }
  else if(!strcmp(o, "newcap")) { void* m = raw(); Lib on; vars[nv++] = new(m) Buffer(usz(t.v[1])); }
  else if(!strcmp(o, "newdata")) { size_t n; unsigned char* d = vh::unhex(t.v[1], n); void* m = raw(); { Lib on; vars[nv++] = new(m) Buffer(d, n); } free(d); }
  else if(!strcmp(o, "newcopy")) { void* m = raw(); Lib on; Buffer* b = new(m) Buffer(*vars[v]); vars[nv++] = b; }
  else if(!strcmp(o, "attach")) { size_t n; unsigned char* d = new_region(t.v[2], n); Lib on; vars[v]->attach(d, n); }
  else if(!strcmp(o, "asg")) { Lib on; *vars[v] = *vars[w]; }
  else if(!strcmp(o, "assign")) { size_t n; unsigned char* d = vh::unhex(t.v[2], n); { Lib on; vars[v]->assign(d, n); } free(d); }
  else if(!strcmp(o, "prepend")) { size_t n; unsigned char* d = vh::unhex(t.v[2], n); { Lib on; vars[v]->prepend(d, n); } free(d); }
  else if(!strcmp(o, "prependb")) { Lib on; vars[v]->prepend(*vars[w]); }
  else if(!strcmp(o, "append")) { size_t n; unsigned char* d = vh::unhex(t.v[2], n); { Lib on; vars[v]->append(d, n); } free(d); }
  else if(!strcmp(o, "appendb")) { Lib on; vars[v]->append(*vars[w]); }
  else if(!strcmp(o, "resize")) { Lib on; vars[v]->resize(usz(t.v[2])); }
  else if(!strcmp(o, "reserve")) { Lib on; vars[v]->reserve(usz(t.v[2])); }
  // the source is n bytes at offset off inside the Buffer's own window
  else if(!strcmp(o, "appendat")) { Lib on; vars[v]->append((const byte*)*vars[v] + usz(t.v[2]), usz(t.v[3])); }
  else if(!strcmp(o, "assignat")) { Lib on; vars[v]->assign((const byte*)*vars[v] + usz(t.v[2]), usz(t.v[3])); }
  else if(!strcmp(o, "prependat")) { Lib on; vars[v]->prepend((const byte*)*vars[v] + usz(t.v[2]), usz(t.v[3])); }
  else if(!strcmp(o, "rmfront")) { Lib on; vars[v]->removeFront(usz(t.v[2])); }
  else if(!strcmp(o, "rmback")) { Lib on; vars[v]->removeBack(usz(t.v[2])); }
  else if(!strcmp(o, "clear")) { Lib on; vars[v]->clear(); }
  else if(!strcmp(o, "free")) { Lib on; vars[v]->free(); }
  else if(!strcmp(o, "swap")) { Lib on; vars[v]->swap(*vars[w]); }
  else if(!strcmp(o, "eq")) {
    bool e = *vars[v] == *vars[w];
    bool ne = *vars[v] != *vars[w];
    bool em = vars[v]->isEmpty();
    res = (e == ne) ? "!eq-ne-inconsistent" : (em != (vars[v]->size() == 0)) ? "!isEmpty-inconsistent" : e ? "1" : "0";
  }
  else res = "?unknown-op";
  printf("%s", res);
  dump();
}

int main(int argc, char** argv)
{
  const char* e = getenv("VERIF_NO_POISON");
  poison = !(e && *e == '1');
  __sanitizer_install_malloc_and_free_hooks(on_malloc, on_free);
  return vh::run(argc, argv, begin, op, end);
}
