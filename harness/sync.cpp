// C11 correspondence harness: the real Signal / Monitor / Mutex / Semaphore / Thread of the working
// tree run under the deterministic scheduler of sync_sched.cpp (virtual pthread primitives, schedule =
// list of moves from the ops file).  One object of each class per case; n scenario threads, each runs a
// script of library calls.  After every move one observation line:
//   <move> | <events of this move> | <one token per thread> | sf mf occ sem o0 o1 o2 q0 q1 now
// events: r<t>:<call>:<v> library call returned; S<t>:<b> / M<t> the flag of Signal / Monitor changed
// value during a move of thread t (read from the object's memory); F<t>:<call>:<start>:<now> a timed
// wait returns false; J<t>:<c>:<v> pthread_join of thread c returned v; X<t>:<v> thread function returned;
// P<t> thread t, executing Monitor::set, got the monitor's mutex in this move and stands at the unlock (the critical
// section of set() has been passed, whether or not the flag changed value) - used only to know which waiters were
// already blocked when a set() took effect.
// Thread::start is driven in both public forms: start(proc, param) for even child ids, the member-function template
// start(obj, &X::method) (Thread.hpp: Call<uint>::Member<X>::Func0 stored in Thread::func, thread routine proc<Func0>)
// for odd child ids; both reach the same pthread_create, so the model does not distinguish them.
// The value a thread function returns is given by the case (`r <t> <v>`, 0 <= v < 2^32; default 100 + t), the initial
// semaphore count by the case head (up to 2^31 - 1).
// STATIC flavour (round 6; case head `@n sig0 sem0 auto 1`): the scenario runs on one object of each class with STATIC STORAGE
// DURATION, defined in this translation unit, which is the first object on the link line - so they are constructed before
// main() and BEFORE the static initialisers of the library's translation units (a global lock in an application's own TU).
// `startf=<c>`: Thread::start whose pthread_create fails (the virtual pthread_create writes a stale handle into its output
// parameter, as glibc does, and returns EAGAIN); a later join that hands such a handle to pthread_join prints `! stale-join`.
// Deadline probe lines `dl <cls> <sec> <nsec>`: the abstime the timed wait handed to its primitive; when the primitive
// measures it against another clock than CLOCK_REALTIME (attribute of the condition variable, clock* call) and the pair is
// valid, it is converted to the CLOCK_REALTIME instant at which that clock reaches it and ` clk=<id>` is appended.
#include "vh.hpp"
#include <stdint.h>
#define private public
#include <nstd/Signal.hpp>
#include <nstd/Monitor.hpp>
#include <nstd/Mutex.hpp>
#include <nstd/Semaphore.hpp>
#include <nstd/Thread.hpp>
#undef private
#include "sync_sched.h"

enum Op { SIGSET, SIGRESET, SIGWAIT, SIGWAITT, MONLOCK, MONTRY, MONUNLOCK, MONWAIT, MONWAITT, MONSET,
          LOCK, TRYLOCK, UNLOCK, SEMSIGNAL, SEMWAIT, SEMWAITT, SEMTRY, START, JOIN, CSENTER, CSLEAVE, STARTF, NOPS };
static const char* opname[NOPS] = { "sigset", "sigreset", "sigwait", "sigwaitt", "monlock", "montry", "monunlock", "monwait",
  "monwaitt", "monset", "lock", "trylock", "unlock", "semsignal", "semwait", "semwaitt", "semtry", "start", "join", "csenter", "csleave", "startf" };
static bool has_arg(int k) { return k == SIGWAITT || k == MONWAITT || k == SEMWAITT || k == START || k == JOIN || k == STARTF; }

// objects with static storage duration: constructed before main and before the static initialisers of the library's
// translation units (this TU comes first on the link line)
static Signal g_sig; static Monitor g_mon; static Mutex g_mtx; static Semaphore g_sem(0);
static const long long G_SEM_MAX = 4096;          // the static semaphore is brought to sem0 by that many posts

struct ScOp { int kind; long long arg; };
struct Ctx { int tid; ScOp ops[64]; int nops; };
static Ctx ctx[VS_MAXT];

static int n_thr, cfg_sig0, cfg_auto, cfg_static; static long long cfg_sem0;
static bool sem_is_static;
static unsigned cfg_result[VS_MAXT];               // value thread t's function returns (op line `r <t> <v>`, default 100 + t)
static bool started;
static Signal* sig; static Monitor* mon; static Mutex* mtx; static Semaphore* sem; static Thread* th[VS_MAXT];
static long long occ;
static int curop[VS_MAXT];                         // library call each scenario thread is executing (Op), -1 between calls
static char evbuf[4096]; static int evn;
static long cur_case;

static void ev(const char* fmt, ...) __attribute__((format(printf, 1, 2)));
#include <stdarg.h>
static void ev(const char* fmt, ...)
{
  va_list ap; va_start(ap, fmt);
  if(evn) evbuf[evn++] = ' ';
  evn += vsnprintf(evbuf + evn, sizeof(evbuf) - evn, fmt, ap);
  va_end(ap);
}
static void callstr(const ScOp& o, char* b, int cap)
{
  if(has_arg(o.kind)) snprintf(b, cap, "%s=%lld", opname[o.kind], o.arg); else snprintf(b, cap, "%s", opname[o.kind]);
}

extern "C" int vh_tid_of_arg(void* arg)
{
  for(int i = 0; i < VS_MAXT; ++i) if(arg == (void*)&ctx[i]) return i;
  if(started) for(int i = 0; i < VS_MAXT; ++i) if(th[i] && arg == (void*)&th[i]->func) return i;   // member-function form of start
  return -1;
}

static unsigned scenario(void* arg);
struct Runner { Ctx* c; uint run() { return scenario(c); } };
static Runner runner[VS_MAXT];

static unsigned scenario(void* arg)
{
  Ctx& c = *(Ctx*)arg;
  int t = c.tid;
  for(int i = 0; i < c.nops; ++i) {
    const ScOp& o = c.ops[i];
    char cs[64]; callstr(o, cs, sizeof(cs));
    long long start = vs_now();
    long long v = 0; bool timedfalse = false;
    curop[t] = o.kind;
    switch(o.kind) {
    case SIGSET: sig->set(); break;
    case SIGRESET: sig->reset(); break;
    case SIGWAIT: v = sig->wait() ? 1 : 0; break;
    case SIGWAITT: v = sig->wait((int64)o.arg) ? 1 : 0; timedfalse = !v; break;
    case MONLOCK: mon->lock(); break;
    case MONTRY: v = mon->tryLock() ? 1 : 0; break;
    case MONUNLOCK: mon->unlock(); break;
    case MONWAIT: v = mon->wait() ? 1 : 0; break;
    case MONWAITT: v = mon->wait((int64)o.arg) ? 1 : 0; timedfalse = !v; break;
    case MONSET: mon->set(); break;
    case LOCK: mtx->lock(); break;
    case TRYLOCK: v = mtx->tryLock() ? 1 : 0; break;
    case UNLOCK: mtx->unlock(); break;
    case SEMSIGNAL: sem->signal(); break;
    case SEMWAIT: v = sem->wait() ? 1 : 0; break;
    case SEMWAITT: v = sem->wait((int64)o.arg) ? 1 : 0; timedfalse = !v; break;
    case SEMTRY: v = sem->tryWait() ? 1 : 0; break;
    case START: case STARTF: {
      int ch = (int)o.arg;
      if(o.kind == STARTF) vs_fail_next_create(1);    // the next pthread_create of this thread fails (EAGAIN, stale handle written)
      if(ch < 0 || ch >= VS_MAXT) v = 0;
      else if(ch & 1) { runner[ch].c = &ctx[ch]; v = th[ch]->start(runner[ch], &Runner::run) ? 1 : 0; }
      else v = th[ch]->start((uint (*)(void*))scenario, &ctx[ch]) ? 1 : 0;
      vs_fail_next_create(0);                          // start() refused before it reached pthread_create
      break; }
    case JOIN: {
      int ch = (int)o.arg;
      if(ch >= 0 && ch < VS_MAXT) {
        bool had = th[ch]->thread != 0;
        int stale0 = vs_stale_joins();
        v = (long long)th[ch]->join();
        if(had) ev("J%d:%d:%lld", t, ch, v);
        if(vs_stale_joins() != stale0)
          printf("%ld ! stale-join thread %d: Thread::join handed pthread_join a handle that no successful pthread_create returned (left in the object by a failed start)\n", cur_case, ch);
      }
      break; }
    case CSENTER: v = ++occ; break;
    case CSLEAVE: v = --occ; break;
    }
    curop[t] = -1;
    if(timedfalse) ev("F%d:%s:%lld:%lld", t, cs, start, vs_now());
    ev("r%d:%s:%lld", t, cs, v);
    vs_idle();
  }
  unsigned res = cfg_result[t];
  ev("X%d:%u", t, res);
  return res;
}
static void* scenario_direct(void* arg) { return (void*)(uintptr_t)scenario(arg); }

static void materialise()
{
  if(started) return;
  started = true;
  vs_reset(n_thr);
  if(cfg_static) {
    // the controller thread is not a virtual thread: these calls run on the real primitives
    sig = &g_sig; if(cfg_sig0) sig->set(); else sig->reset();
    mon = &g_mon; mon->signaled = false;
    mtx = &g_mtx;
    sem_is_static = cfg_sem0 <= G_SEM_MAX;
    if(sem_is_static) { sem = &g_sem; for(long long k = 0; k < cfg_sem0; ++k) sem->signal(); }
    else sem = new Semaphore((uint)cfg_sem0);
  }
  else {
    sig = new Signal(cfg_sig0 != 0);
    mon = new Monitor();
    mtx = new Mutex();
    sem = new Semaphore((uint)cfg_sem0);
    sem_is_static = false;
  }
  for(int i = 0; i < VS_MAXT; ++i) th[i] = new Thread();
  vs_reg_mutex(sig->mdata, 0); vs_reg_cond(sig->cdata, 0);
  vs_reg_mutex(mon->mdata, 1); vs_reg_cond(mon->cdata, 1);
  vs_reg_mutex(mtx->data, 2);
  vs_reg_sem(sem->data, 0);
  occ = 0; evn = 0;
  for(int t = 0; t < VS_MAXT; ++t) curop[t] = -1;
  if(vs_uninit()) printf("%ld ! uninit-primitive mask=%d (pthread_mutex_init / pthread_cond_init / sem_init was not called for it)\n", cur_case, vs_uninit());
  for(int t = 0; t < VS_MAXT; ++t)
    if(t == 0 || (cfg_auto && t < n_thr)) vs_spawn(t, scenario_direct, &ctx[t]);
}

static void show(const char* mv, int mover, bool sf0, bool mf0, bool passed_set)
{
  // flag changes seen in the objects' memory are attributed to the thread that moved
  char pre[64]; pre[0] = 0;
  bool sf = sig->signaled, mf = mon->signaled;
  if(sf != sf0) snprintf(pre, sizeof(pre), "S%d:%d", mover, sf ? 1 : 0);
  if(mf && !mf0) snprintf(pre + strlen(pre), sizeof(pre) - strlen(pre), "%sM%d", pre[0] ? " " : "", mover);
  if(passed_set) snprintf(pre + strlen(pre), sizeof(pre) - strlen(pre), "%sP%d", pre[0] ? " " : "", mover);
  printf("%ld %s | ", cur_case, mv);
  if(pre[0] && evn) printf("%s %s", pre, evbuf); else if(pre[0]) printf("%s", pre); else if(evn) printf("%s", evbuf); else printf("-");
  evn = 0; evbuf[0] = 0;
  printf(" |");
  for(int t = 0; t < n_thr; ++t) { char b[200]; vs_fmt_thread(t, b, sizeof(b)); printf(" %s", b); }
  char p[400]; vs_fmt_prims(p, sizeof(p));
  // "sem=.. o0.." : occ is printed between mf and sem
  printf(" | sf=%d mf=%d occ=%lld %s\n", sf ? 1 : 0, mf ? 1 : 0, occ, p);
}

static void do_move(const char* kind, long long a)
{
  materialise();
  bool sf0 = sig->signaled, mf0 = mon->signaled;
  char mv[64];
  snprintf(mv, sizeof(mv), "%s %lld", kind, a);
  int mover = (int)a;
  bool is_run = !strcmp(kind, "run") && mover >= 0 && mover < VS_MAXT;
  int i0 = -1, i1 = -1;
  bool at_set_lock = is_run && curop[mover] == MONSET && vs_pending(mover, &i0) == 1 && i0 == 1;
  if(!strcmp(kind, "run")) vs_move_run((int)a);
  else if(!strcmp(kind, "spur")) vs_move_spur((int)a);
  else if(!strcmp(kind, "tmo")) vs_move_tmo((int)a);
  else if(!strcmp(kind, "steal")) vs_move_steal((int)a);
  else if(!strcmp(kind, "clock")) vs_move_clock(a);
  else if(!strcmp(kind, "rot")) vs_move_rot((int)a);
  bool passed_set = at_set_lock && curop[mover] == MONSET && vs_pending(mover, &i1) == 3 && i1 == 1;
  show(mv, mover, sf0, mf0, passed_set);
}

static void drain()
{
  materialise();
  for(int fuel = 400; fuel > 0; --fuel) {
    int en = -1;
    for(int i = 0; i < n_thr && en < 0; ++i) if(vs_enabled(i)) en = i;
    if(en >= 0) { do_move("run", en); continue; }
    int ti = -1; long long s = 0, ns = 0;
    for(int i = 0; i < n_thr && ti < 0; ++i) if(vs_timed(i, &s, &ns)) ti = i;
    if(ti < 0) break;
    __int128 tot = (__int128)s * 1000000000LL + ns;
    if(tot > (__int128)vs_now()) do_move("clock", (long long)tot);
    do_move("tmo", ti);
  }
  printf("%ld final |", cur_case);
  bool any = false;
  for(int i = 0; i < n_thr; ++i) if(vs_runnable_or_blocked(i)) { printf("%s%d", any ? "," : " stuck:", i); any = true; }
  if(!any) printf(" done");
  printf("\n");
}

// deadline arithmetic of the three timed waits, captured at the interposed *timedwait
static void dl_line(const char* cls)
{
  long long a = 0, b = 0;
  if(!vs_captured(&a, &b)) { printf("%ld dl %s -1 -1\n", cur_case, cls); return; }
  int clk = vs_captured_clock();
  if(clk != 0 && b >= 0 && b < 1000000000LL) {       // another clock (= CLOCK_REALTIME / 3): the equivalent CLOCK_REALTIME instant
    __int128 tot = ((__int128)a * 1000000000LL + b) * 3;
    printf("%ld dl %s %lld %lld clk=%d\n", cur_case, cls, (long long)(tot / 1000000000LL), (long long)(tot % 1000000000LL), clk);
  }
  else printf("%ld dl %s %lld %lld\n", cur_case, cls, a, b);
}
static void deadline_probe(long long s, long long ns, long long ms)
{
  { Signal x; vs_capture(1, s, ns); x.wait((int64)ms); dl_line("sig"); vs_capture(0, 0, 0); }
  { Monitor x; vs_capture(1, s, ns); x.lock(); x.wait((int64)ms); x.unlock(); dl_line("mon"); vs_capture(0, 0, 0); }
  { Semaphore x(0); vs_capture(1, s, ns); x.wait((int64)ms); dl_line("sem"); vs_capture(0, 0, 0); }
}

static int find_op(const char* name)
{
  for(int k = 0; k < NOPS; ++k) if(!strcmp(name, opname[k])) return k;
  return -1;
}

static void on_begin(long c, vh::Tok& t)
{
  cur_case = c;
  n_thr = t.n > 2 ? atoi(t.v[2]) : 2;
  if(n_thr < 1) n_thr = 1;
  if(n_thr > VS_MAXT) n_thr = VS_MAXT;
  cfg_sig0 = t.n > 3 ? atoi(t.v[3]) : 0;
  cfg_sem0 = t.n > 4 ? atoll(t.v[4]) : 0;
  cfg_auto = t.n > 5 ? atoi(t.v[5]) : 0;
  cfg_static = t.n > 6 ? atoi(t.v[6]) : 0;
  started = false;
  for(int i = 0; i < VS_MAXT; ++i) { ctx[i].tid = i; ctx[i].nops = 0; cfg_result[i] = 100u + (unsigned)i; }
}

static void on_op(long c, long, vh::Tok& t)
{
  if(!strcmp(t.v[0], "t") && t.n >= 2) {
    if(started) { printf("%ld ?script-after-move\n", c); return; }
    int i = atoi(t.v[1]);
    if(i < 0 || i >= VS_MAXT) return;
    ctx[i].nops = 0;
    for(int k = 2; k < t.n && ctx[i].nops < 64; ++k) {
      char* eq = strchr(t.v[k], '=');
      long long arg = 0;
      if(eq) { *eq = 0; arg = atoll(eq + 1); }
      int kind = find_op(t.v[k]);
      if(kind < 0) continue;
      ctx[i].ops[ctx[i].nops].kind = kind; ctx[i].ops[ctx[i].nops].arg = arg; ++ctx[i].nops;
    }
  }
  else if(!strcmp(t.v[0], "r") && t.n == 3) {
    if(started) { printf("%ld ?script-after-move\n", c); return; }
    int i = atoi(t.v[1]);
    if(i >= 0 && i < VS_MAXT) cfg_result[i] = (unsigned)strtoull(t.v[2], 0, 10);
  }
  else if(!strcmp(t.v[0], "m") && t.n == 3) do_move(t.v[1], atoll(t.v[2]));
  else if(!strcmp(t.v[0], "drain")) drain();
  else if(!strcmp(t.v[0], "dl") && t.n == 4) deadline_probe(atoll(t.v[1]), atoll(t.v[2]), atoll(t.v[3]));
  else printf("%ld ?bad-op %s\n", c, t.v[0]);
}

static void on_end(long)
{
  if(!started) return;
  vs_teardown();
  if(cfg_static) {
    // the real primitives of the static objects were never touched by the virtual threads; undo what materialise() did
    sig->reset(); mon->signaled = false;
    if(sem_is_static) while(sem->tryWait()) {} else delete sem;
  }
  else { delete sig; delete mon; delete mtx; delete sem; }
  for(int i = 0; i < VS_MAXT; ++i) delete th[i];   // ~Thread -> join -> wrapper is inert after teardown
  started = false;
}

int main(int argc, char** argv) { return vh::run(argc, argv, on_begin, on_op, on_end); }
