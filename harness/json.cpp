// Correspondence harness for C15: drives Json::Parser::parse, Json::toString, Json::stripComments
// on exact-size heap copies of the input (so that ASan sees a one byte over-read).
#include "vh.hpp"
#include <nstd/Document/Json.hpp>

#include <nstd/Error.hpp>

static void fputhex(FILE* o, const unsigned char* b, size_t n)
{
  if(n == 0) { fputs("-", o); return; }
  for(size_t i = 0; i < n; ++i) fprintf(o, "%02x", b[i]);
}

// ---- canonical dump of a Variant tree (space separated tokens, types visible) ----
static void dump(const Variant& v, FILE* o = stdout)
{
  switch(v.getType())
  {
  case Variant::nullType: fprintf(o, " n"); break;
  case Variant::boolType: fprintf(o, v.toBool() ? " t" : " f"); break;
  case Variant::intType: fprintf(o, " i%d", v.toInt()); break;
  case Variant::int64Type: fprintf(o, " I%lld", (long long)v.toInt64()); break;
  case Variant::uintType: fprintf(o, " u%u", v.toUInt()); break;
  case Variant::uint64Type: fprintf(o, " U%llu", (unsigned long long)v.toUInt64()); break;
  case Variant::doubleType: fprintf(o, " d %a", v.toDouble()); break;
  case Variant::stringType:
    {
      String s = v.toString();
      fprintf(o, " s"); fputhex(o, (const unsigned char*)(const char*)s, s.length());
      break;
    }
  case Variant::listType:
    {
      const List<Variant>& l = v.toList();
      fprintf(o, " L%llu", (unsigned long long)l.size());
      for(List<Variant>::Iterator i = l.begin(), end = l.end(); i != end; ++i) dump(*i, o);
      break;
    }
  case Variant::arrayType:
    {
      const Array<Variant>& l = v.toArray();
      fprintf(o, " A%llu", (unsigned long long)l.size());
      for(Array<Variant>::Iterator i = l.begin(), end = l.end(); i != end; ++i) dump(*i, o);
      break;
    }
  case Variant::mapType:
    {
      const HashMap<String, Variant>& m = v.toMap();
      fprintf(o, " M%llu", (unsigned long long)m.size());
      for(HashMap<String, Variant>::Iterator i = m.begin(), end = m.end(); i != end; ++i)
      {
        const String& k = i.key();
        fprintf(o, " k"); fputhex(o, (const unsigned char*)(const char*)k, k.length());
        dump(*i, o);
      }
      break;
    }
  }
}

// exact-size NUL-terminated heap copy of the C string inside b[0..n]
static char* exact(const unsigned char* b, size_t n, size_t& len)
{
  len = 0;
  while(len < n && b[len]) ++len;
  char* r = (char*)malloc(len + 1);
  memcpy(r, b, len);
  r[len] = 0;
  return r;
}

// the answer of one parse call as text: "ok <dump>" or "err <line> <column> <message>"
static void print_result(FILE* o, bool ok, const Json::Parser& parser, const Variant& v)
{
  if(ok)
  {
    fprintf(o, "ok");
    dump(v, o);
  }
  else
  {
    String msg = parser.getErrorString();
    fprintf(o, "err %d %d ", parser.getErrorLine(), parser.getErrorColumn());
    for(const char* p = msg; *p; ++p) fputc(*p == ' ' ? '_' : *p, o);
  }
}

static char* result_string(bool ok, const Json::Parser& parser, const Variant& v)
{
  char* buf = 0; size_t n = 0;
  FILE* o = open_memstream(&buf, &n);
  print_result(o, ok, parser, v);
  fclose(o);
  return buf;
}

// a fresh Parser and a fresh Variant
static char* fresh_result(const char* text)
{
  Json::Parser parser;
  Variant v;
  bool ok = parser.parse(text, v);
  return result_string(ok, parser, v);
}

static void parse_and_print(const char* text)
{
  Json::Parser parser;
  Variant v;
  bool ok = parser.parse(text, v);
  print_result(stdout, ok, parser, v);
}

// ---- value trees: one token, comma separated prefix form  L2,i1,M1,k61,n ----
static char* next_item(char*& cur)
{
  if(!cur) return 0;
  char* s = cur;
  char* c = strchr(cur, ',');
  if(c) { *c = 0; cur = c + 1; } else cur = 0;
  return s;
}

static String hexstr(const char* h)
{
  size_t n; unsigned char* b = vh::unhex(h[0] ? h : "-", n);
  String s((const char*)b, n);
  free(b);
  return s;
}

static void build(char*& cur, Variant& out)
{
  char* it = next_item(cur);
  if(!it) return;
  switch(it[0])
  {
  case 'n': out = Variant(); break;
  case 't': out = true; break;
  case 'f': out = false; break;
  case 'i': out = (int)atoll(it + 1); break;
  case 'I': out = (int64)atoll(it + 1); break;
  case 'u': out = (uint)strtoull(it + 1, 0, 10); break;       // outside the class of the property: unsigned
  case 'U': out = (uint64)strtoull(it + 1, 0, 10); break;
  case 's': out = hexstr(it + 1); break;
  case 'L':
    {
      long n = atol(it + 1);
      List<Variant>& l = out.toList();
      for(long i = 0; i < n; ++i) build(cur, l.append(Variant()));
      break;
    }
  case 'A':                                                     // outside the class of the property: Array<Variant>
    {
      long n = atol(it + 1);
      out.toArray().reserve(n);                                 // the elements stay where they are built
      for(long i = 0; i < n; ++i) build(cur, out.toArray().append(Variant()));
      break;
    }
  case 'M':
    {
      long n = atol(it + 1);
      HashMap<String, Variant>& m = out.toMap();
      for(long i = 0; i < n; ++i)
      {
        char* k = next_item(cur);
        String key = hexstr(k ? k + 1 : "");
        build(cur, m.append(key, Variant()));
      }
      break;
    }
  }
}

static void op(long c, long, vh::Tok& t)
{
  printf("%ld ", c);
  if(!strcmp(t.v[0], "parse") && t.n >= 2)
  {
    size_t n, len; unsigned char* b = vh::unhex(t.v[1], n, 1);
    char* text = exact(b, n, len); free(b);
    parse_and_print(text);
    free(text);
  }
  else if(!strcmp(t.v[0], "pstr") && t.n >= 2)
  {
    // a string literal: the text is  "<content>"
    size_t n, len; unsigned char* b = vh::unhex(t.v[1], n, 1);
    unsigned char* q = (unsigned char*)malloc(n + 2);
    q[0] = '"'; memcpy(q + 1, b, n); q[n + 1] = '"';
    char* text = exact(q, n + 2, len); free(b); free(q);
    parse_and_print(text);
    free(text);
  }
  else if(!strcmp(t.v[0], "strip") && t.n >= 2)
  {
    // the String holds all n bytes (0 bytes included) in an exact-size buffer: n bytes and the terminator
    size_t n; unsigned char* b = vh::unhex(t.v[1], n, 1);
    {
      String s;
      s.attach((const char*)b, n);
      String r = Json::stripComments(s);
      vh::puthex((const unsigned char*)(const char*)r, r.length());
    }
    free(b);
  }
  else if(((!strcmp(t.v[0], "rt") || !strcmp(t.v[0], "rtx")) && t.n >= 2) || (!strcmp(t.v[0], "rtinto") && t.n >= 3))
  {
    // toString, then parse; rtinto: the target of parse already holds the tree <t.v[1]>;
    // rtx = rt for trees whose text is too long for the extracted model (the driver answers with wildcards in model mode)
    bool into = t.v[0][2] == 'i';
    char* cur = t.v[into ? 2 : 1];
    Variant v;
    build(cur, v);
    String s = Json::toString(v);
    size_t len;
    char* text = exact((const unsigned char*)(const char*)s, s.length(), len);
    Json::Parser parser;
    Variant w;
    if(into) { char* c0 = t.v[1]; build(c0, w); }
    bool ok = parser.parse(text, w);
    printf("%d | ", ok && v == w && w == v ? 1 : 0);          // Variant::operator== as the library defines it, both ways round
    vh::puthex((const unsigned char*)(const char*)s, s.length());
    printf(" ");
    print_result(stdout, ok, parser, w);
    free(text);
  }
  else if(!strcmp(t.v[0], "parse2") && t.n >= 4)
  {
    // one Parser object, two texts; flag 1: also one target Variant for both calls.
    // first section: 1 iff both answers are those of a fresh Parser with a fresh Variant
    bool shared = t.v[1][0] == '1';
    Json::Parser parser;
    Variant keep;
    char* res[2]; bool same = true;
    for(int k = 0; k < 2; ++k)
    {
      size_t n, len; unsigned char* b = vh::unhex(t.v[2 + k], n, 1);
      char* text = exact(b, n, len); free(b);
      Variant own;
      Variant& target = shared ? keep : own;
      bool ok = parser.parse(text, target);
      res[k] = result_string(ok, parser, target);
      char* ref = fresh_result(text);
      if(strcmp(ref, res[k])) same = false;
      free(ref); free(text);
    }
    printf("%d | %s | %s", same ? 1 : 0, res[0], res[1]);
    free(res[0]); free(res[1]);
  }
  else if(!strcmp(t.v[0], "into") && t.n >= 3)
  {
    // parse <text> into a Variant that holds <tree>; first section: 1 iff the answer is that of a fresh Variant
    char* cur = t.v[1];
    Variant target;
    build(cur, target);
    size_t n, len; unsigned char* b = vh::unhex(t.v[2], n, 1);
    char* text = exact(b, n, len); free(b);
    Json::Parser parser;
    bool ok = parser.parse(text, target);
    char* r = result_string(ok, parser, target);
    char* ref = fresh_result(text);
    printf("%d | %s", strcmp(ref, r) ? 0 : 1, r);
    free(ref); free(r); free(text);
  }
  else if(!strcmp(t.v[0], "sparse") && t.n >= 3)
  {
    // the other entry points: c = static Json::parse(const char*), s = static Json::parse(const String&),
    // p = Parser::parse(const String&); the static ones report through Error::getErrorString()
    size_t n, len; unsigned char* b = vh::unhex(t.v[2], n, 1);
    char* text = exact(b, n, len); free(b);
    {
      String str;
      str.attach(text, len);
      Variant v;
      char m = t.v[1][0];
      if(m == 'p')
      {
        Json::Parser parser;
        bool ok = parser.parse(str, v);
        print_result(stdout, ok, parser, v);
      }
      else
      {
        Error::setErrorString(String("stale"));
        bool ok = m == 'c' ? Json::parse(text, v) : Json::parse(str, v);
        if(ok) { printf("ok"); dump(v); }
        else
        {
          String msg = Error::getErrorString();
          printf("serr ");
          for(const char* p = msg; *p; ++p) putchar(*p == ' ' ? '_' : *p);
        }
      }
    }
    free(text);
  }
  else if(!strcmp(t.v[0], "xscan") && t.n >= 2)
  {
    // libc's sscanf("%x") through String::scanf, as readToken calls it on its four digits: "1 <w>" or "0 -"
    size_t n; unsigned char* b = vh::unhex(t.v[1], n, 1);
    {
      String k((const char*)b, n);
      uint w = 0;
      if(k.scanf("%x", &w) == 1) printf("1 %u", w); else printf("0 -");
    }
    free(b);
  }
  else if(!strcmp(t.v[0], "chkpos"))
    printf("-");                         // evaluated by the spec only
  else
    printf("?unknown-op");
  printf("\n");
}

int main(int argc, char** argv) { return vh::run(argc, argv, 0, op, 0); }
