// Correspondence harness for C15: drives Json::Parser::parse, Json::toString, Json::stripComments
// on exact-size heap copies of the input (so that ASan sees a one byte over-read).
#include "vh.hpp"
#include <nstd/Document/Json.hpp>

// ---- canonical dump of a Variant tree (space separated tokens, types visible) ----
static void dump(const Variant& v)
{
  switch(v.getType())
  {
  case Variant::nullType: printf(" n"); break;
  case Variant::boolType: printf(v.toBool() ? " t" : " f"); break;
  case Variant::intType: printf(" i%d", v.toInt()); break;
  case Variant::int64Type: printf(" I%lld", (long long)v.toInt64()); break;
  case Variant::uintType: printf(" u%u", v.toUInt()); break;
  case Variant::uint64Type: printf(" U%llu", (unsigned long long)v.toUInt64()); break;
  case Variant::doubleType: printf(" d %a", v.toDouble()); break;
  case Variant::stringType:
    {
      String s = v.toString();
      printf(" s"); vh::puthex((const unsigned char*)(const char*)s, s.length());
      break;
    }
  case Variant::listType:
    {
      const List<Variant>& l = v.toList();
      printf(" L%llu", (unsigned long long)l.size());
      for(List<Variant>::Iterator i = l.begin(), end = l.end(); i != end; ++i) dump(*i);
      break;
    }
  case Variant::arrayType:
    {
      const Array<Variant>& l = v.toArray();
      printf(" A%llu", (unsigned long long)l.size());
      for(Array<Variant>::Iterator i = l.begin(), end = l.end(); i != end; ++i) dump(*i);
      break;
    }
  case Variant::mapType:
    {
      const HashMap<String, Variant>& m = v.toMap();
      printf(" M%llu", (unsigned long long)m.size());
      for(HashMap<String, Variant>::Iterator i = m.begin(), end = m.end(); i != end; ++i)
      {
        const String& k = i.key();
        printf(" k"); vh::puthex((const unsigned char*)(const char*)k, k.length());
        dump(*i);
      }
      break;
    }
  }
}

// exact-size NUL-terminated heap copy of the C string inside b[0..n]
static char* exact(const unsigned char* b, size_t n, size_t& len)
{
  len = 0;
  while(len < n && b[len]) ++len;
  char* r = (char*)malloc(len + 1);
  memcpy(r, b, len);
  r[len] = 0;
  return r;
}

static void parse_and_print(const char* text)
{
  Json::Parser parser;
  Variant v;
  if(parser.parse(text, v))
  {
    printf("ok");
    dump(v);
  }
  else
  {
    String msg = parser.getErrorString();
    printf("err %d %d ", parser.getErrorLine(), parser.getErrorColumn());
    for(const char* p = msg; *p; ++p) putchar(*p == ' ' ? '_' : *p);
  }
}

// ---- value trees: one token, comma separated prefix form  L2,i1,M1,k61,n ----
static char* next_item(char*& cur)
{
  if(!cur) return 0;
  char* s = cur;
  char* c = strchr(cur, ',');
  if(c) { *c = 0; cur = c + 1; } else cur = 0;
  return s;
}

static String hexstr(const char* h)
{
  size_t n; unsigned char* b = vh::unhex(h[0] ? h : "-", n);
  String s((const char*)b, n);
  free(b);
  return s;
}

static void build(char*& cur, Variant& out)
{
  char* it = next_item(cur);
  if(!it) return;
  switch(it[0])
  {
  case 'n': out = Variant(); break;
  case 't': out = true; break;
  case 'f': out = false; break;
  case 'i': out = (int)atoll(it + 1); break;
  case 'I': out = (int64)atoll(it + 1); break;
  case 's': out = hexstr(it + 1); break;
  case 'L':
    {
      long n = atol(it + 1);
      List<Variant>& l = out.toList();
      for(long i = 0; i < n; ++i) build(cur, l.append(Variant()));
      break;
    }
  case 'M':
    {
      long n = atol(it + 1);
      HashMap<String, Variant>& m = out.toMap();
      for(long i = 0; i < n; ++i)
      {
        char* k = next_item(cur);
        String key = hexstr(k ? k + 1 : "");
        build(cur, m.append(key, Variant()));
      }
      break;
    }
  }
}

static void op(long c, long, vh::Tok& t)
{
  printf("%ld ", c);
  if(!strcmp(t.v[0], "parse") && t.n >= 2)
  {
    size_t n, len; unsigned char* b = vh::unhex(t.v[1], n, 1);
    char* text = exact(b, n, len); free(b);
    parse_and_print(text);
    free(text);
  }
  else if(!strcmp(t.v[0], "pstr") && t.n >= 2)
  {
    // a string literal: the text is  "<content>"
    size_t n, len; unsigned char* b = vh::unhex(t.v[1], n, 1);
    unsigned char* q = (unsigned char*)malloc(n + 2);
    q[0] = '"'; memcpy(q + 1, b, n); q[n + 1] = '"';
    char* text = exact(q, n + 2, len); free(b); free(q);
    parse_and_print(text);
    free(text);
  }
  else if(!strcmp(t.v[0], "strip") && t.n >= 2)
  {
    size_t n, len; unsigned char* b = vh::unhex(t.v[1], n, 1);
    char* text = exact(b, n, len); free(b);
    {
      String s;
      s.attach(text, len);
      String r = Json::stripComments(s);
      vh::puthex((const unsigned char*)(const char*)r, r.length());
    }
    free(text);
  }
  else if(!strcmp(t.v[0], "rt") && t.n >= 2)
  {
    char* cur = t.v[1];
    Variant v;
    build(cur, v);
    String s = Json::toString(v);
    size_t len;
    char* text = exact((const unsigned char*)(const char*)s, s.length(), len);
    Json::Parser parser;
    Variant w;
    bool ok = parser.parse(text, w);
    printf("%d | ", ok && v == w ? 1 : 0);
    vh::puthex((const unsigned char*)(const char*)s, s.length());
    printf(" ");
    if(ok) { printf("ok"); dump(w); }
    else
    {
      String msg = parser.getErrorString();
      printf("err %d %d ", parser.getErrorLine(), parser.getErrorColumn());
      for(const char* p = msg; *p; ++p) putchar(*p == ' ' ? '_' : *p);
    }
    free(text);
  }
  else if(!strcmp(t.v[0], "chkpos"))
    printf("-");                         // evaluated by the spec only
  else
    printf("?unknown-op");
  printf("\n");
}

int main(int argc, char** argv) { return vh::run(argc, argv, 0, op, 0); }
