/* Force-included (-include) in front of harness/future.cpp, which itself includes the working
   tree's src/Future.cpp: every __sync builtin that nstd/Atomic.hpp expands to inside Future.cpp
   becomes a *scheduling point*: verif_point(kind, address, operand) is called before the builtin
   and verif_after(kind, address, operand, result) after it.  No repository file is edited.

   Both hooks are defined in harness/future.cpp:
     - perturbation mode: pseudo-random sched_yield()/usleep() per (case seed, thread) to diversify
       the interleavings the real threads go through (pre hook only);
     - gate mode: rules armed by `c <k> gate …` op lines hold / delay / release threads at a point
       identified by (role of the thread, pre|post, object the address belongs to, operand, result):
       a partial-order replay of a model schedule.  Every wait of a gate is bounded.
   A macro is not re-expanded inside its own expansion, so the builtin itself is still called. */
#ifndef VERIF_FUTURE_POINTS_H
#define VERIF_FUTURE_POINTS_H
#ifdef __cplusplus
extern "C" {
#endif
void verif_point(int kind, const volatile void* addr, long operand);
void verif_after(int kind, const volatile void* addr, long operand, long result);
#ifdef __cplusplus
}
#endif
enum { VP_ADD = 1, VP_CAS = 2, VP_SWAP = 3, VP_FADD = 4, VP_BARRIER = 5 };
#define __sync_add_and_fetch(p, v) ({ \
    verif_point(VP_ADD, (p), (long)(v)); \
    __typeof__(__sync_add_and_fetch((p), (v))) vp_r_ = __sync_add_and_fetch((p), (v)); \
    verif_after(VP_ADD, (p), (long)(v), (long)vp_r_); vp_r_; })
#define __sync_val_compare_and_swap(p, o, n) ({ \
    verif_point(VP_CAS, (p), (long)(n)); \
    __typeof__(__sync_val_compare_and_swap((p), (o), (n))) vp_r_ = __sync_val_compare_and_swap((p), (o), (n)); \
    verif_after(VP_CAS, (p), (long)(n), (long)vp_r_); vp_r_; })
#define __sync_lock_test_and_set(p, v) ({ \
    verif_point(VP_SWAP, (p), (long)(v)); \
    __typeof__(__sync_lock_test_and_set((p), (v))) vp_r_ = __sync_lock_test_and_set((p), (v)); \
    verif_after(VP_SWAP, (p), (long)(v), (long)vp_r_); vp_r_; })
#define __sync_fetch_and_add(p, v) ({ \
    verif_point(VP_FADD, (p), (long)(v)); \
    __typeof__(__sync_fetch_and_add((p), (v))) vp_r_ = __sync_fetch_and_add((p), (v)); \
    verif_after(VP_FADD, (p), (long)(v), (long)vp_r_); vp_r_; })
#define __sync_synchronize() (verif_point(VP_BARRIER, 0, 0), __sync_synchronize())
#endif
