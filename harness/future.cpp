// Real-thread harness for C10 (Future / shared worker pool).
//
// The pool's sizes and queue capacity are constructor parameters of the file-local class
// Future<void>::Private::ThreadPool, so this translation unit *includes* the working tree's
// src/Future.cpp (the archive member Future.o is then not pulled in by the linker) and installs a
// pool built with the case's parameters before the first start().  Everything that runs afterwards
// is the unmodified code.  With `lazy 1` no pool is installed and the lazy creation under the spin
// lock runs with the default parameters.
//
// A case is a set of client scripts; the clients run as real threads.  All observations are
// schedule independent facts and are printed in op-file order after the clients have finished.
#include "vh.hpp"
#include <pthread.h>
#include <sched.h>
#include <time.h>
#include <dlfcn.h>
#include <errno.h>

#define private public
#define protected public
#include "Future.cpp"
#undef private
#undef protected

// ---- scaled monotonic clock (Time::ticks() -> clock_gettime(CLOCK_MONOTONIC)) ------------------
static volatile long g_clock_scale = 1;
typedef int (*cgt_fn)(clockid_t, struct timespec*);
extern "C" int clock_gettime(clockid_t id, struct timespec* ts)
{
  static cgt_fn real = 0;
  if(!real) real = (cgt_fn)dlsym(RTLD_NEXT, "clock_gettime");
  int r = real(id, ts);
  if(id == CLOCK_MONOTONIC && r == 0 && g_clock_scale > 1) {
    // scale the time since process start
    static struct timespec t0; static volatile int have = 0;
    if(!have) { real(CLOCK_MONOTONIC, &t0); have = 1; }
    long long ns = (long long)(ts->tv_sec - t0.tv_sec) * 1000000000LL + (ts->tv_nsec - t0.tv_nsec);
    if(ns < 0) ns = 0;
    __int128 s = (__int128)ns * g_clock_scale;
    ts->tv_sec = t0.tv_sec + (time_t)(s / 1000000000);
    ts->tv_nsec = (long)(s % 1000000000);
  }
  return r;
}

// ---- workload -----------------------------------------------------------------------------------
enum { MAXF = 64, MAXC = 16, MAXOPS = 4096 };
enum Kind { K_START, K_ABORT, K_JOIN, K_GET, K_CHECK, K_PAUSE };

struct CallRec {
  volatile int runs;
  volatile long long arg_seen;
  volatile unsigned long done_stamp;
  int work;
  Future<int64>* fut;
};

struct Op {
  int client, kind, f, work; long long arg; long pause;
  // observations
  long n;            // serial of the call this op refers to (0 = none)
  int after;         // join/get: 1 = completion stamp precedes return and ran == 1 at return
  long long res;     // get
  char st; int ab;   // check
  CallRec* rec;      // start
};

static Op ops[MAXOPS];
static int nops;
static int cfg_min, cfg_max, cfg_q, cfg_clients, cfg_lazy;
static volatile unsigned long g_seq;
static Future<int64>* futs[MAXF];
static long serial[MAXF];        // per future: number of starts so far (owner thread only)
static CallRec* active[MAXF];    // per future: record of the current call (owner thread only)
static pthread_barrier_t bar;

static inline int64 fn(int64 a) { return a * 7 + 3; }

static int64 jobfn(CallRec* r, int64 arg)
{
  __sync_add_and_fetch(&r->runs, 1);
  r->arg_seen = arg;
  switch(r->work) {
  case 1: for(int i = 0; i < 3; ++i) sched_yield(); break;
  case 2: usleep(150); break;
  case 3: while(!r->fut->isAborting()) sched_yield(); break;
  default: break;
  }
  r->done_stamp = __sync_add_and_fetch(&g_seq, 1);
  return fn(arg);
}

static void begin(long, vh::Tok& t)
{
  nops = 0;
  cfg_min = 0; cfg_max = 3; cfg_q = 4; cfg_clients = 1; cfg_lazy = 0; g_clock_scale = 1;
  // case <n> wl <min> <max> <qcap> <clients> <clockscale> <lazy>
  if(t.n >= 9) {
    cfg_min = atoi(t.v[3]); cfg_max = atoi(t.v[4]); cfg_q = atoi(t.v[5]);
    cfg_clients = atoi(t.v[6]); g_clock_scale = atol(t.v[7]); cfg_lazy = atoi(t.v[8]);
  }
}

static void op(long, long, vh::Tok& t)
{
  if(nops >= MAXOPS || t.n < 3 || strcmp(t.v[0], "c")) return;
  Op& o = ops[nops];
  memset(&o, 0, sizeof(o));
  o.client = atoi(t.v[1]);
  const char* k = t.v[2];
  o.f = t.n > 3 ? atoi(t.v[3]) : 0;
  if(!strcmp(k, "start") && t.n >= 6) { o.kind = K_START; o.arg = atoll(t.v[4]); o.work = atoi(t.v[5]); }
  else if(!strcmp(k, "abort")) o.kind = K_ABORT;
  else if(!strcmp(k, "join")) o.kind = K_JOIN;
  else if(!strcmp(k, "get")) o.kind = K_GET;
  else if(!strcmp(k, "check")) o.kind = K_CHECK;
  else if(!strcmp(k, "pause")) { o.kind = K_PAUSE; o.pause = o.f; o.f = 0; }
  else return;
  if(o.f < 0 || o.f >= MAXF || o.client < 0 || o.client >= MAXC) return;
  ++nops;
}

// same validity rule as FutureSpec.valid_script: a call that waits for abort() must have been
// aborted before anything waits for it; a future belongs to the first client that names it
static bool valid()
{
  int owner[MAXF]; bool act3[MAXF];
  for(int f = 0; f < MAXF; ++f) { owner[f] = -1; act3[f] = false; }
  for(int i = 0; i < nops; ++i) {
    Op& o = ops[i];
    if(o.client >= cfg_clients) return false;
    if(o.kind == K_PAUSE) continue;
    if(owner[o.f] < 0) owner[o.f] = o.client;
    if(owner[o.f] != o.client) return false;
    if(o.kind == K_START) { if(act3[o.f]) return false; act3[o.f] = (o.work == 3); }
    else if(o.kind == K_ABORT) act3[o.f] = false;
    else if(o.kind == K_JOIN || o.kind == K_GET) { if(act3[o.f]) return false; }
  }
  for(int f = 0; f < MAXF; ++f) if(act3[f]) return false;
  return true;
}

static void stamp_join(Op& o)
{
  CallRec* r = active[o.f];
  if(!r) { o.n = 0; o.after = -1; return; }
  unsigned long now = __sync_add_and_fetch(&g_seq, 1);
  unsigned long d = r->done_stamp;
  o.n = serial[o.f];
  o.after = (d != 0 && d < now && r->runs == 1) ? 1 : 0;
}

static void* client(void* p)
{
  int me = (int)(long)p;
  pthread_barrier_wait(&bar);
  for(int i = 0; i < nops; ++i) {
    Op& o = ops[i];
    if(o.client != me) continue;
    switch(o.kind) {
    case K_START: {
      CallRec* r = (CallRec*)calloc(1, sizeof(CallRec));
      r->work = o.work; r->fut = futs[o.f];
      o.rec = r;
      futs[o.f]->start(&jobfn, r, (int64)o.arg);   // joins the previous call first
      o.n = ++serial[o.f];
      active[o.f] = r;
      break; }
    case K_ABORT: futs[o.f]->abort(); o.n = serial[o.f]; break;
    case K_JOIN: futs[o.f]->join(); stamp_join(o); break;
    case K_GET: { const int64& v = *futs[o.f]; stamp_join(o); o.res = v; break; }
    case K_CHECK:
      o.n = serial[o.f];
      o.st = futs[o.f]->isFinished() ? 'F' : futs[o.f]->isAborted() ? 'A' : (futs[o.f]->future._state == Future<void>::runningState ? 'R' : 'I');
      o.ab = futs[o.f]->isAborting() ? 1 : 0;
      break;
    case K_PAUSE: if(o.pause <= 0) sched_yield(); else usleep((useconds_t)o.pause * 100); break;
    }
  }
  return 0;
}

static void end(long c)
{
  if(!valid()) { printf("%ld invalid\n", c); return; }
  typedef Future<void>::Private P;
  if(!cfg_lazy)
    P::_threadPool = new P::ThreadPool(cfg_min, cfg_max, cfg_q);
  g_seq = 0;
  for(int f = 0; f < MAXF; ++f) { futs[f] = new Future<int64>; serial[f] = 0; active[f] = 0; }
  pthread_t th[MAXC];
  pthread_barrier_init(&bar, 0, cfg_clients);
  for(int k = 0; k < cfg_clients; ++k) pthread_create(&th[k], 0, client, (void*)(long)k);
  for(int k = 0; k < cfg_clients; ++k) pthread_join(th[k], 0);
  pthread_barrier_destroy(&bar);
  // the destructor joins what the scripts left running
  for(int f = 0; f < MAXF; ++f) { delete futs[f]; futs[f] = 0; }
  for(int i = 0; i < nops; ++i) {
    Op& o = ops[i];
    switch(o.kind) {
    case K_START: printf("%ld start %d %d %ld | ran %d arg %lld\n", c, o.client, o.f, o.n, o.rec->runs, (long long)o.rec->arg_seen); break;
    case K_ABORT: printf("%ld abort %d %d %ld\n", c, o.client, o.f, o.n); break;
    case K_JOIN:
      if(o.after < 0) printf("%ld join %d %d - | after -\n", c, o.client, o.f);
      else printf("%ld join %d %d %ld | after %d\n", c, o.client, o.f, o.n, o.after);
      break;
    case K_GET:
      if(o.after < 0) printf("%ld get %d %d - | after - res %lld\n", c, o.client, o.f, o.res);
      else printf("%ld get %d %d %ld | after %d res %lld\n", c, o.client, o.f, o.n, o.after, o.res);
      break;
    case K_CHECK: printf("%ld check %d %d %ld | st %c ab %d\n", c, o.client, o.f, o.n, o.st, o.ab); break;
    case K_PAUSE: printf("%ld pause %d\n", c, o.client); break;
    }
  }
  // pool statistics (informational, '#' lines are ignored by the comparison)
  if(P::_threadPool)
    printf("#pool %ld pushed=%lu processed=%lu threads=%lu\n", c, (unsigned long)P::_threadPool->_pushedJobs,
           (unsigned long)P::_threadPool->_processedJobs, (unsigned long)P::_threadPool->_threadCount);
  for(int i = 0; i < nops; ++i) if(ops[i].rec) { free(ops[i].rec); ops[i].rec = 0; }
  // retire the pool (its destructor pushes one null job per worker and joins them)
  if(P::_threadPool) { delete P::_threadPool; P::_threadPool = 0; }
}

int main(int argc, char** argv) { return vh::run(argc, argv, begin, op, end); }
