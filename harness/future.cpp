// Real-thread harness for C10 (Future / shared worker pool).
//
// The pool's sizes and queue capacity are constructor parameters of the file-local class
// Future<void>::Private::ThreadPool, so this translation unit *includes* the working tree's
// src/Future.cpp (the archive member Future.o is then not pulled in by the linker) and installs a
// pool built with the case's parameters before the first start().  Everything that runs afterwards
// is the unmodified code.  With `lazy 1` no pool is installed and the lazy creation under the spin
// lock runs with the default parameters.
//
// A case is a set of client scripts; the clients run as real threads.  All observations are
// schedule independent facts and are printed in op-file order after the clients have finished.
#include "vh.hpp"
#include <pthread.h>
#include <sched.h>
#include <time.h>
#include <dlfcn.h>
#include <errno.h>

#define private public
#define protected public
#include "Future.cpp"
#undef private
#undef protected

// ---- scheduling points (harness/future_points.h is force-included: every __sync builtin in
// Future.cpp calls verif_point before and verif_after after the builtin; libnstd's
// pthread_cond_wait / pthread_cond_broadcast are wrapped with ld --wrap) -------------------------
// perturbation mode: per-thread xorshift stream seeded by (case seed, thread arrival number);
// level 0 = off, 1 = mostly yields, 2 = yields + short sleeps, 3 = heavy (long sleeps at few points)
static volatile int g_perturb = 0;
static volatile unsigned g_seed = 1;
static volatile unsigned g_arrivals = 0;
static __thread unsigned long long tl_rng = 0;
static volatile unsigned long g_points = 0;

static inline unsigned long long rng_next()
{
  if(!tl_rng) {
    unsigned a = __atomic_add_fetch(&g_arrivals, 1, __ATOMIC_SEQ_CST);
    tl_rng = 0x9E3779B97F4A7C15ULL * (g_seed + 1) + 0xD1B54A32D192ED03ULL * a + 1;
  }
  unsigned long long x = tl_rng;
  x ^= x << 13; x ^= x >> 7; x ^= x << 17;
  tl_rng = x ? x : 1;
  return x;
}

static inline void perturb_point()
{
  int lvl = g_perturb;
  if(!lvl) return;
  unsigned r = (unsigned)(rng_next() >> 20);
  unsigned k = r % 1000;
  if(lvl == 1) { if(k < 250) sched_yield(); }
  else if(lvl == 2) { if(k < 200) sched_yield(); else if(k < 230) usleep((r >> 10) % 120); }
  else { if(k < 100) sched_yield(); else if(k < 112) usleep(200 + (r >> 10) % 1500); }
}

// ---- gates: partial-order replay of a model schedule --------------------------------------------
// Rules are armed by `c <k> gate …` op lines, executed by client k in script order (the model and
// the spec treat them as `pause`).  A rule matches a passage of a thread through a point:
//   who   w = a pool worker (any thread that is neither a client nor main), c<k> = client k, m = main, * = any
//   when  pre  = before the __sync builtin, post = after it, wake = pthread_cond_wait on the inner
//         Signal of a FastSignal has returned (the woken thread then behaves like a thread that is
//         slow to re-acquire the mutex: it unlocks it, runs the action, locks it again),
//         bcast = pthread_cond_broadcast (in Signal::set) has returned; obj enq, deq or fut (the
//         Signal of a Future); prebc = the thread is about to call pthread_cond_broadcast;
//         job = a started function begins to run (obj fut, operand = its work code);
//         cwait = the thread is about to call pthread_cond_wait (obj enq, deq or fut)
//   obj   enq deq (FastSignal::_state resp. its Signal's condition variable), head tail (queue
//         counters), nhead ntail (a slot's tickets), pushed processed, fut (anything else), *
//   opnd  operand of the builtin (swap value, CAS new value) or *;  res: its result (post) or *
//   count how many matching passages trigger the action; then the rule is spent
// Actions: hold <slot> [<timeout us>] (wait until the slot is released, at most the timeout), release <slot>,
// sleep <us> [<permille>] (a targeted delay, taken with the given probability, default always),
// await <slot> <n> (wait until n threads have been captured by holds on the slot),
// slept <obj> <n> (wait until n threads have entered pthread_cond_wait of enq/deq since the mark),
// spurious <permille> (at cwait only: with that probability pthread_cond_wait returns at once without
// having been signalled - a spurious wake-up, which POSIX allows at any time).
// Every wait gives up silently after G_TIMEOUT_US, so a gate can delay a case but never hang it.
enum { G_MAXRULES = 32, G_MAXSLOTS = 8, G_TIMEOUT_US = 2000000 };
enum { O_ANY = 0, O_ENQ, O_DEQ, O_HEAD, O_TAIL, O_PUSHED, O_PROCESSED, O_NHEAD, O_NTAIL, O_FUT, O_COUNT };
enum { W_PRE = 1, W_POST = 2, W_WAKE = 3, W_BCAST = 4, W_PREBC = 5, W_JOB = 6, W_CWAIT = 7 };
enum { A_NONE = 0, A_HOLD, A_RELEASE, A_SLEEP, A_AWAIT, A_SLEPT, A_SPURIOUS };
struct Rule {
  volatile int active;
  int who, when, obj, opnd_any, res_any, action;
  long opnd, res, a1, a2;
  volatile int count;
};
struct Slot { volatile int released; volatile int captured; };
static Rule g_rules[G_MAXRULES];
static Slot g_slots[G_MAXSLOTS];
static volatile int g_rules_on = 0;                 // number of rules armed in this case (fast path)
static volatile long g_cw_entries[O_COUNT], g_cw_mark[O_COUNT];
static volatile int g_gate_timeouts = 0;
static __thread int tl_role = 0;                    // 0 worker, 1+k client k, 100 main
static __thread int tl_spurious = 0;                // set by the action `spurious`
static int g_trace = 0;

static long long raw_us()
{
  struct timespec ts;
  clock_gettime(CLOCK_MONOTONIC_RAW, &ts);          // not the scaled clock
  return (long long)ts.tv_sec * 1000000LL + ts.tv_nsec / 1000;
}

static const char* const obj_names[O_COUNT] = { "*", "enq", "deq", "head", "tail", "pushed", "processed", "nhead", "ntail", "fut" };

static int classify_addr(const volatile void* a)
{
  typedef Future<void>::Private P;
  P::ThreadPool* tp = P::_threadPool;
  if(!tp || !a) return O_FUT;
  if(a == (const volatile void*)&tp->_enqueuedSignal._state) return O_ENQ;
  if(a == (const volatile void*)&tp->_dequeuedSignal._state) return O_DEQ;
  if(a == (const volatile void*)&tp->_queue._head) return O_HEAD;
  if(a == (const volatile void*)&tp->_queue._tail) return O_TAIL;
  if(a == (const volatile void*)&tp->_pushedJobs) return O_PUSHED;
  if(a == (const volatile void*)&tp->_processedJobs) return O_PROCESSED;
  typedef P::LockFreeQueue<P::ThreadPool::Job>::Node Node;
  const char* q = (const char*)tp->_queue._queue;
  const char* c = (const char*)a;
  if(q && c >= q && c < q + sizeof(Node) * tp->_queue._capacity) {
    size_t off = (size_t)(c - q) % sizeof(Node);
    if(off == (size_t)&((Node*)0)->head) return O_NHEAD;
    if(off == (size_t)&((Node*)0)->tail) return O_NTAIL;
  }
  return O_FUT;
}

static int classify_cond(const void* c)
{
  typedef Future<void>::Private P;
  P::ThreadPool* tp = P::_threadPool;
  if(!tp) return 0;
  if(c == (const void*)tp->_enqueuedSignal._signal.cdata) return O_ENQ;
  if(c == (const void*)tp->_dequeuedSignal._signal.cdata) return O_DEQ;
  return 0;
}

#define GATE_WAIT_T(cond, limit_us) do { \
    long long t0_ = raw_us(); int spins_ = 0; \
    while(!(cond)) { \
      if(++spins_ < 200) sched_yield(); else usleep(50); \
      if((spins_ & 15) == 0 && raw_us() - t0_ > (limit_us)) { __atomic_add_fetch(&g_gate_timeouts, 1, __ATOMIC_RELAXED); break; } \
    } } while(0)
#define GATE_WAIT(cond) GATE_WAIT_T(cond, G_TIMEOUT_US)

static void run_action(int id, Rule& r)
{
  if(g_trace) fprintf(stderr, "#gate %lld rule %d fires role=%d action=%d a1=%ld a2=%ld\n", raw_us(), id, tl_role, r.action, r.a1, r.a2);
  switch(r.action) {
  case A_HOLD:
    if(r.a1 >= 0 && r.a1 < G_MAXSLOTS) {
      Slot& s = g_slots[r.a1];
      __atomic_add_fetch(&s.captured, 1, __ATOMIC_SEQ_CST);
      GATE_WAIT_T(__atomic_load_n(&s.released, __ATOMIC_SEQ_CST), (r.a2 > 1 ? r.a2 : (long)G_TIMEOUT_US));
    }
    break;
  case A_RELEASE:
    if(r.a1 >= 0 && r.a1 < G_MAXSLOTS) __atomic_store_n(&g_slots[r.a1].released, 1, __ATOMIC_SEQ_CST);
    break;
  case A_SLEEP: if(r.a2 >= 1000 || (long)((rng_next() >> 24) % 1000) < r.a2) usleep((useconds_t)r.a1); break;
  case A_AWAIT:
    if(r.a1 >= 0 && r.a1 < G_MAXSLOTS) GATE_WAIT(__atomic_load_n(&g_slots[r.a1].captured, __ATOMIC_SEQ_CST) >= r.a2);
    break;
  case A_SPURIOUS: if((long)((rng_next() >> 24) % 1000) < r.a1) tl_spurious = 1; break;
  case A_SLEPT:
    if(r.a1 > 0 && r.a1 < O_COUNT) GATE_WAIT(__atomic_load_n(&g_cw_entries[r.a1], __ATOMIC_SEQ_CST) - g_cw_mark[r.a1] >= r.a2);
    break;
  }
  if(g_trace) fprintf(stderr, "#gate %lld rule %d done role=%d\n", raw_us(), id, tl_role);
}

// does some armed rule match?  (who, when, obj, operand, result); runs the actions in rule order
static inline bool rule_matches(const Rule& r, int when, int obj, long opnd, long res)
{
  if(!r.active || r.when != when) return false;
  if(r.who >= 0 && r.who != tl_role) return false;
  if(r.obj != O_ANY && r.obj != obj) return false;
  if(!r.opnd_any && r.opnd != opnd) return false;
  if(when == W_POST && !r.res_any && r.res != res) return false;
  return true;
}

static bool any_match(int when, int obj, long opnd, long res)
{
  for(int i = 0; i < G_MAXRULES; ++i)
    if(rule_matches(g_rules[i], when, obj, opnd, res) && g_rules[i].count > 0) return true;
  return false;
}

static void gate_point(int when, int obj, long opnd, long res)
{
  for(int i = 0; i < G_MAXRULES; ++i) {
    Rule& r = g_rules[i];
    if(!rule_matches(r, when, obj, opnd, res)) continue;
    if(__atomic_fetch_sub(&r.count, 1, __ATOMIC_SEQ_CST) <= 0) { __atomic_add_fetch(&r.count, 1, __ATOMIC_SEQ_CST); continue; }
    run_action(i, r);
  }
}

extern "C" void verif_point(int kind, const volatile void* addr, long operand)
{
  (void)kind;
  __atomic_add_fetch(&g_points, 1, __ATOMIC_RELAXED);
  if(g_rules_on) gate_point(W_PRE, classify_addr(addr), operand, 0);
  perturb_point();
}

extern "C" void verif_after(int kind, const volatile void* addr, long operand, long result)
{
  (void)kind;
  if(g_rules_on) gate_point(W_POST, classify_addr(addr), operand, result);
}

// libnstd's pthread_cond_wait calls (Signal::wait) come here (-Wl,--wrap=pthread_cond_wait)
extern "C" int __real_pthread_cond_wait(pthread_cond_t*, pthread_mutex_t*);
extern "C" int __wrap_pthread_cond_wait(pthread_cond_t* c, pthread_mutex_t* m)
{
  int obj = classify_cond(c);
  // counted while the mutex is still held: whoever sees the count knows that a later Signal::set()
  // finds this thread waiting
  if(obj) __atomic_add_fetch(&g_cw_entries[obj], 1, __ATOMIC_SEQ_CST);
  if(g_rules_on) {
    tl_spurious = 0;
    gate_point(W_CWAIT, obj ? obj : O_FUT, 0, 0);
    if(tl_spurious) {            // spurious wake-up: the mutex is released and taken again, nobody signalled
      tl_spurious = 0;
      pthread_mutex_unlock(m); sched_yield(); pthread_mutex_lock(m);
      return 0;
    }
  }
  int r = __real_pthread_cond_wait(c, m);
  if(obj && g_rules_on && any_match(W_WAKE, obj, 0, 0)) {
    pthread_mutex_unlock(m);
    gate_point(W_WAKE, obj, 0, 0);
    pthread_mutex_lock(m);
  }
  return r;
}

// ---- lifetime of the Future objects ----------------------------------------------------------------
// Every Future the harness creates is registered with its address range while it is alive: from
// `new` until `delete` has RETURNED.  A pthread_cond_broadcast of libnstd on a condition variable
// that is neither one of the pool's two signals nor inside a live Future is a use of a destroyed
// Future's Signal (the property: the destructor returns only after the execution has completed,
// which includes the completion handshake).  ASan cannot see it (glibc is not instrumented).
enum { LIVE_MAX = 64 };
struct LiveFut { const char* lo; const char* hi; unsigned long gen; };
static LiveFut g_live[LIVE_MAX];
static volatile int g_live_lock = 0;
static volatile unsigned long g_live_gen = 0;
static volatile int g_live_on = 0;          // 1 while the futures of a case exist
static volatile int g_late_bcast = 0;       // broadcasts on a destroyed Future's signal in this case

static inline void live_lock() { while(__atomic_exchange_n(&g_live_lock, 1, __ATOMIC_ACQUIRE)) sched_yield(); }
static inline void live_unlock() { __atomic_store_n(&g_live_lock, 0, __ATOMIC_RELEASE); }
static void live_add(int f, const void* p, size_t n)
{
  live_lock(); g_live[f].lo = (const char*)p; g_live[f].hi = (const char*)p + n; g_live[f].gen = ++g_live_gen; live_unlock();
}
static void live_remove(int f) { live_lock(); g_live[f].lo = g_live[f].hi = 0; g_live[f].gen = 0; live_unlock(); }
static unsigned long live_find(const void* c)   // generation of the live Future that contains c, 0 = none
{
  unsigned long g = 0;
  live_lock();
  for(int i = 0; i < LIVE_MAX; ++i) if(g_live[i].lo && (const char*)c >= g_live[i].lo && (const char*)c < g_live[i].hi) { g = g_live[i].gen; break; }
  live_unlock();
  return g;
}

// libnstd's pthread_cond_broadcast calls (Signal::set) come here
extern "C" int __real_pthread_cond_broadcast(pthread_cond_t*);
extern "C" int __wrap_pthread_cond_broadcast(pthread_cond_t* c)
{
  int obj = classify_cond(c);
  if(!obj && g_live_on) {
    unsigned long g0 = live_find(c);
    if(g_rules_on) gate_point(W_PREBC, O_FUT, 0, 0);
    unsigned long g1 = live_find(c);
    if(!g0 || g1 != g0) {
      // the Future this thread is completing has been destroyed: do not touch the freed memory
      __atomic_add_fetch(&g_late_bcast, 1, __ATOMIC_SEQ_CST);
      if(g_trace) fprintf(stderr, "#late broadcast role=%d cond=%p gen %lu -> %lu\n", tl_role, (void*)c, g0, g1);
      return 0;
    }
  }
  else if(obj && g_rules_on) gate_point(W_PREBC, obj, 0, 0);
  int r = __real_pthread_cond_broadcast(c);
  if(g_rules_on) gate_point(W_BCAST, obj ? obj : O_FUT, 0, 0);
  return r;
}

static void gates_reset()
{
  g_rules_on = 0;
  memset((void*)g_rules, 0, sizeof(g_rules));
  memset((void*)g_slots, 0, sizeof(g_slots));
  for(int i = 0; i < O_COUNT; ++i) { g_cw_entries[i] = 0; g_cw_mark[i] = 0; }
  g_gate_timeouts = 0;
}

// after the clients have finished: nothing is held or delayed any more
static void gates_off()
{
  for(int i = 0; i < G_MAXRULES; ++i) g_rules[i].active = 0;
  for(int i = 0; i < G_MAXSLOTS; ++i) __atomic_store_n(&g_slots[i].released, 1, __ATOMIC_SEQ_CST);
  g_rules_on = 0;
}

// ---- scaled monotonic clock (Time::ticks() -> clock_gettime(CLOCK_MONOTONIC)) ------------------
static volatile long g_clock_scale = 1;
typedef int (*cgt_fn)(clockid_t, struct timespec*);
extern "C" int clock_gettime(clockid_t id, struct timespec* ts)
{
  static cgt_fn real = 0;
  if(!real) real = (cgt_fn)dlsym(RTLD_NEXT, "clock_gettime");
  int r = real(id, ts);
  if(id == CLOCK_MONOTONIC && r == 0 && g_clock_scale > 1) {
    // scale the time since process start
    static struct timespec t0; static volatile int have = 0;
    if(!have) { real(CLOCK_MONOTONIC, &t0); have = 1; }
    long long ns = (long long)(ts->tv_sec - t0.tv_sec) * 1000000000LL + (ts->tv_nsec - t0.tv_nsec);
    if(ns < 0) ns = 0;
    __int128 s = (__int128)ns * g_clock_scale;
    ts->tv_sec = t0.tv_sec + (time_t)(s / 1000000000);
    ts->tv_nsec = (long)(s % 1000000000);
  }
  return r;
}

// ---- workload -----------------------------------------------------------------------------------
enum { MAXF = 64, MAXC = 16, MAXOPS = 4096 };
enum Kind { K_START, K_ABORT, K_JOIN, K_GET, K_CHECK, K_PAUSE, K_GATE, K_DESTROY };
enum GateVerb { GV_NONE = 0, GV_RULE, GV_RELEASE, GV_AWAIT, GV_SLEPT, GV_MARK };

struct CallRec {
  volatile int runs;
  volatile long long arg_seen;
  volatile unsigned long done_stamp;
  int work;
  int slot;            // the harness slot of the Future this call was started on
  long long arg_in;    // the argument (for the functions that do not receive it as a parameter)
  volatile int bad;    // a further parameter did not arrive as it was passed
  CallRec* child;      // work >= 4: record of the call this function starts on futs[work - 4]
};

struct Op {
  int client, kind, f, work; long long arg; long pause;
  int variant;       // start: 0-5 free function of that arity, 10-14 member function of arity 0-4
  int gverb; long ga[4]; Rule grule; int gid;   // gate ops
  // observations
  long n;            // serial of the call this op refers to (0 = none)
  int after;         // join/get: 1 = completion stamp precedes return and ran == 1 at return
  long long res;     // get; start with work >= 4: the child's converted result
  char st; int ab;   // check
  CallRec* rec;      // start
};

static Op ops[MAXOPS];
static int nops;
static int cfg_min, cfg_max, cfg_q, cfg_clients, cfg_lazy, cfg_perturb;
static volatile unsigned long g_seq;
static long serial[MAXF];        // per future: number of starts so far (owner thread only)
static CallRec* active[MAXF];    // per future: record of the current call (owner thread only)
static pthread_barrier_t bar;

static inline int64 fn(int64 a) { return a * 7 + 3; }

// A harness slot holds a Future<int64>; slots 8..15 hold a Future<void> (no result conversion);
// slots 56..63 hold a Future<String>: a result type with a destructor and heap storage (the result
// slot is written by the worker: `result = b->call()`, and destroyed by ~Future<A> - after its join()).
// The String result is the decimal text of fn(arg) behind a fixed prefix (always on the heap).
enum { STR_LO = 56 };
static Future<int64>* futs[MAXF];
static Future<void>* vfuts[MAXF];
static Future<String>* sfuts[MAXF];
static inline bool is_void(int f) { return f >= 8 && f < 16; }
static inline bool is_str(int f) { return f >= STR_LO; }
static inline bool sl_aborting(int f) { return is_void(f) ? vfuts[f]->isAborting() : is_str(f) ? sfuts[f]->isAborting() : futs[f]->isAborting(); }
static inline void sl_join(int f) { if(is_void(f)) vfuts[f]->join(); else if(is_str(f)) sfuts[f]->join(); else futs[f]->join(); }
static inline void sl_abort(int f) { if(is_void(f)) vfuts[f]->abort(); else if(is_str(f)) sfuts[f]->abort(); else futs[f]->abort(); }
static inline char sl_state(int f)
{
  if(is_void(f)) return vfuts[f]->isFinished() ? 'F' : vfuts[f]->isAborted() ? 'A' : (vfuts[f]->_state == Future<void>::runningState ? 'R' : 'I');
  if(is_str(f)) return sfuts[f]->isFinished() ? 'F' : sfuts[f]->isAborted() ? 'A' : (sfuts[f]->future._state == Future<void>::runningState ? 'R' : 'I');
  return futs[f]->isFinished() ? 'F' : futs[f]->isAborted() ? 'A' : (futs[f]->future._state == Future<void>::runningState ? 'R' : 'I');
}
static void sl_new(int f)
{
  if(is_void(f)) { vfuts[f] = new Future<void>; live_add(f, vfuts[f], sizeof(Future<void>)); }
  else if(is_str(f)) { sfuts[f] = new Future<String>; live_add(f, sfuts[f], sizeof(Future<String>)); }
  else { futs[f] = new Future<int64>; live_add(f, futs[f], sizeof(Future<int64>)); }
}
static void sl_delete(int f)
{
  if(is_void(f)) { delete vfuts[f]; vfuts[f] = 0; }
  else if(is_str(f)) { delete sfuts[f]; sfuts[f] = 0; }
  else { delete futs[f]; futs[f] = 0; }
  live_remove(f);
}
// the text a started function returns through a Future<String>, and its inverse (anything else reads as -888888888)
static String str_of(int64 v) { return String("result-of-the-started-function:") + String::fromInt64(v); }
static long long val_of(const String& s)
{
  String pre("result-of-the-started-function:");
  if(s.length() <= pre.length() || !(s.substr(0, pre.length()) == pre)) return -888888888LL;
  String num = s.substr(pre.length());
  int64 v = num.toInt64();
  return String::fromInt64(v) == num ? (long long)v : -888888888LL;
}

static volatile int g_nested_in_start = 0;   // worker threads inside the start() call of a started function (work >= 4)
static int64 jobfn(CallRec* r, int64 arg);
static int64 job_body(CallRec* r, int64 arg)
{
  __atomic_add_fetch(&r->runs, 1, __ATOMIC_SEQ_CST);
  r->arg_seen = arg;
  if(g_rules_on) gate_point(W_JOB, O_FUT, r->work, 0);
  switch(r->work) {
  case 1: for(int i = 0; i < 3; ++i) sched_yield(); break;
  case 2: usleep(150); break;
  case 3: while(!sl_aborting(r->slot)) sched_yield(); break;
  default:
    // work >= 4: the started function starts another future itself ("started from any threads")
    // and returns without waiting for it
    if(r->work >= 4 && r->work - 4 < STR_LO && r->child) {
      __atomic_add_fetch(&g_nested_in_start, 1, __ATOMIC_SEQ_CST);
      futs[r->work - 4]->start(&jobfn, r->child, (int64)(arg + 1));
      __atomic_sub_fetch(&g_nested_in_start, 1, __ATOMIC_SEQ_CST);
    }
    break;
  }
  r->done_stamp = __atomic_add_fetch(&g_seq, 1, __ATOMIC_SEQ_CST);
  return fn(arg);
}

// The started functions: free functions of arity 0..5 and member functions of arity 0..4, each
// returning int64 (Future<int64>) or nothing (Future<void>).  Parameter 1 is the call record,
// parameter 2 the argument, parameters 3.. are argument + 1, + 2, … and are checked on arrival.
// Arity 0 finds its record through a per-slot trampoline, arity 1 reads the argument from the record.
static CallRec* cur0[16];
#define EXTRA(r, a, x, k) do { if((x) != (a) + (k)) (r)->bad = 1; } while(0)
static int64 jobfn(CallRec* r, int64 a) { return job_body(r, a); }
static int64 jf1(CallRec* r) { return job_body(r, r->arg_in); }
static int64 jf3(CallRec* r, int64 a, int64 b) { EXTRA(r, a, b, 1); return job_body(r, a); }
static int64 jf4(CallRec* r, int64 a, int64 b, int64 c) { EXTRA(r, a, b, 1); EXTRA(r, a, c, 2); return job_body(r, a); }
static int64 jf5(CallRec* r, int64 a, int64 b, int64 c, int64 d) { EXTRA(r, a, b, 1); EXTRA(r, a, c, 2); EXTRA(r, a, d, 3); return job_body(r, a); }
template <int F> static int64 jf0() { CallRec* r = cur0[F]; return job_body(r, r->arg_in); }
static void vf0x(CallRec* r) { job_body(r, r->arg_in); }
static void vf1(CallRec* r) { job_body(r, r->arg_in); }
static void vf2(CallRec* r, int64 a) { job_body(r, a); }
static void vf3(CallRec* r, int64 a, int64 b) { EXTRA(r, a, b, 1); job_body(r, a); }
static void vf4(CallRec* r, int64 a, int64 b, int64 c) { EXTRA(r, a, b, 1); EXTRA(r, a, c, 2); job_body(r, a); }
static void vf5(CallRec* r, int64 a, int64 b, int64 c, int64 d) { EXTRA(r, a, b, 1); EXTRA(r, a, c, 2); EXTRA(r, a, d, 3); job_body(r, a); }
template <int F> static void vf0() { vf0x(cur0[F]); }
typedef int64 (*jf0_t)();
typedef void (*vf0_t)();
static const jf0_t jf0_tab[16] = { jf0<0>, jf0<1>, jf0<2>, jf0<3>, jf0<4>, jf0<5>, jf0<6>, jf0<7>, jf0<8>, jf0<9>, jf0<10>, jf0<11>, jf0<12>, jf0<13>, jf0<14>, jf0<15> };
static const vf0_t vf0_tab[16] = { vf0<0>, vf0<1>, vf0<2>, vf0<3>, vf0<4>, vf0<5>, vf0<6>, vf0<7>, vf0<8>, vf0<9>, vf0<10>, vf0<11>, vf0<12>, vf0<13>, vf0<14>, vf0<15> };

enum { OBJ_MAGIC = 0x5eed5eed };
// An argument type with heap storage and a destructor that converts from and to int64 (so that the harness
// still compiles on a tree whose call records pass a neighbouring argument in its place): the decimal text
// of the number in a String on the heap.
struct Tag {
  String s;
  Tag(int64 v) : s(String("tag:") + String::fromInt64(v)) {}
  operator int64() const { return s.substr(4).toInt64(); }
  bool is(int64 v) const { return s == String("tag:") + String::fromInt64(v); }
};
struct Obj;
static inline bool obj_is_slot(const Obj* o, int slot);
struct Obj {
  long pad; int64 magic; CallRec* rec;
  // the member function runs on the object given to start() (not on a copy): `this` is the slot's object
  void chk(CallRec* r) { if(magic != OBJ_MAGIC || !obj_is_slot(this, r->slot)) r->bad = 1; }
  int64 m0() { chk(rec); return job_body(rec, rec->arg_in); }
  int64 m1(CallRec* r) { chk(r); return job_body(r, r->arg_in); }
  int64 m2(CallRec* r, int64 a) { chk(r); return job_body(r, a); }
  int64 m3(CallRec* r, int64 a, int64 b) { chk(r); EXTRA(r, a, b, 1); return job_body(r, a); }
  int64 m4(CallRec* r, int64 a, int64 b, int64 c) { chk(r); EXTRA(r, a, b, 1); EXTRA(r, a, c, 2); return job_body(r, a); }
  void v0() { chk(rec); job_body(rec, rec->arg_in); }
  void v1(CallRec* r) { chk(r); job_body(r, r->arg_in); }
  void v2(CallRec* r, int64 a) { chk(r); job_body(r, a); }
  void v3(CallRec* r, int64 a, int64 b) { chk(r); EXTRA(r, a, b, 1); job_body(r, a); }
  void v4(CallRec* r, int64 a, int64 b, int64 c) { chk(r); EXTRA(r, a, b, 1); EXTRA(r, a, c, 2); job_body(r, a); }
  // Future<String>: parameters with heap storage (by value and by const reference), arguments of another type than the parameter
  String s2(CallRec* r, int64 a) { chk(r); return str_of(job_body(r, a)); }
  String s3(CallRec* r, Tag tag, int64 a) { chk(r); if(!tag.is(a + 1)) r->bad = 1; return str_of(job_body(r, a)); }
};
static Obj objs[MAXF];
static inline bool obj_is_slot(const Obj* o, int slot) { return slot >= 0 && slot < MAXF && o == &objs[slot]; }
static String sjob(CallRec* r, int64 a) { return str_of(job_body(r, a)); }
static String sf3(CallRec* r, const Tag& tag, int64 a) { if(!tag.is(a + 1)) r->bad = 1; return str_of(job_body(r, a)); }
static String sf4(CallRec* r, Tag tag, int64 a, int64 b) { if(!tag.is(a + 1)) r->bad = 1; EXTRA(r, a, b, 1); return str_of(job_body(r, a)); }
// arity 2 with a String argument: the argument travels as its decimal text
static String sfs(CallRec* r, const String& text) { int64 a = text.toInt64(); if(!(String::fromInt64(a) == text)) r->bad = 1; return str_of(job_body(r, a)); }

// start call r on slot f through the overload chosen by `variant`
static void sl_start(int f, int variant, CallRec* r, int64 a)
{
  Obj& ob = objs[f];
  ob.magic = OBJ_MAGIC;
  // arity 0: the function finds its record through the slot, so the previous call on the slot must
  // be over before the record is replaced (start() itself would join only afterwards)
  if(variant == 0 || variant == 10) sl_join(f);
  if(variant == 10) ob.rec = r;
  if(variant == 0 && f < 16) cur0[f] = r;
  if(variant == 0 && f >= 16) variant = 2;
  if(variant == 20 && !is_str(f)) variant = 2;
  if(is_str(f)) {
    // Future<String>: the arguments are copied into the call record as String / int (P) and converted to the
    // parameter types const String& / String / int64 (D) when the worker makes the call
    Future<String>& v = *sfuts[f];
    Tag tag((int64)(a + 1));
    switch(variant) {
    case 3: v.start(&sf3, r, tag, (int)a); break;
    case 4: v.start(&sf4, r, tag, (int)a, (int)(a + 1)); break;
    case 12: v.start(ob, &Obj::s2, r, (int)a); break;
    case 13: v.start(ob, &Obj::s3, r, tag, (int)a); break;
    case 20: v.start(&sfs, r, String::fromInt64(a)); break;
    default: v.start(&sjob, r, a); break;
    }
    return;
  }
  if(is_void(f)) {
    Future<void>& v = *vfuts[f];
    switch(variant) {
    case 0: v.start(vf0_tab[f]); break;
    case 1: v.start(&vf1, r); break;
    case 3: v.start(&vf3, r, a, (int64)(a + 1)); break;
    case 4: v.start(&vf4, r, a, (int64)(a + 1), (int64)(a + 2)); break;
    case 5: v.start(&vf5, r, a, (int64)(a + 1), (int64)(a + 2), (int64)(a + 3)); break;
    case 10: v.start(ob, &Obj::v0); break;
    case 11: v.start(ob, &Obj::v1, r); break;
    case 12: v.start(ob, &Obj::v2, r, a); break;
    case 13: v.start(ob, &Obj::v3, r, a, (int64)(a + 1)); break;
    case 14: v.start(ob, &Obj::v4, r, a, (int64)(a + 1), (int64)(a + 2)); break;
    default: v.start(&vf2, r, a); break;
    }
  } else {
    Future<int64>& v = *futs[f];
    switch(variant) {
    case 0: v.start(jf0_tab[f]); break;
    case 1: v.start(&jf1, r); break;
    case 3: v.start(&jf3, r, a, (int64)(a + 1)); break;
    case 4: v.start(&jf4, r, a, (int64)(a + 1), (int64)(a + 2)); break;
    case 5: v.start(&jf5, r, a, (int64)(a + 1), (int64)(a + 2), (int64)(a + 3)); break;
    case 10: v.start(ob, &Obj::m0); break;
    case 11: v.start(ob, &Obj::m1, r); break;
    case 12: v.start(ob, &Obj::m2, r, a); break;
    case 13: v.start(ob, &Obj::m3, r, a, (int64)(a + 1)); break;
    case 14: v.start(ob, &Obj::m4, r, a, (int64)(a + 1), (int64)(a + 2)); break;
    default: v.start(&jobfn, r, a); break;   // joins the previous call first
    }
  }
}

// ---- watchdog report: what the pool looks like when a case does not finish ---------------------
static volatile int g_phase = 0;   // 1 clients running, 2 destroying futures, 3 destroying the pool
static volatile long g_case = -1;
static void on_alarm(int)
{
  typedef Future<void>::Private P;
  P::ThreadPool* tp = P::_threadPool;
  char buf[512];
  int n;
  if(tp)
    n = snprintf(buf, sizeof(buf), "%ld deadlock phase=%d capacity=%lu nested_in_start=%d queue.head=%lu queue.tail=%lu enq.state=%lu enq.flag=%d deq.state=%lu deq.flag=%d pushed=%lu processed=%lu threads=%lu contexts=%lu\n",
                 g_case, g_phase, (unsigned long)tp->_queue._capacity, (int)g_nested_in_start, (unsigned long)tp->_queue._head, (unsigned long)tp->_queue._tail,
                 (unsigned long)tp->_enqueuedSignal._state, (int)tp->_enqueuedSignal._signal.signaled,
                 (unsigned long)tp->_dequeuedSignal._state, (int)tp->_dequeuedSignal._signal.signaled,
                 (unsigned long)tp->_pushedJobs, (unsigned long)tp->_processedJobs, (unsigned long)tp->_threadCount, (unsigned long)tp->_threads.size());
  else
    n = snprintf(buf, sizeof(buf), "%ld deadlock phase=%d no pool\n", g_case, g_phase);
  if(n > 0) { ssize_t w = write(1, buf, (size_t)n); (void)w; }
  signal(SIGALRM, SIG_DFL);
  raise(SIGALRM);
}

static void begin(long cno, vh::Tok& t)
{
  g_case = cno; g_phase = 0; g_nested_in_start = 0;
  signal(SIGALRM, on_alarm);
  nops = 0;
  cfg_min = 0; cfg_max = 3; cfg_q = 4; cfg_clients = 1; cfg_lazy = 0; g_clock_scale = 1;
  g_perturb = 0; g_seed = 1; g_arrivals = 0;
  gates_reset();
  // case <n> wl <min> <max> <qcap> <clients> <clockscale> <lazy> [<perturb> <seed>]
  if(t.n >= 9) {
    cfg_min = atoi(t.v[3]); cfg_max = atoi(t.v[4]); cfg_q = atoi(t.v[5]);
    cfg_clients = atoi(t.v[6]); g_clock_scale = atol(t.v[7]); cfg_lazy = atoi(t.v[8]);
  }
  if(t.n >= 11) { cfg_perturb = atoi(t.v[9]); g_seed = (unsigned)atol(t.v[10]); }
  else cfg_perturb = 0;
}

// c <k> gate rule <id> <who> <when> <obj> <opnd> <res> <count> <action> [<a1> [<a2>]]
// c <k> gate release <slot> | await <slot> <n> | slept <obj> <n> | mark <obj>
static int obj_of(const char* s)
{
  for(int i = 0; i < O_COUNT; ++i) if(!strcmp(s, obj_names[i])) return i;
  return O_ANY;
}

static void parse_gate(Op& o, vh::Tok& t)
{
  o.gverb = GV_NONE;
  if(t.n < 4) return;
  const char* v = t.v[3];
  if(!strcmp(v, "rule") && t.n >= 12) {
    Rule& r = o.grule;
    memset((void*)&r, 0, sizeof(r));
    o.gid = atoi(t.v[4]);
    const char* w = t.v[5];
    r.who = !strcmp(w, "w") ? 0 : !strcmp(w, "m") ? 100 : w[0] == 'c' ? 1 + atoi(w + 1) : -1;
    r.when = !strcmp(t.v[6], "pre") ? W_PRE : !strcmp(t.v[6], "post") ? W_POST : !strcmp(t.v[6], "wake") ? W_WAKE : !strcmp(t.v[6], "bcast") ? W_BCAST : !strcmp(t.v[6], "prebc") ? W_PREBC : !strcmp(t.v[6], "job") ? W_JOB : !strcmp(t.v[6], "cwait") ? W_CWAIT : 0;
    r.obj = obj_of(t.v[7]);
    r.opnd_any = !strcmp(t.v[8], "*"); r.opnd = atol(t.v[8]);
    r.res_any = !strcmp(t.v[9], "*"); r.res = atol(t.v[9]);
    r.count = atoi(t.v[10]);
    const char* a = t.v[11];
    r.action = !strcmp(a, "hold") ? A_HOLD : !strcmp(a, "release") ? A_RELEASE : !strcmp(a, "sleep") ? A_SLEEP
             : !strcmp(a, "await") ? A_AWAIT : !strcmp(a, "slept") ? A_SLEPT : !strcmp(a, "spurious") ? A_SPURIOUS : A_NONE;
    if(r.action == A_SLEPT) { r.a1 = t.n > 12 ? obj_of(t.v[12]) : 0; r.a2 = t.n > 13 ? atol(t.v[13]) : 1; }
    else { r.a1 = t.n > 12 ? atol(t.v[12]) : 0; r.a2 = t.n > 13 ? atol(t.v[13]) : (r.action == A_SLEEP ? 1000 : 1); }
    if(o.gid >= 0 && o.gid < G_MAXRULES && r.when && r.action) o.gverb = GV_RULE;
  }
  else if(!strcmp(v, "release") && t.n >= 5) { o.gverb = GV_RELEASE; o.ga[0] = atol(t.v[4]); }
  else if(!strcmp(v, "await") && t.n >= 6) { o.gverb = GV_AWAIT; o.ga[0] = atol(t.v[4]); o.ga[1] = atol(t.v[5]); }
  else if(!strcmp(v, "slept") && t.n >= 6) { o.gverb = GV_SLEPT; o.ga[0] = obj_of(t.v[4]); o.ga[1] = atol(t.v[5]); }
  else if(!strcmp(v, "mark") && t.n >= 5) { o.gverb = GV_MARK; o.ga[0] = obj_of(t.v[4]); }
}

static void exec_gate(Op& o)
{
  if(g_trace) fprintf(stderr, "#gate %lld client op verb=%d\n", raw_us(), o.gverb);
  switch(o.gverb) {
  case GV_RULE: {
    Rule& r = g_rules[o.gid];
    r.active = 0;
    __atomic_thread_fence(__ATOMIC_SEQ_CST);
    int cnt = o.grule.count;
    r = o.grule; r.count = cnt;
    __atomic_thread_fence(__ATOMIC_SEQ_CST);
    r.active = 1;
    __atomic_add_fetch(&g_rules_on, 1, __ATOMIC_SEQ_CST);
    break; }
  case GV_RELEASE:
    if(o.ga[0] >= 0 && o.ga[0] < G_MAXSLOTS) __atomic_store_n(&g_slots[o.ga[0]].released, 1, __ATOMIC_SEQ_CST);
    break;
  case GV_AWAIT:
    if(o.ga[0] >= 0 && o.ga[0] < G_MAXSLOTS) GATE_WAIT(__atomic_load_n(&g_slots[o.ga[0]].captured, __ATOMIC_SEQ_CST) >= o.ga[1]);
    break;
  case GV_SLEPT:
    if(o.ga[0] > 0 && o.ga[0] < O_COUNT) GATE_WAIT(__atomic_load_n(&g_cw_entries[o.ga[0]], __ATOMIC_SEQ_CST) - g_cw_mark[o.ga[0]] >= o.ga[1]);
    break;
  case GV_MARK:
    if(o.ga[0] > 0 && o.ga[0] < O_COUNT) g_cw_mark[o.ga[0]] = g_cw_entries[o.ga[0]];
    break;
  }
}

static void op(long, long, vh::Tok& t)
{
  if(nops >= MAXOPS || t.n < 3 || strcmp(t.v[0], "c")) return;
  Op& o = ops[nops];
  memset(&o, 0, sizeof(o));
  o.client = atoi(t.v[1]);
  const char* k = t.v[2];
  o.f = t.n > 3 ? atoi(t.v[3]) : 0;
  if(!strncmp(k, "start", 5) && t.n >= 6) {
    // start = free function of arity 2; startf<N> = free function of arity N; startm<N> = member function of arity N
    o.kind = K_START; o.arg = atoll(t.v[4]); o.work = atoi(t.v[5]);
    // starts = free function of arity 2 whose second parameter is a const String& (Future<String> slots; elsewhere = start)
    o.variant = k[5] == 'f' ? atoi(k + 6) : k[5] == 'm' ? 10 + atoi(k + 6) : k[5] == 's' ? 20 : 2;
    if(o.variant < 0 || (o.variant > 14 && o.variant != 20) || (o.variant > 5 && o.variant < 10)) return;
  }
  else if(!strcmp(k, "abort")) o.kind = K_ABORT;
  else if(!strcmp(k, "join")) o.kind = K_JOIN;
  else if(!strcmp(k, "get")) o.kind = K_GET;
  else if(!strcmp(k, "check")) o.kind = K_CHECK;
  else if(!strcmp(k, "destroy")) o.kind = K_DESTROY;
  else if(!strcmp(k, "pause")) { o.kind = K_PAUSE; o.pause = o.f; o.f = 0; }
  else if(!strcmp(k, "gate")) { o.kind = K_GATE; o.f = 0; parse_gate(o, t); }
  else return;
  if(o.f < 0 || o.f >= MAXF || o.client < 0 || o.client >= MAXC) return;
  ++nops;
}

// same validity rule as FutureSpec.valid_script: between the start of a call that waits for abort()
// and the abort() of that future its owner only aborts, queries and pauses (no start, join, conversion
// or destructor of any future: those can wait for the pool); a future belongs to the first client that names it
static bool pending_of(const int* owner, const bool* act3, int client)
{
  for(int f = 0; f < MAXF; ++f) if(act3[f] && owner[f] == client) return true;
  return false;
}

static bool valid()
{
  int owner[MAXF]; bool act3[MAXF]; bool child[MAXF]; bool named[MAXF];
  for(int f = 0; f < MAXF; ++f) { owner[f] = -1; act3[f] = false; child[f] = false; named[f] = false; }
  // a start with work >= 4 names the slot (work - 4, in 16..63) of the future its function starts:
  // that slot is used by nothing else
  for(int i = 0; i < nops; ++i) {
    Op& o = ops[i];
    if(o.kind == K_PAUSE || o.kind == K_GATE) continue;
    named[o.f] = true;
    if(o.kind == K_START && o.work >= 4) {
      int g = o.work - 4;
      if(g < 16 || g >= STR_LO || child[g]) return false;
      child[g] = true;
    }
  }
  for(int f = 0; f < MAXF; ++f) if(child[f] && named[f]) return false;
  for(int i = 0; i < nops; ++i) {
    Op& o = ops[i];
    if(o.client >= cfg_clients) return false;
    if(o.kind == K_PAUSE || o.kind == K_GATE) continue;
    if(owner[o.f] < 0) owner[o.f] = o.client;
    if(owner[o.f] != o.client) return false;
    if(o.kind == K_START) {
      if(pending_of(owner, act3, o.client)) return false;
      act3[o.f] = (o.work == 3);
    }
    else if(o.kind == K_ABORT) act3[o.f] = false;
    else if(o.kind == K_JOIN || o.kind == K_GET || o.kind == K_DESTROY) { if(pending_of(owner, act3, o.client)) return false; }
    if(o.kind == K_GET && is_void(o.f)) return false;     // a Future<void> has no result conversion
  }
  for(int f = 0; f < MAXF; ++f) if(act3[f]) return false;
  return true;
}

static void stamp_join(Op& o)
{
  CallRec* r = active[o.f];
  if(!r) { o.n = 0; o.after = -1; return; }
  unsigned long now = __atomic_add_fetch(&g_seq, 1, __ATOMIC_SEQ_CST);
  unsigned long d = r->done_stamp;
  o.n = serial[o.f];
  o.after = (d != 0 && d < now && r->runs == 1) ? 1 : 0;
  active[o.f] = 0;   // joined: a further join()/conversion does not wait for anything
}

static void* client(void* p)
{
  int me = (int)(long)p;
  tl_role = 1 + me;
  pthread_barrier_wait(&bar);
  for(int i = 0; i < nops; ++i) {
    Op& o = ops[i];
    if(o.client != me) continue;
    switch(o.kind) {
    case K_START: {
      CallRec* r = (CallRec*)calloc(1, sizeof(CallRec));
      r->work = o.work; r->slot = o.f; r->arg_in = o.arg;
      if(o.work >= 4) { r->child = (CallRec*)calloc(1, sizeof(CallRec)); r->child->slot = o.work - 4; r->child->arg_in = o.arg + 1; }
      o.rec = r;
      sl_start(o.f, o.variant, r, (int64)o.arg);   // joins the previous call first
      o.n = ++serial[o.f];
      active[o.f] = r;
      break; }
    case K_ABORT: sl_abort(o.f); o.n = serial[o.f]; break;
    case K_JOIN: sl_join(o.f); stamp_join(o); break;
    case K_GET:
      if(is_str(o.f)) { const String& v = *sfuts[o.f]; stamp_join(o); o.res = val_of(v); }
      else { const int64& v = *futs[o.f]; stamp_join(o); o.res = v; }
      break;
    case K_CHECK:
      o.n = serial[o.f];
      o.st = sl_state(o.f);
      o.ab = sl_aborting(o.f) ? 1 : 0;
      break;
    case K_PAUSE: if(o.pause <= 0) sched_yield(); else usleep((useconds_t)o.pause * 100); break;
    case K_GATE: exec_gate(o); break;
    case K_DESTROY: {
      // ~Future joins; the object is gone when delete returns; a new object takes the slot
      sl_delete(o.f);
      stamp_join(o);
      sl_new(o.f);
      serial[o.f] = 0;
      break; }
    }
  }
  return 0;
}

static void end(long c)
{
  if(!valid()) { printf("%ld invalid\n", c); return; }
  typedef Future<void>::Private P;
  if(!cfg_lazy)
    P::_threadPool = new P::ThreadPool(cfg_min, cfg_max, cfg_q);
  g_seq = 0;
  g_perturb = cfg_perturb;
  g_late_bcast = 0;
  for(int f = 0; f < MAXF; ++f) { sl_new(f); serial[f] = 0; active[f] = 0; }
  g_live_on = 1;
  pthread_t th[MAXC];
  g_phase = 1;
  pthread_barrier_init(&bar, 0, cfg_clients);
  for(int k = 0; k < cfg_clients; ++k) pthread_create(&th[k], 0, client, (void*)(long)k);
  for(int k = 0; k < cfg_clients; ++k) pthread_join(th[k], 0);
  pthread_barrier_destroy(&bar);
  gates_off();
  // the destructor joins what the scripts left running
  g_phase = 2;
  // futures started by started functions: wait for the starting call, then take the result
  bool nested = false;
  for(int i = 0; i < nops; ++i) if(ops[i].kind == K_START && ops[i].work >= 4) nested = true;
  if(nested) {
    for(int i = 0; i < nops; ++i) if(ops[i].kind != K_PAUSE && ops[i].kind != K_GATE) sl_join(ops[i].f);
    for(int i = 0; i < nops; ++i) if(ops[i].kind == K_START && ops[i].work >= 4) ops[i].res = *futs[ops[i].work - 4];
  }
  for(int f = 0; f < MAXF; ++f) sl_delete(f);
  for(int i = 0; i < nops; ++i) {
    Op& o = ops[i];
    switch(o.kind) {
    case K_START:
      printf("%ld start %d %d %ld | ran %d arg %lld\n", c, o.client, o.f, o.n, o.rec->runs, o.rec->bad ? -777777777LL : (long long)o.rec->arg_seen);
      if(o.work >= 4)
        printf("%ld nested %d %ld %d | ran %d arg %lld res %lld\n", c, o.f, o.n, o.work - 4, o.rec->child->runs, (long long)o.rec->child->arg_seen, o.res);
      break;
    case K_ABORT: printf("%ld abort %d %d %ld\n", c, o.client, o.f, o.n); break;
    case K_JOIN:
      if(o.after < 0) printf("%ld join %d %d - | after -\n", c, o.client, o.f);
      else printf("%ld join %d %d %ld | after %d\n", c, o.client, o.f, o.n, o.after);
      break;
    case K_GET:
      if(o.after < 0) printf("%ld get %d %d - | after - res %lld\n", c, o.client, o.f, o.res);
      else printf("%ld get %d %d %ld | after %d res %lld\n", c, o.client, o.f, o.n, o.after, o.res);
      break;
    case K_CHECK: printf("%ld check %d %d %ld | st %c ab %d\n", c, o.client, o.f, o.n, o.st, o.ab); break;
    case K_PAUSE: case K_GATE: printf("%ld pause %d\n", c, o.client); break;
    case K_DESTROY:
      if(o.after < 0) printf("%ld destroy %d %d - | after -\n", c, o.client, o.f);
      else printf("%ld destroy %d %d %ld | after %d\n", c, o.client, o.f, o.n, o.after);
      break;
    }
  }
  // pool counters: the number of run() calls is schedule independent, the worker count is bounded
  if(P::_threadPool) {
    printf("%ld pool pushed %lu tc_ok %d\n", c, (unsigned long)P::_threadPool->_pushedJobs,
           (P::_threadPool->_threadCount <= P::_threadPool->_maxThreads) ? 1 : 0);
    printf("#pool %ld pushed=%lu processed=%lu threads=%lu points=%lu gate_timeouts=%d\n", c, (unsigned long)P::_threadPool->_pushedJobs,
           (unsigned long)P::_threadPool->_processedJobs, (unsigned long)P::_threadPool->_threadCount, (unsigned long)g_points, (int)g_gate_timeouts);
    // quiescence: every future has been joined, so every job has run; the workers count it as
    // processed right after, and a shrink request still in the ring is on its way to a woken worker
    P::ThreadPool* tp = P::_threadPool;
    long long t0 = raw_us();
    static int quiet_failed = 0;      // once it has failed in this process the later cases wait 20 ms only
    while(!(tp->_queue._head == tp->_queue._tail && tp->_processedJobs == tp->_pushedJobs) && raw_us() - t0 < (quiet_failed ? 20000 : 2000000)) usleep(50);
    if(tp->_queue._head == tp->_queue._tail && tp->_processedJobs == tp->_pushedJobs) printf("%ld quiet 1\n", c);
    else if((quiet_failed = 1)) printf("%ld quiet 0 head=%lu tail=%lu pushed=%lu processed=%lu\n", c, (unsigned long)tp->_queue._head, (unsigned long)tp->_queue._tail,
                (unsigned long)tp->_pushedJobs, (unsigned long)tp->_processedJobs);
  } else {
    printf("%ld pool pushed 0 tc_ok 1\n", c);
    printf("%ld quiet 1\n", c);
  }
  for(int i = 0; i < nops; ++i) if(ops[i].rec) { if(ops[i].rec->child) free(ops[i].rec->child); free(ops[i].rec); ops[i].rec = 0; }
  // retire the pool.  ~ThreadPool pushes one null job per worker CONTEXT and joins the threads.  Contexts of
  // workers that have already retired stay in the list until the next start() removes them, and the null
  // jobs addressed to them are consumed by nobody: with the tiny queues of these cases (the library itself
  // only ever uses capacity 256) the destructor would wait for room for ever.  That is no part of the
  // property (no future is involved), so the harness first does what the next start() would have done:
  // it waits until every retiring worker has marked itself terminated and removes those contexts with
  // the library's own clean-up loop (ThreadPool::run), under the pool's mutex.
  g_phase = 3;
  if(P::_threadPool) {
    P::ThreadPool* tp = P::_threadPool;
    long long t1 = raw_us();
    bool shown = false;
    for(;;) {
      usize live = 0;
      {
        Mutex::Guard guard(tp->_mutex);
        for(PoolList<P::ThreadPool::ThreadContext>::Iterator i = tp->_threads.begin(), end = tp->_threads.end(); i != end; ++i)
          if(!i->_terminated) ++live;
      }
      if(!shown) { printf("#teardown %ld contexts=%lu live=%lu threadCount=%lu capacity=%lu\n", c, (unsigned long)tp->_threads.size(), (unsigned long)live, (unsigned long)tp->_threadCount, (unsigned long)tp->_queue._capacity); shown = true; }
      if(live == tp->_threadCount || raw_us() - t1 > 2000000) break;
      usleep(50);
    }
    {
      Mutex::Guard guard(tp->_mutex);
      for(PoolList<P::ThreadPool::ThreadContext>::Iterator i = tp->_threads.begin(), end = tp->_threads.end(); i != end;)
      {
        if(i->_terminated) i = tp->_threads.remove(i);
        else ++i;
      }
    }
    delete tp; P::_threadPool = 0;
  }
  // all workers have ended: every completion handshake is over
  g_live_on = 0;
  printf("%ld lifetime late %d\n", c, (int)g_late_bcast);
  g_perturb = 0; g_phase = 0;
}

int main(int argc, char** argv)
{
  tl_role = 100;
  g_trace = getenv("VERIF_GATE_TRACE") ? 1 : 0;
  return vh::run(argc, argv, begin, op, end);
}
