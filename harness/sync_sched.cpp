// detsched for C11 -- deterministic scheduler with VIRTUAL pthread primitives.
//
// The real Signal.cpp / Monitor.cpp / Mutex.cpp / Semaphore.cpp / Thread.cpp are linked with
// -Wl,--wrap=pthread_mutex_lock,... so that every primitive call they make lands here.  Real pthreads
// exist (one per scenario thread) but exactly one of them holds the baton at any time; a wrapped call
// records the thread's pending primitive call and gives the baton back to the controller (the main
// thread), which executes the schedule move by move.  The semantics of the virtual mutex / condition
// variable / semaphore / create / join, of spurious wake-ups, timeouts, the scripted clock and queue
// rotation is a hand transcription of coq/Sync/Sched.v (prim_step, prim_spurious, prim_timeout,
// prim_timeout_steal, prim_clock, prim_rotate) and part of the trusted base.  Everything the scheduler itself needs from
// the OS goes through __real_* (baton = POSIX semaphores).
//
// Clock domains: there are two scripted clocks, CLOCK_REALTIME = `now` and every other clock id = now / 3 (a
// different epoch, like CLOCK_MONOTONIC on a real system).  A virtual condition variable remembers the clock its
// attribute selected at pthread_cond_init (default CLOCK_REALTIME) and measures deadlines against that clock;
// sem_timedwait always uses CLOCK_REALTIME.  Code that computes its deadline from another clock than the one
// the primitive measures against therefore times out at the wrong moment, as it would with glibc.
// Initialisation: pthread_mutex_init / pthread_cond_init / sem_init (and the destroy calls) are wrapped and
// recorded; registering a primitive of a library object that was never initialised is reported (vs_uninit).
//
// Entry points OUTSIDE Sched.v (round 5): pthread_mutex_timedlock / clocklock, pthread_cond_clockwait, sem_clockwait,
// pthread_tryjoin_np / timedjoin_np / clockjoin_np are wrapped too, so that code rewritten onto them still runs on the
// VIRTUAL primitives (a call that reached the real glibc object would be judged against an object no virtual thread
// ever holds).  They are the timed variants of the modelled calls: a timed lock = lock that returns ETIMEDOUT once its
// deadline has passed and the mutex is not available (glibc order: acquire first, then EINVAL, then the deadline); the
// clock* forms carry their own clock id.  The Coq model has none of them: the pending-call token they print
// (`lock2@0.0`, `cw0.0@..%1`, `tjoin1`) differs from anything the model prints, so their use is always visible as a
// model/implementation difference, while the history/state oracle still judges the library calls' results.
// pthread_create has TWO scheduling points: the create itself and, after it succeeded, the return to the creator
// (model: ThStartP / ThStartRet) - the child may run before the creator's code that follows pthread_create.
//
// C headers only; C interface in sync_sched.h.
#include <pthread.h>
#include <semaphore.h>
#include <errno.h>
#include <time.h>
#include <dlfcn.h>
#include <setjmp.h>
#include <stdio.h>
#include <stdlib.h>
#include <string.h>
#include <stdint.h>
#include <unistd.h>
#include "sync_sched.h"

extern "C" {
int __real_pthread_mutex_lock(pthread_mutex_t*);
int __real_pthread_mutex_trylock(pthread_mutex_t*);
int __real_pthread_mutex_unlock(pthread_mutex_t*);
int __real_pthread_cond_wait(pthread_cond_t*, pthread_mutex_t*);
int __real_pthread_cond_timedwait(pthread_cond_t*, pthread_mutex_t*, const struct timespec*);
int __real_pthread_cond_signal(pthread_cond_t*);
int __real_pthread_cond_broadcast(pthread_cond_t*);
int __real_sem_wait(sem_t*);
int __real_sem_trywait(sem_t*);
int __real_sem_timedwait(sem_t*, const struct timespec*);
int __real_sem_post(sem_t*);
int __real_pthread_mutex_init(pthread_mutex_t*, const pthread_mutexattr_t*);
int __real_pthread_mutex_destroy(pthread_mutex_t*);
int __real_pthread_cond_init(pthread_cond_t*, const pthread_condattr_t*);
int __real_pthread_cond_destroy(pthread_cond_t*);
int __real_sem_init(sem_t*, int, unsigned);
int __real_sem_destroy(sem_t*);
int __real_pthread_create(pthread_t*, const pthread_attr_t*, void* (*)(void*), void*);
int __real_pthread_join(pthread_t, void**);
int __real_pthread_mutex_timedlock(pthread_mutex_t*, const struct timespec*);
int __real_pthread_mutex_clocklock(pthread_mutex_t*, clockid_t, const struct timespec*);
int __real_pthread_cond_clockwait(pthread_cond_t*, pthread_mutex_t*, clockid_t, const struct timespec*);
int __real_sem_clockwait(sem_t*, clockid_t, const struct timespec*);
int __real_pthread_tryjoin_np(pthread_t, void**);
int __real_pthread_timedjoin_np(pthread_t, void**, const struct timespec*);
int __real_pthread_clockjoin_np(pthread_t, void**, clockid_t, const struct timespec*);
}

// ---- Sched.v : state ------------------------------------------------------------------------------
enum { K_NOTSTARTED, K_RUN, K_CONDBLOCKED, K_WOKEN, K_DONE, K_FAULT };
enum { C_IDLE, C_LOCK, C_TRY, C_UNLOCK, C_CONDWAIT, C_SIGNAL, C_BCAST, C_SEMWAIT, C_SEMTRY, C_SEMPOST, C_CREATE, C_JOIN };
enum { O_BLOCKED, O_PROGRESS, O_RETURN };
static const long long NSQ = 1000000000LL;

struct TStat { int kind; int c, m; long long rc; int has_dl; long long dsec, dnsec; long long done; int clk; };
struct Call { int kind; int a, b; int has_dl; long long dsec, dnsec; int clk; };   // clk < 0: the primitive's own clock
struct VMutex { int rec; int owner; int cnt; };
struct VState {
  VMutex mtx[VS_NM];
  int q[VS_NC][VS_MAXT * 4]; int qn[VS_NC];
  long long sem[VS_NS];
  TStat st[VS_MAXT];
  long long now;
};
static VState S;
static int cond_clk[VS_NC];                       // clock id each registered condition variable measures deadlines against
static long long clock_of(int id, long long nowv) { return id == CLOCK_REALTIME ? nowv : nowv / 3; }
static Call pend[VS_MAXT];
static long long retv[VS_MAXT];
static int nthr;

static int dl_valid(long long nsec) { return 0 <= nsec && nsec < NSQ; }
static int dl_expired(long long sec, long long nsec, long long nowv) { return (__int128)sec * NSQ + nsec <= (__int128)nowv; }
static int dl_bad(const Call& c) { return c.has_dl && !dl_valid(c.dnsec); }
static int wait_clock(int clk, int c) { return clk >= 0 ? clk : cond_clk[c]; }          // clock a condition wait measures against
static int call_clock(const Call& c) { return c.clk >= 0 ? c.clk : CLOCK_REALTIME; }   // ... a timed lock / sem wait / join
static int call_expired(const Call& c) { return dl_expired(c.dsec, c.dnsec, clock_of(call_clock(c), S.now)); }
static int owned_by(int m, int t) { return S.mtx[m].owner == t; }
static int is_free(int m) { return S.mtx[m].owner < 0; }
static int acquire(int m, int t)
{
  VMutex& x = S.mtx[m];
  if(x.owner < 0) { x.owner = t; x.cnt = 1; return 1; }
  if(x.owner == t && x.rec) { x.cnt = x.cnt + 1; return 1; }
  return 0;
}
static void release(int m)
{
  VMutex& x = S.mtx[m];
  if(x.cnt >= 2) x.cnt = x.cnt - 1; else { x.owner = -1; x.cnt = 0; }
}
static void release_all(int m) { S.mtx[m].owner = -1; S.mtx[m].cnt = 0; }
static int blocked_on(int c, const TStat& s) { return s.kind == K_CONDBLOCKED && s.c == c; }
static void wake(long long rc, TStat& s) { if(s.kind == K_CONDBLOCKED) { s.kind = K_WOKEN; s.rc = rc; } }
static void remove_tid(int c, int t)
{
  int k = 0;
  for(int i = 0; i < S.qn[c]; ++i) if(S.q[c][i] != t) S.q[c][k++] = S.q[c][i];
  S.qn[c] = k;
}
static int runnable(const TStat& s) { return s.kind == K_RUN || s.kind == K_WOKEN; }

// prim_step: performs the call of thread t on S; *r = return value when O_RETURN
static int prim_step(int t, const Call& c, long long* r)
{
  *r = 0;
  switch(c.kind) {
  case C_IDLE: return O_RETURN;
  case C_LOCK:
    if(acquire(c.a, t)) return O_RETURN;
    if(!c.has_dl) return O_BLOCKED;
    if(dl_bad(c)) { *r = EINVAL; return O_RETURN; }            // timed lock (outside Sched.v)
    if(call_expired(c)) { *r = ETIMEDOUT; return O_RETURN; }
    return O_BLOCKED;
  case C_TRY: if(!acquire(c.a, t)) *r = EBUSY; return O_RETURN;
  case C_UNLOCK:
    if(owned_by(c.a, t)) release(c.a);
    else if(S.mtx[c.a].rec) *r = EPERM;           // recursive / error-checking: owner-checked
    else release_all(c.a);                        // default type: glibc does not check the owner
    return O_RETURN;
  case C_CONDWAIT: {
    TStat& s = S.st[t];
    if(s.kind == K_RUN) {
      if(!owned_by(c.b, t)) { s.kind = K_FAULT; return O_PROGRESS; }
      if(dl_bad(c)) { *r = EINVAL; return O_RETURN; }
      release_all(c.b);
      S.q[c.a][S.qn[c.a]++] = t;
      s.kind = K_CONDBLOCKED; s.c = c.a; s.m = c.b; s.has_dl = c.has_dl; s.dsec = c.dsec; s.dnsec = c.dnsec; s.clk = c.clk;
      return O_PROGRESS;
    }
    if(s.kind == K_WOKEN) {
      if(!is_free(s.m)) return O_BLOCKED;
      S.mtx[s.m].owner = t; S.mtx[s.m].cnt = 1;
      s.kind = K_RUN; *r = s.rc;
      return O_RETURN;
    }
    return O_BLOCKED;
  }
  case C_SIGNAL: {
    for(int i = 0; i < S.qn[c.a]; ++i) {
      int u = S.q[c.a][i];
      if(blocked_on(c.a, S.st[u])) { remove_tid(c.a, u); wake(0, S.st[u]); break; }
    }
    return O_RETURN;
  }
  case C_BCAST:
    S.qn[c.a] = 0;
    for(int u = 0; u < VS_MAXT; ++u) if(blocked_on(c.a, S.st[u])) wake(0, S.st[u]);
    return O_RETURN;
  case C_SEMWAIT:
    if(S.sem[c.a] > 0) { S.sem[c.a] -= 1; return O_RETURN; }
    if(dl_bad(c)) { *r = EINVAL; return O_RETURN; }
    return O_BLOCKED;
  case C_SEMTRY: if(S.sem[c.a] > 0) S.sem[c.a] -= 1; else *r = EAGAIN; return O_RETURN;
  case C_SEMPOST: S.sem[c.a] += 1; return O_RETURN;
  case C_CREATE:
    if(c.a >= 0 && c.a < VS_MAXT && S.st[c.a].kind == K_NOTSTARTED) S.st[c.a].kind = K_RUN; else *r = EAGAIN;
    return O_RETURN;
  case C_JOIN:
    if(c.a >= 0 && c.a < VS_MAXT && S.st[c.a].kind == K_DONE) { *r = S.st[c.a].done; return O_RETURN; }
    if(c.b) { *r = -EBUSY; return O_RETURN; }                   // pthread_tryjoin_np (outside Sched.v); errors are negative
    if(c.has_dl && dl_bad(c)) { *r = -EINVAL; return O_RETURN; }
    if(c.has_dl && call_expired(c)) { *r = -ETIMEDOUT; return O_RETURN; }
    return O_BLOCKED;
  }
  return O_BLOCKED;
}

static void prim_spurious(int t)
{
  TStat& s = S.st[t];
  if(s.kind == K_CONDBLOCKED) { remove_tid(s.c, t); s.kind = K_WOKEN; s.rc = 0; }
}
static void prim_timeout(int t)
{
  TStat& s = S.st[t];
  if(s.kind == K_CONDBLOCKED && s.has_dl && dl_expired(s.dsec, s.dnsec, clock_of(wait_clock(s.clk, s.c), S.now))) { remove_tid(s.c, t); s.kind = K_WOKEN; s.rc = ETIMEDOUT; }
}
static void prim_timeout_steal(int t)
{
  TStat& s = S.st[t];
  if(s.kind == K_WOKEN && s.has_dl && dl_expired(s.dsec, s.dnsec, clock_of(wait_clock(s.clk, s.c), S.now))) s.rc = ETIMEDOUT;
}
static void prim_clock(long long n) { if(n > S.now) S.now = n; }
static void prim_rotate(int c)
{
  if(S.qn[c] == 0) return;
  int h = S.q[c][0];
  for(int i = 1; i < S.qn[c]; ++i) S.q[c][i - 1] = S.q[c][i];
  S.q[c][S.qn[c] - 1] = h;
}

// ---- the real threads and the baton ---------------------------------------------------------------
struct Boot { int tid; void* (*fn)(void*); void* arg; };
static __thread int cur_tid = -1;
static sem_t go[VS_MAXT], ctl;
static int sems_ready;
static pthread_t real_thr[VS_MAXT];
static int real_started[VS_MAXT], real_joined[VS_MAXT], real_finished[VS_MAXT];
static Boot boots[VS_MAXT];
static jmp_buf jb[VS_MAXT];
static volatile int aborting;

static void wait_baton(int t)
{
  while(__real_sem_wait(&go[t]) != 0) {}
  if(aborting) longjmp(jb[t], 1);
}
static void resume(int t)      // controller: let t run until it yields again
{
  __real_sem_post(&go[t]);
  while(__real_sem_wait(&ctl) != 0) {}
}
static long long do_call(int t, const Call& c)   // scenario thread: issue a primitive call
{
  pend[t] = c;
  __real_sem_post(&ctl);
  wait_baton(t);
  return retv[t];
}
static void* tramp(void* p)
{
  Boot* b = (Boot*)p;
  int t = b->tid;
  cur_tid = t;
  if(setjmp(jb[t]) == 0) {
    wait_baton(t);                               // first Run move
    void* ret = b->fn(b->arg);
    S.st[t].kind = K_DONE;                       // prim_exit
    S.st[t].done = (long long)(unsigned)(intptr_t)ret;
    real_finished[t] = 1;
    cur_tid = -1;
    __real_sem_post(&ctl);
  }
  cur_tid = -1;
  return 0;
}
static void spawn_real(int t, void* (*fn)(void*), void* arg)
{
  boots[t].tid = t; boots[t].fn = fn; boots[t].arg = arg;
  pend[t].kind = C_IDLE;
  real_started[t] = 1; real_joined[t] = 0; real_finished[t] = 0;
  int rc = 0;
  for(int attempt = 0; attempt < 200; ++attempt) {          // EAGAIN under load: the host is shared
    rc = __real_pthread_create(&real_thr[t], 0, tramp, &boots[t]);
    if(rc == 0) break;
    struct timespec d = { 0, 20000000 }; nanosleep(&d, 0);
  }
  if(rc != 0) { fprintf(stderr, "detsched: pthread_create failed (%d)\n", rc); _exit(97); }
}

// ---- registry of the library objects' primitives -----------------------------------------------------
static void* reg_m[VS_NM]; static void* reg_c[VS_NC]; static void* reg_s[VS_NS];
static int find_in(void** reg, int n, void* a) { for(int i = 0; i < n; ++i) if(reg[i] == a) return i; return -1; }

// ---- which primitives have been initialised (wrapped *_init / *_destroy) ------------------------------------
struct InitRec { void* addr; char kind; int clk; };
static InitRec inited[64]; static int inited_next;
static int uninit_mask;                            // bit k: k-th registered primitive of the case was never initialised
static void note_init(void* a, char kind, int clk)
{
  for(int i = 0; i < 64; ++i) if(inited[i].addr == a) { inited[i].kind = kind; inited[i].clk = clk; return; }
  // a free slot first (round 6: the records of objects with static storage duration live as long as the process and must not
  // be overwritten by the ring), the ring only when the table is full
  for(int i = 0; i < 64; ++i) if(inited[i].addr == 0) { inited[i].addr = a; inited[i].kind = kind; inited[i].clk = clk; return; }
  inited[inited_next].addr = a; inited[inited_next].kind = kind; inited[inited_next].clk = clk;
  inited_next = (inited_next + 1) % 64;
}
static int note_destroy(void* a)                   // 0: was never initialised (the real destroy must not touch it)
{
  int found = 0;
  for(int i = 0; i < 64; ++i) if(inited[i].addr == a) { inited[i].addr = 0; found = 1; }
  return found;
}
static const InitRec* find_init(void* a, char kind)
{
  for(int i = 0; i < 64; ++i) if(inited[i].addr == a && inited[i].kind == kind) return &inited[i];
  return 0;
}

// ---- failing pthread_create (round 6) ------------------------------------------------------------------
// POSIX: after a failed pthread_create the contents of *thread are undefined; glibc has stored the descriptor it then frees.
// The virtual pthread_create does the same on EVERY failure: it writes the handle of a thread that has exited and been joined.
static int fail_next_create, stale_ready, stale_joins;
static pthread_t stale_thr;
static void* stale_nop(void*) { return 0; }
static void stale_cleanup(void) { __real_pthread_join(stale_thr, 0); }
static pthread_t stale_handle(void)
{
  if(!stale_ready) {
    // the thread exits at once but is joined only at process exit, so that glibc cannot hand the same descriptor to a later
    // thread of the scheduler: for the library the handle is as dangling as glibc's, for the scheduler it is unambiguous
    if(__real_pthread_create(&stale_thr, 0, stale_nop, 0) == 0) atexit(stale_cleanup);
    else memset(&stale_thr, 0x5a, sizeof(stale_thr));
    stale_ready = 1;
  }
  return stale_thr;
}
static int is_stale(pthread_t thr)
{
  if(!stale_ready || !pthread_equal(thr, stale_thr)) return 0;
  for(int i = 0; i < VS_MAXT; ++i) if(real_started[i] && !real_joined[i] && pthread_equal(real_thr[i], thr)) return 0;   // handle reused by a live thread
  return 1;
}

// ---- capture mode -------------------------------------------------------------------------------------
static int capture_on, captured;
static long long cap_sec, cap_nsec, got_sec, got_nsec;
static int got_clk;                                // clock the captured abstime is measured against

extern "C" {

void vs_reset(int n)
{
  if(!sems_ready) { for(int i = 0; i < VS_MAXT; ++i) __real_sem_init(&go[i], 0, 0); __real_sem_init(&ctl, 0, 0); sems_ready = 1; }
  for(int i = 0; i < VS_NC; ++i) cond_clk[i] = CLOCK_REALTIME;
  uninit_mask = 0;
  memset(&S, 0, sizeof(S));
  for(int m = 0; m < VS_NM; ++m) S.mtx[m].owner = -1;
  for(int t = 0; t < VS_MAXT; ++t) { S.st[t].kind = K_NOTSTARTED; pend[t].kind = C_IDLE; retv[t] = 0; real_started[t] = 0; real_joined[t] = 0; real_finished[t] = 0; }
  for(int i = 0; i < VS_NM; ++i) reg_m[i] = 0;
  for(int i = 0; i < VS_NC; ++i) reg_c[i] = 0;
  for(int i = 0; i < VS_NS; ++i) reg_s[i] = 0;
  nthr = n;
  aborting = 0;
}
void vs_reg_mutex(void* a, int idx)
{
  reg_m[idx] = a;
  if(!find_init(a, 'm')) uninit_mask |= 1 << idx;
  int kind = ((pthread_mutex_t*)a)->__data.__kind & 127;       // glibc: the type given by the attribute
  S.mtx[idx].rec = kind == PTHREAD_MUTEX_RECURSIVE;
}
void vs_reg_cond(void* a, int idx)
{
  reg_c[idx] = a;
  const InitRec* r = find_init(a, 'c');
  if(r) cond_clk[idx] = r->clk; else uninit_mask |= 1 << (VS_NM + idx);
}
void vs_reg_sem(void* a, int idx)
{
  reg_s[idx] = a;
  if(!find_init(a, 's')) { uninit_mask |= 1 << (VS_NM + VS_NC + idx); S.sem[idx] = 0; return; }
  int v = 0; sem_getvalue((sem_t*)a, &v); S.sem[idx] = v;
}
int vs_uninit(void) { return uninit_mask; }
int vs_cond_clock(int idx) { return cond_clk[idx]; }
void vs_spawn(int t, void* (*fn)(void*), void* arg) { S.st[t].kind = K_RUN; spawn_real(t, fn, arg); }

void vs_teardown(void)
{
  aborting = 1;
  for(int t = 0; t < VS_MAXT; ++t)
    if(real_started[t] && !real_joined[t]) {
      if(!real_finished[t]) __real_sem_post(&go[t]);
      __real_pthread_join(real_thr[t], 0);
      real_joined[t] = 1;
    }
  for(int i = 0; i < VS_MAXT; ++i) { __real_sem_destroy(&go[i]); __real_sem_init(&go[i], 0, 0); }
  __real_sem_destroy(&ctl); __real_sem_init(&ctl, 0, 0);
  for(int i = 0; i < VS_NM; ++i) reg_m[i] = 0;
  for(int i = 0; i < VS_NC; ++i) reg_c[i] = 0;
  for(int i = 0; i < VS_NS; ++i) reg_s[i] = 0;
}

// ---- moves (SyncModel.step restricted to what is primitive; the library code itself is the real one) ----
void vs_move_run(int t)
{
  if(t < 0 || t >= VS_MAXT || !runnable(S.st[t])) return;
  long long r;
  int o = prim_step(t, pend[t], &r);
  if(o == O_RETURN) { retv[t] = r; resume(t); }
}
void vs_move_spur(int t)
{
  if(t < 0 || t >= VS_MAXT) return;
  if(S.st[t].kind == K_CONDBLOCKED) prim_spurious(t);
  else if(S.st[t].kind == K_RUN && pend[t].kind == C_SEMWAIT) { retv[t] = EINTR; resume(t); }   // sem_(timed)wait interrupted
}
void vs_move_tmo(int t)
{
  if(t < 0 || t >= VS_MAXT) return;
  if(S.st[t].kind == K_CONDBLOCKED) prim_timeout(t);
  else if(S.st[t].kind == K_RUN && pend[t].kind == C_SEMWAIT && pend[t].has_dl
          && dl_valid(pend[t].dnsec) && call_expired(pend[t])) { retv[t] = ETIMEDOUT; resume(t); }
  else if(S.st[t].kind == K_RUN && (pend[t].kind == C_LOCK || pend[t].kind == C_JOIN) && pend[t].has_dl) vs_move_run(t);   // timed lock / join: prim_step decides
}
void vs_move_steal(int t)
{
  if(t < 0 || t >= VS_MAXT) return;
  prim_timeout_steal(t);
}
void vs_move_clock(long long n) { prim_clock(n); }
void vs_move_rot(int c) { if(c >= 0 && c < VS_NC) prim_rotate(c); }

void vs_fail_next_create(int on) { fail_next_create = on; }
int vs_stale_joins(void) { return stale_joins; }

void vs_idle(void)
{
  int t = cur_tid;
  Call c; memset(&c, 0, sizeof(c)); c.kind = C_IDLE; c.clk = -1;
  do_call(t, c);
}
int vs_self(void) { return cur_tid; }
int vs_pending(int t, int* idx)                    // 0 idle, 1 lock, 2 trylock, 3 unlock, 4 condwait, 5 signal, ... (enum C_*)
{
  if(t < 0 || t >= VS_MAXT) return -1;
  if(idx) *idx = pend[t].a;
  return pend[t].kind;
}
long long vs_now(void) { return S.now; }

int vs_enabled(int t)
{
  if(!runnable(S.st[t])) return 0;
  VState save = S;
  long long r;
  int o = prim_step(t, pend[t], &r);
  S = save;
  return o != O_BLOCKED;
}
int vs_runnable_or_blocked(int t) { return S.st[t].kind != K_NOTSTARTED && S.st[t].kind != K_DONE; }
int vs_timed(int t, long long* sec, long long* nsec)
{
  const TStat& s = S.st[t];
  int clk = CLOCK_REALTIME, found = 0;
  if(s.kind == K_CONDBLOCKED && s.has_dl) { *sec = s.dsec; *nsec = s.dnsec; clk = wait_clock(s.clk, s.c); found = 1; }
  else if(s.kind == K_RUN && (pend[t].kind == C_SEMWAIT || pend[t].kind == C_LOCK || pend[t].kind == C_JOIN) && pend[t].has_dl && dl_valid(pend[t].dnsec))
    { *sec = pend[t].dsec; *nsec = pend[t].dnsec; clk = call_clock(pend[t]); found = 1; }
  if(found && clk != CLOCK_REALTIME) {             // the instant of `now` at which clock_of(...) reaches the deadline
    __int128 tot = ((__int128)*sec * NSQ + *nsec) * 3;
    *sec = (long long)(tot / NSQ); *nsec = (long long)(tot % NSQ);
  }
  return found;
}

void vs_fmt_thread(int t, char* buf, int cap)
{
  const TStat& s = S.st[t];
  char stat[48], pd[96], dl[64];
  switch(s.kind) {
  case K_NOTSTARTED: strcpy(stat, "N"); break;
  case K_RUN: strcpy(stat, "R"); break;
  case K_CONDBLOCKED: snprintf(stat, sizeof(stat), "C%d", s.c); break;
  case K_WOKEN: snprintf(stat, sizeof(stat), "W%lld", s.rc); break;
  case K_DONE: snprintf(stat, sizeof(stat), "D%lld", s.done); break;
  default: strcpy(stat, "F"); break;
  }
  const Call& c = pend[t];
  dl[0] = 0;
  if(c.has_dl && c.clk >= 0) snprintf(dl, sizeof(dl), "@%lld.%lld%%%d", c.dsec, c.dnsec, c.clk);
  else if(c.has_dl) snprintf(dl, sizeof(dl), "@%lld.%lld", c.dsec, c.dnsec);
  if(s.kind == K_NOTSTARTED || s.kind == K_DONE || s.kind == K_FAULT) strcpy(pd, "-");
  else switch(c.kind) {
  case C_IDLE: strcpy(pd, "idle"); break;
  case C_LOCK: snprintf(pd, sizeof(pd), "lock%d%s", c.a, dl); break;
  case C_TRY: snprintf(pd, sizeof(pd), "try%d", c.a); break;
  case C_UNLOCK: snprintf(pd, sizeof(pd), "unlock%d", c.a); break;
  case C_CONDWAIT: snprintf(pd, sizeof(pd), "cw%d.%d%s", c.a, c.b, dl); break;
  case C_SIGNAL: snprintf(pd, sizeof(pd), "sig%d", c.a); break;
  case C_BCAST: snprintf(pd, sizeof(pd), "bc%d", c.a); break;
  case C_SEMWAIT: snprintf(pd, sizeof(pd), "sw%d%s", c.a, dl); break;
  case C_SEMTRY: snprintf(pd, sizeof(pd), "st%d", c.a); break;
  case C_SEMPOST: snprintf(pd, sizeof(pd), "post%d", c.a); break;
  case C_CREATE: snprintf(pd, sizeof(pd), "create%d", c.a); break;
  case C_JOIN: snprintf(pd, sizeof(pd), "%sjoin%d%s", c.b ? "t" : "", c.a, dl); break;
  default: strcpy(pd, "?"); break;
  }
  snprintf(buf, cap, "%s:%s:%s", stat, pd, vs_enabled(t) ? "e" : "b");
}
void vs_fmt_prims(char* buf, int cap)
{
  int n = snprintf(buf, cap, "sem=%lld", S.sem[0]);
  for(int m = 0; m < VS_NM; ++m) {
    if(S.mtx[m].owner < 0) n += snprintf(buf + n, cap - n, " o%d=-", m);
    else n += snprintf(buf + n, cap - n, " o%d=%dx%d", m, S.mtx[m].owner, S.mtx[m].cnt);
  }
  for(int c = 0; c < VS_NC; ++c) {
    n += snprintf(buf + n, cap - n, " q%d=", c);
    if(S.qn[c] == 0) n += snprintf(buf + n, cap - n, "-");
    for(int i = 0; i < S.qn[c]; ++i) n += snprintf(buf + n, cap - n, "%s%d", i ? "," : "", S.q[c][i]);
  }
  n += snprintf(buf + n, cap - n, " now=%lld", S.now);
  for(int c = 0; c < VS_NC; ++c) if(cond_clk[c] != CLOCK_REALTIME) n += snprintf(buf + n, cap - n, " clk%d=%d", c, cond_clk[c]);
}

void vs_capture(int on, long long sec, long long nsec) { capture_on = on; cap_sec = sec; cap_nsec = nsec; captured = 0; got_clk = CLOCK_REALTIME; }
int vs_captured(long long* sec, long long* nsec) { *sec = got_sec; *nsec = got_nsec; return captured; }
int vs_captured_clock(void) { return got_clk; }

// ---- scripted clock (E5: the executable's definition interposes libc for the statically linked libnstd) ----
int clock_gettime(clockid_t id, struct timespec* ts)
{
  if(capture_on && cur_tid < 0) {
    if(id == CLOCK_REALTIME) { ts->tv_sec = (time_t)cap_sec; ts->tv_nsec = (long)cap_nsec; return 0; }
    long long v = (long long)(((__int128)cap_sec * NSQ + cap_nsec) / 3);       // another clock: another epoch
    ts->tv_sec = (time_t)(v / NSQ); ts->tv_nsec = (long)(v % NSQ); return 0;
  }
  if(cur_tid >= 0) { long long v = clock_of((int)id, S.now); ts->tv_sec = (time_t)(v / NSQ); ts->tv_nsec = (long)(v % NSQ); return 0; }
  typedef int (*fn_t)(clockid_t, struct timespec*);
  static fn_t real;
  if(!real) real = (fn_t)dlsym(RTLD_NEXT, "clock_gettime");
  return real(id, ts);
}

// ---- the wrapped primitives ---------------------------------------------------------------------------
static Call mk(int kind, int a, int b, const struct timespec* ts)
{
  Call c; memset(&c, 0, sizeof(c)); c.kind = kind; c.a = a; c.b = b; c.clk = -1;
  if(ts) { c.has_dl = 1; c.dsec = (long long)ts->tv_sec; c.dnsec = (long long)ts->tv_nsec; }
  return c;
}
static void capture_ts(const struct timespec* ts) { got_sec = (long long)ts->tv_sec; got_nsec = (long long)ts->tv_nsec; captured = 1; }
static Call mkc(int kind, int a, int b, const struct timespec* ts, clockid_t clk) { Call c = mk(kind, a, b, ts); c.clk = (int)clk; return c; }

int __wrap_pthread_mutex_lock(pthread_mutex_t* m)
{
  int i;
  if(cur_tid < 0) return capture_on ? 0 : __real_pthread_mutex_lock(m);
  if((i = find_in(reg_m, VS_NM, m)) < 0) return __real_pthread_mutex_lock(m);
  return (int)do_call(cur_tid, mk(C_LOCK, i, 0, 0));
}
int __wrap_pthread_mutex_timedlock(pthread_mutex_t* m, const struct timespec* ts)
{
  int i;
  if(cur_tid < 0) return capture_on ? 0 : __real_pthread_mutex_timedlock(m, ts);
  if((i = find_in(reg_m, VS_NM, m)) < 0) return __real_pthread_mutex_timedlock(m, ts);
  return (int)do_call(cur_tid, mk(C_LOCK, i, 0, ts));
}
int __wrap_pthread_mutex_clocklock(pthread_mutex_t* m, clockid_t clk, const struct timespec* ts)
{
  int i;
  if(cur_tid < 0) return capture_on ? 0 : __real_pthread_mutex_clocklock(m, clk, ts);
  if((i = find_in(reg_m, VS_NM, m)) < 0) return __real_pthread_mutex_clocklock(m, clk, ts);
  return (int)do_call(cur_tid, mkc(C_LOCK, i, 0, ts, clk));
}
int __wrap_pthread_mutex_trylock(pthread_mutex_t* m)
{
  int i;
  if(cur_tid < 0) return capture_on ? 0 : __real_pthread_mutex_trylock(m);
  if((i = find_in(reg_m, VS_NM, m)) < 0) return __real_pthread_mutex_trylock(m);
  return (int)do_call(cur_tid, mk(C_TRY, i, 0, 0));
}
int __wrap_pthread_mutex_unlock(pthread_mutex_t* m)
{
  int i;
  if(cur_tid < 0) return capture_on ? 0 : __real_pthread_mutex_unlock(m);
  if((i = find_in(reg_m, VS_NM, m)) < 0) return __real_pthread_mutex_unlock(m);
  return (int)do_call(cur_tid, mk(C_UNLOCK, i, 0, 0));
}
int __wrap_pthread_cond_wait(pthread_cond_t* c, pthread_mutex_t* m)
{
  int i, j;
  if(cur_tid < 0) return capture_on ? 0 : __real_pthread_cond_wait(c, m);
  if((i = find_in(reg_c, VS_NC, c)) < 0 || (j = find_in(reg_m, VS_NM, m)) < 0) return __real_pthread_cond_wait(c, m);
  return (int)do_call(cur_tid, mk(C_CONDWAIT, i, j, 0));
}
int __wrap_pthread_cond_timedwait(pthread_cond_t* c, pthread_mutex_t* m, const struct timespec* ts)
{
  int i, j;
  if(cur_tid < 0) {
    if(capture_on) { capture_ts(ts); const InitRec* ir = find_init(c, 'c'); if(ir) got_clk = ir->clk; return ETIMEDOUT; }
    return __real_pthread_cond_timedwait(c, m, ts);
  }
  if((i = find_in(reg_c, VS_NC, c)) < 0 || (j = find_in(reg_m, VS_NM, m)) < 0) return __real_pthread_cond_timedwait(c, m, ts);
  return (int)do_call(cur_tid, mk(C_CONDWAIT, i, j, ts));
}
int __wrap_pthread_cond_clockwait(pthread_cond_t* c, pthread_mutex_t* m, clockid_t clk, const struct timespec* ts)
{
  int i, j;
  if(cur_tid < 0) { if(capture_on) { capture_ts(ts); got_clk = (int)clk; return ETIMEDOUT; } return __real_pthread_cond_clockwait(c, m, clk, ts); }
  if((i = find_in(reg_c, VS_NC, c)) < 0 || (j = find_in(reg_m, VS_NM, m)) < 0) return __real_pthread_cond_clockwait(c, m, clk, ts);
  return (int)do_call(cur_tid, mkc(C_CONDWAIT, i, j, ts, clk));
}
int __wrap_pthread_cond_signal(pthread_cond_t* c)
{
  int i;
  if(cur_tid < 0) return capture_on ? 0 : __real_pthread_cond_signal(c);
  if((i = find_in(reg_c, VS_NC, c)) < 0) return __real_pthread_cond_signal(c);
  return (int)do_call(cur_tid, mk(C_SIGNAL, i, 0, 0));
}
int __wrap_pthread_cond_broadcast(pthread_cond_t* c)
{
  int i;
  if(cur_tid < 0) return capture_on ? 0 : __real_pthread_cond_broadcast(c);
  if((i = find_in(reg_c, VS_NC, c)) < 0) return __real_pthread_cond_broadcast(c);
  return (int)do_call(cur_tid, mk(C_BCAST, i, 0, 0));
}
int __wrap_pthread_mutex_init(pthread_mutex_t* m, const pthread_mutexattr_t* a)
{
  int rc = __real_pthread_mutex_init(m, a);
  if(rc == 0) note_init(m, 'm', 0);
  return rc;
}
int __wrap_pthread_mutex_destroy(pthread_mutex_t* m) { return note_destroy(m) ? __real_pthread_mutex_destroy(m) : 0; }
int __wrap_pthread_cond_init(pthread_cond_t* c, const pthread_condattr_t* a)
{
  int rc = __real_pthread_cond_init(c, a);
  clockid_t ck = CLOCK_REALTIME;
  if(a) pthread_condattr_getclock(a, &ck);
  if(rc == 0) note_init(c, 'c', (int)ck);
  return rc;
}
int __wrap_pthread_cond_destroy(pthread_cond_t* c) { return note_destroy(c) ? __real_pthread_cond_destroy(c) : 0; }
int __wrap_sem_init(sem_t* s, int pshared, unsigned v)
{
  int rc = __real_sem_init(s, pshared, v);
  if(rc == 0) note_init(s, 's', 0);
  return rc;
}
int __wrap_sem_destroy(sem_t* s) { return note_destroy(s) ? __real_sem_destroy(s) : 0; }
static int sem_result(long long r) { if(r != 0) { errno = (int)r; return -1; } return 0; }
int __wrap_sem_wait(sem_t* s)
{
  int i;
  if(cur_tid < 0 || (i = find_in(reg_s, VS_NS, s)) < 0) return __real_sem_wait(s);
  return sem_result(do_call(cur_tid, mk(C_SEMWAIT, i, 0, 0)));
}
int __wrap_sem_trywait(sem_t* s)
{
  int i;
  if(cur_tid < 0 || (i = find_in(reg_s, VS_NS, s)) < 0) return __real_sem_trywait(s);
  return sem_result(do_call(cur_tid, mk(C_SEMTRY, i, 0, 0)));
}
int __wrap_sem_timedwait(sem_t* s, const struct timespec* ts)
{
  int i;
  if(cur_tid < 0) { if(capture_on) { capture_ts(ts); errno = ETIMEDOUT; return -1; } return __real_sem_timedwait(s, ts); }
  if((i = find_in(reg_s, VS_NS, s)) < 0) return __real_sem_timedwait(s, ts);
  return sem_result(do_call(cur_tid, mk(C_SEMWAIT, i, 0, ts)));
}
int __wrap_sem_clockwait(sem_t* s, clockid_t clk, const struct timespec* ts)
{
  int i;
  if(cur_tid < 0) { if(capture_on) { capture_ts(ts); got_clk = (int)clk; errno = ETIMEDOUT; return -1; } return __real_sem_clockwait(s, clk, ts); }
  if((i = find_in(reg_s, VS_NS, s)) < 0) return __real_sem_clockwait(s, clk, ts);
  return sem_result(do_call(cur_tid, mkc(C_SEMWAIT, i, 0, ts, clk)));
}
int __wrap_sem_post(sem_t* s)
{
  int i;
  if(cur_tid < 0 || (i = find_in(reg_s, VS_NS, s)) < 0) return __real_sem_post(s);
  return sem_result(do_call(cur_tid, mk(C_SEMPOST, i, 0, 0)));
}
int __wrap_pthread_create(pthread_t* thr, const pthread_attr_t* attr, void* (*fn)(void*), void* arg)
{
  if(cur_tid < 0) return __real_pthread_create(thr, attr, fn, arg);
  if(fail_next_create) {                           // scripted failure (model: ThStartF): nothing is created, no scheduling point
    fail_next_create = 0;
    *thr = stale_handle();
    return EAGAIN;
  }
  int ch = vh_tid_of_arg(arg);
  long long r = do_call(cur_tid, mk(C_CREATE, ch, 0, 0));
  if(r != 0) { *thr = stale_handle(); return (int)r; }
  spawn_real(ch, fn, arg);                       // the virtual thread is TRun; the real one waits for its first Run move
  *thr = real_thr[ch];
  // second scheduling point (model: ThStartRet, pending call = yield): pthread_create has succeeded and has not yet
  // returned to the creator - the child may be scheduled before the creator's code that follows the call
  do_call(cur_tid, mk(C_IDLE, 0, 0, 0));
  return 0;
}
int __wrap_pthread_join(pthread_t thr, void** retval)
{
  if(aborting) return 0;                         // teardown: the scheduler joins the real threads itself
  if(cur_tid < 0) return __real_pthread_join(thr, retval);
  if(is_stale(thr)) {                              // a handle left by a failed pthread_create: joining it is undefined - reported, not executed
    ++stale_joins;
    if(retval) *retval = (void*)(intptr_t)0xBADBAD;
    return ESRCH;
  }
  int ch = -1;
  for(int i = 0; i < VS_MAXT; ++i) if(real_started[i] && !real_joined[i] && pthread_equal(real_thr[i], thr)) ch = i;
  if(ch < 0) for(int i = 0; i < VS_MAXT; ++i) if(real_started[i] && pthread_equal(real_thr[i], thr)) ch = i;
  if(ch < 0) return __real_pthread_join(thr, retval);
  long long r = do_call(cur_tid, mk(C_JOIN, ch, 0, 0));
  if(!real_joined[ch]) { __real_pthread_join(real_thr[ch], 0); real_joined[ch] = 1; }
  if(retval) *retval = (void*)(intptr_t)r;
  return 0;
}
// try / timed / clock joins (outside Sched.v): the join that gives up; prim_step reports errors as negative values
static int join_variant(pthread_t thr, void** retval, int is_try, const struct timespec* ts, int clk, int* handled)
{
  *handled = 0;
  if(aborting) { *handled = 1; return 0; }
  if(cur_tid < 0) return 0;
  if(is_stale(thr)) { ++stale_joins; *handled = 1; if(retval) *retval = (void*)(intptr_t)0xBADBAD; return ESRCH; }
  int ch = -1;
  for(int i = 0; i < VS_MAXT; ++i) if(real_started[i] && !real_joined[i] && pthread_equal(real_thr[i], thr)) ch = i;
  if(ch < 0) for(int i = 0; i < VS_MAXT; ++i) if(real_started[i] && pthread_equal(real_thr[i], thr)) ch = i;
  if(ch < 0) return 0;
  *handled = 1;
  Call c = mk(C_JOIN, ch, is_try, ts); c.clk = clk;
  long long r = do_call(cur_tid, c);
  if(r < 0) return (int)-r;
  if(!real_joined[ch]) { __real_pthread_join(real_thr[ch], 0); real_joined[ch] = 1; }
  if(retval) *retval = (void*)(intptr_t)r;
  return 0;
}
int __wrap_pthread_tryjoin_np(pthread_t thr, void** retval)
{
  int h, rc = join_variant(thr, retval, 1, 0, -1, &h);
  return h ? rc : __real_pthread_tryjoin_np(thr, retval);
}
int __wrap_pthread_timedjoin_np(pthread_t thr, void** retval, const struct timespec* ts)
{
  int h, rc = join_variant(thr, retval, 0, ts, -1, &h);
  return h ? rc : __real_pthread_timedjoin_np(thr, retval, ts);
}
int __wrap_pthread_clockjoin_np(pthread_t thr, void** retval, clockid_t clk, const struct timespec* ts)
{
  int h, rc = join_variant(thr, retval, 0, ts, (int)clk, &h);
  return h ? rc : __real_pthread_clockjoin_np(thr, retval, clk, ts);
}

} // extern "C"
