// Correspondence harness for C09.
//
// Sequential part: drives real String / Variant / RefCount::Ptr / Xml::Variant variables through
// handle histories and prints, after every operation, each variable's CONTENTS (the characters of a
// String, the integers held by a Variant container, the texts of the children of an Xml element; T::n
// and the object's serial number for Ptr), the number of live payload blocks, the number of payload
// releases, the sharing classes and the reference counters.
// String also has `resize v n` (resize(min(n, length))) and `reserve v n`, the write accesses that reach
// detach(.., minCapacity) with minCapacity = 0.
// Payload blocks are counted by ASan's malloc/free hooks inside the window of the library call
// (String, Variant, Xml::Variant) or by the pointee's constructor/destructor (Ptr).  EVERY other
// allocation made inside a window (list item blocks, hash tables, array buffers, nested strings,
// child payloads) goes to a second ledger; after every operation that ledger must hold exactly the
// blocks reachable from the live payloads (`aux=ok`), so a release that skips the payload destructor
// shows at once.
// Case configuration: `<flavour> [kind]`, flavour = str | var | ptr | xml (prefix c: concurrent),
// kind = list | map | array | string (var), element | text (xml), plain | conv (ptr: copy / assign go
// through Ptr<Derived> and the converting constructor / assignment).
//
// Flavour `nest` (rc_nest.cpp): RefCount::Ptr handles to a pointee type that owns a handle itself; locations
// <variable, depth>, assignment / reset / copy through member handles, cascading release.
//
// Concurrent part (flavours cstr / cvar / cptr / cxml): real threads, each owning its own handle
// variables, some of which refer to one common payload.  Every atomic operation of the library
// (`__sync_add_and_fetch`, the only builtin Atomic::increment/decrement use) is bracketed by two
// scheduling points.  `go <tid...>`: the threads pass a baton, the listed thread ids decide who
// runs after each scheduling point; the harness records the ACCESS TRACE of the run: one event
// `<tid><kind><value>` per access of the library it can observe, in the order in which the threads
// made them (only one thread runs at a time):
//   r<n>  the counter of the handle's block, read as a write access / clear() is entered
//   i<n>  Atomic::increment of a payload counter returned n        d<n>  Atomic::decrement returned n
//   a     a payload block was allocated                             f     a payload block was released
//   c     Memory::copy out of a payload block (String) / first allocation made while the container is
//         copy-constructed from the old payload (Variant, Xml::Variant)
//   w<c>  the call returned with the handle still on the same block: modified in place, contents c
// The OCaml driver replays this trace through the Coq machine (RcConc.replay), which accepts an event
// only if it is the machine's next observable access of that thread with that result.
// `free <n>`: n repetitions with the threads running freely after a common start signal (no trace).
// After the join the same observation as in the sequential part is printed, then every handle left is
// destroyed and the number of blocks still allocated is printed (`after=`).
#include "vh.hpp"
#include <pthread.h>
#include <semaphore.h>
#include <sched.h>

extern "C" void verif_point(void);
extern "C" void verif_atomic(const volatile void* p, long long v, unsigned long long r);
template <class T, class V> static inline T verif_aaf(T volatile* p, V v)
{
  verif_point();
  T r = __sync_add_and_fetch(p, v);
  verif_atomic((const volatile void*)p, (long long)v, (unsigned long long)r);
  verif_point();
  return r;
}
#define __sync_add_and_fetch(p, v) verif_aaf(p, v)
// compare-and-swap / exchange: scheduling points before and after (no trace event of their own).  A counter update
// assembled from a plain read and a compare-and-swap can then be interleaved between its two halves, so a lost update
// shows in the end state (payload never released / released twice) of an explicit schedule.
template <class T, class U, class V> static inline T verif_vcas(T volatile* p, U o, V n)
{ verif_point(); T r = __sync_val_compare_and_swap(p, (T)o, (T)n); verif_point(); return r; }
template <class T, class U, class V> static inline bool verif_bcas(T volatile* p, U o, V n)
{ verif_point(); bool r = __sync_bool_compare_and_swap(p, (T)o, (T)n); verif_point(); return r; }
template <class T, class V> static inline T verif_tas(T volatile* p, V n)
{ verif_point(); T r = __sync_lock_test_and_set(p, (T)n); verif_point(); return r; }
template <class T, class V> static inline T verif_xchg(T volatile* p, V n, int order)
{ verif_point(); T r = __atomic_exchange_n(p, (T)n, order); verif_point(); return r; }
template <class T, class V> static inline bool verif_cmpxchg(T volatile* p, T* e, V n, bool weak, int so, int fo)
{ verif_point(); bool r = __atomic_compare_exchange_n(p, e, (T)n, weak, so, fo); verif_point(); return r; }
#define __sync_val_compare_and_swap(p, o, n) verif_vcas(p, o, n)
#define __sync_bool_compare_and_swap(p, o, n) verif_bcas(p, o, n)
#define __sync_lock_test_and_set(p, n) verif_tas(p, n)
#define __atomic_exchange_n(p, n, order) verif_xchg(p, n, order)
#define __atomic_compare_exchange_n(p, e, n, w, so, fo) verif_cmpxchg(p, e, n, w, so, fo)
// the same counter updates written with the __sync_* / __atomic_* read-modify-write builtins of the other spellings
// (value after, value before): still one atomic step bracketed by two scheduling points and one trace event.
// An Atomic.hpp that counts by other means gives no scheduling points: a `go` run then executes the threads one
// after the other, its trace has no counter events and the model driver reports it as not replayable
// (a break of the correspondence, not of the property); the free-running cases keep their end-state oracle.
#define __sync_sub_and_fetch(p, v) verif_aaf(p, -(v))
#define __sync_fetch_and_add(p, v) (verif_aaf(p, v) - (v))
#define __sync_fetch_and_sub(p, v) (verif_aaf(p, -(v)) + (v))
#define __atomic_add_fetch(p, v, order) verif_aaf(p, v)
#define __atomic_sub_fetch(p, v, order) verif_aaf(p, -(v))
#define __atomic_fetch_add(p, v, order) (verif_aaf(p, v) - (v))
#define __atomic_fetch_sub(p, v, order) (verif_aaf(p, -(v)) + (v))

#define private public
#define protected public
#include <nstd/String.hpp>
#include <nstd/Variant.hpp>
#include <nstd/RefCount.hpp>
#include <nstd/Document/Xml.hpp>
#undef private
#undef protected
#undef __sync_sub_and_fetch
#undef __sync_fetch_and_add
#undef __sync_fetch_and_sub
#undef __atomic_add_fetch
#undef __atomic_sub_fetch
#undef __atomic_fetch_add
#undef __atomic_fetch_sub
#undef __sync_val_compare_and_swap
#undef __sync_bool_compare_and_swap
#undef __sync_lock_test_and_set
#undef __atomic_exchange_n
#undef __atomic_compare_exchange_n

extern "C" int __sanitizer_install_malloc_and_free_hooks(void (*malloc_hook)(const volatile void*, size_t),
                                                         void (*free_hook)(const volatile void*));

enum { MAXLEN = 100 };
enum { NV = 6, MAXTH = 4, NSLOT = NV * MAXTH, MAXT = 65536, MAXPROG = 64, MAXSCHED = 4096, MAXTRACE = 1 << 16 };
enum Flav { STR, VAR, PTR, XML };
enum Kind { K_LIST, K_MAP, K_ARRAY, K_STRING, K_ELEMENT, K_TEXT, K_PLAIN, K_CONV };
typedef Xml::Variant XV;
static Flav flav;
static Kind kind;
static bool conc;
// flavour `nest` (handles stored inside payloads) lives in rc_nest.cpp
static bool nest;
static bool strx;      // flavour strx: String with uncounted data (attach, literals) and the modifiers built from other calls
void nest_begin(const char* kind);
void nest_op(long c, vh::Tok& t);
void nest_end(long c);

// ---- access trace (baton mode only: one thread runs at a time) -------------------------------------
static int g_mode = 0;                   // 0: no scheduling, 1: baton passing, 2: free running
static __thread int g_me = -1;
static char g_trace[MAXTRACE]; static int g_ntrace; static bool g_trace_overflow;
static __thread bool op_alloc_seen, op_copy_seen;
static void tr(char k, const char* arg)
{
  if(g_mode != 1 || g_me < 0) return;
  int n = (int)strlen(arg);
  if(g_ntrace + n + 4 >= MAXTRACE) { g_trace_overflow = true; return; }
  g_ntrace += sprintf(g_trace + g_ntrace, " %d%c%s", g_me, k, arg);
}
static void trn(char k, unsigned long long v) { char b[32]; sprintf(b, "%llu", v); tr(k, b); }
static unsigned long long ref_of(int x);

// ---- ledgers ------------------------------------------------------------------------------------
// window: 0 none, 1 the library call under test, 2 modification of the payload through the reference
// the call returned, 3 temporaries of the harness.  main ledger: payload blocks; aux ledger: everything else
// allocated in a window.
// Which block is a payload block is decided by PROVENANCE, not by size: String - every allocation made inside the
// library call (String allocates nothing else); Variant / Xml::Variant - the block the handle the call was made on
// refers to when the call returns (settle()).  While the call runs, its first allocation is booked as the payload block
// (the order in which the write accessors and value assignments allocate; the concurrent access trace needs the
// event at the time it happens); settle() corrects the booking by address.
static __thread int g_win = 0;
static bool g_by_addr = false;            // Variant, Xml::Variant
struct Blk { const volatile void* p; size_t n; unsigned long seq; int tid; };      // tid: the thread that allocated it
static Blk g_tab[MAXT]; static int g_ntab = 0;
static Blk g_aux[MAXT]; static int g_naux = 0;
static long g_frees = 0;
static unsigned long g_seq = 0;
static __thread unsigned long g_call_first;       // blocks with seq >= g_call_first were allocated by the call in progress
static pthread_mutex_t g_lock = PTHREAD_MUTEX_INITIALIZER;

static void on_malloc(const volatile void* p, size_t n)
{
  if(!g_win) return;
  bool main = g_win == 1 && (!g_by_addr || !op_alloc_seen);
  pthread_mutex_lock(&g_lock);
  unsigned long seq = ++g_seq;
  if(main) { if(g_ntab < MAXT) { g_tab[g_ntab].p = p; g_tab[g_ntab].seq = seq; g_tab[g_ntab].tid = g_me; g_tab[g_ntab++].n = n; } }
  else if(g_naux < MAXT) { g_aux[g_naux].p = p; g_aux[g_naux].seq = seq; g_aux[g_naux].tid = g_me; g_aux[g_naux++].n = n; }
  pthread_mutex_unlock(&g_lock);
  if(main) { tr('a', ""); op_alloc_seen = true; }
  else if(g_win == 1 && op_alloc_seen && !op_copy_seen) { op_copy_seen = true; tr('c', ""); }
}
static void on_free(const volatile void* p)
{
  if(!p) return;
  bool main = false;
  pthread_mutex_lock(&g_lock);
  for(int i = g_ntab - 1; i >= 0; --i)
    if(g_tab[i].p == p) { g_tab[i] = g_tab[--g_ntab]; ++g_frees; main = true; break; }
  if(!main)
    for(int i = g_naux - 1; i >= 0; --i)
      if(g_aux[i].p == p) { g_aux[i] = g_aux[--g_naux]; break; }
  pthread_mutex_unlock(&g_lock);
  if(main) tr('f', "");
}
// a library call on handle(s) of the slots [lo, hi) begins / has returned
static void begin_call() { op_alloc_seen = op_copy_seen = false; pthread_mutex_lock(&g_lock); g_call_first = g_seq + 1; pthread_mutex_unlock(&g_lock); }
static const void* payload_of(int x);
static bool live[NSLOT];
static void settle(int lo, int hi)
{
  if(!g_by_addr) return;
  pthread_mutex_lock(&g_lock);
  // booked as payload by this call, but no handle refers to it: not a payload block
  for(int i = g_ntab - 1; i >= 0; --i) {
    if(g_tab[i].seq < g_call_first || g_tab[i].tid != g_me) continue;
    bool held = false;
    for(int x = lo; x < hi && !held; ++x) held = live[x] && payload_of(x) == (const void*)g_tab[i].p;
    if(!held) { if(g_naux < MAXT) g_aux[g_naux++] = g_tab[i]; g_tab[i] = g_tab[--g_ntab]; }
  }
  // allocated by this call as something else, but a handle refers to it: a payload block
  for(int x = lo; x < hi; ++x) {
    if(!live[x]) continue;
    const void* p = payload_of(x);
    if(!p) continue;
    for(int i = g_naux - 1; i >= 0; --i)
      if((const void*)g_aux[i].p == p && g_aux[i].seq >= g_call_first && g_aux[i].tid == g_me) { if(g_ntab < MAXT) g_tab[g_ntab++] = g_aux[i]; g_aux[i] = g_aux[--g_naux]; break; }
  }
  pthread_mutex_unlock(&g_lock);
}
static bool in_main_block(const volatile void* p)
{
  bool r = false;
  pthread_mutex_lock(&g_lock);
  for(int i = 0; i < g_ntab && !r; ++i)
    r = (const volatile char*)p >= (const volatile char*)g_tab[i].p && (const volatile char*)p < (const volatile char*)g_tab[i].p + g_tab[i].n;
  pthread_mutex_unlock(&g_lock);
  return r;
}
static bool in_aux(const void* p)
{
  for(int i = 0; i < g_naux; ++i) if(g_aux[i].p == p) return true;
  return false;
}

extern "C" void verif_atomic(const volatile void* p, long long v, unsigned long long r)
{
  if(g_mode != 1 || g_me < 0) return;
  if(flav != PTR && !in_main_block(p)) return;     // counters of nested payloads (children, inner strings)
  trn(v > 0 ? 'i' : 'd', r);
}

// Memory::copy of libnstd (linked with --wrap): a copy out of a payload block is an event
extern "C" void __real__ZN6Memory4copyEPvPKvm(void* dest, const void* src, usize length);
extern "C" void __wrap__ZN6Memory4copyEPvPKvm(void* dest, const void* src, usize length)
{
  if(g_win == 1 && g_mode == 1 && g_me >= 0 && flav == STR && in_main_block(src)) { op_copy_seen = true; tr('c', ""); }
  __real__ZN6Memory4copyEPvPKvm(dest, src, length);
}

// ---- pointee of the Ptr flavour -----------------------------------------------------------------
struct T : public RefCount::Object
{
  int id; long n; unsigned canary;
  static long constructed, destroyed, bad;
  T(long n) : id((int)__sync_fetch_and_add(&constructed, 1)), n(n), canary(0xC0FFEE01u) {}
  ~T() { if(canary != 0xC0FFEE01u) __sync_fetch_and_add(&bad, 1); canary = 0xDEADDEADu; __sync_fetch_and_add(&destroyed, 1); tr('f', ""); }
};
long T::constructed = 0, T::destroyed = 0, T::bad = 0;
struct D : public T { D(long n) : T(n) {} };
typedef RefCount::Ptr<T> P;
typedef RefCount::Ptr<D> PD;

// ---- variables: raw storage, explicit construction / destruction ----------------------------------
union Slot { char s[sizeof(String)]; char v[sizeof(Variant)]; char p[sizeof(P)]; char x[sizeof(XV)]; long long align; double d; };
static Slot slots[NSLOT];
#define S(i) ((String*)slots[i].s)
#define V(i) ((Variant*)slots[i].v)
#define Q(i) ((P*)slots[i].p)
#define X(i) ((XV*)slots[i].x)

// the counted block a handle refers to (0: static / inline data)
static const void* payload_of(int x)
{
  if(flav == STR) return (S(x)->data != &String::emptyData && S(x)->data != &S(x)->_data) ? (const void*)S(x)->data : 0;
  if(flav == VAR) return (V(x)->data != &Variant::nullData && V(x)->data != &V(x)->_data) ? (const void*)V(x)->data : 0;
  if(flav == XML) return X(x)->data != &XV::nullData ? (const void*)X(x)->data : 0;
  return (const void*)Q(x)->obj;
}

// String flavours: marker 1,2,3 = 'a','b','c'; 4,5,6 = 'A','B','C'; 7 = ' ' (so that toLowerCase / toUpperCase / trim act on them)
static const char MCHAR[9] = "?abcABC ";
static char mchar(int m) { return (m >= 1 && m <= 7) ? MCHAR[m] : '?'; }
static char mark_of(char c) { for(int m = 1; m <= 7; ++m) if(MCHAR[m] == c) return (char)('0' + m); return '?'; }
// the text of a contents argument ("-": empty)
static int text_of(char* out, const char* d) { int n = (d[0] == '-' || d[0] == '_') ? 0 : (int)strlen(d); for(int i = 0; i < n; ++i) out[i] = mchar(d[i] - '0'); out[n] = 0; return n; }

static Variant::Type vtype() { return kind == K_MAP ? Variant::mapType : kind == K_ARRAY ? Variant::arrayType : kind == K_STRING ? Variant::stringType : Variant::listType; }
static XV::Type xtype() { return kind == K_TEXT ? XV::textType : XV::elementType; }

// contents "-": empty
static int digits_len(const char* d) { return (d[0] == '-' || d[0] == '_') ? 0 : (int)strlen(d); }

static void destroy(int v)
{
  g_win = 1;
  if(flav == STR) S(v)->~String(); else if(flav == VAR) V(v)->~Variant(); else if(flav == XML) X(v)->~XV(); else Q(v)->~P();
  g_win = 0;
  live[v] = false;
}

// temporaries holding the contents d (window 3)
static void fill_list(List<Variant>& l, const char* d) { for(int i = 0, n = digits_len(d); i < n; ++i) l.append(Variant((int)(d[i] - '0'))); }
static void fill_array(Array<Variant>& l, const char* d) { for(int i = 0, n = digits_len(d); i < n; ++i) l.append(Variant((int)(d[i] - '0'))); }
static void fill_map(HashMap<String, Variant>& l, const char* d) { for(int i = 0, n = digits_len(d); i < n; ++i) l.append(String::fromUInt((uint)i), Variant((int)(d[i] - '0'))); }
static void fill_element(Xml::Element& e, const char* d) { for(int i = 0, n = digits_len(d); i < n; ++i) e.content.append(XV(String(d + i, 1))); }

static void create(int x, const char* d)
{
  if(flav == STR) { char buf[96]; int n = text_of(buf, d); g_win = 1; new (slots[x].s) String(buf, (usize)n); g_win = 0; }
  else if(flav == VAR) {
    g_win = 3;
    if(kind == K_LIST) { List<Variant> t; fill_list(t, d); g_win = 1; new (slots[x].v) Variant(t); g_win = 3; }
    else if(kind == K_MAP) { HashMap<String, Variant> t; fill_map(t, d); g_win = 1; new (slots[x].v) Variant(t); g_win = 3; }
    else if(kind == K_ARRAY) { Array<Variant> t; fill_array(t, d); g_win = 1; new (slots[x].v) Variant(t); g_win = 3; }
    else { String t(d, (usize)digits_len(d)); g_win = 1; new (slots[x].v) Variant(t); g_win = 3; }
    g_win = 0;
  }
  else if(flav == XML) {
    g_win = 3;
    if(kind == K_TEXT) { String t(d, (usize)digits_len(d)); g_win = 1; new (slots[x].x) XV(t); g_win = 3; }
    else { Xml::Element e; fill_element(e, d); g_win = 1; new (slots[x].x) XV(e); g_win = 3; }
    g_win = 0;
  }
  else { D* raw = new D(atol(d)); new (slots[x].p) P(raw); }
  live[x] = true;
}
static void copy(int x, int y)
{
  g_win = 1;
  if(flav == STR) new (slots[x].s) String(*S(y)); else if(flav == VAR) new (slots[x].v) Variant(*V(y)); else if(flav == XML) new (slots[x].x) XV(*X(y));
  else if(kind == K_CONV) { PD tmp((D*)Q(y)->obj); new (slots[x].p) P(tmp); }          // Ptr(const Ptr<D>&)
  else new (slots[x].p) P(*Q(y));
  g_win = 0;
  live[x] = true;
}
static void assign(int x, int y)
{
  g_win = 1;
  if(flav == STR) *S(x) = *S(y); else if(flav == VAR) *V(x) = *V(y); else if(flav == XML) *X(x) = *X(y);
  else if(kind == K_CONV) { PD tmp((D*)Q(y)->obj); *Q(x) = tmp; }                      // operator=(const Ptr<D>&)
  else *Q(x) = *Q(y);
  g_win = 0;
}
// v = <value with contents d>: Variant::operator=(const List&|HashMap&|Array&|String&), Xml::Variant::operator=(const String&)
static bool assignval(int x, const char* d)
{
  if(flav == VAR) {
    g_win = 3;
    if(kind == K_LIST) { List<Variant> t; fill_list(t, d); g_win = 1; *V(x) = t; g_win = 3; }
    else if(kind == K_MAP) { HashMap<String, Variant> t; fill_map(t, d); g_win = 1; *V(x) = t; g_win = 3; }
    else if(kind == K_ARRAY) { Array<Variant> t; fill_array(t, d); g_win = 1; *V(x) = t; g_win = 3; }
    else { String t(d, (usize)digits_len(d)); g_win = 1; *V(x) = t; g_win = 3; }
    g_win = 0;
    return true;
  }
  if(flav == XML && kind == K_TEXT) { g_win = 3; { String t(d, (usize)digits_len(d)); g_win = 1; *X(x) = t; g_win = 3; } g_win = 0; return true; }
  return false;
}
// write access through the non-const accessor, then (m > 0) append marker m through the reference it returned;
// mode 'r': String::reserve(length + 64)
static bool write(int x, int m, char mode, bool traced = false)
{
#define TR_REF() do { if(traced) trn('r', ref_of(x)); } while(0)
  if(flav == STR) {
    TR_REF();
    g_win = 1;
    if(mode == 'r') S(x)->reserve(S(x)->length() + 64);
    else if(m > 0) S(x)->append(mchar(m)); else S(x)->detach();
    g_win = 0;
    return true;
  }
  if(flav == VAR) {
    g_win = 3;
    {
      Variant one(m);
      if(kind == K_LIST) { TR_REF(); g_win = 1; List<Variant>& l = V(x)->toList(); g_win = 2; if(m > 0) l.append(one); }
      else if(kind == K_MAP) { String key = String::fromUInt((uint)((const Variant*)V(x))->toMap().size()); TR_REF(); g_win = 1; HashMap<String, Variant>& l = V(x)->toMap(); g_win = 2; if(m > 0) l.append(key, one); }
      else if(kind == K_ARRAY) { TR_REF(); g_win = 1; Array<Variant>& l = V(x)->toArray(); g_win = 2; if(m > 0) l.append(one); }
      else { TR_REF(); g_win = 1; String& l = V(x)->toString(); g_win = 2; if(m > 0) l.append((char)('0' + m)); }
      g_win = 3;
    }
    g_win = 0;
    return true;
  }
  if(flav == XML && kind == K_ELEMENT) {
    g_win = 3;
    {
      char ch = (char)('0' + m);
      XV one(String(&ch, 1));
      TR_REF(); g_win = 1; Xml::Element& e = X(x)->toElement(); g_win = 2; if(m > 0) e.content.append(one);
      g_win = 3;
    }
    g_win = 0;
    return true;
  }
  return false;
}

// d.toList().append(s); d = d.toList().back(): an assignment whose source lives inside the payload that the
// assignment releases.  By value semantics: write access on d, then d = s.
static void viaelem(int d, int s, bool both)
{
  if(flav == VAR) {
    g_win = 3;
    {
      String key("k");
      if(kind == K_LIST) { g_win = 1; List<Variant>& l = V(d)->toList(); if(both) { g_win = 2; l.append(*V(s)); g_win = 1; *V(d) = l.back(); } }
      else if(kind == K_MAP) { g_win = 1; HashMap<String, Variant>& l = V(d)->toMap(); if(both) { g_win = 2; l.append(key, *V(s)); g_win = 1; *V(d) = l.back(); } }
      else { g_win = 1; Array<Variant>& l = V(d)->toArray(); if(both) { g_win = 2; l.append(*V(s)); g_win = 1; *V(d) = l.back(); } }
      g_win = 3;
    }
    g_win = 0;
  } else {
    g_win = 1; Xml::Element& e = X(d)->toElement(); if(both) { g_win = 2; e.content.append(*X(s)); g_win = 1; *X(d) = e.content.back(); }
    g_win = 0;
  }
}

static int string_markers(char* out, const String& s);
static unsigned long g_sink_seq;
// ---- Variant: scalar values (held in the handle itself), swap, the `type != T` branches ------------------
static void assign_scalar(int x, int k)
{
  g_win = 1;
  switch(k) {
  case 0: *V(x) = true; break;
  case 1: *V(x) = 1.5; break;
  case 2: *V(x) = (int)5; break;
  case 3: *V(x) = (uint)5; break;
  case 4: *V(x) = (int64)5; break;
  default: *V(x) = (uint64)5; break;
  }
  // kind string: the write accessor toString() turns a scalar into its text ("5", "true"), which is a matter of the values, not
  // of the payloads: the scalar is cleared again, so that the handle is a null handle for what follows
  if(kind == K_STRING) V(x)->clear();
  g_win = 0;
}
static void construct_scalar(int x, int k)
{
  g_win = 1;
  switch(k) {
  case 0: new (slots[x].v) Variant(true); break;
  case 1: new (slots[x].v) Variant(1.5); break;
  case 2: new (slots[x].v) Variant((int)5); break;
  case 3: new (slots[x].v) Variant((uint)5); break;
  case 4: new (slots[x].v) Variant((int64)5); break;
  default: new (slots[x].v) Variant((uint64)5); break;
  }
  if(kind == K_STRING) V(x)->clear();
  g_win = 0;
  live[x] = true;
}
static bool assignval(int x, const char* d);
// the write accessor of ANOTHER type than the one stored, then the value assignment of the case's type (which now is the
// other type); Xml element cases: `v = text`, then toElement()
static void retype(int x, const char* d)
{
  if(flav == VAR) {
    begin_call();
    g_win = 1;
    if(kind == K_LIST) V(x)->toMap(); else if(kind == K_MAP) V(x)->toArray(); else if(kind == K_ARRAY) V(x)->toString(); else V(x)->toList();
    g_win = 0;
    settle(0, NV);
    begin_call();
    assignval(x, d);
  } else if(kind == K_TEXT) {
    begin_call();
    g_win = 1; X(x)->toElement(); g_win = 0;
    settle(0, NV);
    begin_call();
    assignval(x, d);
  } else {
    begin_call();
    g_win = 3; { String t(d, (usize)digits_len(d)); g_win = 1; *X(x) = t; g_win = 3; } g_win = 0;
    settle(0, NV);
    begin_call();
    g_win = 1; X(x)->toElement(); g_win = 0;
  }
}

// ---- the modifiers of String --------------------------------------------------------------------------------------
// Every one of them is run twice: on the handle of the case (whose payload other handles may share), and on a private,
// unshared String with the same text (arguments that are handles: private copies of their text, or the private String
// itself when the argument is the handle).  The two results must be the same text: `priv=ok`.
static char g_priv[512];
static char g_arena[1 << 16]; static int g_arena_pos;
struct StrArgs { int a, b, off, len; char t1[96]; int n1; char t2[96]; int n2; const char* att; };
static bool is_str_mod(const char* o)
{
  static const char* names[] = { "tolower", "toupper", "replace", "charptr", "appends", "pluseq", "pluseqc", "appendp", "appendself", "prepends", "prependp",
                                 "trim", "attach", "assignlit", "printf", "printfself", "join", "replacess", "constptr", 0 };
  for(int i = 0; names[i]; ++i) if(!strcmp(o, names[i])) return true;
  return false;
}
// window w for the library call, 3 for the temporaries
static void str_apply(String& s, const char* o, const String* src, const String* src2, const StrArgs& g, int w)
{
  int back = g_win;
  if(!strcmp(o, "tolower")) { g_win = w; s.toLowerCase(); }
  else if(!strcmp(o, "toupper")) { g_win = w; s.toUpperCase(); }
  else if(!strcmp(o, "replace")) { g_win = w; s.replace(mchar(g.a), mchar(g.b)); }
  else if(!strcmp(o, "charptr")) { g_win = w; char* p = s; for(usize i = 0, n = s.length(); i < n; ++i) if(p[i] == mchar(g.a)) p[i] = mchar(g.b); }
  else if(!strcmp(o, "appends")) { g_win = w; s.append(*src); }
  else if(!strcmp(o, "pluseq")) { g_win = w; s += *src; }
  else if(!strcmp(o, "pluseqc")) { g_win = w; s += mchar(g.a); }
  else if(!strcmp(o, "appendp")) { g_win = w; s.append(g.t1, (usize)g.n1); }
  else if(!strcmp(o, "appendself")) {
    usize len = s.length(), off = (usize)g.off < len ? (usize)g.off : len, n = (usize)g.len < len - off ? (usize)g.len : len - off;
    g_win = w; const char* p = s; s.append(p + off, n);
  }
  else if(!strcmp(o, "prepends")) { g_win = w; s.prepend(*src); }
  else if(!strcmp(o, "prependp")) { g_win = w; s.prepend(g.t1, (usize)g.n1); }
  else if(!strcmp(o, "trim")) { g_win = w; if(!strcmp(g.t1, " ")) s.trim(); else s.trim(g.t1); }
  else if(!strcmp(o, "attach")) { g_win = w; s.attach(g.att, (usize)g.n1); }
  else if(!strcmp(o, "assignlit")) { g_win = w; if(g.a == 0) s = String(""); else if(g.a == 1) s = String("ab"); else s = String("aB C"); }
  else if(!strcmp(o, "printf")) { g_win = w; s.printf("%s", g.t1); }
  else if(!strcmp(o, "printfself")) { g_win = w; s.printf("%s%s", g.t1, (const char*)s); }
  else if(!strcmp(o, "join")) { g_win = 3; { List<String> l; l.append(*src); l.append(*src2); g_win = w; s.join(l, mchar(g.a)); g_win = 3; } }
  else if(!strcmp(o, "replacess")) { g_win = 3; { String n(g.t1, (usize)g.n1), r(g.t2, (usize)g.n2); g_win = w; s.replace(n, r); g_win = 3; } }
  else if(!strcmp(o, "constptr")) { g_win = w; const char* p = s; g_sink_seq += (unsigned char)p[0]; }
  g_win = back;
}
static void str_mod(int x, const char* o, int y, int y2, StrArgs& g)
{
  String* a = S(x);
  const String* src = y >= 0 ? S(y) : 0; const String* src2 = y2 >= 0 ? S(y2) : 0;
  if(!strcmp(o, "attach")) {          // the attached text lives outside every payload; the byte behind it is not NUL
    g.att = g_arena + g_arena_pos; memcpy(g_arena + g_arena_pos, g.t1, (size_t)g.n1); g_arena[g_arena_pos + g.n1] = 'Z'; g_arena_pos += g.n1 + 1;
  }
  g_win = 3;
  {
    String pa(a->data->str, a->data->len);
    String ps(src ? src->data->str : "", src ? src->data->len : 0), ps2(src2 ? src2->data->str : "", src2 ? src2->data->len : 0);
    str_apply(pa, o, src == a ? &pa : &ps, src2 == a ? &pa : &ps2, g, 3);
    g_win = 0;
    str_apply(*a, o, src, src2, g, 1);
    g_win = 3;
    bool same = pa.data->len == a->data->len && !memcmp(pa.data->str, a->data->str, a->data->len);
    if(same) strcpy(g_priv, "priv=ok");
    else { int n = sprintf(g_priv, "priv=DIFF("); n += string_markers(g_priv + n, pa); if(pa.data->len == 0) g_priv[n++] = '_'; strcpy(g_priv + n, ")"); }
  }
  g_win = 0;
}

// ---- contents ---------------------------------------------------------------------------------------
static int put_digit(char* out, long v) { out[0] = (v >= 0 && v <= 9) ? (char)('0' + v) : '?'; return 1; }
static int put_chars(char* out, const char* p, usize n)
{
  for(usize i = 0; i < n; ++i) out[i] = (p[i] >= '0' && p[i] <= '9') ? p[i] : '?';
  return (int)n;
}
static int string_contents(char* out, const String& s) { return put_chars(out, s.data->str, s.data->len); }
static int string_markers(char* out, const String& s) { for(usize i = 0; i < s.data->len; ++i) out[i] = mark_of(s.data->str[i]); return (int)s.data->len; }
static int contents(char* out, int i)      // "_" when empty
{
  int a = 0;
  if(flav == STR) a = string_markers(out, *S(i));
  else if(flav == VAR) {
    const Variant* v = V(i);
    if(v->data->type != vtype()) return sprintf(out, "T%d", (int)v->data->type);
    if(kind == K_LIST) { const List<Variant>& l = v->toList(); for(List<Variant>::Iterator it = l.begin(), e = l.end(); it != e; ++it) a += put_digit(out + a, it->toInt()); }
    else if(kind == K_MAP) { const HashMap<String, Variant>& l = v->toMap(); for(HashMap<String, Variant>::Iterator it = l.begin(), e = l.end(); it != e; ++it) a += put_digit(out + a, it->toInt()); }
    else if(kind == K_ARRAY) { const Array<Variant>& l = v->toArray(); for(usize k = 0; k < l.size(); ++k) a += put_digit(out + a, ((const Variant*)l._begin.item)[k].toInt()); }
    else a = string_contents(out, *(const String*)(v->data + 1));
  } else if(flav == XML) {
    const XV* v = X(i);
    if(v->data->type != xtype()) return sprintf(out, "T%d", (int)v->data->type);
    if(kind == K_TEXT) a = string_contents(out, *(const String*)(v->data + 1));
    else {
      const Xml::Element& el = v->toElement();
      for(List<XV>::Iterator it = el.content.begin(), e = el.content.end(); it != e; ++it) {
        const XV& c = *it;
        if(c.data->type == XV::textType && ((const String*)(c.data + 1))->data->len == 1) a += put_chars(out + a, ((const String*)(c.data + 1))->data->str, 1);
        else out[a++] = '?';
      }
    }
  }
  if(a == 0) out[a++] = '_';
  out[a] = 0;
  return a;
}

// ---- blocks reachable from the live payloads (everything but the outer blocks) -----------------------
static const void* g_reach[MAXT]; static int g_nreach;
static void reach_add(const void* p) { for(int i = 0; i < g_nreach; ++i) if(g_reach[i] == p) return; if(g_nreach < MAXT) g_reach[g_nreach++] = p; }
static void reach_string(const String& s) { if(s.data != &String::emptyData && s.data != &s._data) reach_add(s.data); }
static void reach_variant(const Variant& v, bool outer);
template <class C> static void reach_blocks(const C& c) { for(typename C::ItemBlock* b = c.blocks; b; b = b->next) reach_add(b); }
static void reach_variant(const Variant& v, bool outer)
{
  if(v.data == &Variant::nullData || v.data == &v._data) return;
  if(!outer) reach_add(v.data);
  switch(v.data->type) {
  case Variant::listType: { const List<Variant>& l = *(const List<Variant>*)(v.data + 1); reach_blocks(l);
    for(List<Variant>::Iterator it = l.begin(), e = l.end(); it != e; ++it) reach_variant(*it, false); break; }
  case Variant::mapType: { const HashMap<String, Variant>& l = *(const HashMap<String, Variant>*)(v.data + 1); reach_blocks(l); if(l.data) reach_add(l.data);
    for(HashMap<String, Variant>::Iterator it = l.begin(), e = l.end(); it != e; ++it) { reach_string(it.key()); reach_variant(*it, false); } break; }
  case Variant::arrayType: { const Array<Variant>& l = *(const Array<Variant>*)(v.data + 1); if(l._begin.item) reach_add(l._begin.item);
    for(usize k = 0; k < l.size(); ++k) reach_variant(((const Variant*)l._begin.item)[k], false); break; }
  case Variant::stringType: reach_string(*(const String*)(v.data + 1)); break;
  default: break;
  }
}
static void reach_xml(const XV& v, bool outer)
{
  if(v.data == &XV::nullData) return;
  if(!outer) reach_add(v.data);
  if(v.data->type == XV::textType) reach_string(*(const String*)(v.data + 1));
  else if(v.data->type == XV::elementType) {
    const Xml::Element& el = *(const Xml::Element*)(v.data + 1);
    reach_string(el.type);
    reach_blocks(el.attributes); if(el.attributes.data) reach_add(el.attributes.data);
    for(HashMap<String, String>::Iterator it = el.attributes.begin(), e = el.attributes.end(); it != e; ++it) { reach_string(it.key()); reach_string(*it); }
    reach_blocks(el.content);
    for(List<XV>::Iterator it = el.content.begin(), e = el.content.end(); it != e; ++it) reach_xml(*it, false);
  }
}
// 0 = the aux ledger holds exactly the reachable blocks
static int aux_check(int nslots, long* n_ledger, long* n_reach)
{
  g_nreach = 0;
  for(int i = 0; i < nslots; ++i) {
    if(!live[i]) continue;
    if(flav == VAR) reach_variant(*V(i), true); else if(flav == XML) reach_xml(*X(i), true);
  }
  *n_ledger = g_naux; *n_reach = g_nreach;
  int bad = 0;
  for(int i = 0; i < g_nreach; ++i) if(!in_aux(g_reach[i])) ++bad;
  if(g_naux != g_nreach) ++bad;
  return bad;
}

static long live_blocks() { return flav == PTR ? T::constructed - T::destroyed : g_ntab; }
static long releases() { return flav == PTR ? T::destroyed : g_frees; }

static void observe_to(char* out, int nslots, int group)
{
  const void* cls[NSLOT]; int ncls = 0;
  static char vals[NSLOT * 400], classes[512], rcs[1024];
  int a = 0, b = 0, r = 0;
  for(int i = 0; i < nslots; ++i) {
    const void* blk = 0; unsigned long long rc = 0; bool same = true;
    if(group && i && i % group == 0) { a += sprintf(vals + a, "; "); b += sprintf(classes + b, "; "); r += sprintf(rcs + r, "; "); }
    if(!live[i]) { a += sprintf(vals + a, "D "); }
    else if(flav == STR) {
      a += contents(vals + a, i); vals[a++] = ' ';
      if(S(i)->data != &String::emptyData && S(i)->data != &S(i)->_data) { blk = S(i)->data; rc = S(i)->data->ref; }
    } else if(flav == VAR) {
      const Variant* v = V(i);
      if(v->isNull() || v->data == &v->_data) a += sprintf(vals + a, "- ");        // null, or a scalar held in the handle itself: no payload
      else { a += contents(vals + a, i); vals[a++] = ' '; }
      if(v->data != &Variant::nullData && v->data != &v->_data) { blk = v->data; rc = v->data->ref; }   // _data: inline, never counted
    } else if(flav == XML) {
      const XV* v = X(i);
      if(v->isNull()) a += sprintf(vals + a, "- ");
      else { a += contents(vals + a, i); vals[a++] = ' '; }
      if(v->data != &XV::nullData) { blk = v->data; rc = v->data->ref; }
    } else {
      P* p = Q(i);
      if(!p->obj) a += sprintf(vals + a, "- ");
      else {
        T* o = p->obj;
        if(o->canary != 0xC0FFEE01u) a += sprintf(vals + a, "BAD ");
        else a += sprintf(vals + a, "%d:%ld ", o->id, o->n);
        blk = o;
      }
      if(p->obj) { rc = p->refObj ? (unsigned long long)p->refObj->ref : 0; same = (void*)p->refObj == (void*)(RefCount::Object*)p->obj; }
    }
    if(!blk) { b += sprintf(classes + b, ". "); r += sprintf(rcs + r, ". "); }
    else {
      int k = 0;
      while(k < ncls && cls[k] != blk) ++k;
      if(k == ncls) cls[ncls++] = blk;
      b += sprintf(classes + b, "%d ", k);
      r += sprintf(rcs + r, "%llu%s ", rc, same ? "=" : "#");
    }
  }
  vals[a ? a - 1 : 0] = 0; classes[b ? b - 1 : 0] = 0; rcs[r ? r - 1 : 0] = 0;
  long nl, nr; char aux[64];
  if(aux_check(nslots, &nl, &nr)) sprintf(aux, "aux=BAD(ledger:%ld,reachable:%ld)", nl, nr); else strcpy(aux, "aux=ok");
  if(group) sprintf(out, "%s | live=%ld %s | %s | %s", vals, live_blocks(), aux, classes, rcs);
  else sprintf(out, "%s | live=%ld dtors=%ld %s | %s | %s", vals, live_blocks(), releases(), aux, classes, rcs);
}

// ================================ concurrent part =================================================
struct COp { char kind; int a, b; };     // c copy, a assign, d drop, w write (b = marker), W reserve, R reset, r read, s swap
static int c_nth, c_nv; static char c_val[128];
static int c_own[MAXTH];
static COp c_prog[MAXTH][MAXPROG]; static int c_len[MAXTH];

static int g_sched[MAXSCHED]; static int g_nsched, g_spos;
static sem_t g_sem[MAXTH], g_sem_main;
static volatile int g_done[MAXTH];
static int g_start;

static int pick_next(int me)
{
  while(g_spos < g_nsched) {
    int id = g_sched[g_spos++];
    if(id >= 0 && id < c_nth && !g_done[id]) return id;
  }
  if(me >= 0 && !g_done[me]) return me;
  for(int i = 0; i < c_nth; ++i) if(!g_done[i]) return i;
  return -1;
}

extern "C" void verif_point(void)
{
  if(g_mode != 1 || g_me < 0) return;
  int next = pick_next(g_me);
  if(next != g_me && next >= 0) { sem_post(&g_sem[next]); sem_wait(&g_sem[g_me]); }
}

static const void* data_of(int x)
{
  return flav == STR ? (const void*)S(x)->data : flav == VAR ? (const void*)V(x)->data : flav == XML ? (const void*)X(x)->data : (const void*)Q(x)->obj;
}
static unsigned long long ref_of(int x)
{
  return flav == STR ? (unsigned long long)S(x)->data->ref : flav == VAR ? (unsigned long long)V(x)->data->ref : flav == XML ? (unsigned long long)X(x)->data->ref : 0;
}
static __thread unsigned long g_sink;
static void readval(int x)
{
  char buf[256]; unsigned long a = 0;
  if(flav == PTR) { T* o = Q(x)->obj; a = (unsigned long)o->n + (o->canary == 0xC0FFEE01u ? 0 : 1000000); }
  else { int n = contents(buf, x); for(int i = 0; i < n; ++i) a += (unsigned char)buf[i]; }
  g_sink += a;
}
// a write access of a thread: the counter as the call is entered, then the call, then (handle still on
// the same block and nothing allocated) the contents as modified in place
static void traced_write(int x, int m, char mode)
{
  const void* before = data_of(x);
  write(x, m, mode, true);
  if(data_of(x) == before && !op_alloc_seen) { char buf[256]; contents(buf, x); tr('w', buf); }
}

static void exec_op(int t, const COp& o)
{
  int base = t * NV;
  int x = base + o.a, y = base + o.b;
  bool ax = o.a >= 0 && o.a < c_nv, bx = o.b >= 0 && o.b < c_nv;
  begin_call();
  switch(o.kind) {
  case 'c': if(ax && bx && !live[x] && live[y]) copy(x, y); break;
  case 'a': if(ax && bx && live[x] && live[y]) assign(x, y); break;
  case 'd': if(ax && live[x]) destroy(x); break;
  case 'w': if(ax && live[x] && flav != PTR) traced_write(x, o.b, 'w'); break;
  case 'W': if(ax && live[x] && flav != PTR) traced_write(x, 0, 'r'); break;
  case 'R':                       // String: clear(), then the handle is destroyed; the others: clear() is what the destructor calls
    if(ax && live[x]) {
      if(flav == STR) {
        const void* before = data_of(x);
        trn('r', ref_of(x));
        g_win = 1; S(x)->clear(); g_win = 0;
        if(data_of(x) == before) tr('w', "_");
        op_alloc_seen = op_copy_seen = false;
      }
      else if(flav == VAR) { g_win = 1; V(x)->clear(); g_win = 0; }
      else if(flav == XML) { g_win = 1; X(x)->clear(); g_win = 0; }
      else { g_win = 1; *Q(x) = (T*)0; g_win = 0; }
      destroy(x);
    }
    break;
  case 'r': if(ax && live[x]) readval(x); break;
  case 's': if(flav == PTR && ax && bx && live[x] && live[y] && x != y) Q(x)->swap(*Q(y)); break;
  }
  settle(base, base + NV);
}

static void* thread_main(void* arg)
{
  int t = (int)(long)arg;
  g_me = t;
  if(g_mode == 1) sem_wait(&g_sem[t]);
  else { while(!__atomic_load_n(&g_start, __ATOMIC_ACQUIRE)) sched_yield(); }
  for(int i = 0; i < c_len[t]; ++i) exec_op(t, c_prog[t][i]);
  if(g_mode == 1) {
    g_done[t] = 1;
    int next = pick_next(-1);
    if(next >= 0) sem_post(&g_sem[next]); else sem_post(&g_sem_main);
  }
  return 0;
}

static void conc_reset()
{
  for(int i = 0; i < NSLOT; ++i) if(live[i]) destroy(i);
  g_ntab = 0; g_naux = 0; g_frees = 0;
  T::constructed = T::destroyed = T::bad = 0;
}

// one run from the initial configuration; the observation goes to out
static void conc_run(char* out)
{
  conc_reset();
  g_ntrace = 0; g_trace[0] = 0; g_trace_overflow = false;
  // the common payload, and the threads' handles to it; the creating handle is dropped before the start
  int first = -1;
  for(int t = 0; t < c_nth && first < 0; ++t) if(c_own[t] > 0) first = t * NV;
  if(first >= 0) {
    begin_call();
    create(first, c_val);
    settle(first, first + 1);
    for(int t = 0; t < c_nth; ++t)
      for(int j = 0; j < c_own[t]; ++j)
        if(t * NV + j != first) copy(t * NV + j, first);
  }
  pthread_t th[MAXTH];
  g_spos = 0; __atomic_store_n(&g_start, 0, __ATOMIC_RELEASE);
  sem_init(&g_sem_main, 0, 0);
  for(int t = 0; t < c_nth; ++t) { g_done[t] = 0; sem_init(&g_sem[t], 0, 0); }
  for(int t = 0; t < c_nth; ++t) pthread_create(&th[t], 0, thread_main, (void*)(long)t);
  if(g_mode == 1) {
    int next = pick_next(-1);
    if(next >= 0) { sem_post(&g_sem[next]); sem_wait(&g_sem_main); }
  }
  else __atomic_store_n(&g_start, 1, __ATOMIC_RELEASE);
  for(int t = 0; t < c_nth; ++t) pthread_join(th[t], 0);
  int mode = g_mode; g_mode = 0;
  static char obs[NSLOT * 400 + 2048];
  observe_to(obs, c_nth * NV, NV);
  for(int i = 0; i < NSLOT; ++i) if(live[i]) destroy(i);
  int n = sprintf(out, "%s | after=%ld%s", obs, live_blocks() + g_naux, T::bad ? " BADCANARY" : "");
  if(mode == 1) sprintf(out + n, " | trace%s%s", g_ntrace ? g_trace : " -", g_trace_overflow ? " OVERFLOW" : "");
  g_mode = mode;
}

static char g_out[NSLOT * 400 + 4096 + MAXTRACE], g_first[NSLOT * 400 + 4096 + MAXTRACE];

static void conc_op(long c, vh::Tok& t)
{
  const char* o = t.v[0];
  if(!strcmp(o, "init")) {
    strncpy(c_val, t.n > 1 ? t.v[1] : "-", sizeof(c_val) - 1); c_val[sizeof(c_val) - 1] = 0;
    c_nv = t.n > 2 ? atoi(t.v[2]) : 1;
    if(c_nv > NV) c_nv = NV; if(c_nv < 1) c_nv = 1;
    c_nth = t.n - 3; if(c_nth > MAXTH) c_nth = MAXTH; if(c_nth < 0) c_nth = 0;
    for(int i = 0; i < c_nth; ++i) { c_own[i] = atoi(t.v[3 + i]); if(c_own[i] > c_nv) c_own[i] = c_nv; if(c_own[i] < 0) c_own[i] = 0; c_len[i] = 0; }
    printf("%ld init\n", c);
  } else if(!strcmp(o, "t")) {
    int tid = t.n > 1 ? atoi(t.v[1]) : -1;
    if(tid >= 0 && tid < c_nth && c_len[tid] < MAXPROG && t.n > 3) {
      COp op; op.a = atoi(t.v[3]); op.b = t.n > 4 ? atoi(t.v[4]) : 0;
      const char* k = t.v[2];
      op.kind = !strcmp(k, "copy") ? 'c' : !strcmp(k, "assign") ? 'a' : !strcmp(k, "drop") ? 'd' : !strcmp(k, "read") ? 'r' :
                !strcmp(k, "swap") ? 's' : !strcmp(k, "reset") ? 'R' : !strcmp(k, "reserve") ? 'W' : !strcmp(k, "write") ? 'w' : '?';
      if(op.kind == 'w' && (op.b < 1 || op.b > 7)) op.b = 1;
      c_prog[tid][c_len[tid]++] = op;
    }
    printf("%ld t\n", c);
  } else if(!strcmp(o, "trace")) {
    // input of the model driver only (the check inserts the recorded trace in front of `go`)
  } else if(!strcmp(o, "go")) {
    g_nsched = 0;
    for(int i = 1; i < t.n && g_nsched < MAXSCHED; ++i) g_sched[g_nsched++] = atoi(t.v[i]);
    g_mode = 1; conc_run(g_out); g_mode = 0;
    printf("%ld %s\n", c, g_out);
  } else if(!strcmp(o, "free")) {
    int reps = t.n > 1 ? atoi(t.v[1]) : 1;
    g_first[0] = 0;
    bool same = true;
    for(int r = 0; r < reps; ++r) {
      g_mode = 2; conc_run(g_out); g_mode = 0;
      if(r == 0) strcpy(g_first, g_out);
      else if(strcmp(g_first, g_out)) { same = false; break; }
    }
    if(same) printf("%ld %s\n", c, g_first);
    else printf("%ld DIFFERENT-RUNS `%s` vs `%s`\n", c, g_first, g_out);
  } else printf("%ld ?unknown-op\n", c);
}

// ================================ sequential part ==================================================
static void begin(long, vh::Tok& t)
{
  for(int i = 0; i < NSLOT; ++i) if(live[i]) destroy(i);
  flav = STR; conc = false; nest = false;
  const char* f = t.n > 2 ? t.v[2] : "str";
  const char* k = t.n > 3 ? t.v[3] : "";
  if(!strcmp(f, "nest")) { nest = true; nest_begin(k); return; }
  strx = !strcmp(f, "strx");
  g_arena_pos = 0; memset(g_arena, 'Z', sizeof(g_arena));
  if(f[0] == 'c') { conc = true; ++f; }
  if(!strcmp(f, "var")) flav = VAR;
  if(!strcmp(f, "ptr")) flav = PTR;
  if(!strcmp(f, "xml")) flav = XML;
  kind = flav == VAR ? K_LIST : flav == XML ? K_ELEMENT : K_PLAIN;
  if(flav == VAR) kind = !strcmp(k, "map") ? K_MAP : !strcmp(k, "array") ? K_ARRAY : !strcmp(k, "string") ? K_STRING : K_LIST;
  if(flav == XML) kind = !strcmp(k, "text") ? K_TEXT : K_ELEMENT;
  if(flav == PTR) kind = !strcmp(k, "conv") ? K_CONV : K_PLAIN;
  g_by_addr = flav == VAR || flav == XML;
  g_ntab = 0; g_naux = 0; g_frees = 0;
  T::constructed = T::destroyed = T::bad = 0;
  c_nth = 0; c_nv = 1; strcpy(c_val, "-");
}

static void observe(long c)
{
  static char out[NSLOT * 400 + 2048];
  observe_to(out, NV, 0);
  if(g_priv[0]) printf("%ld %s | %s\n", c, out, g_priv); else printf("%ld %s\n", c, out);
}

static bool is_digits(const char* d)
{
  if(!strcmp(d, "-")) return true;
  for(const char* p = d; *p; ++p) if(*p < '1' || *p > '7') return false;
  return d[0] != 0 && strlen(d) <= 64;
}

static bool is_marker(const char* d) { return d[0] >= '1' && d[0] <= '7' && !d[1]; }

static void op(long c, long, vh::Tok& t)
{
  if(nest) { nest_op(c, t); return; }
  if(conc) { conc_op(c, t); return; }
  const char* o = t.v[0];
  int x = t.n > 1 ? atoi(t.v[1]) : 0;
  const char* arg = t.n > 2 ? t.v[2] : "-";
  long y = atol(arg);
  if(x < 0 || x >= NV) { printf("%ld ?bad-var\n", c); return; }
  bool two = !strcmp(o, "copy") || !strcmp(o, "fromraw") || !strcmp(o, "assign") || !strcmp(o, "assignraw") || !strcmp(o, "swap") || !strcmp(o, "viaelem")
             || !strcmp(o, "appends") || !strcmp(o, "pluseq") || !strcmp(o, "prepends") || !strcmp(o, "vswap");
  if(two && (arg[0] < '0' || arg[0] > '9' || y < 0 || y >= NV)) { printf("%ld ?bad-var\n", c); return; }
  const char* arg2 = t.n > 3 ? t.v[3] : "-";
  const char* arg3 = t.n > 4 ? t.v[4] : "-";
  g_priv[0] = 0;
  begin_call();
  if(is_str_mod(o)) {
    bool x_only = !strcmp(o, "attach") || !strcmp(o, "assignlit") || !strcmp(o, "printf") || !strcmp(o, "printfself") || !strcmp(o, "join") || !strcmp(o, "replacess") || !strcmp(o, "constptr");
    if(flav != STR || (x_only && !strx)) { printf("%ld ?unsupported\n", c); return; }
    StrArgs g; memset(&g, 0, sizeof(g));
    int src = -1, src2 = -1; bool run = live[x];
    if(!strcmp(o, "replace") || !strcmp(o, "charptr")) {
      if(!is_marker(arg) || !is_marker(arg2)) { printf("%ld ?bad-contents\n", c); return; }
      g.a = arg[0] - '0'; g.b = arg2[0] - '0';
    } else if(!strcmp(o, "pluseqc")) {
      if(!is_marker(arg)) { printf("%ld ?bad-contents\n", c); return; }
      g.a = arg[0] - '0';
    } else if(!strcmp(o, "appends") || !strcmp(o, "pluseq") || !strcmp(o, "prepends")) { src = (int)y; run = run && live[y]; }
    else if(!strcmp(o, "appendp") || !strcmp(o, "prependp") || !strcmp(o, "trim") || !strcmp(o, "attach") || !strcmp(o, "printf") || !strcmp(o, "printfself")) {
      if(!is_digits(arg)) { printf("%ld ?bad-contents\n", c); return; }
      g.n1 = text_of(g.t1, arg);
    } else if(!strcmp(o, "appendself")) {
      long n2 = atol(arg2);
      if(t.n < 4 || arg[0] < '0' || arg[0] > '9' || arg2[0] < '0' || arg2[0] > '9' || y < 0 || y > 80 || n2 < 0 || n2 > 80) { printf("%ld ?bad-contents\n", c); return; }
      g.off = (int)y; g.len = (int)n2;
    } else if(!strcmp(o, "assignlit")) {
      if(arg[0] < '0' || arg[0] > '2' || arg[1]) { printf("%ld ?bad-contents\n", c); return; }
      g.a = arg[0] - '0';
    } else if(!strcmp(o, "join")) {
      long y2 = atol(arg2);
      if(t.n < 5 || !is_marker(arg3) || arg[0] < '0' || arg[0] > '9' || arg2[0] < '0' || arg2[0] > '9' || y < 0 || y >= NV || y2 < 0 || y2 >= NV) { printf("%ld ?bad-contents\n", c); return; }
      src = (int)y; src2 = (int)y2; g.a = arg3[0] - '0'; run = run && live[y] && live[y2];
    } else if(!strcmp(o, "replacess")) {
      if(!is_digits(arg) || !is_digits(arg2) || !strcmp(arg, "-")) { printf("%ld ?bad-contents\n", c); return; }
      g.n1 = text_of(g.t1, arg); g.n2 = text_of(g.t2, arg2);
    }
    // both sides skip a call that would make a text longer than MAXLEN
    if(run) {
      usize len = S(x)->length();
      if(!strcmp(o, "appends") || !strcmp(o, "pluseq") || !strcmp(o, "prepends")) run = len + S(src)->length() <= MAXLEN;
      else if(!strcmp(o, "appendp") || !strcmp(o, "prependp") || !strcmp(o, "printfself")) run = len + (usize)g.n1 <= MAXLEN;
      else if(!strcmp(o, "appendself")) run = 2 * len <= MAXLEN;
      else if(!strcmp(o, "join")) run = S(src)->length() + S(src2)->length() < MAXLEN;
      else if(!strcmp(o, "replacess")) run = len * (1 + (usize)g.n2) <= MAXLEN;
    }
    if(run) str_mod(x, o, src, src2, g);
    observe(c);
    return;
  }
  if(!strcmp(o, "assignscalar") || !strcmp(o, "nullk")) {
    if(flav != VAR) { printf("%ld ?unsupported\n", c); return; }
    int k = (arg[0] >= '0' && arg[0] <= '5') ? arg[0] - '0' : 2;
    if(o[0] == 'a') { if(live[x]) assign_scalar(x, k); } else if(!live[x]) construct_scalar(x, k);
  } else if(!strcmp(o, "vswap")) {
    if(flav != VAR) { printf("%ld ?unsupported\n", c); return; }
    if(live[x] && live[y]) { g_win = 1; V(x)->swap(*V(y)); g_win = 0; }
  } else if(!strcmp(o, "retype")) {
    if(!is_digits(arg)) { printf("%ld ?bad-contents\n", c); return; }
    if(flav != VAR && flav != XML) { printf("%ld ?unsupported\n", c); return; }
    if(live[x]) retype(x, arg);
  } else if(!strcmp(o, "lit")) {
    if(!strx) { printf("%ld ?unsupported\n", c); return; }
    if(arg[0] < '0' || arg[0] > '2' || arg[1]) { printf("%ld ?bad-contents\n", c); return; }
    if(!live[x]) {
      g_win = 1;
      if(arg[0] == '0') new (slots[x].s) String(""); else if(arg[0] == '1') new (slots[x].s) String("ab"); else new (slots[x].s) String("aB C");
      g_win = 0;
      live[x] = true;
    }
  } else
  if(!strcmp(o, "create")) {
    if(flav != PTR && !is_digits(arg)) { printf("%ld ?bad-contents\n", c); return; }
    if(!live[x]) create(x, arg);
  } else if(!strcmp(o, "null")) {
    if(!live[x]) {
      g_win = 1;
      if(flav == STR) new (slots[x].s) String(); else if(flav == VAR) new (slots[x].v) Variant(); else if(flav == XML) new (slots[x].x) XV(); else new (slots[x].p) P();
      g_win = 0;
      live[x] = true;
    }
  } else if(!strcmp(o, "copy")) {
    if(!live[x] && live[y]) copy(x, (int)y);
  } else if(!strcmp(o, "fromraw")) {
    if(flav == PTR && !live[x] && live[y]) { new (slots[x].p) P(Q(y)->operator->()); live[x] = true; }
  } else if(!strcmp(o, "assign")) {
    if(live[x] && live[y]) assign(x, (int)y);
  } else if(!strcmp(o, "assignraw")) {            // Ptr::operator=(C*), also with the object the handle itself refers to
    if(flav == PTR && live[x] && live[y]) { T* raw = Q(y)->operator->(); *Q(x) = raw; }
  } else if(!strcmp(o, "viaelem")) {
    if(!((flav == VAR && kind != K_STRING) || (flav == XML && kind == K_ELEMENT))) { printf("%ld ?unsupported\n", c); return; }
    if(live[x]) viaelem(x, (int)y, live[y] && x != (int)y);
  } else if(!strcmp(o, "assignval")) {
    if(!is_digits(arg)) { printf("%ld ?bad-contents\n", c); return; }
    if(flav == XML && kind == K_ELEMENT) { printf("%ld ?unsupported\n", c); return; }
    if(live[x]) assignval(x, arg);
  } else if(!strcmp(o, "reset")) {
    if(live[x]) {
      g_win = 1;
      if(flav == STR) S(x)->clear(); else if(flav == VAR) V(x)->clear(); else if(flav == XML) X(x)->clear(); else *Q(x) = (T*)0;
      g_win = 0;
    }
  } else if(!strcmp(o, "swap")) {
    if(flav == PTR && live[x] && live[y] && x != y) Q(x)->swap(*Q(y));
  } else if(!strcmp(o, "write")) {
    if(y < 1 || y > 7) { printf("%ld ?bad-contents\n", c); return; }
    if(flav == XML && kind == K_TEXT) { printf("%ld ?unsupported\n", c); return; }
    if(live[x] && flav != PTR) write(x, (int)y, 'w');
  } else if(!strcmp(o, "detach")) {
    if(flav == XML && kind == K_TEXT) { printf("%ld ?unsupported\n", c); return; }
    if(live[x] && flav != PTR) write(x, 0, 'w');
  } else if(!strcmp(o, "resize") || !strcmp(o, "reserve")) {      // String only: resize(min(n, length)) / reserve(n)
    if(t.n < 3 || arg[0] < '0' || arg[0] > '9' || y < 0 || y > 80) { printf("%ld ?bad-contents\n", c); return; }
    if(flav != STR) { printf("%ld ?unsupported\n", c); return; }
    if(live[x]) {
      g_win = 1;
      if(o[3] == 'i') { usize len = S(x)->length(); S(x)->resize((usize)y < len ? (usize)y : len); }
      else S(x)->reserve((usize)y);
      g_win = 0;
    }
  } else if(!strcmp(o, "destroy")) {
    if(live[x]) destroy(x);
  } else { printf("%ld ?unknown-op\n", c); return; }
  settle(0, NV);
  observe(c);
}

static void end(long c)
{
  if(nest) { nest_end(c); return; }
  for(int i = 0; i < NSLOT; ++i) if(live[i]) destroy(i);
  if(conc) { printf("%ld end\n", c); return; }
  if(T::bad) printf("%ld end BADCANARY\n", c);
  else printf("%ld end | live=%ld dtors=%ld aux=%s\n", c, live_blocks(), releases(), g_naux ? "LEAK" : "ok");
}

int main(int argc, char** argv)
{
  // the const accessors hold function-local statics; their first use registers a destructor with atexit,
  // which may allocate: do that before any window is opened
  { const Variant v; v.toMap(); v.toList(); v.toArray(); const XV x; x.toElement(); }
  __sanitizer_install_malloc_and_free_hooks(on_malloc, on_free);
  return vh::run(argc, argv, begin, op, end);
}
