// Correspondence harness for C09 (sequential part): drives real String / Variant / RefCount::Ptr
// variables through handle histories and prints, after every operation, each variable's value,
// the number of live payload blocks, the number of payload releases, the sharing classes and the
// reference counters.  Payload blocks are counted by ASan's malloc/free hooks inside the window
// of the library call (String, Variant) or by the pointee's constructor/destructor (Ptr).
#include "vh.hpp"
#define private public
#define protected public
#include <nstd/String.hpp>
#include <nstd/Variant.hpp>
#include <nstd/RefCount.hpp>
#undef private
#undef protected

extern "C" int __sanitizer_install_malloc_and_free_hooks(void (*malloc_hook)(const volatile void*, size_t),
                                                         void (*free_hook)(const volatile void*));

enum { NV = 6, MAXT = 65536 };
enum Flav { STR, VAR, PTR };
static Flav flav;

// ---- ledger of payload blocks -----------------------------------------------------------------
static volatile int g_win = 0;
static size_t g_size_filter = 0;          // 0 = every allocation in the window
static const volatile void* g_tab[MAXT];
static int g_ntab = 0;
static long g_frees = 0;

static void on_malloc(const volatile void* p, size_t n)
{
  if(!g_win) return;
  if(g_size_filter && n != g_size_filter) return;
  if(g_ntab < MAXT) g_tab[g_ntab++] = p;
}
static void on_free(const volatile void* p)
{
  if(!p) return;
  for(int i = g_ntab - 1; i >= 0; --i)
    if(g_tab[i] == p) { g_tab[i] = g_tab[--g_ntab]; ++g_frees; return; }
}

// ---- pointee of the Ptr flavour -----------------------------------------------------------------
struct T : public RefCount::Object
{
  int id; long n; unsigned canary;
  static long constructed, destroyed, bad;
  T(long n) : id((int)constructed++), n(n), canary(0xC0FFEE01u) {}
  ~T() { if(canary != 0xC0FFEE01u) ++bad; canary = 0xDEADDEADu; ++destroyed; }
};
long T::constructed = 0, T::destroyed = 0, T::bad = 0;
typedef RefCount::Ptr<T> P;

// ---- variables: raw storage, explicit construction / destruction ----------------------------------
union Slot { char s[sizeof(String)]; char v[sizeof(Variant)]; char p[sizeof(P)]; long long align; double d; };
static Slot slots[NV];
static bool live[NV];
#define S(i) ((String*)slots[i].s)
#define V(i) ((Variant*)slots[i].v)
#define Q(i) ((P*)slots[i].p)

static void destroy(int v)
{
  g_win = 1;
  if(flav == STR) S(v)->~String(); else if(flav == VAR) V(v)->~Variant(); else Q(v)->~P();
  g_win = 0;
  live[v] = false;
}

static void begin(long, vh::Tok& t)
{
  for(int i = 0; i < NV; ++i) if(live[i]) destroy(i);
  flav = STR;
  if(t.n > 2 && !strcmp(t.v[2], "var")) flav = VAR;
  if(t.n > 2 && !strcmp(t.v[2], "ptr")) flav = PTR;
  g_size_filter = flav == VAR ? sizeof(Variant::Data) + sizeof(List<Variant>) : 0;
  g_ntab = 0; g_frees = 0;
  T::constructed = T::destroyed = T::bad = 0;
}

static long live_blocks() { return flav == PTR ? T::constructed - T::destroyed : g_ntab; }
static long releases() { return flav == PTR ? T::destroyed : g_frees; }

static void observe(long c)
{
  const void* cls[NV]; int ncls = 0;
  char vals[512], classes[128], rcs[256];
  int a = 0, b = 0, r = 0;
  for(int i = 0; i < NV; ++i) {
    const void* blk = 0; unsigned long long rc = 0; bool same = true;
    if(!live[i]) { a += sprintf(vals + a, "D "); }
    else if(flav == STR) {
      a += sprintf(vals + a, "%llu ", (unsigned long long)S(i)->length());
      if(S(i)->data != &String::emptyData) { blk = S(i)->data; rc = S(i)->data->ref; }
    } else if(flav == VAR) {
      const Variant* v = V(i);
      if(v->isNull()) a += sprintf(vals + a, "- ");
      else { a += sprintf(vals + a, "%llu ", (unsigned long long)v->toList().size()); }
      if(v->data != &Variant::nullData) { blk = v->data; rc = v->data->ref; }
    } else {
      P* p = Q(i);
      if(!p->obj) a += sprintf(vals + a, "- ");
      else {
        T* o = p->obj;
        if(o->canary != 0xC0FFEE01u) a += sprintf(vals + a, "BAD ");
        else a += sprintf(vals + a, "%d:%ld ", o->id, o->n);
        blk = o;
      }
      if(p->obj) { rc = p->refObj ? (unsigned long long)p->refObj->ref : 0; same = (void*)p->refObj == (void*)(RefCount::Object*)p->obj; }
    }
    if(!blk) { b += sprintf(classes + b, ". "); r += sprintf(rcs + r, ". "); }
    else {
      int k = 0;
      while(k < ncls && cls[k] != blk) ++k;
      if(k == ncls) cls[ncls++] = blk;
      b += sprintf(classes + b, "%d ", k);
      r += sprintf(rcs + r, "%llu%s ", rc, same ? "=" : "#");
    }
  }
  vals[a ? a - 1 : 0] = 0; classes[b ? b - 1 : 0] = 0; rcs[r ? r - 1 : 0] = 0;
  printf("%ld %s | live=%ld dtors=%ld | %s | %s\n", c, vals, live_blocks(), releases(), classes, rcs);
}

static void op(long c, long, vh::Tok& t)
{
  const char* o = t.v[0];
  int x = t.n > 1 ? atoi(t.v[1]) : 0;
  long y = t.n > 2 ? atol(t.v[2]) : 0;
  if(x < 0 || x >= NV) { printf("%ld ?bad-var\n", c); return; }
  bool two = !strcmp(o, "copy") || !strcmp(o, "fromraw") || !strcmp(o, "assign") || !strcmp(o, "swap");
  if(two && (y < 0 || y >= NV)) { printf("%ld ?bad-var\n", c); return; }
  if(!strcmp(o, "create")) {
    if(!live[x]) {
      if(flav == STR) { g_win = 1; new (slots[x].s) String((usize)y, 'x'); g_win = 0; }
      else if(flav == VAR) {
        List<Variant> l;
        for(long i = 0; i < y; ++i) l.append(Variant((int)i));
        g_win = 1; new (slots[x].v) Variant(l); g_win = 0;
      }
      else { T* raw = new T(y); new (slots[x].p) P(raw); }
      live[x] = true;
    }
  } else if(!strcmp(o, "null")) {
    if(!live[x]) {
      g_win = 1;
      if(flav == STR) new (slots[x].s) String(); else if(flav == VAR) new (slots[x].v) Variant(); else new (slots[x].p) P();
      g_win = 0;
      live[x] = true;
    }
  } else if(!strcmp(o, "copy")) {
    if(!live[x] && live[y]) {
      g_win = 1;
      if(flav == STR) new (slots[x].s) String(*S(y)); else if(flav == VAR) new (slots[x].v) Variant(*V(y)); else new (slots[x].p) P(*Q(y));
      g_win = 0;
      live[x] = true;
    }
  } else if(!strcmp(o, "fromraw")) {
    if(flav == PTR && !live[x] && live[y]) { new (slots[x].p) P(Q(y)->operator->()); live[x] = true; }
  } else if(!strcmp(o, "assign")) {
    if(live[x] && live[y]) {
      g_win = 1;
      if(flav == STR) *S(x) = *S(y); else if(flav == VAR) *V(x) = *V(y); else *Q(x) = *Q(y);
      g_win = 0;
    }
  } else if(!strcmp(o, "reset")) {
    if(live[x]) {
      g_win = 1;
      if(flav == STR) S(x)->clear(); else if(flav == VAR) V(x)->clear(); else *Q(x) = (T*)0;
      g_win = 0;
    }
  } else if(!strcmp(o, "swap")) {
    if(flav == PTR && live[x] && live[y] && x != y) Q(x)->swap(*Q(y));
  } else if(!strcmp(o, "write")) {
    if(live[x] && flav != PTR) {
      if(flav == STR) { g_win = 1; S(x)->append('x'); g_win = 0; }
      else { Variant one(1); g_win = 1; V(x)->toList().append(one); g_win = 0; }
    }
  } else if(!strcmp(o, "detach")) {
    if(live[x] && flav != PTR) {
      g_win = 1;
      if(flav == STR) S(x)->detach(); else V(x)->toList();
      g_win = 0;
    }
  } else if(!strcmp(o, "destroy")) {
    if(live[x]) destroy(x);
  } else { printf("%ld ?unknown-op\n", c); return; }
  observe(c);
}

static void end(long c)
{
  for(int i = 0; i < NV; ++i) if(live[i]) destroy(i);
  if(T::bad) printf("%ld end BADCANARY\n", c);
  else printf("%ld end | live=%ld dtors=%ld\n", c, live_blocks(), releases());
}

int main(int argc, char** argv)
{
  __sanitizer_install_malloc_and_free_hooks(on_malloc, on_free);
  return vh::run(argc, argv, begin, op, end);
}
