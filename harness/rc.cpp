// Correspondence harness for C09.
//
// Sequential part: drives real String / Variant / RefCount::Ptr / Xml::Variant variables through
// handle histories and prints, after every operation, each variable's value, the number of live
// payload blocks, the number of payload releases, the sharing classes and the reference counters.
// Payload blocks are counted by ASan's malloc/free hooks inside the window of the library call
// (String, Variant, Xml::Variant) or by the pointee's constructor/destructor (Ptr).
//
// Concurrent part (flavours cstr / cvar / cptr / cxml): real threads, each owning its own handle
// variables, some of which refer to one common payload.  Every atomic operation of the library
// (`__sync_add_and_fetch`, the only builtin Atomic::increment/decrement use) is bracketed by two
// scheduling points.  `go <tid...>`: the threads pass a baton, the listed thread ids decide who
// runs after each scheduling point (the same list drives the Coq interleaving machine); `free <n>`:
// n repetitions with the threads running freely after a common start signal.  After the join the
// same observation as in the sequential part is printed, then every handle left is destroyed and the
// number of payload blocks still allocated is printed (`after=`).
#include "vh.hpp"
#include <pthread.h>
#include <semaphore.h>
#include <sched.h>

extern "C" void verif_point(void);
template <class T, class V> static inline T verif_aaf(T volatile* p, V v)
{
  verif_point();
  T r = __sync_add_and_fetch(p, v);
  verif_point();
  return r;
}
#define __sync_add_and_fetch(p, v) verif_aaf(p, v)

#define private public
#define protected public
#include <nstd/String.hpp>
#include <nstd/Variant.hpp>
#include <nstd/RefCount.hpp>
#include <nstd/Document/Xml.hpp>
#undef private
#undef protected

extern "C" int __sanitizer_install_malloc_and_free_hooks(void (*malloc_hook)(const volatile void*, size_t),
                                                         void (*free_hook)(const volatile void*));

enum { NV = 6, MAXTH = 4, NSLOT = NV * MAXTH, MAXT = 65536, MAXPROG = 64, MAXSCHED = 4096 };
enum Flav { STR, VAR, PTR, XML };
typedef Xml::Variant XV;
static Flav flav;
static bool conc;

// ---- ledger of payload blocks -----------------------------------------------------------------
static __thread int g_win = 0;
static size_t g_size_filter = 0;          // 0 = every allocation in the window
static const volatile void* g_tab[MAXT];
static int g_ntab = 0;
static long g_frees = 0;
static pthread_mutex_t g_lock = PTHREAD_MUTEX_INITIALIZER;

static void on_malloc(const volatile void* p, size_t n)
{
  if(!g_win) return;
  if(g_size_filter && n != g_size_filter) return;
  pthread_mutex_lock(&g_lock);
  if(g_ntab < MAXT) g_tab[g_ntab++] = p;
  pthread_mutex_unlock(&g_lock);
}
static void on_free(const volatile void* p)
{
  if(!p) return;
  pthread_mutex_lock(&g_lock);
  for(int i = g_ntab - 1; i >= 0; --i)
    if(g_tab[i] == p) { g_tab[i] = g_tab[--g_ntab]; ++g_frees; break; }
  pthread_mutex_unlock(&g_lock);
}

// ---- pointee of the Ptr flavour -----------------------------------------------------------------
struct T : public RefCount::Object
{
  int id; long n; unsigned canary;
  static long constructed, destroyed, bad;
  T(long n) : id((int)__sync_fetch_and_add(&constructed, 1)), n(n), canary(0xC0FFEE01u) {}
  ~T() { if(canary != 0xC0FFEE01u) __sync_fetch_and_add(&bad, 1); canary = 0xDEADDEADu; __sync_fetch_and_add(&destroyed, 1); }
};
long T::constructed = 0, T::destroyed = 0, T::bad = 0;
typedef RefCount::Ptr<T> P;

// ---- variables: raw storage, explicit construction / destruction ----------------------------------
union Slot { char s[sizeof(String)]; char v[sizeof(Variant)]; char p[sizeof(P)]; char x[sizeof(XV)]; long long align; double d; };
static Slot slots[NSLOT];
static bool live[NSLOT];
#define S(i) ((String*)slots[i].s)
#define V(i) ((Variant*)slots[i].v)
#define Q(i) ((P*)slots[i].p)
#define X(i) ((XV*)slots[i].x)

static void destroy(int v)
{
  g_win = 1;
  if(flav == STR) S(v)->~String(); else if(flav == VAR) V(v)->~Variant(); else if(flav == XML) X(v)->~XV(); else Q(v)->~P();
  g_win = 0;
  live[v] = false;
}

static void create(int x, long y)
{
  if(flav == STR) { g_win = 1; new (slots[x].s) String((usize)y, 'x'); g_win = 0; }
  else if(flav == VAR) {
    List<Variant> l;
    for(long i = 0; i < y; ++i) l.append(Variant((int)i));
    g_win = 1; new (slots[x].v) Variant(l); g_win = 0;
  }
  else if(flav == XML) {
    Xml::Element e;
    for(long i = 0; i < y; ++i) e.content.append(XV(String("t")));
    g_win = 1; new (slots[x].x) XV(e); g_win = 0;
  }
  else { T* raw = new T(y); new (slots[x].p) P(raw); }
  live[x] = true;
}
static void copy(int x, int y)
{
  g_win = 1;
  if(flav == STR) new (slots[x].s) String(*S(y)); else if(flav == VAR) new (slots[x].v) Variant(*V(y)); else if(flav == XML) new (slots[x].x) XV(*X(y)); else new (slots[x].p) P(*Q(y));
  g_win = 0;
  live[x] = true;
}
static void assign(int x, int y)
{
  g_win = 1;
  if(flav == STR) *S(x) = *S(y); else if(flav == VAR) *V(x) = *V(y); else if(flav == XML) *X(x) = *X(y); else *Q(x) = *Q(y);
  g_win = 0;
}
static void write(int x)
{
  if(flav == STR) { g_win = 1; S(x)->append('x'); g_win = 0; }
  else if(flav == XML) { XV one(String("t")); g_win = 1; X(x)->toElement().content.append(one); g_win = 0; }
  else if(flav == VAR) { Variant one(1); g_win = 1; V(x)->toList().append(one); g_win = 0; }
}
// write access that cannot be done in place even when the handle is the only one (String: capacity)
static void write_force(int x)
{
  if(flav == STR) { g_win = 1; S(x)->reserve(S(x)->length() + 64); S(x)->append('x'); g_win = 0; }   // reserve clones (capacity too small); the append is then in place
  else write(x);
}
static __thread unsigned long g_sink;
static void readval(int x)
{
  unsigned long a = 0;
  if(flav == STR) { const String& s = *S(x); a = s.length(); const char* p = (const char*)s.data->str; for(usize i = 0; i < s.length(); ++i) a += (unsigned char)p[i]; }
  else if(flav == VAR) { const Variant* v = V(x); a = v->toList().size(); }
  else if(flav == XML) { const XV* v = X(x); a = v->toElement().content.size(); }
  else { T* o = Q(x)->obj; a = (unsigned long)o->n + (o->canary == 0xC0FFEE01u ? 0 : 1000000); }
  g_sink += a;
}

static long live_blocks() { return flav == PTR ? T::constructed - T::destroyed : g_ntab; }
static long releases() { return flav == PTR ? T::destroyed : g_frees; }

static void observe_to(char* out, int nslots, int group)
{
  const void* cls[NSLOT]; int ncls = 0;
  char vals[1024], classes[512], rcs[1024];
  int a = 0, b = 0, r = 0;
  for(int i = 0; i < nslots; ++i) {
    const void* blk = 0; unsigned long long rc = 0; bool same = true;
    if(group && i && i % group == 0) { a += sprintf(vals + a, "; "); b += sprintf(classes + b, "; "); r += sprintf(rcs + r, "; "); }
    if(!live[i]) { a += sprintf(vals + a, "D "); }
    else if(flav == STR) {
      a += sprintf(vals + a, "%llu ", (unsigned long long)S(i)->length());
      if(S(i)->data != &String::emptyData && S(i)->data != &S(i)->_data) { blk = S(i)->data; rc = S(i)->data->ref; }
    } else if(flav == VAR) {
      const Variant* v = V(i);
      if(v->isNull()) a += sprintf(vals + a, "- ");
      else { a += sprintf(vals + a, "%llu ", (unsigned long long)v->toList().size()); }
      if(v->data != &Variant::nullData && v->data != &v->_data) { blk = v->data; rc = v->data->ref; }   // _data: inline, never counted
    } else if(flav == XML) {
      const XV* v = X(i);
      if(v->isNull()) a += sprintf(vals + a, "- ");
      else { a += sprintf(vals + a, "%llu ", (unsigned long long)v->toElement().content.size()); }
      if(v->data != &XV::nullData) { blk = v->data; rc = v->data->ref; }
    } else {
      P* p = Q(i);
      if(!p->obj) a += sprintf(vals + a, "- ");
      else {
        T* o = p->obj;
        if(o->canary != 0xC0FFEE01u) a += sprintf(vals + a, "BAD ");
        else a += sprintf(vals + a, "%d:%ld ", o->id, o->n);
        blk = o;
      }
      if(p->obj) { rc = p->refObj ? (unsigned long long)p->refObj->ref : 0; same = (void*)p->refObj == (void*)(RefCount::Object*)p->obj; }
    }
    if(!blk) { b += sprintf(classes + b, ". "); r += sprintf(rcs + r, ". "); }
    else {
      int k = 0;
      while(k < ncls && cls[k] != blk) ++k;
      if(k == ncls) cls[ncls++] = blk;
      b += sprintf(classes + b, "%d ", k);
      r += sprintf(rcs + r, "%llu%s ", rc, same ? "=" : "#");
    }
  }
  vals[a ? a - 1 : 0] = 0; classes[b ? b - 1 : 0] = 0; rcs[r ? r - 1 : 0] = 0;
  if(group) sprintf(out, "%s | live=%ld | %s | %s", vals, live_blocks(), classes, rcs);
  else sprintf(out, "%s | live=%ld dtors=%ld | %s | %s", vals, live_blocks(), releases(), classes, rcs);
}

// ================================ concurrent part =================================================
struct COp { char kind; int a, b; };     // c copy, a assign, d drop, w write, W write(force), r read, s swap
static int c_nth, c_nv; static long c_val;
static int c_own[MAXTH];
static COp c_prog[MAXTH][MAXPROG]; static int c_len[MAXTH];

static int g_mode = 0;                   // 0: no scheduling, 1: baton passing, 2: free running
static int g_sched[MAXSCHED]; static int g_nsched, g_spos;
static sem_t g_sem[MAXTH], g_sem_main;
static volatile int g_done[MAXTH];
static __thread int g_me = -1;
static int g_start;

static int pick_next(int me)
{
  while(g_spos < g_nsched) {
    int id = g_sched[g_spos++];
    if(id >= 0 && id < c_nth && !g_done[id]) return id;
  }
  if(me >= 0 && !g_done[me]) return me;
  for(int i = 0; i < c_nth; ++i) if(!g_done[i]) return i;
  return -1;
}

extern "C" void verif_point(void)
{
  if(g_mode != 1 || g_me < 0) return;
  int next = pick_next(g_me);
  if(next != g_me && next >= 0) { sem_post(&g_sem[next]); sem_wait(&g_sem[g_me]); }
}

static void exec_op(int t, const COp& o)
{
  int base = t * NV;
  int x = base + o.a, y = base + o.b;
  bool ax = o.a >= 0 && o.a < c_nv, bx = o.b >= 0 && o.b < c_nv;
  switch(o.kind) {
  case 'c': if(ax && bx && !live[x] && live[y]) copy(x, y); break;
  case 'a': if(ax && bx && live[x] && live[y]) assign(x, y); break;
  case 'd': if(ax && live[x]) destroy(x); break;
  case 'w': if(ax && live[x]) write(x); break;
  case 'W': if(ax && live[x]) write_force(x); break;
  case 'r': if(ax && live[x]) readval(x); break;
  case 's': if(flav == PTR && ax && bx && live[x] && live[y] && x != y) Q(x)->swap(*Q(y)); break;
  }
}

static void* thread_main(void* arg)
{
  int t = (int)(long)arg;
  g_me = t;
  if(g_mode == 1) sem_wait(&g_sem[t]);
  else { while(!__atomic_load_n(&g_start, __ATOMIC_ACQUIRE)) sched_yield(); }
  for(int i = 0; i < c_len[t]; ++i) exec_op(t, c_prog[t][i]);
  if(g_mode == 1) {
    g_done[t] = 1;
    int next = pick_next(-1);
    if(next >= 0) sem_post(&g_sem[next]); else sem_post(&g_sem_main);
  }
  return 0;
}

static void conc_reset()
{
  for(int i = 0; i < NSLOT; ++i) if(live[i]) destroy(i);
  g_ntab = 0; g_frees = 0;
  T::constructed = T::destroyed = T::bad = 0;
}

// one run from the initial configuration; the observation goes to out
static void conc_run(char* out)
{
  conc_reset();
  // the common payload, and the threads' handles to it; the creating handle is dropped before the start
  int first = -1;
  for(int t = 0; t < c_nth && first < 0; ++t) if(c_own[t] > 0) first = t * NV;
  if(first >= 0) {
    create(first, c_val);
    for(int t = 0; t < c_nth; ++t)
      for(int j = 0; j < c_own[t]; ++j)
        if(t * NV + j != first) copy(t * NV + j, first);
  }
  pthread_t th[MAXTH];
  g_spos = 0; __atomic_store_n(&g_start, 0, __ATOMIC_RELEASE);
  sem_init(&g_sem_main, 0, 0);
  for(int t = 0; t < c_nth; ++t) { g_done[t] = 0; sem_init(&g_sem[t], 0, 0); }
  for(int t = 0; t < c_nth; ++t) pthread_create(&th[t], 0, thread_main, (void*)(long)t);
  if(g_mode == 1) {
    int next = pick_next(-1);
    if(next >= 0) { sem_post(&g_sem[next]); sem_wait(&g_sem_main); }
  }
  else __atomic_store_n(&g_start, 1, __ATOMIC_RELEASE);
  for(int t = 0; t < c_nth; ++t) pthread_join(th[t], 0);
  int mode = g_mode; g_mode = 0;
  char obs[4096];
  observe_to(obs, c_nth * NV, NV);
  for(int i = 0; i < NSLOT; ++i) if(live[i]) destroy(i);
  sprintf(out, "%s | after=%ld%s", obs, live_blocks(), T::bad ? " BADCANARY" : "");
  g_mode = mode;
}

static void conc_op(long c, vh::Tok& t)
{
  const char* o = t.v[0];
  if(!strcmp(o, "init")) {
    c_val = t.n > 1 ? atol(t.v[1]) : 0;
    c_nv = t.n > 2 ? atoi(t.v[2]) : 1;
    if(c_nv > NV) c_nv = NV; if(c_nv < 1) c_nv = 1;
    c_nth = t.n - 3; if(c_nth > MAXTH) c_nth = MAXTH; if(c_nth < 0) c_nth = 0;
    for(int i = 0; i < c_nth; ++i) { c_own[i] = atoi(t.v[3 + i]); if(c_own[i] > c_nv) c_own[i] = c_nv; if(c_own[i] < 0) c_own[i] = 0; c_len[i] = 0; }
    printf("%ld init\n", c);
  } else if(!strcmp(o, "t")) {
    int tid = t.n > 1 ? atoi(t.v[1]) : -1;
    if(tid >= 0 && tid < c_nth && c_len[tid] < MAXPROG && t.n > 3) {
      COp op; op.a = atoi(t.v[3]); op.b = t.n > 4 ? atoi(t.v[4]) : 0;
      const char* k = t.v[2];
      op.kind = !strcmp(k, "copy") ? 'c' : !strcmp(k, "assign") ? 'a' : !strcmp(k, "drop") ? 'd' : !strcmp(k, "read") ? 'r' :
                !strcmp(k, "swap") ? 's' : !strcmp(k, "write") ? (t.n > 4 && !strcmp(t.v[4], "force") ? 'W' : 'w') : '?';
      c_prog[tid][c_len[tid]++] = op;
    }
    printf("%ld t\n", c);
  } else if(!strcmp(o, "go")) {
    g_nsched = 0;
    for(int i = 1; i < t.n && g_nsched < MAXSCHED; ++i) g_sched[g_nsched++] = atoi(t.v[i]);
    char out[4608];
    g_mode = 1; conc_run(out); g_mode = 0;
    printf("%ld %s\n", c, out);
  } else if(!strcmp(o, "free")) {
    int reps = t.n > 1 ? atoi(t.v[1]) : 1;
    char first[4608], out[4608]; first[0] = 0;
    bool same = true;
    for(int r = 0; r < reps; ++r) {
      g_mode = 2; conc_run(out); g_mode = 0;
      if(r == 0) strcpy(first, out);
      else if(strcmp(first, out)) { same = false; break; }
    }
    if(same) printf("%ld %s\n", c, first);
    else printf("%ld DIFFERENT-RUNS `%s` vs `%s`\n", c, first, out);
  } else printf("%ld ?unknown-op\n", c);
}

// ================================ sequential part ==================================================
static void begin(long, vh::Tok& t)
{
  for(int i = 0; i < NSLOT; ++i) if(live[i]) destroy(i);
  flav = STR; conc = false;
  const char* f = t.n > 2 ? t.v[2] : "str";
  if(f[0] == 'c') { conc = true; ++f; }
  if(!strcmp(f, "var")) flav = VAR;
  if(!strcmp(f, "ptr")) flav = PTR;
  if(!strcmp(f, "xml")) flav = XML;
  g_size_filter = flav == VAR ? sizeof(Variant::Data) + sizeof(List<Variant>) : flav == XML ? sizeof(XV::Data) + sizeof(Xml::Element) : 0;
  g_ntab = 0; g_frees = 0;
  T::constructed = T::destroyed = T::bad = 0;
  c_nth = 0; c_nv = 1; c_val = 0;
}

static void observe(long c)
{
  char out[4096];
  observe_to(out, NV, 0);
  printf("%ld %s\n", c, out);
}

static void op(long c, long, vh::Tok& t)
{
  if(conc) { conc_op(c, t); return; }
  const char* o = t.v[0];
  int x = t.n > 1 ? atoi(t.v[1]) : 0;
  long y = t.n > 2 ? atol(t.v[2]) : 0;
  if(x < 0 || x >= NV) { printf("%ld ?bad-var\n", c); return; }
  bool two = !strcmp(o, "copy") || !strcmp(o, "fromraw") || !strcmp(o, "assign") || !strcmp(o, "swap");
  if(two && (y < 0 || y >= NV)) { printf("%ld ?bad-var\n", c); return; }
  if(!strcmp(o, "create")) {
    if(!live[x]) create(x, y);
  } else if(!strcmp(o, "null")) {
    if(!live[x]) {
      g_win = 1;
      if(flav == STR) new (slots[x].s) String(); else if(flav == VAR) new (slots[x].v) Variant(); else if(flav == XML) new (slots[x].x) XV(); else new (slots[x].p) P();
      g_win = 0;
      live[x] = true;
    }
  } else if(!strcmp(o, "copy")) {
    if(!live[x] && live[y]) copy(x, (int)y);
  } else if(!strcmp(o, "fromraw")) {
    if(flav == PTR && !live[x] && live[y]) { new (slots[x].p) P(Q(y)->operator->()); live[x] = true; }
  } else if(!strcmp(o, "assign")) {
    if(live[x] && live[y]) assign(x, (int)y);
  } else if(!strcmp(o, "reset")) {
    if(live[x]) {
      g_win = 1;
      if(flav == STR) S(x)->clear(); else if(flav == VAR) V(x)->clear(); else if(flav == XML) X(x)->clear(); else *Q(x) = (T*)0;
      g_win = 0;
    }
  } else if(!strcmp(o, "swap")) {
    if(flav == PTR && live[x] && live[y] && x != y) Q(x)->swap(*Q(y));
  } else if(!strcmp(o, "write")) {
    if(live[x] && flav != PTR) write(x);
  } else if(!strcmp(o, "detach")) {
    if(live[x] && flav != PTR) {
      g_win = 1;
      if(flav == STR) S(x)->detach(); else if(flav == XML) X(x)->toElement(); else V(x)->toList();
      g_win = 0;
    }
  } else if(!strcmp(o, "destroy")) {
    if(live[x]) destroy(x);
  } else { printf("%ld ?unknown-op\n", c); return; }
  observe(c);
}

static void end(long c)
{
  for(int i = 0; i < NSLOT; ++i) if(live[i]) destroy(i);
  if(conc) { printf("%ld end\n", c); return; }
  if(T::bad) printf("%ld end BADCANARY\n", c);
  else printf("%ld end | live=%ld dtors=%ld\n", c, live_blocks(), releases());
}

int main(int argc, char** argv)
{
  __sanitizer_install_malloc_and_free_hooks(on_malloc, on_free);
  return vh::run(argc, argv, begin, op, end);
}
