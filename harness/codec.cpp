// Correspondence harness for C18: drives Unicode::*, String::fromHex/fromBase64 and the integer
// conversions of the working tree on the op file.  Every input range is an exactly sized heap
// copy (also for length 0), so that AddressSanitizer sees a one byte over-read.
#include "vh.hpp"
#include <nstd/String.hpp>
#include <nstd/Unicode.hpp>

// exact-size heap copy of a hex token ("-" = empty, malloc(0): no accessible byte at all)
static unsigned char* exact(const char* s, size_t& len)
{
  if(s[0] == '-' && s[1] == 0) { len = 0; return (unsigned char*)malloc(0); }
  size_t n = strlen(s) / 2;
  unsigned char* b = (unsigned char*)malloc(n);
  for(size_t i = 0; i < n; ++i) {
    int hi = s[2 * i], lo = s[2 * i + 1];
    hi = hi <= '9' ? hi - '0' : (hi | 0x20) - 'a' + 10;
    lo = lo <= '9' ? lo - '0' : (lo | 0x20) - 'a' + 10;
    b[i] = (unsigned char)(hi * 16 + lo);
  }
  len = n;
  return b;
}

// decimal tokens are read and written by hand: the libc conversions are what is under test
static unsigned long long parse_mag(const char* s, bool& neg)
{
  neg = false;
  if(*s == '-') { neg = true; ++s; } else if(*s == '+') ++s;
  unsigned long long v = 0;
  for(; *s >= '0' && *s <= '9'; ++s) v = v * 10 + (unsigned long long)(*s - '0');
  return v;
}
static long long parse_i64(const char* s) { bool n; unsigned long long m = parse_mag(s, n); return n ? (long long)(0ULL - m) : (long long)m; }
static unsigned long long parse_u64(const char* s) { bool n; return parse_mag(s, n); }

static void put_u64(unsigned long long v)
{
  char buf[32]; int n = 0;
  do { buf[n++] = (char)('0' + v % 10); v /= 10; } while(v);
  while(n) putchar(buf[--n]);
}
static void put_i64(long long v)
{
  if(v < 0) { putchar('-'); put_u64(0ULL - (unsigned long long)v); } else put_u64((unsigned long long)v);
}
static void put_str(const String& s) { vh::puthex((const unsigned char*)(const char*)s, s.length()); }

// a block window ++ tail in one exactly sized allocation (tail "-": the allocation ends with the window); a String
// attached to the window does not own its bytes and has no terminator of its own behind them
static char* block2(const char* a, const char* tl, size_t& n)
{
  size_t nt; unsigned char* w = exact(a, n); unsigned char* t = exact(tl, nt);
  char* b = (char*)malloc(n + nt);
  if(n) memcpy(b, w, n);
  if(nt) memcpy(b + n, t, nt);
  free(w); free(t);
  return b;
}

static void op(long c, long, vh::Tok& t)
{
  const char* o = t.v[0];
  const char* a = t.n > 1 ? t.v[1] : "-";
  printf("%ld ", c);
  if(!strcmp(o, "u8enc")) {
    put_str(Unicode::toString((uint32)parse_u64(a)));
  } else if(!strcmp(o, "u8encn")) {
    size_t n = 0; uint32* cps = (uint32*)malloc(sizeof(uint32) * (strlen(a) + 1));
    size_t cnt = 0;
    if(strcmp(a, "-")) { char* save = 0; char* dup = strdup(a);
      for(char* p = strtok_r(dup, ",", &save); p; p = strtok_r(0, ",", &save)) cps[cnt++] = (uint32)parse_u64(p);
      free(dup); }
    uint32* ex = (uint32*)malloc(sizeof(uint32) * cnt);
    memcpy(ex, cps, sizeof(uint32) * cnt); free(cps); (void)n;
    put_str(Unicode::toString(ex, cnt));
    free(ex);
  } else if(!strcmp(o, "u8len")) {
    put_u64(Unicode::length((char)(unsigned char)parse_u64(a)));
  } else if(!strcmp(o, "u8dec")) {
    size_t n; unsigned char* d = exact(a, n);
    put_u64(Unicode::fromString((const char*)d, n)); putchar(' ');
    String s((const char*)d, n); free(d);
    put_u64(Unicode::fromString(s));                 // the String overload (Unicode.hpp:120) on the same bytes
  } else if(!strcmp(o, "u8valid")) {
    size_t n; unsigned char* d = exact(a, n);
    put_u64(Unicode::isValid((const char*)d, n) ? 1 : 0); putchar(' ');
    String s((const char*)d, n); free(d);
    put_u64(Unicode::isValid(s) ? 1 : 0);            // the String overload (Unicode.hpp:154)
  } else if(!strcmp(o, "u8deca") || !strcmp(o, "u8valida")) {
    // the String overloads on a String ATTACHED to the window of an exactly sized block window ++ tail
    size_t n; char* b = block2(a, t.n > 2 ? t.v[2] : "-", n);
    { String at; at.attach(b, n);
      if(o[2] == 'd') put_u64(Unicode::fromString(at)); else put_u64(Unicode::isValid(at) ? 1 : 0); }
    free(b);
  } else if(!strcmp(o, "tointa") || !strcmp(o, "touinta") || !strcmp(o, "toint64a") || !strcmp(o, "touint64a")) {
    // the member conversions on an attached String (Process::Arguments hands such Strings to callers)
    size_t n; char* b = block2(a, t.n > 2 ? t.v[2] : "-", n);
    { String at; at.attach(b, n);
      if(!strcmp(o, "tointa")) put_i64(at.toInt());
      else if(!strcmp(o, "touinta")) put_u64(at.toUInt());
      else if(!strcmp(o, "toint64a")) put_i64(at.toInt64());
      else put_u64(at.toUInt64()); }
    free(b);
  } else if(!strcmp(o, "u8rt")) {
    String s = Unicode::toString((uint32)parse_u64(a));
    // exact-size copy of the encoder's output for the two readers
    size_t n = s.length(); char* d = (char*)malloc(n); memcpy(d, (const char*)s, n);
    put_str(s); putchar(' ');
    put_u64(Unicode::fromString(d, n)); putchar(' ');
    put_u64(Unicode::isValid(d, n) ? 1 : 0); putchar(' ');
    free(d);
    put_u64(Unicode::fromString(s)); putchar(' ');   // the String overloads on the encoder's own result
    put_u64(Unicode::isValid(s) ? 1 : 0);
  } else if(!strcmp(o, "hex")) {
    size_t n; unsigned char* d = exact(a, n);
    put_str(String::fromHex(d, n)); free(d);
  } else if(!strcmp(o, "b64") || !strcmp(o, "b64raw")) {
    size_t n; unsigned char* d = exact(a, n);
    String in((const char*)d, n); free(d);
    put_str(String::fromBase64(in));
  } else if(!strcmp(o, "b64a")) {
    // fromBase64 on a String ATTACHED to the window of an exactly sized block window ++ tail
    size_t n; char* b = block2(a, t.n > 2 ? t.v[2] : "-", n);
    { String at; at.attach(b, n); put_str(String::fromBase64(at)); }
    free(b);
  } else if(!strcmp(o, "u8sw")) {
    // sweep: prefix ++ [v] ++ suffix for every byte v; 256 fromString values, then 256 isValid bits
    const char* a2 = t.n > 2 ? t.v[2] : "-";
    size_t np, ns; unsigned char* pre = exact(a, np); unsigned char* suf = exact(a2, ns);
    size_t n = np + 1 + ns; unsigned char* d = (unsigned char*)malloc(n);
    memcpy(d, pre, np); memcpy(d + np + 1, suf, ns);
    for(int v = 0; v < 256; ++v) { d[np] = (unsigned char)v; put_u64(Unicode::fromString((const char*)d, n)); putchar(' '); }
    for(int v = 0; v < 256; ++v) { d[np] = (unsigned char)v; putchar(Unicode::isValid((const char*)d, n) ? '1' : '0'); if(v < 255) putchar(' '); }
    free(d); free(pre); free(suf);
  } else if(!strcmp(o, "b64sw")) {
    // sweep: fromBase64(prefix ++ [v] ++ suffix) for every byte v; 256 results
    const char* a2 = t.n > 2 ? t.v[2] : "-";
    size_t np, ns; unsigned char* pre = exact(a, np); unsigned char* suf = exact(a2, ns);
    size_t n = np + 1 + ns; unsigned char* d = (unsigned char*)malloc(n);
    memcpy(d, pre, np); memcpy(d + np + 1, suf, ns);
    for(int v = 0; v < 256; ++v) {
      d[np] = (unsigned char)v;
      String in((const char*)d, n);
      put_str(String::fromBase64(in)); if(v < 255) putchar(' ');
    }
    free(d); free(pre); free(suf);
  } else if(!strcmp(o, "fromint")) { put_str(String::fromInt((int)parse_i64(a)));
  } else if(!strcmp(o, "fromuint")) { put_str(String::fromUInt((uint)parse_u64(a)));
  } else if(!strcmp(o, "fromint64")) { put_str(String::fromInt64((int64)parse_i64(a)));
  } else if(!strcmp(o, "fromuint64")) { put_str(String::fromUInt64((uint64)parse_u64(a)));
  } else if(!strcmp(o, "toint") || !strcmp(o, "touint") || !strcmp(o, "toint64") || !strcmp(o, "touint64")) {
    size_t n; unsigned char* d = exact(a, n);
    String s((const char*)d, n);
    // exactly sized C string for the static overloads: the bytes and one terminator, nothing behind it
    char* z = (char*)malloc(n + 1); memcpy(z, d, n); z[n] = 0; free(d);
    if(!strcmp(o, "toint")) { put_i64(s.toInt()); putchar(' '); put_i64(String::toInt(z)); }
    else if(!strcmp(o, "touint")) { put_u64(s.toUInt()); putchar(' '); put_u64(String::toUInt(z)); }
    else if(!strcmp(o, "toint64")) { put_i64(s.toInt64()); putchar(' '); put_i64(String::toInt64(z)); }
    else { put_u64(s.toUInt64()); putchar(' '); put_u64(String::toUInt64(z)); }
    free(z);
  } else if(!strcmp(o, "rtint")) { put_i64(String::fromInt((int)parse_i64(a)).toInt());
  } else if(!strcmp(o, "rtuint")) { put_u64(String::fromUInt((uint)parse_u64(a)).toUInt());
  } else if(!strcmp(o, "rtint64")) { put_i64(String::fromInt64((int64)parse_i64(a)).toInt64());
  } else if(!strcmp(o, "rtuint64")) { put_u64(String::fromUInt64((uint64)parse_u64(a)).toUInt64());
  } else {
    printf("?unknown-op");
  }
  printf("\n");
}

int main(int argc, char** argv) { return vh::run(argc, argv, 0, op, 0); }
