// C interface of the simulated kernel for C14 (serverloop_kernel.cpp).
#pragma once
#include <stddef.h>
#ifdef __cplusplus
extern "C" {
#endif
typedef void (*slk_emit_fn)(const char* line);          // print one observation line
typedef long (*slk_peek_fn)(char kind, long id);        // identity the test script has for the next client announced by l<id> / e<id>, or -1
typedef void (*slk_announce_fn)(long newid);            // the client with this identity is about to be created
typedef void (*slk_foreign_fn)(void);                   // the epoll script ran out: another thread interrupts
typedef void (*slk_now_fn)(void);                       // run() has just sampled the clock (start of an iteration)

void slk_reset(slk_emit_fn emit, slk_peek_fn peek, slk_announce_fn announce, slk_foreign_fn foreign, slk_now_fn now);
void slk_arm(int on);                 // interposition on/off (off: everything is forwarded to libc)
long long slk_clock(void);
void slk_adv(long long d);
long long slk_last_now(void);
void slk_in_run(int on);
void slk_depth(int delta);            // > 0 while an operation of the test (top level or inside a callback) runs
void slk_expect(char kind, long id);  // the next EPOLL_CTL_ADD of a descriptor belongs to this object
void slk_connect_mode(int on);        // ::connect answers EINPROGRESS without touching the network
void slk_script_clear(void);
int  slk_script_add(const char* item);   // "<dt>[+][!][:<ent>=<bits>,…]"  (+: continues the previous item, !: -1/EINTR)
void slk_touch(char kind, long id);      // the loop has done something with this object (a callback): its reported readiness is consumed
void slk_push_send(int kind, long k);    // kind: 0 would block, 1 error, 2 sent k
void slk_push_recv(int kind, long k);    // kind: 0 would block, 1 error, 2 end of stream, 3 got k
void slk_push_accept(int ok);
void slk_push_conn(long err);
size_t slk_reg_dump(char* buf, size_t cap);  // "c1:8209,l0:8209" sorted by name, "-" when empty
int  slk_evfd_readable(void);
// real-kernel rounds (interposition off): hooks for the two-thread scenarios of the `mt` operation
void slk_thread_stall(int mode, int usec);   // calling thread: 1 = sleep usec after its next write to the event descriptor, 2 = before it, 0 = off
long slk_wait_entries(void);                 // number of epoll_wait calls entered so far (also while interposition is off)
void slk_lookup_release(int ok);             // let one blocked getaddrinfo("verif.test") return (ok: 127.0.0.1, else EAI_NONAME)
long slk_lookups_done(void);                 // number of such lookups that have returned
#ifdef __cplusplus
}
#endif
