// Correspondence harness for C14: the real Server (src/Socket/Server.cpp of the tree under test,
// compiled into this translation unit so that its private state can be READ for the state line)
// on top of the simulated kernel (serverloop_kernel.cpp): scripted clock, scripted epoll results,
// scripted send/recv/accept/SO_ERROR outcomes, scripted callback behaviours.
//
//   timer <i> <iv> | rmtimer <i> | pair <i> | rmclient <i> | listen <i> | rmlistener <i>
//   connect <i> | rmestab <i> | write <i> <n> | read <i> | suspend <i> | resume <i> | interrupt | adv <d>
//   on <ent> <act|read|write|closed|abolished|accepted|connected> <new> <acc> [/ <action>]…
//        queue the behaviour of the next such callback of <ent> (t<i> c<i> l<i> e<i>)
//   run <item>…            Server::run(); item = <dt>[+][!][:<ent>=<bits>,…]  bits: 1 in 2 out 4 rdhup 8 hup 16 err
//                          `+` the item continues the previous one (a crowd of ready sockets cut into pieces of 63: an epoll_wait that
//                          asks for more than 64 events gets them in one call); `!` epoll_wait fails with EINTR after dt
//   sendq (w|e|<k>)… | recvq (w|e|z|<k>)… | acceptq (0|1)… | connq <err>…
//   opts <keepalive> <nodelay> <sndbuf> <rcvbuf> <reuse>    the five socket-option setters of Server (the options are applied to
//                          the sockets of later pair/accept/connect/listen operations; they do not change what the loop does)
//   mt <round>…            rounds on the REAL kernel with real threads (interposition off): a loop thread calls run(), one or
//                          two other threads call interrupt(); every round must end with run() returning within 3 s after
//                          interrupt() returned and never before interrupt() was called.
//        b<s><us>  interrupt() completes, then run()        d<s><us>  interrupt() <us> after the loop thread entered epoll_wait
//        r<s><us>  both released at once (interrupter spins <us> first)   n  no interrupt for 20 ms (run() must not return), then one
//        2<us>     two threads interrupt a waiting loop, the second <us> later
//        <s>: n no stall, w the interrupter sleeps 3 ms right after its write to the event descriptor, p right before it
//        hf ho Hf  connect("verif.test", …): the (interposed) lookup fails / succeeds, then interrupt(), then run() (H: both while the loop waits)
//        ho        … a successful lookup leaves the establisher registered for its connect (or abolished), no onConnected yet
//        x         an establisher removed while its lookup is pending gets no callback when the lookup completes
//        g<us>     a signal (SIGUSR1, empty handler) hits the loop thread while it waits: epoll_wait fails with EINTR, run() must
//                  not return; the interrupt() <us> later ends it
//        c         clear(): pools empty, no callback of a cleared timer, the server is usable afterwards
//                          prints  mt <k> <round> ok  or  mt <k> <round> FAIL <reason>
//
// Output: one line per observable event (same vocabulary as ServerLoopSpec.ev) and after every
// operation a state line  st clk=… | <internal structure> .  Every iteration of run() (right after
// the loop sampled the clock) prints  sel <buffered events of the Poll object, in order>  (private
// state of Socket::Poll, read through the Socket.cpp of the tree under test compiled into this unit).
#include "vh.hpp"
#include <errno.h>
#include "serverloop_kernel.h"
#define private public
#define protected public
#include <Socket/Socket.cpp>
#include <Socket/Server.cpp>
#undef private
#undef protected

#define NID 256
#define NENTRY 1024
#define NACT 48

typedef Server::Private SP;

static long caseno = 0;
static Server* server = 0;

static volatile int mt_mode = 0;          // real-kernel rounds: callbacks only count
static volatile long mt_acts = 0, mt_abolished[2] = {0, 0}, mt_other = 0;
static void emit(const char* line) { printf("%ld %s\n", caseno, line); fflush(stdout); }
static void emitf(const char* fmt, ...) __attribute__((format(printf, 1, 2)));
#include <stdarg.h>
static void emitf(const char* fmt, ...)
{
  char buf[4096];
  va_list ap; va_start(ap, fmt); vsnprintf(buf, sizeof(buf), fmt, ap); va_end(ap);
  emit(buf);
}

// ---- behaviours queued by `on` -------------------------------------------------------------------
enum { S_ACT, S_READ, S_WRITE, S_CLOSED, S_ABOLISHED, S_ACCEPTED, S_CONNECTED, S_BAD };
static int skind_of(const char* s)
{
  static const char* n[] = {"act", "read", "write", "closed", "abolished", "accepted", "connected"};
  for(int i = 0; i < 7; ++i) if(!strcmp(s, n[i])) return i;
  return S_BAD;
}
struct Entry { char ekind; long eid; int skind; long nw; int acc; char* acts[NACT]; int nacts; bool taken; };
static Entry entries[NENTRY]; static int nentries = 0;

static Entry* find_entry(char ekind, long eid, int skind)
{
  for(int i = 0; i < nentries; ++i)
    if(!entries[i].taken && entries[i].ekind == ekind && entries[i].eid == eid && entries[i].skind == skind)
      return &entries[i];
  return 0;
}

// ---- objects of the test ---------------------------------------------------------------------------
static void exec_action(char* line);
static void run_entry(Entry* e);

struct TimerCb : public Server::Timer::ICallback { long id; void onActivated(); };
struct ClientCb : public Server::Client::ICallback { long id; void onRead(); void onWrite(); void onClosed(); };
struct ListenerCb : public Server::Listener::ICallback { long id; Server::Client::ICallback* onAccepted(Server::Client& client, uint32 ip, uint16 port); };
struct EstabCb : public Server::Establisher::ICallback { long id; Server::Client::ICallback* onConnected(Server::Client& client); void onAbolished(); };

static TimerCb tcb[NID]; static Server::Timer* th[NID]; static bool talive[NID], tused[NID];
static ClientCb ccb[NID]; static Server::Client* ch[NID]; static bool calive[NID], cused[NID]; static Socket* cother[NID];
static ListenerCb lcb[NID]; static Server::Listener* lh[NID]; static bool lalive[NID], lused[NID];
static EstabCb ecb[NID]; static Server::Establisher* eh[NID]; static bool ealive[NID], eused[NID];
static long intro_client = -1;     // the client being announced (it has no callback object yet)

static bool inr(long i) { return i >= 0 && i < NID; }

static void client_cb(long id, const char* name, int skind)
{
  if(mt_mode) { __sync_add_and_fetch(&mt_other, 1); return; }
  emitf("cb c%ld %s @%lld", id, name, slk_clock());
  slk_touch('c', id);          // the readiness the simulated epoll reported for this client has been acted upon
  run_entry(find_entry('c', id, skind));
}
void TimerCb::onActivated()
{
  if(mt_mode) { __sync_add_and_fetch(&mt_acts, 1); return; }
  SP::TimerImpl* ti = (SP::TimerImpl*)th[id];
  emitf("act t%ld due=%lld now=%lld", id, (long long)(ti->executionTime - ti->interval), slk_last_now());
  run_entry(find_entry('t', id, S_ACT));
}
void ClientCb::onRead() { client_cb(id, "read", S_READ); }
void ClientCb::onWrite() { client_cb(id, "write", S_WRITE); }
void ClientCb::onClosed() { client_cb(id, "closed", S_CLOSED); }

static Server::Client::ICallback* introduce(char ekind, long eid, int skind, const char* name, Server::Client& client)
{
  if(mt_mode) { __sync_add_and_fetch(&mt_other, 1); return 0; }
  Entry* e = find_entry(ekind, eid, skind);
  if(!e || !inr(e->nw)) { emitf("! no behaviour for %c%ld %s", ekind, eid, name); return 0; }
  long n = e->nw;
  ch[n] = &client; calive[n] = true;
  emitf("intro %c%ld %s c%ld @%lld", ekind, eid, name, n, slk_clock());
  long outer = intro_client;
  intro_client = n;
  int acc = e->acc;
  run_entry(e);
  intro_client = outer;
  emitf("introret c%ld %d", n, acc);
  if(!acc) calive[n] = false;
  return acc ? &ccb[n] : 0;
}
Server::Client::ICallback* ListenerCb::onAccepted(Server::Client& client, uint32, uint16) { return introduce('l', id, S_ACCEPTED, "accepted", client); }
Server::Client::ICallback* EstabCb::onConnected(Server::Client& client) { return introduce('e', id, S_CONNECTED, "connected", client); }
void EstabCb::onAbolished()
{
  if(mt_mode) { __sync_add_and_fetch(&mt_abolished[ealive[id] ? 1 : 0], 1); return; }
  emitf("cb e%ld abolished @%lld", id, slk_clock());
  run_entry(find_entry('e', id, S_ABOLISHED));
}

static void run_entry(Entry* e)
{
  if(!e) return;
  e->taken = true;
  slk_depth(1);
  for(int i = 0; i < e->nacts; ++i) {
    char* copy = strdup(e->acts[i]);
    exec_action(copy);
    free(copy);
  }
  slk_depth(-1);
}

// ---- callbacks of the simulated kernel ---------------------------------------------------------------
static long k_peek(char kind, long id)
{
  Entry* e = find_entry(kind, id, kind == 'l' ? S_ACCEPTED : S_CONNECTED);
  if(!e || !inr(e->nw) || cused[e->nw]) return -1;
  return e->nw;
}
static void k_announce(long n)
{
  emitf("created c%ld 0 0", n);
  cused[n] = true;
}
static void k_foreign()
{
  emit("interrupt 1");
  server->interrupt();
}

// the selected-but-undelivered events of the Poll object, in the order they will be delivered
static void sel_dump(char* buf, size_t cap)
{
  Socket::Poll::Private* pp = server->_p->_sockets.p;
  size_t n = 0; buf[0] = 0;
  for(HashMap<Socket*, uint>::Iterator i = pp->selectedSockets.begin(), end = pp->selectedSockets.end(); i != end; ++i) {
    Socket* so = i.key();
    char kind = '?'; long id = -1;
    for(long k = 0; k < NID && id < 0; ++k) if(calive[k] && (Socket*)(SP::ClientImpl*)ch[k] == so) { kind = 'c'; id = k; }
    for(long k = 0; k < NID && id < 0; ++k) if(lalive[k] && (Socket*)(SP::ListenerImpl*)lh[k] == so) { kind = 'l'; id = k; }
    for(long k = 0; k < NID && id < 0; ++k) if(ealive[k] && (Socket*)(SP::EstablisherImpl*)eh[k] == so) { kind = 'e'; id = k; }
    n += snprintf(buf + n, cap - n, "%s%c%ld:%u", n ? "," : "", kind, id, (unsigned)*i);
    if(n >= cap - 64) break;
  }
  if(!n) snprintf(buf, cap, "-");
}
static void k_now()
{
  static char sel[8192];
  sel_dump(sel, sizeof(sel));
  emitf("sel %s", sel);
}

// ---- operations ------------------------------------------------------------------------------------------
static unsigned char zeros[1 << 16];

static void exec_action(char* line)
{
  vh::Tok t; vh::split(line, t);
  if(t.n == 0) return;
  const char* op = t.v[0];
  long i = t.n > 1 ? atol(t.v[1]) : 0;
  if(!strcmp(op, "timer") && t.n == 3) {
    long long iv = atoll(t.v[2]);
    if(!inr(i) || tused[i]) { emit("skip"); return; }
    emitf("created t%ld %lld %lld", i, slk_clock(), iv);
    tused[i] = true; talive[i] = true;
    th[i] = server->time(iv, tcb[i]);
    if(!th[i]) emit("! time failed");
  } else if(!strcmp(op, "rmtimer")) {
    if(!inr(i) || !talive[i]) { emit("skip"); return; }
    server->remove(*th[i]); talive[i] = false;
    emitf("removed t%ld", i);
  } else if(!strcmp(op, "pair")) {
    if(!inr(i) || cused[i]) { emit("skip"); return; }
    emitf("created c%ld 0 0", i);
    cused[i] = true;
    slk_expect('c', i);
    cother[i] = new Socket;
    ch[i] = server->pair(ccb[i], *cother[i]);
    if(!ch[i]) { emit("! pair failed"); return; }
    calive[i] = true;
  } else if(!strcmp(op, "rmclient")) {
    if(!inr(i) || !calive[i]) { emit("skip"); return; }
    server->remove(*ch[i]);
    calive[i] = false;      // remove() has returned: the test never touches the client again
    if(i == intro_client) emitf("deferred c%ld", i);    // … from inside the onAccepted/onConnected that announces it
    else emitf("removed c%ld", i);
  } else if(!strcmp(op, "listen")) {
    if(!inr(i) || lused[i]) { emit("skip"); return; }
    emitf("created l%ld 0 0", i);
    lused[i] = true;
    slk_expect('l', i);
    lh[i] = server->listen(Socket::loopbackAddress, 0, lcb[i]);
    if(!lh[i]) { emit("! listen failed"); return; }
    lalive[i] = true;
  } else if(!strcmp(op, "rmlistener")) {
    if(!inr(i) || !lalive[i]) { emit("skip"); return; }
    server->remove(*lh[i]); lalive[i] = false;
    emitf("removed l%ld", i);
  } else if(!strcmp(op, "connect")) {
    if(!inr(i) || eused[i]) { emit("skip"); return; }
    emitf("created e%ld 0 0", i);
    eused[i] = true;
    slk_expect('e', i);
    slk_connect_mode(1);
    eh[i] = server->connect((uint32)Socket::loopbackAddress, (uint16)9, ecb[i]);
    slk_connect_mode(0);
    if(!eh[i]) { emit("! connect failed"); return; }
    ealive[i] = true;
  } else if(!strcmp(op, "rmestab")) {
    if(!inr(i) || !ealive[i]) { emit("skip"); return; }
    server->remove(*eh[i]); ealive[i] = false;
    emitf("removed e%ld", i);
  } else if(!strcmp(op, "write") && t.n == 3) {
    long n = atol(t.v[2]);
    if(!inr(i) || !calive[i] || n < 0 || n > (long)sizeof(zeros)) { emit("skip"); return; }
    usize postponed = 12345;
    bool ok = ch[i]->write(zeros, (usize)n, &postponed);
    emitf("wrote c%ld %d %llu", i, ok ? 1 : 0, (unsigned long long)postponed);
  } else if(!strcmp(op, "read")) {
    if(!inr(i) || !calive[i]) { emit("skip"); return; }
    static unsigned char buf[4096];
    usize size = 0;
    bool ok = ch[i]->read(buf, sizeof(buf), size);
    emitf("readret c%ld %d", i, ok ? 1 : 0);
  } else if(!strcmp(op, "suspend")) {
    if(!inr(i) || !calive[i]) { emit("skip"); return; }
    ch[i]->suspend();
  } else if(!strcmp(op, "resume")) {
    if(!inr(i) || !calive[i]) { emit("skip"); return; }
    ch[i]->resume();
  } else if(!strcmp(op, "interrupt")) {
    emit("interrupt 0");
    server->interrupt();
  } else if(!strcmp(op, "adv")) {
    slk_adv(atoll(t.v[1]));
  } else
    emitf("! bad action %s", op);
}

// ---- real-kernel rounds with real threads -------------------------------------------------------------------
#include <pthread.h>
#include <signal.h>
#include <semaphore.h>
#include <unistd.h>
struct Worker { pthread_t th; sem_t go, done; volatile int quit, stall, spin_us; };
static Worker wl, wa, wb;
static volatile int intr_called = 0;

static void spin_us(int us)
{
  if(us <= 0) return;
  struct timespec a, b; clock_gettime(CLOCK_REALTIME, &a);
  for(;;) { clock_gettime(CLOCK_REALTIME, &b); if((b.tv_sec - a.tv_sec) * 1000000L + (b.tv_nsec - a.tv_nsec) / 1000 >= us) break; }
}
static void* loop_main(void*)
{
  for(;;) { while(sem_wait(&wl.go) != 0) {} if(wl.quit) break; server->run(); __sync_synchronize(); sem_post(&wl.done); }
  return 0;
}
static void* intr_main(void* p)
{
  Worker* w = (Worker*)p;
  for(;;) {
    while(sem_wait(&w->go) != 0) {}
    if(w->quit) break;
    spin_us(w->spin_us);
    slk_thread_stall(w->stall, 3000);
    intr_called = 1; __sync_synchronize();
    server->interrupt();
    slk_thread_stall(0, 0);
    sem_post(&w->done);
  }
  return 0;
}
static bool wait_done(Worker& w, int ms)
{
  struct timespec ts; clock_gettime(CLOCK_REALTIME, &ts);
  ts.tv_sec += ms / 1000; ts.tv_nsec += (long)(ms % 1000) * 1000000L; if(ts.tv_nsec >= 1000000000L) { ts.tv_sec++; ts.tv_nsec -= 1000000000L; }
  for(;;) { if(sem_timedwait(&w.done, &ts) == 0) return true; if(errno != EINTR) return false; }
}
static void go(Worker& w, int stall, int spin) { w.stall = stall; w.spin_us = spin; __sync_synchronize(); sem_post(&w.go); }
static bool wait_in_epoll(long before) { for(int k = 0; k < 40000; ++k) { if(slk_wait_entries() > before) return true; usleep(50); } return false; }
static bool wait_until(bool (*cond)()) { for(int k = 0; k < 40000; ++k) { if(cond()) return true; usleep(50); } return false; }
static bool evfd_ready() { return slk_evfd_readable() != 0; }
static long lookups_seen = 0;
static bool lookup_returned() { return slk_lookups_done() > lookups_seen; }

static long mt_cur_k = 0; static const char* mt_cur_tok = "-";
// the loop thread must have returned from run() `ms` after the interrupt was delivered; tries to unblock a hung loop
static const char* finish_round(bool loop_started)
{
  if(!loop_started) return 0;
  if(wait_done(wl, 3000)) return 0;
  for(int k = 0; k < 3; ++k) { server->interrupt(); if(wait_done(wl, 500)) return "run() did not return within 3 s after interrupt() had returned"; }
  emitf("mt %ld %s FAIL run() did not return within 3 s after interrupt() had returned, and further interrupt() calls do not end it either", mt_cur_k, mt_cur_tok);
  fflush(stdout); abort();
}

static long mt_next_id = 100;
static const char* mt_round(const char* tok, long)
{
  char kind = tok[0];
  long k = mt_next_id < NID - 1 ? mt_next_id++ : NID - 1;
  // an interrupt that is still pending (from before this operation or merged in an earlier round) ends the next run()
  if(server->_p->_interrupted) { sem_post(&wl.go); if(!wait_done(wl, 3000)) return "a pending interrupt did not end the next run()"; }
  int stall = tok[1] == 'w' ? 1 : tok[1] == 'p' ? 2 : 0;
  int us = 0;
  if(kind == 'b' || kind == 'd' || kind == 'r') us = atoi(tok + 2); else if(kind == '2') us = atoi(tok + 1);
  const char* r = 0;
  intr_called = 0; mt_acts = 0; mt_abolished[0] = mt_abolished[1] = 0;
  long w0 = slk_wait_entries();
  if(kind == 'b') {
    go(wa, stall, 0); if(!wait_done(wa, 3000)) return "interrupt() did not return";
    go(wl, 0, 0); r = finish_round(true);
  } else if(kind == 'd' || kind == 'n') {
    go(wl, 0, 0);
    if(!wait_in_epoll(w0)) r = "the loop thread did not reach epoll_wait";
    usleep(kind == 'n' ? 20000 : (useconds_t)us);
    int sv; sem_getvalue(&wl.done, &sv);
    if(sv > 0 && !r) r = "run() returned although interrupt() had not been called";
    go(wa, stall, 0); if(!wait_done(wa, 3000)) return "interrupt() did not return";
    const char* r2 = finish_round(true); if(!r) r = r2;
  } else if(kind == 'r') {
    go(wl, 0, 0); go(wa, stall, us);
    if(!wait_done(wa, 3000)) return "interrupt() did not return";
    r = finish_round(true);
  } else if(kind == '2') {
    go(wl, 0, 0);
    if(!wait_in_epoll(w0)) r = "the loop thread did not reach epoll_wait";
    go(wa, 0, 0); go(wb, 0, us);
    if(!wait_done(wa, 3000) || !wait_done(wb, 3000)) return "interrupt() did not return";
    const char* r2 = finish_round(true); if(!r) r = r2;
    if(server->_p->_interrupted) { go(wl, 0, 0); if(!wait_done(wl, 3000) && !r) r = "a pending interrupt did not end the next run()"; }
  } else if(kind == 'g') {
    us = atoi(tok + 1);
    go(wl, 0, 0);
    if(!wait_in_epoll(w0)) r = "the loop thread did not reach epoll_wait";
    usleep(300);
    long w1 = slk_wait_entries();
    pthread_kill(wl.th, SIGUSR1);                 // handled signal: epoll_wait returns -1/EINTR (it is never restarted)
    for(int k2 = 0; k2 < 400 && slk_wait_entries() == w1; ++k2) usleep(50);   // the loop has gone round and waits again
    usleep((useconds_t)us);
    int sv; sem_getvalue(&wl.done, &sv);
    if(sv > 0 && !r) r = "run() returned after a signal although interrupt() had not been called";
    go(wa, 0, 0); if(!wait_done(wa, 3000)) return "interrupt() did not return";
    const char* r2 = finish_round(true); if(!r) r = r2;
  } else if(kind == 'h' || kind == 'H' || kind == 'x') {
    long i = k;
    bool ok = kind != 'x' && tok[1] == 'o';
    if(eused[i]) return "identity in use";
    eused[i] = true;
    slk_connect_mode(1);
    server->setNoDelay(ok); server->setKeepAlive(ok);      // options for the socket the resolver round opens (TCP, so TCP_NODELAY applies)
    eh[i] = server->connect(String("verif.test"), (uint16)9, ecb[i]);
    if(!eh[i]) { slk_connect_mode(0); return "connect(host) failed"; }
    ealive[i] = true;
    lookups_seen = slk_lookups_done();
    if(kind == 'x') { server->remove(*eh[i]); ealive[i] = false; }
    bool started = false;
    if(kind == 'H') { go(wl, 0, 0); started = true; if(!wait_in_epoll(w0)) r = "the loop thread did not reach epoll_wait"; }
    slk_lookup_release(ok ? 1 : 0);
    if(kind == 'H') go(wa, 0, 0);
    else {
      if(!wait_until(lookup_returned) || !wait_until(evfd_ready)) r = "the lookup thread did not signal the loop";
      go(wa, 0, 0);
    }
    if(!wait_done(wa, 3000)) return "interrupt() did not return";
    if(!started) go(wl, 0, 0);
    const char* r2 = finish_round(true); if(!r) r = r2;
    // the lookup may complete after the interrupt was consumed (H): give the loop one more round to see it
    if(!wait_until(lookup_returned) && !r) r = "the lookup did not return";
    if(kind == 'H' && !r) { usleep(2000); go(wa, 0, 0); wait_done(wa, 3000); go(wl, 0, 0); r = finish_round(true); }
    slk_connect_mode(0);
    server->setNoDelay(false); server->setKeepAlive(false);
    if(!r && mt_abolished[0] > 0) r = "onAbolished for an establisher after its remove() had returned";
    if(!r && !ok && kind != 'x' && mt_abolished[1] != 1) r = "a failed lookup must end in exactly one onAbolished";
    if(!r && ok && mt_abolished[1] > 1) r = "onAbolished twice";
    if(!r && ok && kind == 'h' && mt_abolished[1] == 0) {
      // the lookup succeeded and run() has returned: the establisher must now be waiting for its connect
      Socket::Poll::Private* pp = server->_p->_sockets.p;
      HashMap<Socket*, Socket::Poll::Private::SocketInfo>::Iterator it = pp->sockets.find((Socket*)(SP::EstablisherImpl*)eh[i]);
      if(it == pp->sockets.end()) r = "after a successful lookup the establisher is neither registered for its connect nor abolished";
      else if((*it).events != Socket::Poll::connectFlag) r = "after a successful lookup the establisher is not registered for the connect event";
      else if(((SP::EstablisherImpl*)eh[i])->resolver) r = "after a successful lookup the establisher still points to its resolver";
    }
    if(ealive[i] && !(mt_abolished[1] > 0)) { server->remove(*eh[i]); }
    ealive[i] = false;
    if(!r && server->_p->_resolvers.size() != 0) r = "a finished resolver was not released";
  } else if(kind == 'c') {
    long t = k, c = k, l = k;
    if(tused[t] || cused[c] || lused[l]) return "identity in use";
    tused[t] = cused[c] = lused[l] = true;
    th[t] = server->time(1, tcb[t]);
    cother[c] = new Socket; ch[c] = server->pair(ccb[c], *cother[c]);
    lh[l] = server->listen(Socket::loopbackAddress, 0, lcb[l]);
    if(!th[t] || !ch[c] || !lh[l]) return "setup failed";
    server->interrupt();            // clear() must also forget a pending interrupt
    server->clear();
    SP* p = server->_p;
    if(p->_timers.size() || p->_clients.size() || p->_listeners.size() || p->_establishers.size() || p->_resolvers.size() || !p->_closingClients.isEmpty())
      r = "clear() left objects in the pools";
    if(!r && (p->_queuedTimers.size() != 1 || p->_interrupted)) r = "clear() left timers queued or an interrupt pending";
    go(wl, 0, 0);
    usleep(15000);
    int sv; sem_getvalue(&wl.done, &sv);
    go(wa, 0, 0); if(!wait_done(wa, 3000)) return "interrupt() did not return";
    const char* r2 = finish_round(true); if(!r) r = r2;
    if(!r && mt_acts > 0) r = "a timer cleared by clear() was activated";
    if(!r && (sv > 0) && false) r = "";
    // the server is usable afterwards
    Socket other; Server::Client* nc = server->pair(ccb[c], other);
    if(!r && !nc) r = "pair() fails after clear()";
    if(nc) { usize post = 7; if(!nc->write(zeros, 3, &post) && !r) r = "write() fails after clear()"; server->remove(*nc); }
  } else
    r = "bad round";
  return r;
}

static void on_sigusr1(int) {}
static void mt_op(vh::Tok& t)
{
  slk_arm(0); mt_mode = 1;
  struct sigaction sa; memset(&sa, 0, sizeof(sa)); sa.sa_handler = on_sigusr1; sigemptyset(&sa.sa_mask); sigaction(SIGUSR1, &sa, 0);
  Worker* ws[3] = {&wl, &wa, &wb};
  for(int k = 0; k < 3; ++k) { sem_init(&ws[k]->go, 0, 0); sem_init(&ws[k]->done, 0, 0); ws[k]->quit = 0; }
  pthread_create(&wl.th, 0, loop_main, 0); pthread_create(&wa.th, 0, intr_main, &wa); pthread_create(&wb.th, 0, intr_main, &wb);
  for(int k = 1; k < t.n; ++k) {
    mt_cur_k = k; mt_cur_tok = t.v[k];
    const char* r = mt_round(t.v[k], k);
    if(r) emitf("mt %d %s FAIL %s", k, t.v[k], r); else emitf("mt %d %s ok", k, t.v[k]);
  }
  for(int k = 0; k < 3; ++k) { ws[k]->quit = 1; __sync_synchronize(); sem_post(&ws[k]->go); }
  for(int k = 0; k < 3; ++k) pthread_join(ws[k]->th, 0);
  for(int k = 0; k < 3; ++k) { sem_destroy(&ws[k]->go); sem_destroy(&ws[k]->done); }
  mt_mode = 0; slk_arm(1);
  emit("mt end");
}

static int cmp_long(const void* a, const void* b) { long x = *(const long*)a, y = *(const long*)b; return x < y ? -1 : x > y; }

static void state_line()
{
  SP* p = server->_p;
  static char q[8192], closing[4096], cl[8192], reg[8192], sel[8192];
  size_t n = 0; q[0] = 0;
  for(MultiMap<int64, SP::TimerImpl*>::Iterator i = p->_queuedTimers.begin(), end = p->_queuedTimers.end(); i != end; ++i) {
    long id = -1;
    if(*i) { for(long k = 0; k < NID; ++k) if(talive[k] && (SP::TimerImpl*)th[k] == *i) id = k; }
    if(*i) n += snprintf(q + n, sizeof(q) - n, "%s%lld:t%ld", n ? "," : "", (long long)i.key(), id);
    else n += snprintf(q + n, sizeof(q) - n, "%s%lld:-", n ? "," : "", (long long)i.key());
    if(n >= sizeof(q) - 64) break;
  }
  if(!n) strcpy(q, "-");
  n = 0; closing[0] = 0;
  for(HashSet<SP::ClientImpl*>::Iterator i = p->_closingClients.begin(), end = p->_closingClients.end(); i != end; ++i) {
    long id = -1;
    for(long k = 0; k < NID; ++k) if(calive[k] && (SP::ClientImpl*)ch[k] == *i) id = k;
    n += snprintf(closing + n, sizeof(closing) - n, "%sc%ld", n ? "," : "", id);
    if(n >= sizeof(closing) - 64) break;
  }
  if(!n) strcpy(closing, "-");
  // clients of the pool, sorted by identity
  static long ids[NID]; int nids = 0;
  for(PoolList<SP::ClientImpl>::Iterator i = p->_clients.begin(), end = p->_clients.end(); i != end; ++i) {
    long id = -1;
    for(long k = 0; k < NID; ++k) if(calive[k] && (SP::ClientImpl*)ch[k] == &*i) id = k;
    if(nids < NID) ids[nids++] = id;
  }
  qsort(ids, nids, sizeof(long), cmp_long);
  n = 0; cl[0] = 0;
  for(int k = 0; k < nids; ++k) {
    if(ids[k] < 0) { n += snprintf(cl + n, sizeof(cl) - n, "%sc?", n ? "," : ""); continue; }
    SP::ClientImpl* c = (SP::ClientImpl*)ch[ids[k]];
    n += snprintf(cl + n, sizeof(cl) - n, "%sc%ld:%llu:%d", n ? "," : "", ids[k], (unsigned long long)c->_sendBuffer.size(), c->_suspended ? 1 : 0);
    // the public accessors must agree with the private state
    if(ch[ids[k]]->isSuspended() != c->_suspended || ch[ids[k]]->getSendBufferSize() != c->_sendBuffer.size() || &ch[ids[k]]->getSocket() != (Socket*)c)
      emitf("! accessor of c%ld disagrees with the client's state", ids[k]);
    if(n >= sizeof(cl) - 64) break;
  }
  if(!n) strcpy(cl, "-");
  slk_reg_dump(reg, sizeof(reg));
  sel_dump(sel, sizeof(sel));
  printf("%ld st clk=%lld | q=%s closing=%s intr=%d pool=t:%llu,l:%llu,e:%llu,c:%llu cl=%s reg=%s sel=%s evfd=%d\n", caseno, slk_clock(),
         q, closing, p->_interrupted ? 1 : 0,
         (unsigned long long)p->_timers.size(), (unsigned long long)p->_listeners.size(),
         (unsigned long long)p->_establishers.size(), (unsigned long long)p->_clients.size(),
         cl, reg, sel, slk_evfd_readable());
  fflush(stdout);
}

static void teardown()
{
  slk_arm(0);
  if(server) { delete server; server = 0; }
  for(long k = 0; k < NID; ++k) if(cother[k]) { if(cother[k]->getFileDescriptor() >= 0) cother[k]->close(); delete cother[k]; cother[k] = 0; }
  for(int i = 0; i < nentries; ++i) { for(int k = 0; k < entries[i].nacts; ++k) free(entries[i].acts[k]); }
  nentries = 0;
}

static void begin(long c, vh::Tok&)
{
  caseno = c;
  teardown();
  memset(talive, 0, sizeof(talive)); memset(tused, 0, sizeof(tused));
  memset(calive, 0, sizeof(calive)); memset(cused, 0, sizeof(cused));
  memset(lalive, 0, sizeof(lalive)); memset(lused, 0, sizeof(lused));
  memset(ealive, 0, sizeof(ealive)); memset(eused, 0, sizeof(eused));
  mt_next_id = 100;
  for(long k = 0; k < NID; ++k) { tcb[k].id = ccb[k].id = lcb[k].id = ecb[k].id = k; }
  intro_client = -1;
  slk_reset(emit, k_peek, k_announce, k_foreign, k_now);
  slk_arm(1);
  server = new Server;
}

static void op(long, long, vh::Tok& t)
{
  const char* o = t.v[0];
  if(!strcmp(o, "on") && t.n >= 5) {
    if(nentries < NENTRY) {
      Entry& e = entries[nentries];
      memset(&e, 0, sizeof(e));
      e.ekind = t.v[1][0]; e.eid = atol(t.v[1] + 1); e.skind = skind_of(t.v[2]); e.nw = atol(t.v[3]); e.acc = !strcmp(t.v[4], "1");
      char cur[256]; cur[0] = 0;
      for(int k = 5; k <= t.n; ++k) {
        if(k == t.n || !strcmp(t.v[k], "/")) {
          if(cur[0] && e.nacts < NACT) e.acts[e.nacts++] = strdup(cur);
          cur[0] = 0;
        } else {
          if(cur[0]) strncat(cur, " ", sizeof(cur) - strlen(cur) - 1);
          strncat(cur, t.v[k], sizeof(cur) - strlen(cur) - 1);
        }
      }
      ++nentries;
    }
  } else if(!strcmp(o, "run")) {
    slk_script_clear();
    for(int k = 1; k < t.n; ++k) if(!slk_script_add(t.v[k])) emitf("! bad item %s", t.v[k]);
    emit("run");
    slk_in_run(1);
    server->run();
    slk_in_run(0);
    emit("ret");
  } else if(!strcmp(o, "mt")) {
    mt_op(t);
    return;
  } else if(!strcmp(o, "opts") && t.n == 6) {
    server->setKeepAlive(atoi(t.v[1]) != 0);
    server->setNoDelay(atoi(t.v[2]) != 0);
    server->setSendBufferSize(atoi(t.v[3]));
    server->setReceiveBufferSize(atoi(t.v[4]));
    server->setReuseAddress(atoi(t.v[5]) != 0);
  } else if(!strcmp(o, "sendq")) {
    for(int k = 1; k < t.n; ++k) {
      if(!strcmp(t.v[k], "w")) slk_push_send(0, 0); else if(!strcmp(t.v[k], "e")) slk_push_send(1, 0); else slk_push_send(2, atol(t.v[k]));
    }
  } else if(!strcmp(o, "recvq")) {
    for(int k = 1; k < t.n; ++k) {
      if(!strcmp(t.v[k], "w")) slk_push_recv(0, 0); else if(!strcmp(t.v[k], "e")) slk_push_recv(1, 0);
      else if(!strcmp(t.v[k], "z")) slk_push_recv(2, 0); else slk_push_recv(3, atol(t.v[k]));
    }
  } else if(!strcmp(o, "acceptq")) {
    for(int k = 1; k < t.n; ++k) slk_push_accept(!strcmp(t.v[k], "1"));
  } else if(!strcmp(o, "connq")) {
    for(int k = 1; k < t.n; ++k) slk_push_conn(atol(t.v[k]));
  } else {
    // an action at top level: rebuild the line from the tokens
    char line[512]; line[0] = 0;
    for(int k = 0; k < t.n; ++k) { if(k) strncat(line, " ", sizeof(line) - strlen(line) - 1); strncat(line, t.v[k], sizeof(line) - strlen(line) - 1); }
    slk_depth(1);
    exec_action(line);
    slk_depth(-1);
  }
  state_line();
}

static void end(long) { teardown(); }

int main(int argc, char** argv) { return vh::run(argc, argv, begin, op, end); }
