// Correspondence harness for C16: drives Xml::Parser / Xml::toString / Xml::Variant / Xml::Element
// through their public interface only.
#include "vh.hpp"
#include <nstd/String.hpp>
#include <nstd/HashMap.hpp>
#include <nstd/List.hpp>
// read-only access to Xml::Variant::data->ref for the reference count dump (never used to drive the code)
#define private public
#include <nstd/Document/Xml.hpp>
#undef private

static void hexs(const String& s)
{
  vh::puthex((const unsigned char*)(const char*)s, s.length());
}

static String unhexs(const char* tok)
{
  size_t n; unsigned char* d = vh::unhex(tok, n);
  String r((const char*)d, n);
  free(d);
  return r;
}

static void dump(const Xml::Element& e, bool pos);

static void dumpv(const Xml::Variant& v, bool pos)
{
  switch(v.getType())
  {
  case Xml::Variant::elementType: dump(v.toElement(), pos); break;
  case Xml::Variant::textType: printf(" t "); hexs(v.toString()); break;
  default: printf(" nul"); break;
  }
}

static void dump(const Xml::Element& e, bool pos)
{
  printf(" (");
  if(pos) printf(" %d %d", e.line, e.column);
  printf(" "); hexs(e.type);
  printf(" %llu", (unsigned long long)e.attributes.size());
  for(HashMap<String, String>::Iterator i = e.attributes.begin(), end = e.attributes.end(); i != end; ++i)
  {
    printf(" "); hexs(i.key()); printf(" "); hexs(*i);
  }
  for(List<Xml::Variant>::Iterator i = e.content.begin(), end = e.content.end(); i != end; ++i)
    dumpv(*i, pos);
  printf(" )");
}

// L-int: the reference count of every Variant, walking the content lists
static void dumprc(const Xml::Variant& v)
{
  switch(v.getType())
  {
  case Xml::Variant::elementType:
    {
      printf(" (%llu", (unsigned long long)v.data->ref);
      const Xml::Element& e = v.toElement();
      for(List<Xml::Variant>::Iterator i = e.content.begin(), end = e.content.end(); i != end; ++i)
        dumprc(*i);
      printf(" )");
    }
    break;
  case Xml::Variant::textType: printf(" t%llu", (unsigned long long)v.data->ref); break;
  default: printf(" nul"); break;
  }
}

// parse an exact-size heap copy (n bytes + terminator) so that ASan sees any read beyond it
static void parseOut(const unsigned char* d, size_t n)
{
  char* text = (char*)malloc(n + 1);
  memcpy(text, d, n);
  text[n] = 0;
  {
    Xml::Parser parser;
    Xml::Element element;
    String data;
    data.attach(text, n); // text[n] == 0: the conversion to const char* hands out `text` itself, no copy
    if(parser.parse(data, element))
    {
      printf("ok");
      dump(element, true);
    }
    else
    {
      printf("err %d %d ", parser.getErrorLine(), parser.getErrorColumn());
      hexs(parser.getErrorString());
    }
  }
  free(text);
}

enum { maxDepth = 4096, nslots = 6 };
static Xml::Element* stack[maxDepth];
static int depth = 0;
static Xml::Variant* slot[nslots];

static void reset()
{
  while(depth > 0) delete stack[--depth];
  for(int i = 0; i < nslots; ++i) { delete slot[i]; slot[i] = 0; }
}

static void begin(long, vh::Tok&) { reset(); }
static void end(long) { reset(); }

// the tree under construction with every open element closed (the stack itself is not changed)
static Xml::Element current()
{
  if(depth == 0)
  {
    Xml::Element e; e.line = 0; e.column = 0;
    return e;
  }
  Xml::Element cur(*stack[depth - 1]);
  for(int i = depth - 2; i >= 0; --i)
  {
    Xml::Element parent(*stack[i]);
    parent.content.append(Xml::Variant(cur));
    cur = parent;
  }
  return cur;
}

static bool slotOk(const char* t, int& i) { i = atoi(t); return i >= 0 && i < nslots; }

static void op(long c, long, vh::Tok& t)
{
  const char* o = t.v[0];
  int i, j;
  if(!strcmp(o, "parse")) {
    size_t n; unsigned char* d = vh::unhex(t.v[1], n);
    printf("%ld ", c);
    parseOut(d, n);
    free(d);
    printf("\n");
  } else if(!strcmp(o, "ent")) {
    String doc("<a v=\"&");
    doc.append(unhexs(t.v[1]));
    doc.append(";\"/>");
    Xml::Element element;
    printf("%ld ent ", c);
    if(Xml::parse(doc, element) && element.attributes.size() == 1)
      hexs(*element.attributes.begin());
    else
      printf("err");
    printf("\n");
  } else if(!strcmp(o, "open")) {
    if(depth < maxDepth) { Xml::Element* e = new Xml::Element; e->line = 0; e->column = 0; e->type = unhexs(t.v[1]); stack[depth++] = e; }
  } else if(!strcmp(o, "attr")) {
    if(depth > 0) stack[depth - 1]->attributes.append(unhexs(t.v[1]), unhexs(t.v[2]));
  } else if(!strcmp(o, "text")) {
    if(depth > 0) stack[depth - 1]->content.append(Xml::Variant(unhexs(t.v[1])));
  } else if(!strcmp(o, "close")) {
    if(depth > 1) { stack[depth - 2]->content.append(Xml::Variant(*stack[depth - 1])); delete stack[--depth]; }
  } else if(!strcmp(o, "str")) {
    Xml::Element e = current();
    String s = Xml::toString(e);
    printf("%ld str ", c); hexs(s); printf("\n");
  } else if(!strcmp(o, "rt")) {
    Xml::Element e = current();
    String s = Xml::toString(e);
    printf("%ld rt ", c);
    parseOut((const unsigned char*)(const char*)s, s.length());
    printf("\n");
  } else if(!strcmp(o, "vdump")) {
    printf("%ld v", c);
    for(int k = 0; k < nslots; ++k) {
      if(!slot[k]) printf(" -"); else dumpv(*(const Xml::Variant*)slot[k], false);
      printf(" ;");
    }
    printf(" |");
    for(int k = 0; k < nslots; ++k) {
      if(!slot[k]) printf(" -"); else dumprc(*(const Xml::Variant*)slot[k]);
      printf(" ;");
    }
    printf("\n");
  } else if(!strcmp(o, "vnull")) {
    if(slotOk(t.v[1], i)) { delete slot[i]; slot[i] = new Xml::Variant; }
  } else if(!strcmp(o, "vtext")) {
    if(slotOk(t.v[1], i)) { delete slot[i]; slot[i] = new Xml::Variant(unhexs(t.v[2])); }
  } else if(!strcmp(o, "velem")) {
    if(slotOk(t.v[1], i)) { Xml::Element e; e.line = 0; e.column = 0; e.type = unhexs(t.v[2]); delete slot[i]; slot[i] = new Xml::Variant(e); }
  } else if(!strcmp(o, "vcopy")) {
    if(slotOk(t.v[1], i) && slotOk(t.v[2], j) && slot[j]) { Xml::Variant* n = new Xml::Variant(*slot[j]); delete slot[i]; slot[i] = n; }
  } else if(!strcmp(o, "vassign")) {
    if(slotOk(t.v[1], i) && slotOk(t.v[2], j) && slot[i] && slot[j]) *slot[i] = *slot[j];
  } else if(!strcmp(o, "vsettext")) {
    if(slotOk(t.v[1], i) && slot[i]) *slot[i] = unhexs(t.v[2]);
  } else if(!strcmp(o, "vname")) {
    if(slotOk(t.v[1], i) && slot[i]) slot[i]->toElement().type = unhexs(t.v[2]);
  } else if(!strcmp(o, "vattr")) {
    if(slotOk(t.v[1], i) && slot[i]) slot[i]->toElement().attributes.append(unhexs(t.v[2]), unhexs(t.v[3]));
  } else if(!strcmp(o, "vchild")) {
    if(slotOk(t.v[1], i) && slotOk(t.v[2], j) && slot[i] && slot[j]) { Xml::Variant child(*slot[j]); slot[i]->toElement().content.append(child); }
  } else if(!strcmp(o, "vsub")) {
    if(slotOk(t.v[1], i) && slotOk(t.v[2], j) && slot[j] && slot[j]->isElement()) {
      const Xml::Element& e = ((const Xml::Variant*)slot[j])->toElement();
      long k = atol(t.v[3]); long n = 0;
      for(List<Xml::Variant>::Iterator it = e.content.begin(), end = e.content.end(); it != end; ++it, ++n)
        if(n == k) { Xml::Variant* nv = new Xml::Variant(*it); delete slot[i]; slot[i] = nv; break; }
    }
  } else if(!strcmp(o, "vsubmut")) {
    if(slotOk(t.v[1], i) && slot[i] && slot[i]->isElement()) {
      long k = atol(t.v[2]);
      if(k >= 0 && (unsigned long long)k < (unsigned long long)((const Xml::Variant*)slot[i])->toElement().content.size()) {
        Xml::Element& e = slot[i]->toElement();
        long n = 0;
        for(List<Xml::Variant>::Iterator it = e.content.begin(), end = e.content.end(); it != end; ++it, ++n)
          if(n == k) { (*it).toElement().type = unhexs(t.v[3]); break; }
      }
    }
  } else if(!strcmp(o, "velcopy")) {
    if(slotOk(t.v[1], i) && slotOk(t.v[2], j) && slot[j] && slot[j]->isElement()) {
      Xml::Element copy(((const Xml::Variant*)slot[j])->toElement());
      Xml::Variant* nv = new Xml::Variant(copy);
      delete slot[i]; slot[i] = nv;
    }
  } else if(!strcmp(o, "vdel")) {
    if(slotOk(t.v[1], i)) { delete slot[i]; slot[i] = 0; }
  } else {
    printf("%ld ?unknown-op\n", c);
  }
}

int main(int argc, char** argv) { return vh::run(argc, argv, begin, op, end); }
