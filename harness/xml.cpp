// Correspondence harness for C16: drives Xml::Parser / Xml::toString / Xml::Variant / Xml::Element
// through their public interface only.
#include "vh.hpp"
#include <nstd/String.hpp>
#include <nstd/HashMap.hpp>
#include <nstd/List.hpp>
// read-only access to Xml::Variant::data->ref for the reference count dump (never used to drive the code)
#define private public
#include <nstd/Document/Xml.hpp>
#undef private

#include <nstd/Error.hpp>
#include <unistd.h>

// where the dump functions write: stdout, or a memory stream while an answer is collected as a string
static FILE* O = 0;

static void hexs(const String& s)
{
  const unsigned char* b = (const unsigned char*)(const char*)s;
  size_t n = s.length();
  if(n == 0) { fputs("-", O); return; }
  for(size_t i = 0; i < n; ++i) fprintf(O, "%02x", b[i]);
}

static String unhexs(const char* tok)
{
  size_t n; unsigned char* d = vh::unhex(tok, n);
  String r((const char*)d, n);
  free(d);
  return r;
}

static void dump(const Xml::Element& e, bool pos);

static void dumpv(const Xml::Variant& v, bool pos)
{
  // the three type tests of the public interface, cross-checked against getType()
  bool el = v.isElement(), tx = v.isText(), nu = v.isNull();
  Xml::Variant::Type ty = v.getType();
  if(el != (ty == Xml::Variant::elementType) || tx != (ty == Xml::Variant::textType) || nu != (ty == Xml::Variant::nullType))
    fprintf(O, " !type-tests-disagree-with-getType");
  if(el) dump(v.toElement(), pos);
  else if(tx) { fprintf(O, " t "); hexs(v.toString()); }
  else fprintf(O, " nul");
}

static void dump(const Xml::Element& e, bool pos)
{
  fprintf(O, " (");
  if(pos) fprintf(O, " %d %d", e.line, e.column);
  fprintf(O, " "); hexs(e.type);
  fprintf(O, " %llu", (unsigned long long)e.attributes.size());
  for(HashMap<String, String>::Iterator i = e.attributes.begin(), end = e.attributes.end(); i != end; ++i)
  {
    fprintf(O, " "); hexs(i.key()); fprintf(O, " "); hexs(*i);
  }
  for(List<Xml::Variant>::Iterator i = e.content.begin(), end = e.content.end(); i != end; ++i)
    dumpv(*i, pos);
  fprintf(O, " )");
}

// L-int: the reference count of every Variant, walking the content lists
static void dumprc(const Xml::Variant& v)
{
  switch(v.getType())
  {
  case Xml::Variant::elementType:
    {
      fprintf(O, " (%llu", (unsigned long long)v.data->ref);
      const Xml::Element& e = v.toElement();
      for(List<Xml::Variant>::Iterator i = e.content.begin(), end = e.content.end(); i != end; ++i)
        dumprc(*i);
      fprintf(O, " )");
    }
    break;
  case Xml::Variant::textType: fprintf(O, " t%llu", (unsigned long long)v.data->ref); break;
  default: fprintf(O, " nul"); break;
  }
}

// the answer of one parse call: "ok <dump>" or "err <line> <column> <message>"
static void printResult(bool ok, const Xml::Parser& parser, const Xml::Element& element)
{
  if(ok)
  {
    fprintf(O, "ok");
    dump(element, true);
  }
  else
  {
    fprintf(O, "err %d %d ", parser.getErrorLine(), parser.getErrorColumn());
    hexs(parser.getErrorString());
  }
}

static char* resultString(bool ok, const Xml::Parser& parser, const Xml::Element& element)
{
  char* buf = 0; size_t n = 0;
  FILE* keep = O;
  O = open_memstream(&buf, &n);
  printResult(ok, parser, element);
  fclose(O);
  O = keep;
  return buf;
}

// the answer of a static entry point: "ok <dump>" or "serr <Error::getErrorString()>"
static char* staticResultString(bool ok, const Xml::Element& element)
{
  char* buf = 0; size_t n = 0;
  FILE* keep = O;
  O = open_memstream(&buf, &n);
  if(ok) { fprintf(O, "ok"); dump(element, true); }
  else { fprintf(O, "serr "); hexs(Error::getErrorString()); }
  fclose(O);
  O = keep;
  return buf;
}

// exact-size heap copy (n bytes + terminator) so that ASan sees any read beyond it
static char* exactCopy(const unsigned char* d, size_t n)
{
  char* text = (char*)malloc(n + 1);
  memcpy(text, d, n);
  text[n] = 0;
  return text;
}

// a fresh Parser and a fresh Element
static char* freshResult(const char* text, size_t n)
{
  Xml::Parser parser;
  Xml::Element element;
  String data;
  data.attach(text, n);
  bool ok = parser.parse(data, element);
  return resultString(ok, parser, element);
}


// "the same answer" for the reuse / file flags: result kind, line, column and the dump - never the wording of a message
// (err <line> <column> <message>: the first three fields; serr <message>: the kind only, the position inside the
// wrapper's text is judged by the check)
static bool sameAnswer(const char* a, const char* b)
{
  if(!strncmp(a, "err ", 4) && !strncmp(b, "err ", 4))
  {
    int sp = 0; size_t i = 0;
    for(; a[i] && a[i] == b[i]; ++i)
      if(a[i] == ' ' && ++sp == 3) return true;
    return false;
  }
  if(!strncmp(a, "serr ", 5) && !strncmp(b, "serr ", 5)) return true;
  return !strcmp(a, b);
}

// ---- "comments are accepted wherever white space is allowed": what a comment / processing instruction must not change ----
// names, attributes (order, values), nesting, and between two child elements the concatenated character data.  A comment
// counts as white space and the property text does not say which white space next to one is kept, so the character data
// is compared without its white-space bytes.
static void appendNoSpace(String& acc, const String& t)
{
  const char* b = (const char*)t; size_t n = t.length();
  for(size_t i = 0; i < n; ++i)
    if(!String::isSpace(b[i])) acc.append(b[i]);
}
static bool sameUpToGaps(const Xml::Element& a, const Xml::Element& b)
{
  if(a.type != b.type || a.attributes.size() != b.attributes.size()) return false;
  HashMap<String, String>::Iterator i = a.attributes.begin(), j = b.attributes.begin();
  for(HashMap<String, String>::Iterator end = a.attributes.end(); i != end; ++i, ++j)
    if(i.key() != j.key() || *i != *j) return false;
  List<Xml::Variant>::Iterator x = a.content.begin(), xe = a.content.end(), y = b.content.begin(), ye = b.content.end();
  for(;;)
  {
    String ta, tb;
    for(; x != xe && !(*x).isElement(); ++x) appendNoSpace(ta, (*x).toString());
    for(; y != ye && !(*y).isElement(); ++y) appendNoSpace(tb, (*y).toString());
    if(ta != tb) return false;
    if(x == xe || y == ye) return x == xe && y == ye;
    if(!sameUpToGaps((*x).toElement(), (*y).toElement())) return false;
    ++x; ++y;
  }
}

static void parseOut(const unsigned char* d, size_t n)
{
  char* text = exactCopy(d, n);
  {
    Xml::Parser parser;
    Xml::Element element;
    String data;
    data.attach(text, n); // text[n] == 0: the conversion to const char* hands out `text` itself, no copy
    bool ok = parser.parse(data, element);
    printResult(ok, parser, element);
  }
  free(text);
}

enum { maxDepth = 4096, nslots = 6 };
// The tree under construction (ops open / attr / text / close) is built IN PLACE: `root` owns it, stack[k] points to the
// open element of depth k inside it (a child is appended to its parent's content when it is opened; nothing else is
// added to the parent until the child is closed, so the order of the content is the order of the ops).  The harness's
// own cost of building a tree is thereby linear in its size whatever a copy of an Xml::Variant costs (shared block or
// deep copy): the per-case watchdog times the library's parse / toString / copy of the tree, not a quadratic number of
// copies made by the harness (a chain of 1000 open elements used to be folded bottom-up through 1000 nested copies).
static Xml::Element* root = 0;
static Xml::Element* stack[maxDepth];
static int depth = 0;
static Xml::Variant* slot[nslots];
// a reference obtained from slot[heldSlot]->toElement() and kept across operations (audit C16, finding 3).
// Protocol: it is dropped as soon as an operation targets that slot; while the slot is untouched the Variant in
// it keeps the block alive, so the reference never dangles.
static Xml::Element* held = 0;
static int heldSlot = -1;

static void reset()
{
  held = 0; heldSlot = -1;
  delete root; root = 0; depth = 0;
  for(int i = 0; i < nslots; ++i) { delete slot[i]; slot[i] = 0; }
}

// ---- scratch file next to the harness executable (build/<id>/), one per process ----
static char scratchPath[600];
static void removeScratch() { if(scratchPath[0]) unlink(scratchPath); }
static const char* scratch()
{
  if(!scratchPath[0])
  {
    char exe[512];
    ssize_t n = readlink("/proc/self/exe", exe, sizeof(exe) - 1);
    if(n <= 0) { strcpy(exe, "/tmp/x"); n = 6; }
    exe[n] = 0;
    char* slash = strrchr(exe, '/');
    if(slash) *slash = 0;
    snprintf(scratchPath, sizeof(scratchPath), "%s/xml_scratch.%ld.xml", exe, (long)getpid());
    atexit(removeScratch);
  }
  return scratchPath;
}
static void writeScratch(const unsigned char* d, size_t n)
{
  FILE* f = fopen(scratch(), "wb");
  if(!f) { printf("!cannot-write-scratch-file"); return; }
  if(n) fwrite(d, 1, n, f);
  fclose(f);
}

static void begin(long, vh::Tok&) { reset(); }
static void end(long) { reset(); }

// the tree under construction with every open element closed (the stack itself is not changed)
static Xml::Element current()
{
  if(depth == 0)
  {
    Xml::Element e; e.line = 0; e.column = 0;
    return e;
  }
  return *root; // one copy of the whole tree
}

static bool slotOk(const char* t, int& i) { i = atoi(t); return i >= 0 && i < nslots; }

static void op(long c, long, vh::Tok& t)
{
  const char* o = t.v[0];
  int i, j;
  // an operation that targets the slot a kept reference came from ends the use of that reference
  if(o[0] == 'v' && strcmp(o, "vdump") && strcmp(o, "vwriteheld") && t.n >= 2 && held && atoi(t.v[1]) == heldSlot) { held = 0; heldSlot = -1; }
  if(!strcmp(o, "vhold")) {
    // Element& e = slot[i].toElement();  - kept, no write
    if(slotOk(t.v[1], i) && slot[i]) { held = &slot[i]->toElement(); heldSlot = i; } else { held = 0; heldSlot = -1; }
  } else if(!strcmp(o, "vwriteheld")) {
    // e.type = nm;  through the kept reference
    if(held) held->type = unhexs(t.v[1]);
  } else if(!strcmp(o, "fload") && t.n >= 3) {
    // the bytes go into a scratch file; p: Xml::Parser::load, s: static Xml::load; the target holds the tree built so far
    // first section: 1 iff the answer is that of parse (fresh Parser / static Xml::parse, fresh Element) on the same bytes
    size_t n; unsigned char* d = vh::unhex(t.v[2], n);
    writeScratch(d, n);
    char* text = exactCopy(d, n); free(d);
    {
      Xml::Element target = current();
      String path(scratch(), strlen(scratch()));
      char* ans; char* ref;
      if(t.v[1][0] == 'p') {
        Xml::Parser parser;
        bool ok = parser.load(path, target);
        ans = resultString(ok, parser, target);
        ref = freshResult(text, n);
      } else {
        Error::setErrorString(String("stale"));
        bool ok = Xml::load(path, target);
        ans = staticResultString(ok, target);
        Xml::Element fresh;
        Error::setErrorString(String("stale"));
        bool ok2 = Xml::parse((const char*)text, fresh);
        ref = staticResultString(ok2, fresh);
      }
      printf("%ld fload %d | %s\n", c, sameAnswer(ans, ref) ? 1 : 0, ans);
      free(ans); free(ref);
    }
    free(text);
    removeScratch();
  } else if(!strcmp(o, "fmiss") && t.n >= 3) {
    // a file that does not exist.  p: one Parser first parses <text> (so that its error fields hold something), then load;
    // s: static Xml::load.  d / D: the same two on a path that can be opened but not read (a directory: readAll fails).
    // Output: the failure as reported | the target afterwards (must be what it was)
    removeScratch();
    size_t n; unsigned char* d = vh::unhex(t.v[2], n);
    char* text = exactCopy(d, n); free(d);
    {
      Xml::Element target = current();
      char m = t.v[1][0];
      String path(scratch(), strlen(scratch()));
      if(m == 'd' || m == 'D') { const char* sl = strrchr(scratch(), '/'); path = String(scratch(), sl ? (size_t)(sl - scratch()) : 1); }
      printf("%ld fmiss ", c);
      if(m == 'p' || m == 'd') {
        Xml::Parser parser;
        Xml::Element tmp;
        String data; data.attach(text, n);
        parser.parse(data, tmp);
        bool ok = parser.load(path, target);
        if(ok) printf("loaded?!");
        else { printf("lerr %d %d ", parser.getErrorLine(), parser.getErrorColumn()); hexs(parser.getErrorString()); }
      } else {
        Error::setErrorString(String("stale"));
        bool ok = Xml::load(path, target);
        if(ok) printf("loaded?!");
        else { printf("lfail "); hexs(Error::getErrorString()); }
      }
      printf(" |");
      dump(target, true);
      printf("\n");
    }
    free(text);
  } else if(!strcmp(o, "fsave") && t.n >= 2) {
    // Xml::save of the tree built so far; 1: into the scratch file (its bytes are read back with fread), 0: into a directory that does not exist
    Xml::Element e = current();
    bool good = t.v[1][0] == '1';
    char bad[700]; snprintf(bad, sizeof(bad), "%s.nodir/x.xml", scratch());
    const char* p = good ? scratch() : bad;
    removeScratch();
    if(good) { unsigned char junk[3000]; memset(junk, 'J', sizeof(junk)); writeScratch(junk, sizeof(junk)); }   // save replaces what the file held
    bool ok = Xml::save(e, String(p, strlen(p)));
    printf("%ld fsave %d ", c, ok ? 1 : 0);
    FILE* f = fopen(p, "rb");
    if(!f) printf("-");
    else {
      String all;
      char buf[4096]; size_t k;
      while((k = fread(buf, 1, sizeof(buf), f)) > 0) all.append(buf, k);
      fclose(f);
      hexs(all);
    }
    printf("\n");
    removeScratch();
  } else if(!strcmp(o, "fsl")) {
    // Xml::save, then Xml::Parser::load of the same file into an Element that holds a copy of the tree
    Xml::Element e = current();
    String path(scratch(), strlen(scratch()));
    removeScratch();
    { unsigned char junk[3000]; memset(junk, 'J', sizeof(junk)); writeScratch(junk, sizeof(junk)); }             // save replaces what the file held
    bool saved = Xml::save(e, path);
    Xml::Element target = current();
    Xml::Parser parser;
    bool ok = parser.load(path, target);
    printf("%ld fsl ", c);
    if(!saved) printf("save-failed ");
    printResult(ok, parser, target);
    printf("\n");
    removeScratch();
  } else if(!strcmp(o, "parseg") && t.n >= 3) {
    // two documents: <plain> and <plain with comments (and processing instructions in front of the root) inserted where
    // white space is allowed>.  first section: 1 iff both are accepted and give the same names, attributes, nesting and
    // character data (sameUpToGaps), or both are rejected; then the two answers
    char* text[2]; size_t len[2]; char* res[2]; bool ok[2];
    Xml::Element el[2];
    for(int k = 0; k < 2; ++k) {
      unsigned char* d = vh::unhex(t.v[1 + k], len[k]);
      text[k] = exactCopy(d, len[k]); free(d);
      Xml::Parser parser;
      String data; data.attach(text[k], len[k]);
      ok[k] = parser.parse(data, el[k]);
      res[k] = resultString(ok[k], parser, el[k]);
    }
    bool same = ok[0] == ok[1] && (!ok[0] || sameUpToGaps(el[0], el[1]));
    printf("%ld %d | %s | %s\n", c, same ? 1 : 0, res[0], res[1]);
    for(int k = 0; k < 2; ++k) { free(res[k]); free(text[k]); }
  } else if(!strcmp(o, "parse") || !strcmp(o, "parseok")) {
    size_t n; unsigned char* d = vh::unhex(t.v[1], n);
    printf("%ld ", c);
    parseOut(d, n);
    free(d);
    printf("\n");
  } else if(!strcmp(o, "ent")) {
    String doc("<a v=\"&");
    doc.append(unhexs(t.v[1]));
    doc.append(";\"/>");
    Xml::Element element;
    printf("%ld ent ", c);
    if(Xml::parse(doc, element) && element.attributes.size() == 1)
      hexs(*element.attributes.begin());
    else
      printf("err");
    printf("\n");
  } else if(!strcmp(o, "parse2") && t.n >= 4) {
    // one Parser object, two texts; flag 1: also one target Element for both calls.
    // first section: 1 iff both answers are those of a fresh Parser with a fresh Element
    bool shared = t.v[1][0] == '1';
    Xml::Parser parser;
    Xml::Element keep;
    char* res[2]; bool same = true;
    for(int k = 0; k < 2; ++k) {
      size_t n; unsigned char* d = vh::unhex(t.v[2 + k], n);
      char* text = exactCopy(d, n); free(d);
      Xml::Element own;
      Xml::Element& target = shared ? keep : own;
      String data; data.attach(text, n);
      bool ok = parser.parse(data, target);
      res[k] = resultString(ok, parser, target);
      char* ref = freshResult(text, n);
      if(!sameAnswer(ref, res[k])) same = false;
      free(ref); free(text);
    }
    printf("%ld %d | %s | %s\n", c, same ? 1 : 0, res[0], res[1]);
    free(res[0]); free(res[1]);
  } else if(!strcmp(o, "pinto") && t.n >= 2) {
    // parse <text> into an Element that holds the tree built so far; first section: 1 iff the answer is that of a fresh Element
    size_t n; unsigned char* d = vh::unhex(t.v[1], n);
    char* text = exactCopy(d, n); free(d);
    Xml::Element target = current();
    Xml::Parser parser;
    String data; data.attach(text, n);
    bool ok = parser.parse(data, target);
    char* r = resultString(ok, parser, target);
    char* ref = freshResult(text, n);
    // third section: the Element the target was copied from ("copies are independent of their source": the parse clears
    // the copy and appends to it - the source must still hold the tree that was built)
    printf("%ld %d | %s |", c, sameAnswer(ref, r) ? 1 : 0, r);
    if(root) dump(*root, false); else printf(" -");
    printf("\n");
    free(ref); free(r); free(text);
  } else if(!strcmp(o, "rtinto")) {
    // toString of the tree built so far, parsed into an Element that holds a copy of that tree
    Xml::Element e = current();
    String s = Xml::toString(e);
    char* text = exactCopy((const unsigned char*)(const char*)s, s.length());
    Xml::Element target = current();
    Xml::Parser parser;
    String data; data.attach(text, s.length());
    bool ok = parser.parse(data, target);
    printf("%ld rtinto ", c);
    printResult(ok, parser, target);
    printf("\n");
    free(text);
  } else if(!strcmp(o, "sparse") && t.n >= 3) {
    // the static wrappers: c = Xml::parse(const char*), s = Xml::parse(const String&); failure text from Error::getErrorString()
    size_t n; unsigned char* d = vh::unhex(t.v[2], n);
    char* text = exactCopy(d, n); free(d);
    {
      Xml::Element element;
      String data; data.attach(text, n);
      Error::setErrorString(String("stale"));
      bool ok = t.v[1][0] == 'c' ? Xml::parse((const char*)text, element) : Xml::parse(data, element);
      printf("%ld ", c);
      if(ok) { printf("ok"); dump(element, true); }
      else { printf("serr "); hexs(Error::getErrorString()); }
      printf("\n");
    }
    free(text);
  } else if(!strcmp(o, "open")) {
    if(depth < maxDepth) {
      Xml::Element e; e.line = 0; e.column = 0; e.type = unhexs(t.v[1]);
      if(depth == 0) { delete root; root = new Xml::Element(e); stack[depth++] = root; }
      else {
        // the (empty) element is copied into the parent's content; the pointer is taken from the Variant stored there
        Xml::Variant& v = stack[depth - 1]->content.append(Xml::Variant(e));
        stack[depth] = &v.toElement();
        ++depth;
      }
    }
  } else if(!strcmp(o, "attr")) {
    if(depth > 0) stack[depth - 1]->attributes.append(unhexs(t.v[1]), unhexs(t.v[2]));
  } else if(!strcmp(o, "text")) {
    if(depth > 0) stack[depth - 1]->content.append(Xml::Variant(unhexs(t.v[1])));
  } else if(!strcmp(o, "close")) {
    if(depth > 1) --depth;
  } else if(!strcmp(o, "str")) {
    Xml::Element e = current();
    String s = Xml::toString(e);
    printf("%ld str ", c); hexs(s); printf("\n");
  } else if(!strcmp(o, "rt")) {
    Xml::Element e = current();
    String s = Xml::toString(e);
    printf("%ld rt ", c);
    parseOut((const unsigned char*)(const char*)s, s.length());
    printf("\n");
  } else if(!strcmp(o, "vdump")) {
    printf("%ld v", c);
    for(int k = 0; k < nslots; ++k) {
      if(!slot[k]) printf(" -"); else dumpv(*(const Xml::Variant*)slot[k], false);
      printf(" ;");
    }
    printf(" |");
    for(int k = 0; k < nslots; ++k) {
      if(!slot[k]) printf(" -"); else dumprc(*(const Xml::Variant*)slot[k]);
      printf(" ;");
    }
    printf("\n");
  } else if(!strcmp(o, "vnull")) {
    if(slotOk(t.v[1], i)) { delete slot[i]; slot[i] = new Xml::Variant; }
  } else if(!strcmp(o, "vtext")) {
    if(slotOk(t.v[1], i)) { delete slot[i]; slot[i] = new Xml::Variant(unhexs(t.v[2])); }
  } else if(!strcmp(o, "velem")) {
    if(slotOk(t.v[1], i)) { Xml::Element e; e.line = 0; e.column = 0; e.type = unhexs(t.v[2]); delete slot[i]; slot[i] = new Xml::Variant(e); }
  } else if(!strcmp(o, "vcopy")) {
    if(slotOk(t.v[1], i) && slotOk(t.v[2], j) && slot[j]) { Xml::Variant* n = new Xml::Variant(*slot[j]); delete slot[i]; slot[i] = n; }
  } else if(!strcmp(o, "vassign")) {
    if(slotOk(t.v[1], i) && slotOk(t.v[2], j) && slot[i] && slot[j]) *slot[i] = *slot[j];
  } else if(!strcmp(o, "vsettext")) {
    if(slotOk(t.v[1], i) && slot[i]) *slot[i] = unhexs(t.v[2]);
  } else if(!strcmp(o, "vname")) {
    if(slotOk(t.v[1], i) && slot[i]) slot[i]->toElement().type = unhexs(t.v[2]);
  } else if(!strcmp(o, "vattr")) {
    if(slotOk(t.v[1], i) && slot[i]) slot[i]->toElement().attributes.append(unhexs(t.v[2]), unhexs(t.v[3]));
  } else if(!strcmp(o, "vchild")) {
    if(slotOk(t.v[1], i) && slotOk(t.v[2], j) && slot[i] && slot[j]) { Xml::Variant child(*slot[j]); slot[i]->toElement().content.append(child); }
  } else if(!strcmp(o, "vsub")) {
    if(slotOk(t.v[1], i) && slotOk(t.v[2], j) && slot[j] && slot[j]->isElement()) {
      const Xml::Element& e = ((const Xml::Variant*)slot[j])->toElement();
      long k = atol(t.v[3]); long n = 0;
      for(List<Xml::Variant>::Iterator it = e.content.begin(), end = e.content.end(); it != end; ++it, ++n)
        if(n == k) { Xml::Variant* nv = new Xml::Variant(*it); delete slot[i]; slot[i] = nv; break; }
    }
  } else if(!strcmp(o, "vassignsub")) {
    // *slot[i] = <k-th content item of slot j>  through Variant::operator=(const Variant&); the right-hand side is a
    // reference INTO slot j's element (for j == i: into the value that the assignment releases)
    if(slotOk(t.v[1], i) && slotOk(t.v[2], j) && slot[j] && slot[j]->isElement()) {
      const Xml::Element& e = ((const Xml::Variant*)slot[j])->toElement();
      long k = atol(t.v[3]); long n = 0;
      for(List<Xml::Variant>::Iterator it = e.content.begin(), end = e.content.end(); it != end; ++it, ++n)
        if(n == k) { if(slot[i]) *slot[i] = *it; else slot[i] = new Xml::Variant(*it); break; }
    }
  } else if(!strcmp(o, "vassignsubm")) {
    // node = node.toElement().content[k];   (mutable access first: a shared element is cloned, then replaced by its own child)
    if(slotOk(t.v[1], i) && slot[i]) {
      Xml::Element& e = slot[i]->toElement();
      long k = atol(t.v[2]); long n = 0;
      for(List<Xml::Variant>::Iterator it = e.content.begin(), end = e.content.end(); it != end; ++it, ++n)
        if(n == k) { *slot[i] = *it; break; }
    }
  } else if(!strcmp(o, "vsubassign!")) {
    // Element& e = slot[i]->toElement();  <k-th item of e.content> = *slot[i];     - the OPEN finding (run only from
    // corpus/C16/open/ while known_findings.json lists it): the item becomes a reference to the block it lives in
    if(slotOk(t.v[1], i) && slot[i] && slot[i]->isElement()) {
      long k = atol(t.v[2]);
      if(k >= 0 && (unsigned long long)k < (unsigned long long)((const Xml::Variant*)slot[i])->toElement().content.size()) {
        Xml::Element& e = slot[i]->toElement();
        long n = 0;
        for(List<Xml::Variant>::Iterator it = e.content.begin(), end = e.content.end(); it != end; ++it, ++n)
          if(n == k) { *it = *slot[i]; break; }
      }
    }
  } else if(!strcmp(o, "vsubassign")) {
    // <k-th content item of slot[i]->toElement()> = *slot[j];   j != i only (XmlSpec.vstep: for j == i the code stores a
    // reference to the block inside the block itself - not an operation of the alphabet)
    if(slotOk(t.v[1], i) && slotOk(t.v[3], j) && i != j && slot[i] && slot[j] && slot[i]->isElement()) {
      long k = atol(t.v[2]);
      if(k >= 0 && (unsigned long long)k < (unsigned long long)((const Xml::Variant*)slot[i])->toElement().content.size()) {
        Xml::Element& e = slot[i]->toElement();
        long n = 0;
        for(List<Xml::Variant>::Iterator it = e.content.begin(), end = e.content.end(); it != end; ++it, ++n)
          if(n == k) { *it = *slot[j]; break; }
      }
    }
  } else if(!strcmp(o, "vsubsettext")) {
    // <k-th content item of slot[i]->toElement()> = String;   Variant::operator=(const String&) on a content item reached
    // through its element (`Xml::Element c = e; c.content.front() = "new";`): toElement() clones a shared element, the items
    // of the clone share their blocks with the items of the source
    if(slotOk(t.v[1], i) && slot[i] && slot[i]->isElement()) {
      long k = atol(t.v[2]);
      if(k >= 0 && (unsigned long long)k < (unsigned long long)((const Xml::Variant*)slot[i])->toElement().content.size()) {
        Xml::Element& e = slot[i]->toElement();
        long n = 0;
        for(List<Xml::Variant>::Iterator it = e.content.begin(), end = e.content.end(); it != end; ++it, ++n)
          if(n == k) { *it = unhexs(t.v[3]); break; }
      }
    }
  } else if(!strcmp(o, "vsubmut")) {
    if(slotOk(t.v[1], i) && slot[i] && slot[i]->isElement()) {
      long k = atol(t.v[2]);
      if(k >= 0 && (unsigned long long)k < (unsigned long long)((const Xml::Variant*)slot[i])->toElement().content.size()) {
        Xml::Element& e = slot[i]->toElement();
        long n = 0;
        for(List<Xml::Variant>::Iterator it = e.content.begin(), end = e.content.end(); it != end; ++it, ++n)
          if(n == k) { (*it).toElement().type = unhexs(t.v[3]); break; }
      }
    }
  } else if(!strcmp(o, "velcopy")) {
    if(slotOk(t.v[1], i) && slotOk(t.v[2], j) && slot[j] && slot[j]->isElement()) {
      Xml::Element copy(((const Xml::Variant*)slot[j])->toElement());
      Xml::Variant* nv = new Xml::Variant(copy);
      delete slot[i]; slot[i] = nv;
    }
  } else if(!strcmp(o, "vdel")) {
    if(slotOk(t.v[1], i)) { delete slot[i]; slot[i] = 0; }
  } else {
    printf("%ld ?unknown-op\n", c);
  }
}

int main(int argc, char** argv) { O = stdout; return vh::run(argc, argv, begin, op, end); }
