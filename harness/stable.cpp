// Correspondence harness for C05: drives two containers of one kind (List, Map, MultiMap, HashMap,
// HashSet, PoolList, PoolMap) through their public interface and, after every operation, re-obtains
// every element through iteration (and find), renames its address to (allocation serial, index in
// the block) and prints it together with the identity of the object, the construct / copy / assign /
// destroy / allocate / free events of the operation, and (read-only, through `#define private
// public`) the free list, the block list, the tree shape / hash chains.
//
// Object identity: every constructor of the element type takes the next serial number; operator=
// copies the payload and keeps the identity of the target.  PoolList / PoolMap are instantiated with
// an element type whose copy/move constructors and assignments are deleted: this file compiles only
// if those containers never copy or move an element.
#include "vh.hpp"
#define private public
#include <nstd/List.hpp>
#include <nstd/Map.hpp>
#include <nstd/MultiMap.hpp>
#include <nstd/HashMap.hpp>
#include <nstd/HashSet.hpp>
#include <nstd/PoolList.hpp>
#include <nstd/PoolMap.hpp>
#undef private

extern "C" {
void vl_reset(void);
void vl_clear_events(void);
long vl_lookup(const void* p, long* off, long* size);
void vl_note(char kind, long id, const void* p);
long vl_nevents(void);
void vl_event(long i, char* kind, long* a, long* b, long* c);
}

static long g_next_id = 0;
struct Proto {};

// copyable element (List, Map, MultiMap, HashMap values; HashSet keys)
struct Elem
{
  long id; int k; int v;
  Elem() : k(0), v(0)
  { // a default-constructed object outside every item block is a container's end sentinel
    if(vl_lookup(this, 0, 0) < 0) id = -1; else { id = g_next_id++; vl_note('n', id, this); }
  }
  Elem(Proto, int k, int v) : id(-2), k(k), v(v) {}                       // the caller's argument object
  explicit Elem(int v) : id(g_next_id++), k(0), v(v) { vl_note('n', id, this); }   // in-place construction from an argument
  Elem(int a, int b) : id(g_next_id++), k(0), v(a + b) { vl_note('n', id, this); }
  Elem(int a, int b, int c) : id(g_next_id++), k(0), v(a + b + c) { vl_note('n', id, this); }
  Elem(int a, int b, int c, int d) : id(g_next_id++), k(0), v(a + b + c + d) { vl_note('n', id, this); }
  Elem(int a, int b, int c, int d, int e) : id(g_next_id++), k(0), v(a + b + c + d + e) { vl_note('n', id, this); }
  Elem(int a, int b, int c, int d, int e, int f) : id(g_next_id++), k(0), v(a + b + c + d + e + f) { vl_note('n', id, this); }
  Elem(int a, int b, int c, int d, int e, int f, int g) : id(g_next_id++), k(0), v(a + b + c + d + e + f + g) { vl_note('n', id, this); }
  Elem(const Elem& o) : id(g_next_id++), k(o.k), v(o.v) { vl_note('c', id, this); }
  Elem(Elem&& o) : id(g_next_id++), k(o.k), v(o.v) { vl_note('m', id, this); }
  Elem& operator=(const Elem& o) { k = o.k; v = o.v; if(id != -2) vl_note('=', id, this); return *this; }
  Elem& operator=(Elem&& o) { k = o.k; v = o.v; if(id != -2) vl_note('=', id, this); return *this; }
  ~Elem() { if(id >= 0) vl_note('d', id, this); }
  bool operator==(const Elem& o) const { return k == o.k && v == o.v; }
  bool operator!=(const Elem& o) const { return !(*this == o); }
  bool operator<(const Elem& o) const { return v < o.v; }
  bool operator>(const Elem& o) const { return v > o.v; }
};
inline usize hash(const Elem& e) { return (usize)e.k; }

// element of the pool containers: can only be constructed in place
struct ElemNC
{
  long id; int k; int v;
  ElemNC() : k(0), v(0)
  {
    if(vl_lookup(this, 0, 0) < 0) id = -1; else { id = g_next_id++; vl_note('n', id, this); }
  }
  explicit ElemNC(int v) : id(g_next_id++), k(0), v(v) { vl_note('n', id, this); }
  // the 2..7-argument forms of PoolList::append: the payload is the sum of the arguments
  ElemNC(int a, int b) : id(g_next_id++), k(0), v(a + b) { vl_note('n', id, this); }
  ElemNC(int a, int b, int c) : id(g_next_id++), k(0), v(a + b + c) { vl_note('n', id, this); }
  ElemNC(int a, int b, int c, int d) : id(g_next_id++), k(0), v(a + b + c + d) { vl_note('n', id, this); }
  ElemNC(int a, int b, int c, int d, int e) : id(g_next_id++), k(0), v(a + b + c + d + e) { vl_note('n', id, this); }
  ElemNC(int a, int b, int c, int d, int e, int f) : id(g_next_id++), k(0), v(a + b + c + d + e + f) { vl_note('n', id, this); }
  ElemNC(int a, int b, int c, int d, int e, int f, int g) : id(g_next_id++), k(0), v(a + b + c + d + e + f + g) { vl_note('n', id, this); }
  ~ElemNC() { if(id >= 0) vl_note('d', id, this); }
  ElemNC(const ElemNC&) = delete;
  ElemNC(ElemNC&&) = delete;
  ElemNC& operator=(const ElemNC&) = delete;
  ElemNC& operator=(ElemNC&&) = delete;
};

// Normal build: the pool containers hold ElemNC.  Only when that does not compile (a pool container
// copies or moves) the check rebuilds with -DVERIF_POOL_COPYABLE so that the copy shows up as an event
// of a concrete history.
#ifdef VERIF_POOL_COPYABLE
typedef Elem PoolElem;
#else
typedef ElemNC PoolElem;
#endif

// every non-template member of the pool containers (append() without arguments, remove(const T&) /
// remove(const V&), front(), back(), clear(), swap() ...) is instantiated with the pool element type:
// with the non-copyable type this file compiles only if none of them copies or moves an element
template class PoolList<PoolElem>;
template class PoolMap<int, PoolElem>;

// ---- per-kind adapters -------------------------------------------------------------------------
// C container, T element type; insert modes: 0 append, 1 prepend, 2 at position
template<class C> static typename C::Iterator iter_at(C& c, long pos)
{
  typename C::Iterator i = c.begin();
  for(long n = 0; n < pos && i != c.end(); ++n) ++i;
  return i;
}

#define PLAIN_EXTRAS \
  static void insert_n(C& c, int, int k, int v) { insert(c, 0, 0, k, v); } \
  static void remove_value(C& c, T*, long pos) { c.remove(iter_at(c, pos)); }
// whole-container members (argument: the OTHER container of the pair) and the hinted insert, where a kind has none
#define NO_INSALL static void insert_all(C&, C&, int, long) {}
#define NO_REMALL static void remove_all(C&, C&) {}
#define NO_HINT static void insert_hint(C&, long, int, int) {}

struct TrList
{
  typedef List<Elem> C; typedef Elem T;
  enum { has_swap = 1, has_assign = 1, has_find = 0, is_tree = 0, is_hash = 0 };
  static C* make(void* m, usize) { return new(m) C; }
  static long stride() { return sizeof(C::Item); }
  static T* addr(C::Iterator& i) { return &*i; }
  static int key(C::Iterator&) { return 0; }
  static int val(C::Iterator& i) { return (*i).v; }
  static void insert(C& c, int mode, long pos, int, int v)
  {
    Elem a(Proto(), 0, v);
    if(mode == 0) c.append(a); else if(mode == 1) c.prepend(a); else c.insert(iter_at(c, pos), a);
  }
  static void remove_key(C& c, int v) { c.remove(Elem(Proto(), 0, v)); }
  static T* find(C&, int) { return 0; }
  static void swap(C& a, C& b) { a.swap(b); }
  static void assign(C& a, C& b) { a = b; }
  PLAIN_EXTRAS
  // append / prepend / insert(position, ..) of a whole list
  static void insert_all(C& c, C& o, int mode, long pos)
  {
    if(mode == 0) c.append(o); else if(mode == 1) c.prepend(o); else c.insert(iter_at(c, pos), o);
  }
  NO_REMALL NO_HINT
  static long id_of_item(C::Item* i) { return i->value.id; }
};

struct TrMap
{
  typedef Map<int, Elem> C; typedef Elem T;
  enum { has_swap = 0, has_assign = 1, has_find = 1, is_tree = 1, is_hash = 0 };
  static C* make(void* m, usize) { return new(m) C; }
  static long stride() { return sizeof(C::Item); }
  static T* addr(C::Iterator& i) { return &*i; }
  static int key(C::Iterator& i) { return i.key(); }
  static int val(C::Iterator& i) { return (*i).v; }
  static void insert(C& c, int, long, int k, int v) { c.insert(k, Elem(Proto(), 0, v)); }
  static void remove_key(C& c, int k) { c.remove(k); }
  static T* find(C& c, int k) { C::Iterator i = c.find(k); return i == c.end() ? 0 : &*i; }
  static void swap(C&, C&) {}
  static void assign(C& a, C& b) { a = b; }
  PLAIN_EXTRAS
  static void insert_all(C& c, C& o, int, long) { c.insert(o); }                       // Map::insert(const Map&)
  static void insert_hint(C& c, long pos, int k, int v) { c.insert(iter_at(c, pos), k, Elem(Proto(), 0, v)); }
  NO_REMALL
  static long id_of_item(C::Item* i) { return i->value.id; }
};

struct TrMulti
{
  typedef MultiMap<int, Elem> C; typedef Elem T;
  enum { has_swap = 0, has_assign = 1, has_find = 2, is_tree = 1, is_hash = 0 };
  static C* make(void* m, usize) { return new(m) C; }
  static long stride() { return sizeof(C::Item); }
  static T* addr(C::Iterator& i) { return &*i; }
  static int key(C::Iterator& i) { return i.key(); }
  static int val(C::Iterator& i) { return (*i).v; }
  static void insert(C& c, int, long, int k, int v) { c.insert(k, Elem(Proto(), 0, v)); }
  static void remove_key(C& c, int k) { c.remove(k); }
  static T* find(C& c, int k) { C::Iterator i = c.find(k); return i == c.end() ? 0 : &*i; }
  static void swap(C&, C&) {}
  static void assign(C& a, C& b) { a = b; }
  PLAIN_EXTRAS
  static void insert_hint(C& c, long pos, int k, int v) { c.insert(iter_at(c, pos), k, Elem(Proto(), 0, v)); }
  NO_INSALL NO_REMALL
  static long id_of_item(C::Item* i) { return i->value.id; }
};

struct TrHashMap
{
  typedef HashMap<int, Elem> C; typedef Elem T;
  enum { has_swap = 1, has_assign = 1, has_find = 1, is_tree = 0, is_hash = 1 };
  static C* make(void* m, usize cap) { return new(m) C(cap); }
  static long stride() { return sizeof(C::Item); }
  static T* addr(C::Iterator& i) { return &*i; }
  static int key(C::Iterator& i) { return i.key(); }
  static int val(C::Iterator& i) { return (*i).v; }
  static void insert(C& c, int mode, long pos, int k, int v)
  {
    Elem a(Proto(), 0, v);
    if(mode == 0) c.append(k, a); else if(mode == 1) c.prepend(k, a); else c.insert(iter_at(c, pos), k, a);
  }
  static void remove_key(C& c, int k) { c.remove(k); }
  static T* find(C& c, int k) { C::Iterator i = c.find(k); return i == c.end() ? 0 : &*i; }
  static void swap(C& a, C& b) { a.swap(b); }
  static void assign(C& a, C& b) { a = b; }
  PLAIN_EXTRAS
  NO_INSALL NO_REMALL NO_HINT
  static long id_of_item(C::Item* i) { return i->value.id; }
};

struct TrHashSet
{
  typedef HashSet<Elem> C; typedef Elem T;
  enum { has_swap = 1, has_assign = 1, has_find = 1, is_tree = 0, is_hash = 1 };
  static C* make(void* m, usize cap) { return new(m) C(cap); }
  static long stride() { return sizeof(C::Item); }
  static T* addr(C::Iterator& i) { return (T*)&*i; }
  static int key(C::Iterator& i) { return (*i).k; }
  static int val(C::Iterator&) { return 0; }
  static void insert(C& c, int mode, long pos, int k, int)
  {
    Elem a(Proto(), k, 0);
    if(mode == 0) c.append(a); else if(mode == 1) c.prepend(a); else c.insert(iter_at(c, pos), a);
  }
  static void remove_key(C& c, int k) { c.remove(Elem(Proto(), k, 0)); }
  static T* find(C& c, int k) { C::Iterator i = c.find(Elem(Proto(), k, 0)); return i == c.end() ? 0 : (T*)&*i; }
  static void swap(C& a, C& b) { a.swap(b); }
  static void assign(C& a, C& b) { a = b; }
  PLAIN_EXTRAS
  static void insert_all(C& c, C& o, int, long) { c.append(o); }                       // HashSet::append(const HashSet&)
  static void remove_all(C& c, C& o) { c.remove(o); }                                  // HashSet::remove(const HashSet&)
  NO_HINT
  static long id_of_item(C::Item* i) { return i->key.id; }
};

struct TrPoolList
{
  typedef PoolList<PoolElem> C; typedef PoolElem T;
  enum { has_swap = 1, has_assign = 0, has_find = 0, is_tree = 0, is_hash = 0 };
  static C* make(void* m, usize) { return new(m) C; }
  static long stride() { return sizeof(C::Item) + sizeof(T); }
  static T* addr(C::Iterator& i) { return &*i; }
  static int key(C::Iterator&) { return 0; }
  static int val(C::Iterator& i) { return (*i).v; }
  static void insert(C& c, int, long, int, int v) { c.append(v); }
  // the other forms of append: n = number of constructor arguments; the payload is v in every form
  static void insert_n(C& c, int n, int, int v)
  {
    switch(n) {
    case 0: c.append().v = v; break;             // the form Server.cpp / Future.cpp use
    case 2: c.append(v - 1, 1); break;
    case 3: c.append(v - 2, 1, 1); break;
    case 4: c.append(v - 3, 1, 1, 1); break;
    case 5: c.append(v - 4, 1, 1, 1, 1); break;
    case 6: c.append(v - 5, 1, 1, 1, 1, 1); break;
    case 7: c.append(v - 6, 1, 1, 1, 1, 1, 1); break;
    default: c.append(v);
    }
  }
  // remove(const T&): the node is computed from the address of the element
  static void remove_value(C& c, T* addr, long) { c.remove(*addr); }
  static void remove_key(C&, int) {}
  static T* find(C&, int) { return 0; }
  static void swap(C& a, C& b) { a.swap(b); }
  static void assign(C&, C&) {}
  NO_INSALL NO_REMALL NO_HINT
  static long id_of_item(C::Item* i) { return ((T*)(i + 1))->id; }
};

struct TrPoolMap
{
  typedef PoolMap<int, PoolElem> C; typedef PoolElem T;
  enum { has_swap = 1, has_assign = 0, has_find = 1, is_tree = 0, is_hash = 1 };
  static C* make(void* m, usize cap) { return new(m) C(cap); }
  static long stride() { return sizeof(C::Item); }
  static T* addr(C::Iterator& i) { return &*i; }
  static int key(C::Iterator& i) { return i.key(); }
  static int val(C::Iterator& i) { return (*i).v; }
  static void insert(C& c, int mode, long pos, int k, int v)
  {
    if(mode == 0) c.append(k).v = v;
    else if(mode == 1) (*c.insert(c.begin(), k)).v = v;
    else (*c.insert(iter_at(c, pos), k)).v = v;
  }
  static void remove_key(C& c, int k) { const int& kr = k; c.remove(kr); }
  static void insert_n(C& c, int, int k, int v) { insert(c, 0, 0, k, v); }
  // remove(const V&): the node is computed from the address of the element
  static void remove_value(C& c, T* addr, long) { const T& r = *addr; c.remove(r); }
  static T* find(C& c, int k) { C::Iterator i = c.find(k); return i == c.end() ? 0 : &*i; }
  static void swap(C& a, C& b) { a.swap(b); }
  static void assign(C&, C&) {}
  NO_INSALL NO_REMALL NO_HINT
  static long id_of_item(C::Item* i) { return i->value.id; }
};

// ---- generic driver -------------------------------------------------------------------------------
struct IDrv
{
  virtual void begin(usize cap) = 0;
  virtual void finish() = 0;
  virtual void op(long c, vh::Tok& t) = 0;
  virtual ~IDrv() {}
};

template<class A> static void dump_tree_node(typename A::C::Item* i)
{
  if(!i) { printf("."); return; }
  printf("[%ld/%lu,", A::id_of_item(i), (unsigned long)i->height);
  dump_tree_node<A>(i->left); printf(","); dump_tree_node<A>(i->right); printf("]");
}
template<class A, int IsTree> struct TreeDump { static void run(typename A::C&) { printf("-"); } };
template<class A> struct TreeDump<A, 1> { static void run(typename A::C& c) { dump_tree_node<A>(c.root); } };
template<class A, int IsHash> struct HashDump { static void run(typename A::C&) {} };
template<class A> struct HashDump<A, 1>
{
  static void run(typename A::C& c)
  {
    printf("%lu;", (unsigned long)c.capacity);
    if(!c.data) { printf("-;"); return; }
    printf("%ld;", vl_lookup(c.data, 0, 0));
    for(usize b = 0; b < c.capacity; ++b) {
      if(b) printf("/");
      int first = 1;
      for(typename A::C::Item* i = c.data[b]; i; i = i->nextCell) { printf(first ? "%ld" : ".%ld", A::id_of_item(i)); first = 0; }
    }
  }
};

// ---- pointer-level dump (compared with the cell machine of coq/Stable/StableHeap.v) -------------------------
// prev / next of every item in iteration order (0 = null, E0 / E1 = the endItem of container A / B, otherwise
// the item's place), for the hash kinds also cell (the address of data[b] or of an item's nextCell) and nextCell
template<class A, int IsHash> struct ChainPtrs { static void run(typename A::C&, typename A::C::Item*, long) {} };
template<class A> struct ChainPtrs<A, 1>
{
  static void run(typename A::C& c, typename A::C::Item* i, long dser)
  {
    long off = 0; long ser = vl_lookup(i->cell, &off, 0);
    if(ser >= 0 && ser == dser) printf(":%ld.%ld", ser, off / (long)sizeof(void*));
    else if(ser >= 0) printf(":%ld.%ld", ser, (off - (long)sizeof(void*)) / A::stride());
    else printf(":?");
    if(!i->nextCell) printf(">0");
    else { long o2 = 0; long s2 = vl_lookup(i->nextCell, &o2, 0); printf(">%ld.%ld", s2, (o2 - (long)sizeof(void*)) / A::stride()); }
    (void)c;
  }
};
template<class A, int IsHash> struct DataSer { static long run(typename A::C&) { return -1; } };
template<class A> struct DataSer<A, 1> { static long run(typename A::C& c) { return c.data ? vl_lookup(c.data, 0, 0) : -1; } };

template<class A> struct Drv : IDrv
{
  typedef typename A::C C;
  typedef typename A::T T;
  typedef typename C::Iterator It;
  struct Saved { long id; It it; T* addr; };
  struct Seen { long id; int key, val; T* addr; It it; int side; };

  C* cont[2]; int cur; usize cap;
  Saved* saved; long nsaved, capsaved;
  Seen* seen; long nseen, capseen;

  Drv() : cur(0), cap(0), saved(0), nsaved(0), capsaved(0), seen(0), nseen(0), capseen(0) { cont[0] = cont[1] = 0; }
  ~Drv() { free(saved); free(seen); }

  void begin(usize c)
  {
    cap = c; cur = 0; nsaved = 0;
    for(int i = 0; i < 2; ++i) cont[i] = A::make(malloc(sizeof(C)), cap);
  }
  void finish()
  {
    for(int i = 0; i < 2; ++i) if(cont[i]) { cont[i]->~C(); free(cont[i]); cont[i] = 0; }
  }

  void slot_str(const void* p, char* buf)
  {
    long off = 0; long ser = vl_lookup(p, &off, 0);
    if(ser < 0) sprintf(buf, "-1.0"); else sprintf(buf, "%ld.%ld", ser, (off - (long)sizeof(void*)) / A::stride());
  }

  int looped;
  void collect()
  {
    nseen = 0; looped = 0;
    for(int s = 0; s < 2; ++s) {
      C& c = *cont[s];
      long guard = 0;
      for(It i = c.begin(), end = c.end(); i != end; ++i) {
        if(nseen == capseen) { capseen = capseen ? capseen * 2 : 64; seen = (Seen*)realloc(seen, capseen * sizeof(Seen)); }
        Seen& e = seen[nseen++];
        e.it = i; e.addr = A::addr(i); e.id = e.addr->id; e.key = A::key(i); e.val = A::val(i); e.side = s;
        if(++guard > 4096) { looped = 1; break; }
      }
    }
  }

  void print_side(int s)
  {
    int first = 1;
    for(long j = 0; j < nseen; ++j) if(seen[j].side == s) {
      char b[64]; slot_str(seen[j].addr, b);
      printf(first ? "%ld:%d:%d@%s" : ",%ld:%d:%d@%s", seen[j].id, seen[j].key, seen[j].val, b); first = 0;
    }
    if(first) printf("-");
  }

  void print_internal(int s)
  {
    C& c = *cont[s];
    printf("f=");
    int first = 1; long guard = 0;
    for(typename C::Item* i = c.freeItem; i && guard < 256; i = i->prev, ++guard) {
      char b[64]; slot_str(i, b); printf(first ? "%s" : ",%s", b); first = 0;
    }
    if(guard >= 256) printf(",LOOP");
    if(first) printf("-");
    printf(" b=");
    first = 1;
    for(typename C::ItemBlock* i = c.blocks; i; i = i->next) { printf(first ? "%ld" : ",%ld", vl_lookup(i, 0, 0)); first = 0; }
    if(first) printf("-");
    printf(" s=");
    if(A::is_tree) TreeDump<A, A::is_tree>::run(c);
    else if(A::is_hash) HashDump<A, A::is_hash>::run(c);
    else printf("-");
  }

  void ptr_str(const void* p, char* buf)
  {
    if(!p) sprintf(buf, "0");
    else if(p == (const void*)&cont[0]->endItem) sprintf(buf, "E0");
    else if(p == (const void*)&cont[1]->endItem) sprintf(buf, "E1");
    else slot_str(p, buf);
  }
  void print_ptrs(int s)
  {
    if(A::is_tree) { printf("-"); return; }
    C& c = *cont[s];
    char b1[64], b2[64];
    ptr_str(c._begin.item, b1); ptr_str(c.endItem.prev, b2);
    printf("b=%s,l=%s,n=%lu;", b1, b2, (unsigned long)c.size());
    long dser = DataSer<A, A::is_hash>::run(c);
    int first = 1;
    for(long j = 0; j < nseen; ++j) if(seen[j].side == s) {
      typename C::Item* i = seen[j].it.item;
      ptr_str(i->prev, b1); ptr_str(i->next, b2);
      printf(first ? "%ld:%s>%s" : ",%ld:%s>%s", seen[j].id, b1, b2); first = 0;
      ChainPtrs<A, A::is_hash>::run(c, i, dser);
    }
  }

  void op(long cs, vh::Tok& t)
  {
    C& c = *cont[cur];
    const char* o = t.v[0];
    vl_clear_events();
    if(!strcmp(o, "sel")) cur = atoi(t.v[1]) ? 1 : 0;
    else if(!strcmp(o, "app")) A::insert(c, 0, 0, atoi(t.v[1]), atoi(t.v[2]));
    else if(!strcmp(o, "pre")) A::insert(c, 1, 0, atoi(t.v[1]), atoi(t.v[2]));
    else if(!strcmp(o, "insat")) A::insert(c, 2, atol(t.v[1]), atoi(t.v[2]), atoi(t.v[3]));
    else if(!strcmp(o, "appn")) A::insert_n(c, atoi(t.v[1]), atoi(t.v[2]), atoi(t.v[3]));
    else if(!strcmp(o, "rmval")) {
      // remove through the ADDRESS recorded when the element was first seen (not a fresh iterator)
      long pos = atol(t.v[1]);
      if(pos >= 0 && (usize)pos < c.size()) {
        It it = iter_at(c, pos); long id = A::addr(it)->id; T* addr = A::addr(it);
        for(long j = 0; j < nsaved; ++j) if(saved[j].id == id) { addr = saved[j].addr; break; }
        A::remove_value(c, addr, pos);
      }
    }
    else if(!strcmp(o, "rmat")) { long pos = atol(t.v[1]); if(pos >= 0 && (usize)pos < c.size()) c.remove(iter_at(c, pos)); }
    else if(!strcmp(o, "rmfront")) { if(c.size()) c.removeFront(); }
    else if(!strcmp(o, "rmback")) { if(c.size()) c.removeBack(); }
    else if(!strcmp(o, "rmkey")) A::remove_key(c, atoi(t.v[1]));
    else if(!strcmp(o, "clear")) c.clear();
    else if(!strcmp(o, "swap")) { if(A::has_swap) A::swap(*cont[0], *cont[1]); }
    else if(!strcmp(o, "assign")) { if(A::has_assign) A::assign(c, *cont[1 - cur]); }
    else if(!strcmp(o, "selfassign")) { if(A::has_assign) A::assign(c, *cont[cur]); }     // x = x through two references
    else if(!strcmp(o, "destroy")) { c.~C(); A::make(cont[cur], cap); }
    // whole-container operations; the argument is always the other container of the pair
    else if(!strcmp(o, "appl")) A::insert_all(c, *cont[1 - cur], 0, 0);
    else if(!strcmp(o, "prel")) A::insert_all(c, *cont[1 - cur], 1, 0);
    else if(!strcmp(o, "insl")) A::insert_all(c, *cont[1 - cur], 2, atol(t.v[1]));
    else if(!strcmp(o, "rmall")) A::remove_all(c, *cont[1 - cur]);
    else if(!strcmp(o, "hint")) A::insert_hint(c, atol(t.v[1]), atoi(t.v[2]), atoi(t.v[3]));
    else { printf("%ld ?unknown-op\n", cs); return; }

    // events of the operation (before the observation code runs any find)
    long nev = vl_nevents();
    collect();

    // iterators and addresses taken when the element was first seen must still designate it
    long stale = 0, w = 0;
    for(long j = 0; j < nsaved; ++j) {
      long k = -1;
      for(long m = 0; m < nseen; ++m) if(seen[m].id == saved[j].id) { k = m; break; }
      if(k < 0) continue;                       // element removed: drop the saved iterator
      It it = saved[j].it;
      if(A::addr(it) != seen[k].addr || saved[j].addr != seen[k].addr || A::addr(it)->id != saved[j].id || A::key(it) != seen[k].key) ++stale;
      saved[w++] = saved[j];
    }
    nsaved = w;
    for(long m = 0; m < nseen; ++m) {
      int known = 0;
      for(long j = 0; j < nsaved; ++j) if(saved[j].id == seen[m].id) { known = 1; break; }
      if(known) continue;
      if(nsaved == capsaved) { capsaved = capsaved ? capsaved * 2 : 64; saved = (Saved*)realloc(saved, capsaved * sizeof(Saved)); }
      saved[nsaved].id = seen[m].id; saved[nsaved].it = seen[m].it; saved[nsaved].addr = seen[m].addr; ++nsaved;
    }
    // find(key) must lead to the same address as iteration
    long findbad = 0;
    if(A::has_find) for(long m = 0; m < nseen; ++m) {
      T* f = A::find(*cont[seen[m].side], seen[m].key);
      if(A::has_find == 1) { if(f != seen[m].addr) ++findbad; }
      else { // MultiMap: the first element of the run of equal keys
        long firstm = m;
        for(long q = 0; q < nseen; ++q) if(seen[q].side == seen[m].side && seen[q].key == seen[m].key) { firstm = q; break; }
        if(f != seen[firstm].addr) ++findbad;
      }
    }

    if(looped) { printf("%ld ?iteration-does-not-end\n", cs); return; }
    printf("%ld n=%lu stale=%ld findbad=%ld | A=", cs, (unsigned long)cont[cur]->size(), stale, findbad);
    print_side(0); printf(" B="); print_side(1);
    printf(" | ev=");
    for(long i = 0; i < nev; ++i) {
      char kind; long a, b, cc; vl_event(i, &kind, &a, &b, &cc);
      if(i) printf(",");
      if(kind == 'A' || kind == 'F') printf("%c%ld", kind, a);
      else if(kind == '=') printf("=%ld", a);
      else if(b < 0) printf("%c%ld@-1.0", kind, a);
      else printf("%c%ld@%ld.%ld", kind, a, b, (cc - (long)sizeof(void*)) / A::stride());
    }
    if(!nev) printf("-");
    printf(" | A:"); print_internal(0); printf(" B:"); print_internal(1);
    printf(" | P A:"); print_ptrs(0); printf(" B:"); print_ptrs(1);
    printf("\n");
  }
};

static IDrv* drv = 0;

static void end_case(long)
{
  if(drv) { drv->finish(); drv->~IDrv(); free(drv); drv = 0; }
}

static void begin(long, vh::Tok& t)
{
  end_case(0);
  const char* k = t.n > 2 ? t.v[2] : "list";
  usize cap = t.n > 3 ? (usize)atol(t.v[3]) : 5;
  if(!strcmp(k, "list")) drv = new(malloc(sizeof(Drv<TrList>))) Drv<TrList>;
  else if(!strcmp(k, "map")) drv = new(malloc(sizeof(Drv<TrMap>))) Drv<TrMap>;
  else if(!strcmp(k, "multimap")) drv = new(malloc(sizeof(Drv<TrMulti>))) Drv<TrMulti>;
  else if(!strcmp(k, "hashmap")) drv = new(malloc(sizeof(Drv<TrHashMap>))) Drv<TrHashMap>;
  else if(!strcmp(k, "hashset")) drv = new(malloc(sizeof(Drv<TrHashSet>))) Drv<TrHashSet>;
  else if(!strcmp(k, "poollist")) drv = new(malloc(sizeof(Drv<TrPoolList>))) Drv<TrPoolList>;
  else if(!strcmp(k, "poolmap")) drv = new(malloc(sizeof(Drv<TrPoolMap>))) Drv<TrPoolMap>;
  else { fprintf(stderr, "bad kind %s\n", k); exit(2); }
  vl_reset();
  g_next_id = 0;
  drv->begin(cap);
  vl_clear_events();
}

static void op(long c, long, vh::Tok& t) { drv->op(c, t); }

int main(int argc, char** argv) { return vh::run(argc, argv, begin, op, end_case); }
