// C interface of the system-call recorder of the C20 harness (harness/args_kernel.cpp).
#pragma once
#ifdef __cplusplus
extern "C" {
#endif

enum { VK_PIPEFAIL = 1, VK_DUPFAIL = 2, VK_WAITFAIL = 3, VK_VFORKFAIL = 4 };

void vk_begin_case(void);            // forget descriptors, names and counters
void vk_enter(void);                 // the calls that follow are made by the Process code: record them
void vk_leave(void);
void vk_inject(int what, int n);     // VK_PIPEFAIL n: the n-th pipe() after vk_enter fails; the others: the next call fails
int  vk_vfork_fails(void);           // consulted (and recorded) by the vfork of Process.cpp
const char* vk_log(void);            // canonical text of the calls recorded since the last vk_enter ("-" if none)
int  vk_stray(void);                 // close() calls so far in this case that hit a descriptor not handed out / already closed
int  vk_held(void);                  // descriptors handed out by pipe()/F_DUPFD and not closed yet
int  vk_count_fds(void);             // entries of /proc/self/fd
// Virtual silence of the child (works whether or not recording is on): for the next `ms` milliseconds of VIRTUAL time no
// descriptor becomes readable.  A select()/poll() of the calling process that asks for a shorter time-out is answered at
// once the way Linux answers a time-out (0, all sets cleared / revents 0, the timeval counted down to zero) and the
// silence shrinks by the time-out asked for; a call whose time-out reaches the end of the silence (or has none) goes to
// the kernel.  A caller that keeps asking with a zero time-out never gets there: after VK_SPIN_LIMIT such calls in a row
// the recorder notes a spin and fails the call with EBADF so that the loop ends.  A caller that has been given
// VK_REARM_ENOUGH time-out answers to calls with a real (non-zero) time-out is let through to the kernel.
void vk_pause(long ms);
int  vk_spun(void);                  // a spin was noted since the last vk_pause (the flag is cleared by vk_pause)
long vk_timeouts(void);              // time-out answers given since the last vk_pause
enum { VK_SPIN_LIMIT = 20000, VK_REARM_ENOUGH = 2000 };

#ifdef __cplusplus
}
#endif
