// Correspondence harness for C01: drives the real Map / MultiMap on the op file.
// Keys are a comparison-counting type; internals (root/left/right/parent/height/slope, the
// threaded prev/next list) are only READ through the access override, never written.
#include "vh.hpp"

static unsigned long long g_cmps = 0;
struct CountKey
{
  int k;
  CountKey() : k(0) {}
  CountKey(int k) : k(k) {}
  bool operator>(const CountKey& o) const { ++g_cmps; return k > o.k; }
  bool operator<(const CountKey& o) const { ++g_cmps; return k < o.k; }
  bool operator>=(const CountKey& o) const { ++g_cmps; return k >= o.k; }
  bool operator<=(const CountKey& o) const { ++g_cmps; return k <= o.k; }
  bool operator==(const CountKey& o) const { ++g_cmps; return k == o.k; }
  bool operator!=(const CountKey& o) const { ++g_cmps; return k != o.k; }
};

#define private public
#include <nstd/Map.hpp>
#include <nstd/MultiMap.hpp>
#undef private

typedef Map<CountKey, int> M;
typedef MultiMap<CountKey, int> MM;

// ---- element identity: address of the Item -> allocation number ("slot") ----------------------
enum { TAB = 1 << 15 };
static const void* tab_key[TAB];
static long tab_val[TAB];
static const void* const TOMB = (const void*)1;
static long next_slot = 0;
// slot -> Item (raw address) and the container (0/1) that owns it, for the per-slot cell dump
enum { MAXSLOT = 1 << 16 };
static const void* slot_item[MAXSLOT];
static signed char slot_owner[MAXSLOT];
static int g_cur = 0;
static size_t tab_h(const void* p) { return (size_t)(((unsigned long long)p >> 4) * 0x9E3779B97F4A7C15ull >> 40) & (TAB - 1); }
static void tab_clear() { memset(tab_key, 0, sizeof(tab_key)); memset(slot_item, 0, sizeof(slot_item)); next_slot = 0; }
static long tab_get(const void* p)
{
  for(size_t i = tab_h(p);; i = (i + 1) & (TAB - 1)) {
    if(tab_key[i] == p) return tab_val[i];
    if(tab_key[i] == 0) return -1;
  }
}
static void tab_del(const void* p)
{
  for(size_t i = tab_h(p);; i = (i + 1) & (TAB - 1)) {
    if(tab_key[i] == p) { if(tab_val[i] >= 0 && tab_val[i] < MAXSLOT) slot_item[tab_val[i]] = 0; tab_key[i] = TOMB; return; }
    if(tab_key[i] == 0) return;
  }
}
static void tab_put(const void* p, long v)
{
  tab_del(p);
  for(size_t i = tab_h(p);; i = (i + 1) & (TAB - 1))
    if(tab_key[i] == 0 || tab_key[i] == TOMB) {
      tab_key[i] = p; tab_val[i] = v;
      if(v >= 0 && v < MAXSLOT) { slot_item[v] = p; slot_owner[v] = (signed char)g_cur; }
      return;
    }
}

// ---- the same rolling hash as the OCaml driver -------------------------------------------------
static const long long HMOD = 1000000007LL;
static long long hstep(long long h, long long x) { return (h * 31337 + (((x + 12345) % HMOD) + HMOD) % HMOD) % HMOD; }

static bool g_hash = false;
static bool g_multi = false;
static bool g_search = false;   // `search` in the case configuration: one short line per operation (size, real depth, imbalance)

template<class C> struct Drv
{
  typedef typename C::Iterator It;
  typedef typename C::Item Item;

  static It at_rank(C& c, long p)
  {
    It i = c.begin();
    for(long n = 0; n < p && i != c.end(); ++n) ++i;
    return i;
  }

  static void put_iter(C& c, const It& it)
  {
    if(it == c.end()) { printf("@end"); return; }
    long r = 0;
    for(It i = c.begin(); i != c.end() && i != it; ++i) ++r;
    printf("@%ld:%d:%d:%ld", r, it.key().k, *it, tab_get(it.item));
    // Every accessor of the Iterator, const and non-const overload, against the raw Item the iterator designates
    // (Iterator has: key() const; operator* const / non-const; operator-> const / non-const; ++ / -- in place and
    // as const members returning a new Iterator; == / !=).
    const Item* raw = it.item;
    const It cit = it;
    It a = it, b = it;
    const It& ra = ++a;                   // non-const ++ / --: move in place and return *this
    const It& rb = --b;
    It na = ++cit, nb = --cit;            // const ++ / --: a new Iterator, the receiver stays
    if(a.item != raw->next || &ra != &a) printf("!inc");
    if(b.item != raw->prev || &rb != &b) printf("!dec");
    if(na.item != raw->next || cit.item != raw) printf("!const-inc");
    if(nb.item != raw->prev || cit.item != raw) printf("!const-dec");
    if(!(na == a) || (na != a) || !(nb == b) || (nb != b) || na == cit || !(na != cit) || !(cit == it) || (cit != it)) printf("!eq");
    const It& kit = it;
    if(&kit.key() != &raw->key || &*kit != &raw->value || kit.operator->() != &raw->value) printf("!const-deref");
    It m = it;                            // non-const operator* and operator->
    int& mref = *m;
    int* mptr = m.operator->();
    if(&mref != &raw->value || mptr != &raw->value || m.item != raw) printf("!deref");
    It dflt;                              // default construction: designates nothing
    if(dflt.item != 0) printf("!default");
  }

  static void unmap_all(C& c) { for(It i = c.begin(); i != c.end(); ++i) tab_del(i.item); }

  // in-order walk of the tree (checking parent links and the stored slope field)
  static void inorder(Item* it, Item* parent, Item** out, size_t& n, size_t cap, const char*& bad)
  {
    if(!it) return;
    if(it->parent != parent) bad = "!parent";
    usize lh = it->left ? it->left->height : 0, rh = it->right ? it->right->height : 0;
    if(it->slope != (ssize)lh - (ssize)rh) bad = "!slope";
    inorder(it->left, it, out, n, cap, bad);
    if(n < cap) out[n] = it;
    ++n;
    inorder(it->right, it, out, n, cap, bad);
  }
  static void preorder(Item* it, bool& first, long long& h)
  {
    if(g_hash) {
      if(!it) { h = hstep(h, -1); return; }
      h = hstep(hstep(hstep(h, it->key.k), tab_get(it)), (long long)it->height);
    } else {
      if(!first) putchar(',');
      first = false;
      if(!it) { putchar('.'); return; }
      printf("%d:%ld:%lu", it->key.k, tab_get(it), (unsigned long)it->height);
    }
    preorder(it->left, first, h);
    preorder(it->right, first, h);
  }

  static void iter_out(C& c)
  {
    if(g_hash) {
      long long h = 7;
      for(It i = c.begin(); i != c.end(); ++i) h = hstep(hstep(hstep(h, i.key().k), *i), tab_get(i.item));
      printf("#%lld", h);
    } else {
      bool first = true;
      for(It i = c.begin(); i != c.end(); ++i) {
        printf(first ? "%d:%d:%ld" : ",%d:%d:%ld", i.key().k, *i, tab_get(i.item));
        first = false;
      }
      if(first) putchar('-');
    }
  }

  static void intern_out(C& c)
  {
    bool first = true; long long h = 7;
    preorder(c.root, first, h);
    if(g_hash) printf("#%lld", h);
    size_t cap = c.size() + 2, n = 0;
    Item** arr = (Item**)malloc(sizeof(Item*) * cap);
    const char* bad = 0;
    inorder(c.root, 0, arr, n, cap, bad);
    if(n != c.size()) bad = "!size";
    else {
      // threaded list forwards and backwards == in-order walk
      Item* p = c._begin.item; Item* prev = 0;
      for(size_t i = 0; i < n; ++i) {
        if(p != arr[i] || p->prev != prev) { bad = "!thread"; break; }
        prev = p; p = p->next;
      }
      if(!bad && (p != &c.endItem || c.endItem.prev != prev || c._end.item != &c.endItem)) bad = "!thread-end";
    }
    free(arr);
    if(bad) printf(" %s", bad);
  }

  // raw fields of every live Item of container number `owner`, in slot order, pointers as slots
  // (`-` null, `E` &endItem, -3 an address that is no live Item); compared with the cell machine
  // of AvlHeapModel.v after every operation
  static long pnum(C& c, const Item* p)
  {
    if(!p) return -1;
    if(p == &c.endItem) return -2;
    long s = tab_get(p);
    return s < 0 ? -3 : s;
  }
  static void pput(long n) { if(n == -1) putchar('-'); else if(n == -2) putchar('E'); else printf("%ld", n); }
  static void cells_out(C& c, int owner)
  {
    long nlive = 0;
    for(long s = 0; s < next_slot && s < MAXSLOT; ++s) if(slot_item[s] && slot_owner[s] == owner) ++nlive;
    long hd[4] = { pnum(c, c.root), pnum(c, c._begin.item), pnum(c, c.endItem.prev), (long)c._size };
    bool full = nlive <= 24;
    long long h = 7;
    if(full) { printf("r="); pput(hd[0]); printf(" b="); pput(hd[1]); printf(" e="); pput(hd[2]); printf(" n=%ld ", hd[3]); }
    else for(int i = 0; i < 4; ++i) h = hstep(h, hd[i]);
    bool first = true;
    for(long s = 0; s < next_slot && s < MAXSLOT; ++s) {
      if(!slot_item[s] || slot_owner[s] != owner) continue;
      const Item* it = (const Item*)slot_item[s];
      long f[10] = { s, it->key.k, it->value, pnum(c, it->parent), pnum(c, it->left), pnum(c, it->right),
                     (long)it->height, (long)it->slope, pnum(c, it->prev), pnum(c, it->next) };
      if(full) {
        if(!first) putchar(',');
        printf("%ld:%ld:%ld:", f[0], f[1], f[2]); pput(f[3]); putchar(':'); pput(f[4]); putchar(':'); pput(f[5]);
        printf(":%ld:%ld:", f[6], f[7]); pput(f[8]); putchar(':'); pput(f[9]);
      } else for(int i = 0; i < 10; ++i) h = hstep(h, f[i]);
      first = false;
    }
    if(full) { if(first) putchar('-'); }
    else printf("c#%lld", h);
  }

  // real height of a subtree (from the links, not from the stored height field); bad += excess imbalance
  static long depth_of(const Item* it, long& bad)
  {
    if(!it) return 0;
    long a = depth_of(it->left, bad), b = depth_of(it->right, bad);
    long d = a > b ? a - b : b - a;
    if(d >= 2) bad += (d - 1) * (1 + (a > b ? a : b));   // weighted by the height of the node: a defect high up counts more
    return 1 + (a > b ? a : b);
  }

  static void shape_hash(const Item* it, long long& h)
  {
    if(!it) { h = hstep(h, -1); return; }
    h = hstep(h, it->key.k);
    shape_hash(it->left, h);
    shape_hash(it->right, h);
  }

  // `other` != 0: an operation that reads the other container - its public and internal state is dumped too
  static void state_out(C& c, C* other)
  {
    if(g_search) {   // used by the depth search of checks/C01.py only (implementation alone, no model / reference run)
      long bad = 0, d = depth_of(c.root, bad);
      long long h = 7;
      shape_hash(c.root, h);
      printf(" | %lu %ld %ld %lld\n", (unsigned long)c.size(), d, bad, h);
      return;
    }
    if(other) { printf(" o=%lu ", (unsigned long)other->size()); iter_out(*other); }
    printf(" | %lu %d ", (unsigned long)c.size(), c.isEmpty() ? 1 : 0);
    iter_out(c);
    printf(" | ");
    intern_out(c);
    printf(" ; "); cells_out(c, g_cur);
    if(other) { printf(" / "); intern_out(*other); printf(" ; "); cells_out(*other, 1 - g_cur); }
    putchar('\n');
  }

  static void op(C* cs[2], vh::Tok& t)
  {
    C& c = *cs[g_cur];
    const char* name = t.v[0];
    bool two = false;
    if(!strcmp(name, "ins") || !strcmp(name, "hint") || !strcmp(name, "hintc")) {
      usize before = c.size();
      It it;
      if(name[0] == 'i') it = c.insert(CountKey(atoi(t.v[1])), atoi(t.v[2]));
      else { It pos = at_rank(c, atol(t.v[1])); it = c.insert(pos, CountKey(atoi(t.v[2])), atoi(t.v[3])); }
      if(c.size() > before) tab_put(it.item, next_slot++);
      put_iter(c, it);
    } else if(!strcmp(name, "remk") || !strcmp(name, "remkc")) {
      // Which entries go is observed, not assumed (the property text does not say which entry of a run of equal
      // keys remove(key) takes): the Items in iteration order before, compared with those after.
      CountKey k(atoi(t.v[1]));
      usize n0 = c.size(), j = 0;
      const Item** before = (const Item**)malloc(sizeof(Item*) * (n0 + 1));
      for(It i = c.begin(); i != c.end() && j < n0; ++i) before[j++] = i.item;
      n0 = j;
      c.remove(k);
      It i = c.begin();
      for(j = 0; j < n0; ++j) {
        if(i != c.end() && i.item == before[j]) ++i;
        else tab_del(before[j]);          // gone: its slot disappears with it
      }
      free(before);
      putchar('-');
    } else if(!strcmp(name, "remi")) {
      long p = atol(t.v[1]);
      if(p < 0 || (usize)p >= c.size()) putchar('-');
      else { It it = at_rank(c, p); tab_del(it.item); It r = c.remove(it); put_iter(c, r); }
    } else if(!strcmp(name, "remf")) {
      if(c.isEmpty()) putchar('-');
      else { tab_del(c.begin().item); It r = c.removeFront(); put_iter(c, r); }
    } else if(!strcmp(name, "remb")) {
      if(c.isEmpty()) putchar('-');
      else { const It e = c.end(); It last = --e; tab_del(last.item); It r = c.removeBack(); put_iter(c, r); }
    } else if(!strcmp(name, "clear")) {
      unmap_all(c); c.clear(); putchar('-');
    } else if(!strcmp(name, "find")) {
      g_cmps = 0;
      It it = c.find(CountKey(atoi(t.v[1])));
      unsigned long long n = g_cmps;
      put_iter(c, it);
      printf(" c=%llu", n);
    } else if(!strcmp(name, "has")) {
      printf("%d", c.contains(CountKey(atoi(t.v[1]))) ? 1 : 0);
    } else if(!strcmp(name, "count")) {
      printf("%lu", (unsigned long)count(c, CountKey(atoi(t.v[1]))));
    } else if(!strcmp(name, "front")) {
      const C& k = c;   // front() / back() have a const and a non-const overload
      if(c.isEmpty()) printf("v=-"); else { printf("v=%d", c.front()); if(&k.front() != &c.front() || k.front() != *c.begin()) printf("!const-front"); }
    } else if(!strcmp(name, "back")) {
      const C& k = c;
      if(c.isEmpty()) printf("v=-"); else { printf("v=%d", c.back()); if(&k.back() != &c.back()) printf("!const-back"); }
    } else if(!strcmp(name, "sel")) {
      g_cur = atoi(t.v[1]) ? 1 : 0; putchar('-');
    } else if(!strcmp(name, "copy") || !strcmp(name, "copyc") || !strcmp(name, "copys")) {
      copy_ops(cs, name); putchar('-'); two = true;
    } else if(!strcmp(name, "bulk")) {
      bulk_op(cs); putchar('-'); two = true;
    } else {
      printf("?unknown-op");
    }
    state_out(*cs[g_cur], two ? cs[1 - g_cur] : 0);
  }

  static usize count(M& c, const CountKey& k) { return c.contains(k) ? 1 : 0; }   // Map has no count()
  static usize count(MM& c, const CountKey& k) { return c.count(k); }

  // copy = operator=, copyc = copy construction, copys = self-assignment; Map and MultiMap alike
  static void copy_ops(C* cs[2], const char* name)
  {
    if(!strcmp(name, "copys")) {            // nothing may change, so the slots stay as they are
      C& self = *cs[g_cur];
      *cs[g_cur] = self;
      return;
    }
    const C& o = *cs[1 - g_cur];
    unmap_all(*cs[g_cur]);
    if(!strcmp(name, "copy")) *cs[g_cur] = o;
    else { delete cs[g_cur]; cs[g_cur] = new C(o); }
    C& c = *cs[g_cur];
    for(It i = c.begin(); i != c.end(); ++i) tab_put(i.item, next_slot++);   // all Items are new
  }

  static void bulk_op(MM* cs[2]) {}   // MultiMap has no insert(other)
  static void bulk_op(M* cs[2])
  {
    M& o = *cs[1 - g_cur];
    M& c = *cs[g_cur];
    c.insert(o);
    for(M::Iterator i = o.begin(); i != o.end(); ++i) {   // new Items were created in source order
      M::Iterator j = c.find(i.key());
      if(j != c.end() && tab_get(j.item) < 0) tab_put(j.item, next_slot++);
    }
  }
};

static M* ms[2] = {0, 0};
static MM* mms[2] = {0, 0};

static void begin(long, vh::Tok& t)
{
  g_multi = false; g_hash = false; g_search = false; g_cur = 0;
  for(int i = 2; i < t.n; ++i) {
    if(!strcmp(t.v[i], "multimap")) g_multi = true;
    if(!strcmp(t.v[i], "hash")) g_hash = true;
    if(!strcmp(t.v[i], "search")) g_search = true;
  }
  for(int i = 0; i < 2; ++i) { delete ms[i]; delete mms[i]; ms[i] = new M; mms[i] = new MM; }
  tab_clear();
}

static void op(long c, long, vh::Tok& t)
{
  printf("%ld ", c);
  if(g_multi) Drv<MM>::op(mms, t); else Drv<M>::op(ms, t);
}

int main(int argc, char** argv) { return vh::run(argc, argv, begin, op, 0); }
