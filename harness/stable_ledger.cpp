// Allocation ledger for the C05 harness.  Separate translation unit with a C interface (it must not
// see the nstd headers).  The global operator new/delete family is intercepted at link time
// (-Wl,--wrap=_Znam,...): every call made from the harness TU - i.e. from the container templates
// instantiated there - passes through here and is forwarded to the real (ASan) operator.
// Every allocation gets a serial number (0,1,2,... per case); addresses are renamed to
// (serial, offset) so that the model can predict them.
#include <stdio.h>
#include <stdlib.h>
#include <string.h>

extern "C" {
void* __real__Znam(unsigned long);
void* __real__Znwm(unsigned long);
void __real__ZdaPv(void*);
void __real__ZdlPv(void*);
void __real__ZdaPvm(void*, unsigned long);
void __real__ZdlPvm(void*, unsigned long);
}

struct Alloc { char* base; unsigned long size; long serial; int live; };
struct Ev { char kind; long a, b, c; };

static Alloc* allocs = 0; static long nallocs = 0, capallocs = 0;
static Ev* evs = 0; static long nevs = 0, capevs = 0;
static long next_serial = 0;

static void push_ev(char kind, long a, long b, long c)
{
  if(nevs == capevs) { capevs = capevs ? capevs * 2 : 256; evs = (Ev*)realloc(evs, capevs * sizeof(Ev)); }
  Ev e = {kind, a, b, c}; evs[nevs++] = e;
}

static void on_alloc(void* p, unsigned long size)
{
  if(!p) return;
  if(nallocs == capallocs) { capallocs = capallocs ? capallocs * 2 : 64; allocs = (Alloc*)realloc(allocs, capallocs * sizeof(Alloc)); }
  Alloc a = {(char*)p, size, next_serial++, 1}; allocs[nallocs++] = a;
  push_ev('A', a.serial, (long)size, 0);
}

static void on_free(void* p)
{
  if(!p) return;
  for(long i = nallocs - 1; i >= 0; --i)
    if(allocs[i].live && allocs[i].base == (char*)p) { allocs[i].live = 0; push_ev('F', allocs[i].serial, 0, 0); return; }
  push_ev('F', -1, 0, 0);   // release of something that was never allocated through here
}

extern "C" {

void* __wrap__Znam(unsigned long n) { void* p = __real__Znam(n); on_alloc(p, n); return p; }
void* __wrap__Znwm(unsigned long n) { void* p = __real__Znwm(n); on_alloc(p, n); return p; }
void __wrap__ZdaPv(void* p) { on_free(p); __real__ZdaPv(p); }
void __wrap__ZdlPv(void* p) { on_free(p); __real__ZdlPv(p); }
void __wrap__ZdaPvm(void* p, unsigned long n) { on_free(p); __real__ZdaPvm(p, n); }
void __wrap__ZdlPvm(void* p, unsigned long n) { on_free(p); __real__ZdlPvm(p, n); }

void vl_reset(void) { nallocs = 0; nevs = 0; next_serial = 0; }
void vl_clear_events(void) { nevs = 0; }

// serial of the live allocation containing p (and the offset of p in it, its size), or -1
long vl_lookup(const void* p, long* off, long* size)
{
  for(long i = nallocs - 1; i >= 0; --i)
    if(allocs[i].live && (const char*)p >= allocs[i].base && (const char*)p < allocs[i].base + allocs[i].size) {
      if(off) *off = (long)((const char*)p - allocs[i].base);
      if(size) *size = (long)allocs[i].size;
      return allocs[i].serial;
    }
  if(off) *off = 0;
  if(size) *size = 0;
  return -1;
}

// element hooks: kind in "ncm=d", id of the object, its address (renamed at the time of the event)
void vl_note(char kind, long id, const void* p)
{
  long off = 0; long ser = p ? vl_lookup(p, &off, 0) : -1;
  push_ev(kind, id, ser, off);
}

long vl_nevents(void) { return nevs; }
void vl_event(long i, char* kind, long* a, long* b, long* c) { *kind = evs[i].kind; *a = evs[i].a; *b = evs[i].b; *c = evs[i].c; }

}
