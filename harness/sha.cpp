// Correspondence harness for C17: drives the real Sha256 class on the op file.
#include "vh.hpp"
#define private public
#include <nstd/Crypto/Sha256.hpp>
#undef private

static Sha256* sha = 0;

// The object lives in zeroed storage so that the never-written part of the block buffer is
// deterministic (the constructor only calls reset(); the model starts from a zero buffer).
static void begin(long, vh::Tok&)
{
  if(sha) { sha->~Sha256(); free(sha); }
  void* mem = calloc(1, sizeof(Sha256));
  sha = new (mem) Sha256;
}

static void state_out()
{
  printf(" | %llu ", (unsigned long long)sha->count);
  for(int i = 0; i < 8; ++i) printf(i ? ",%08x" : "%08x", sha->state[i]);
  printf(" | ");
  vh::puthex(sha->buffer, sizeof(sha->buffer)); // L-int: the 64-byte block buffer, stale bytes included
  printf("\n");
}

static void op(long c, long, vh::Tok& t)
{
  printf("%ld ", c);
  if(!strcmp(t.v[0], "upd")) {
    size_t n; unsigned char* d = vh::unhex(t.v[1], n);
    sha->update(d, n); free(d);
    printf("-");
  } else if(!strcmp(t.v[0], "updrep") || !strcmp(t.v[0], "updrepx")) {
    // streaming: the same chunk absorbed <times> times (long messages without long op lines;
    // updrepx = the same call, but model and spec do not predict it - judged by python hashlib)
    size_t n; unsigned char* d = vh::unhex(t.v[1], n);
    unsigned long long times = strtoull(t.v[2], 0, 10);
    for(unsigned long long r = 0; r < times; ++r) sha->update(d, n);
    free(d);
    printf("-");
  } else if(!strcmp(t.v[0], "fin")) {
    byte dig[Sha256::digestSize];
    sha->finalize(dig);
    vh::puthex(dig, sizeof(dig));
  } else if(!strcmp(t.v[0], "reset")) {
    sha->reset();
    printf("-");
  } else if(!strcmp(t.v[0], "hash")) {
    size_t n; unsigned char* d = vh::unhex(t.v[1], n);
    byte dig[Sha256::digestSize];
    Sha256::hash(d, n, dig); free(d);
    vh::puthex(dig, sizeof(dig));
  } else if(!strcmp(t.v[0], "hmac")) {
    size_t kn, mn; unsigned char* k = vh::unhex(t.v[1], kn); unsigned char* m = vh::unhex(t.v[2], mn);
    byte dig[Sha256::digestSize];
    Sha256::hmac(k, kn, m, mn, dig); free(k); free(m);
    vh::puthex(dig, sizeof(dig));
  } else {
    printf("?unknown-op");
  }
  state_out();
}

int main(int argc, char** argv) { return vh::run(argc, argv, begin, op, 0); }
