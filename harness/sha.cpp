// Correspondence harness for C17: drives the real Sha256 class on the op file.
#include "vh.hpp"
#include <sys/mman.h>
#include <errno.h>
#define private public
#include <nstd/Crypto/Sha256.hpp>
#undef private

static Sha256* sha = 0;

// The object lives in zeroed storage so that the never-written part of the block buffer is
// deterministic (the constructor only calls reset(); the model starts from a zero buffer).
static void begin(long, vh::Tok&)
{
  if(sha) { sha->~Sha256(); free(sha); }
  void* mem = calloc(1, sizeof(Sha256));
  sha = new (mem) Sha256;
}

// ---- one update() call over n bytes, byte i = pat[i mod len] (ops updfill / updfillx / hmacfill) -------------------
// Up to 64 MiB the bytes live in an exact-size heap block (ASan sees a one byte over-read).  Beyond that the n bytes
// are not materialised: a small shared-memory object holding the pattern is mapped again and again into one
// contiguous range of address space, so a single call with n > 2^32 needs a few MiB of memory; the range ends on a
// PROT_NONE page (a one byte over-read is a segv).
struct Fill { unsigned char* data; void* base; size_t maplen; };

static Fill fill_make(const unsigned char* pat, size_t len, size_t n)
{
  Fill f; f.base = 0; f.maplen = 0;
  if(len == 0) n = 0;
  if(n <= ((size_t)64 << 20)) {
    f.data = (unsigned char*)malloc(n ? n : 1);
    if(!f.data) { printf("?harness-out-of-memory"); exit(3); }
    for(size_t i = 0; i < n; ++i) f.data[i] = pat[i % len];
    return f;
  }
  size_t unit = len * 4096;                                   // a multiple of the page size and of the pattern length
  size_t chunk = unit * ((((size_t)16 << 20) + unit - 1) / unit);
  size_t chunks = (n + chunk - 1) / chunk, total = chunks * chunk;
  int fd = memfd_create("c17fill", 0);
  if(fd < 0 || ftruncate(fd, (off_t)chunk) != 0) { printf("?harness-memfd:%d", errno); exit(3); }
  unsigned char* w = (unsigned char*)mmap(0, chunk, PROT_READ | PROT_WRITE, MAP_SHARED, fd, 0);
  if(w == (unsigned char*)MAP_FAILED) { printf("?harness-mmap:%d", errno); exit(3); }
  // the data starts at total - n (so that it ends at the guard page): rotate the pattern accordingly
  for(size_t j = 0; j < chunk; ++j) w[j] = pat[(j + n) % len];
  munmap(w, chunk);
  unsigned char* base = (unsigned char*)mmap(0, total + 4096, PROT_NONE, MAP_PRIVATE | MAP_ANONYMOUS | MAP_NORESERVE, -1, 0);
  if(base == (unsigned char*)MAP_FAILED) { printf("?harness-reserve:%d", errno); exit(3); }
  for(size_t c = 0; c < chunks; ++c)
    if(mmap(base + c * chunk, chunk, PROT_READ, MAP_SHARED | MAP_FIXED, fd, 0) == MAP_FAILED) { printf("?harness-map:%d", errno); exit(3); }
  close(fd);
  f.base = base; f.maplen = total + 4096; f.data = base + (total - n);
  return f;
}

static void fill_free(Fill& f) { if(f.base) munmap(f.base, f.maplen); else free(f.data); }

static void state_out()
{
  printf(" | %llu ", (unsigned long long)sha->count);
  for(int i = 0; i < 8; ++i) printf(i ? ",%08x" : "%08x", sha->state[i]);
  printf(" | ");
  vh::puthex(sha->buffer, sizeof(sha->buffer)); // L-int: the 64-byte block buffer, stale bytes included
  printf("\n");
}

static void op(long c, long, vh::Tok& t)
{
  printf("%ld ", c);
  if(!strcmp(t.v[0], "upd")) {
    size_t n; unsigned char* d = vh::unhex(t.v[1], n);
    sha->update(d, n); free(d);
    printf("-");
  } else if(!strcmp(t.v[0], "updrep") || !strcmp(t.v[0], "updrepx")) {
    // streaming: the same chunk absorbed <times> times (long messages without long op lines;
    // updrepx = the same call, but model and spec do not predict it - judged by python hashlib)
    size_t n; unsigned char* d = vh::unhex(t.v[1], n);
    unsigned long long times = strtoull(t.v[2], 0, 10);
    for(unsigned long long r = 0; r < times; ++r) sha->update(d, n);
    free(d);
    printf("-");
  } else if(!strcmp(t.v[0], "updfill") || !strcmp(t.v[0], "updfillx")) {
    // ONE update() call with <n> bytes, byte i = pattern[i mod len] (the width of `size`; updfillx = the same call,
    // judged by python hashlib because model and spec cannot follow that far)
    size_t len; unsigned char* pat = vh::unhex(t.v[1], len);
    size_t n = (size_t)strtoull(t.v[2], 0, 10);
    Fill f = fill_make(pat, len, n);
    sha->update(f.data, len ? n : 0);
    fill_free(f); free(pat);
    printf("-");
  } else if(!strcmp(t.v[0], "setcount")) {
    // WHITE BOX (the one place where the harness writes private state): the byte counter is set to <n>; state words
    // and block buffer stay.  Only the MODEL predicts what follows (correspondence of finalize/update from a given
    // internal state); the property-level oracle does not judge such a case.
    sha->count = (uint64)strtoull(t.v[1], 0, 10);
    printf("-");
  } else if(!strcmp(t.v[0], "fin")) {
    byte dig[Sha256::digestSize];
    sha->finalize(dig);
    vh::puthex(dig, sizeof(dig));
  } else if(!strcmp(t.v[0], "reset")) {
    sha->reset();
    printf("-");
  } else if(!strcmp(t.v[0], "hash")) {
    size_t n; unsigned char* d = vh::unhex(t.v[1], n);
    byte dig[Sha256::digestSize];
    Sha256::hash(d, n, dig); free(d);
    vh::puthex(dig, sizeof(dig));
  } else if(!strcmp(t.v[0], "hmac")) {
    size_t kn, mn; unsigned char* k = vh::unhex(t.v[1], kn); unsigned char* m = vh::unhex(t.v[2], mn);
    byte dig[Sha256::digestSize];
    Sha256::hmac(k, kn, m, mn, dig); free(k); free(m);
    vh::puthex(dig, sizeof(dig));
  } else if(!strcmp(t.v[0], "hashfill") || !strcmp(t.v[0], "hashfillx")) {
    size_t len; unsigned char* pat = vh::unhex(t.v[1], len);
    size_t n = (size_t)strtoull(t.v[2], 0, 10);
    Fill f = fill_make(pat, len, n);
    byte dig[Sha256::digestSize];
    Sha256::hash(f.data, len ? n : 0, dig);
    fill_free(f); free(pat);
    vh::puthex(dig, sizeof(dig));
  } else if(!strcmp(t.v[0], "hmacfill") || !strcmp(t.v[0], "hmacfillx")) {
    // hmacfill <key pattern> <key length> <message pattern> <message length>
    size_t kl, ml; unsigned char* kp = vh::unhex(t.v[1], kl); unsigned char* mp = vh::unhex(t.v[3], ml);
    size_t kn = (size_t)strtoull(t.v[2], 0, 10), mn = (size_t)strtoull(t.v[4], 0, 10);
    Fill k = fill_make(kp, kl, kn), m = fill_make(mp, ml, mn);
    byte dig[Sha256::digestSize];
    Sha256::hmac(k.data, kl ? kn : 0, m.data, ml ? mn : 0, dig);
    fill_free(k); fill_free(m); free(kp); free(mp);
    vh::puthex(dig, sizeof(dig));
  } else {
    printf("?unknown-op");
  }
  state_out();
}

int main(int argc, char** argv) { return vh::run(argc, argv, begin, op, 0); }
