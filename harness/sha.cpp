// Correspondence harness for C17: drives the real Sha256 class on the op file.
#include "vh.hpp"
#include <sys/mman.h>
#include <errno.h>
#include <pthread.h>
#define private public
#include <nstd/Crypto/Sha256.hpp>
#undef private

static Sha256* sha = 0;

// The object lives in zeroed storage so that the never-written part of the block buffer is
// deterministic (the constructor only calls reset(); the model starts from a zero buffer).
static void begin(long, vh::Tok&)
{
  if(sha) { sha->~Sha256(); free(sha); }
  void* mem = calloc(1, sizeof(Sha256));
  sha = new (mem) Sha256;
}

// ---- one update() call over n bytes, byte i = pat[i mod len] (ops updfill / updfillx / hmacfill) -------------------
// Up to 64 MiB the bytes live in an exact-size heap block (ASan sees a one byte over-read).  Beyond that the n bytes
// are not materialised: a small shared-memory object holding the pattern is mapped again and again into one
// contiguous range of address space, so a single call with n > 2^32 needs a few MiB of memory; the range ends on a
// PROT_NONE page (a one byte over-read is a segv).
struct Fill { unsigned char* data; void* base; size_t maplen; };

static Fill fill_make(const unsigned char* pat, size_t len, size_t n)
{
  Fill f; f.base = 0; f.maplen = 0;
  if(len == 0) n = 0;
  if(n <= ((size_t)64 << 20)) {
    f.data = (unsigned char*)malloc(n ? n : 1);
    if(!f.data) { printf("?harness-out-of-memory"); exit(3); }
    for(size_t i = 0; i < n; ++i) f.data[i] = pat[i % len];
    return f;
  }
  size_t unit = len * 4096;                                   // a multiple of the page size and of the pattern length
  size_t chunk = unit * ((((size_t)16 << 20) + unit - 1) / unit);
  size_t chunks = (n + chunk - 1) / chunk, total = chunks * chunk;
  int fd = memfd_create("c17fill", 0);
  if(fd < 0 || ftruncate(fd, (off_t)chunk) != 0) { printf("?harness-memfd:%d", errno); exit(3); }
  unsigned char* w = (unsigned char*)mmap(0, chunk, PROT_READ | PROT_WRITE, MAP_SHARED, fd, 0);
  if(w == (unsigned char*)MAP_FAILED) { printf("?harness-mmap:%d", errno); exit(3); }
  // the data starts at total - n (so that it ends at the guard page): rotate the pattern accordingly
  for(size_t j = 0; j < chunk; ++j) w[j] = pat[(j + n) % len];
  munmap(w, chunk);
  unsigned char* base = (unsigned char*)mmap(0, total + 4096, PROT_NONE, MAP_PRIVATE | MAP_ANONYMOUS | MAP_NORESERVE, -1, 0);
  if(base == (unsigned char*)MAP_FAILED) { printf("?harness-reserve:%d", errno); exit(3); }
  for(size_t c = 0; c < chunks; ++c)
    if(mmap(base + c * chunk, chunk, PROT_READ, MAP_SHARED | MAP_FIXED, fd, 0) == MAP_FAILED) { printf("?harness-map:%d", errno); exit(3); }
  close(fd);
  f.base = base; f.maplen = total + 4096; f.data = base + (total - n);
  return f;
}

static void fill_free(Fill& f) { if(f.base) munmap(f.base, f.maplen); else free(f.data); }

static void state_out()
{
  printf(" | %llu ", (unsigned long long)sha->count);
  for(int i = 0; i < 8; ++i) printf(i ? ",%08x" : "%08x", sha->state[i]);
  printf(" | ");
  vh::puthex(sha->buffer, sizeof(sha->buffer)); // L-int: the 64-byte block buffer, stale bytes included
  printf("\n");
}

// ---- op threads: N threads, each with its OWN Sha256 object and its own message, hashing at the same time -----------
// threads upd  <rounds> <chunk> <m1> .. <mN>     every thread: one Sha256 object of its own; per round update() in pieces
//                                                 of <chunk> bytes (0 = one call) + finalize() (the object is reused)
// threads hash <rounds> 0 <m1> .. <mN>           every thread: Sha256::hash(m_i) per round
// threads hmac <rounds> 0 <k1> <m1> .. <kN> <mN> every thread: Sha256::hmac(k_i, m_i) per round
// No object, message, key or result buffer is shared between threads.  All threads start together (barrier).  Printed per
// thread (joined by ','): the digest if all rounds gave the same one, else  <first digest>/<first digest that differs>.
// Nothing here depends on the schedule unless the library shares state between unrelated hashers.
struct ThreadJob {
  int mode; unsigned long rounds; size_t chunk;
  unsigned char* key; size_t kn; unsigned char* msg; size_t mn;
  pthread_barrier_t* gate;
  byte first[Sha256::digestSize], other[Sha256::digestSize]; bool differs;
};

static void* thread_main(void* arg)
{
  ThreadJob* j = (ThreadJob*)arg;
  Sha256 own;                                                  // private to this thread
  byte dig[Sha256::digestSize];
  pthread_barrier_wait(j->gate);
  for(unsigned long r = 0; r < j->rounds; ++r) {
    if(j->mode == 0) {
      if(j->chunk == 0) own.update(j->msg, j->mn);
      else for(size_t p = 0; p < j->mn; p += j->chunk) own.update(j->msg + p, j->mn - p < j->chunk ? j->mn - p : j->chunk);
      own.finalize(dig);
    } else if(j->mode == 1) Sha256::hash(j->msg, j->mn, dig);
    else Sha256::hmac(j->key, j->kn, j->msg, j->mn, dig);
    if(r == 0) memcpy(j->first, dig, sizeof(dig));
    else if(!j->differs && memcmp(j->first, dig, sizeof(dig)) != 0) { memcpy(j->other, dig, sizeof(dig)); j->differs = true; }
  }
  return 0;
}

static void threads_op(vh::Tok& t)
{
  enum { maxThreads = 8 };
  int mode = !strcmp(t.v[1], "upd") ? 0 : !strcmp(t.v[1], "hash") ? 1 : !strcmp(t.v[1], "hmac") ? 2 : -1;
  int per = mode == 2 ? 2 : 1, n = (t.n - 4) / per;
  if(mode < 0 || t.n < 4 + per || (t.n - 4) % per || n > maxThreads) { printf("?bad-threads-op"); return; }
  static ThreadJob job[maxThreads];
  pthread_t th[maxThreads];
  pthread_barrier_t gate;
  pthread_barrier_init(&gate, 0, (unsigned)n);
  for(int i = 0; i < n; ++i) {
    ThreadJob& j = job[i];
    j.mode = mode; j.rounds = strtoul(t.v[2], 0, 10); j.chunk = (size_t)strtoull(t.v[3], 0, 10);
    j.key = 0; j.kn = 0; j.differs = false; j.gate = &gate;
    if(mode == 2) j.key = vh::unhex(t.v[4 + 2 * i], j.kn);
    j.msg = vh::unhex(t.v[4 + per * i + per - 1], j.mn);
    memset(j.first, 0, sizeof(j.first));
  }
  for(int i = 0; i < n; ++i)
    if(pthread_create(&th[i], 0, thread_main, &job[i]) != 0) { printf("?harness-pthread_create"); exit(3); }
  for(int i = 0; i < n; ++i) pthread_join(th[i], 0);
  pthread_barrier_destroy(&gate);
  for(int i = 0; i < n; ++i) {
    if(i) printf(",");
    vh::puthex(job[i].first, sizeof(job[i].first));
    if(job[i].differs) { printf("/"); vh::puthex(job[i].other, sizeof(job[i].other)); }
    free(job[i].msg); if(job[i].key) free(job[i].key);
  }
}

static void op(long c, long, vh::Tok& t)
{
  printf("%ld ", c);
  if(!strcmp(t.v[0], "upd")) {
    size_t n; unsigned char* d = vh::unhex(t.v[1], n);
    sha->update(d, n); free(d);
    printf("-");
  } else if(!strcmp(t.v[0], "updrep") || !strcmp(t.v[0], "updrepx")) {
    // streaming: the same chunk absorbed <times> times (long messages without long op lines;
    // updrepx = the same call, but model and spec do not predict it - judged by python hashlib)
    size_t n; unsigned char* d = vh::unhex(t.v[1], n);
    unsigned long long times = strtoull(t.v[2], 0, 10);
    for(unsigned long long r = 0; r < times; ++r) sha->update(d, n);
    free(d);
    printf("-");
  } else if(!strcmp(t.v[0], "updfill") || !strcmp(t.v[0], "updfillx")) {
    // ONE update() call with <n> bytes, byte i = pattern[i mod len] (the width of `size`; updfillx = the same call,
    // judged by python hashlib because model and spec cannot follow that far)
    size_t len; unsigned char* pat = vh::unhex(t.v[1], len);
    size_t n = (size_t)strtoull(t.v[2], 0, 10);
    Fill f = fill_make(pat, len, n);
    sha->update(f.data, len ? n : 0);
    fill_free(f); free(pat);
    printf("-");
  } else if(!strcmp(t.v[0], "setcount")) {
    // WHITE BOX (the one place where the harness writes private state): the byte counter is set to <n>; state words
    // and block buffer stay.  Only the MODEL predicts what follows (correspondence of finalize/update from a given
    // internal state); the property-level oracle does not judge such a case.
    sha->count = (uint64)strtoull(t.v[1], 0, 10);
    printf("-");
  } else if(!strcmp(t.v[0], "fin")) {
    byte dig[Sha256::digestSize];
    sha->finalize(dig);
    vh::puthex(dig, sizeof(dig));
  } else if(!strcmp(t.v[0], "reset")) {
    sha->reset();
    printf("-");
  } else if(!strcmp(t.v[0], "hash")) {
    size_t n; unsigned char* d = vh::unhex(t.v[1], n);
    byte dig[Sha256::digestSize];
    Sha256::hash(d, n, dig); free(d);
    vh::puthex(dig, sizeof(dig));
  } else if(!strcmp(t.v[0], "hmac")) {
    size_t kn, mn; unsigned char* k = vh::unhex(t.v[1], kn); unsigned char* m = vh::unhex(t.v[2], mn);
    byte dig[Sha256::digestSize];
    Sha256::hmac(k, kn, m, mn, dig); free(k); free(m);
    vh::puthex(dig, sizeof(dig));
  } else if(!strcmp(t.v[0], "hashfill") || !strcmp(t.v[0], "hashfillx")) {
    size_t len; unsigned char* pat = vh::unhex(t.v[1], len);
    size_t n = (size_t)strtoull(t.v[2], 0, 10);
    Fill f = fill_make(pat, len, n);
    byte dig[Sha256::digestSize];
    Sha256::hash(f.data, len ? n : 0, dig);
    fill_free(f); free(pat);
    vh::puthex(dig, sizeof(dig));
  } else if(!strcmp(t.v[0], "hmacfill") || !strcmp(t.v[0], "hmacfillx")) {
    // hmacfill <key pattern> <key length> <message pattern> <message length>
    size_t kl, ml; unsigned char* kp = vh::unhex(t.v[1], kl); unsigned char* mp = vh::unhex(t.v[3], ml);
    size_t kn = (size_t)strtoull(t.v[2], 0, 10), mn = (size_t)strtoull(t.v[4], 0, 10);
    Fill k = fill_make(kp, kl, kn), m = fill_make(mp, ml, mn);
    byte dig[Sha256::digestSize];
    Sha256::hmac(k.data, kl ? kn : 0, m.data, ml ? mn : 0, dig);
    fill_free(k); fill_free(m); free(kp); free(mp);
    vh::puthex(dig, sizeof(dig));
  } else if(!strcmp(t.v[0], "threads")) {
    threads_op(t);
  } else if(!strcmp(t.v[0], "hmacalias")) {
    // hmacalias k|m <off> <key> <message>: hmac() whose result buffer lies INSIDE the key (k) or the message (m)
    // buffer, at byte offset <off> (a key ratchet k = HMAC(k, label) is  hmacalias k 0).  The arguments of the call are
    // the bytes the buffers hold when hmac() is called.  The aliased buffer is an exact-size heap block of
    // max(length, off + 32) bytes; key/message length passed to hmac() is the given one.
    size_t off = (size_t)strtoull(t.v[2], 0, 10);
    size_t kn, mn; unsigned char* k0 = vh::unhex(t.v[3], kn); unsigned char* m0 = vh::unhex(t.v[4], mn);
    bool onKey = t.v[1][0] == 'k';
    size_t an = onKey ? kn : mn, need = off + Sha256::digestSize > an ? off + Sha256::digestSize : an;
    unsigned char* a = (unsigned char*)calloc(1, need);
    memcpy(a, onKey ? k0 : m0, an);
    Sha256::hmac(onKey ? a : k0, kn, onKey ? m0 : a, mn, (byte (&)[Sha256::digestSize])*(a + off));
    vh::puthex(a + off, Sha256::digestSize);
    free(a); free(k0); free(m0);
  } else if(!strcmp(t.v[0], "hashalias")) {
    // hashalias <off> <message>: hash() whose result buffer lies inside the message buffer at offset <off>
    size_t off = (size_t)strtoull(t.v[1], 0, 10);
    size_t mn; unsigned char* m0 = vh::unhex(t.v[2], mn);
    size_t need = off + Sha256::digestSize > mn ? off + Sha256::digestSize : mn;
    unsigned char* a = (unsigned char*)calloc(1, need);
    memcpy(a, m0, mn);
    Sha256::hash(a, mn, (byte (&)[Sha256::digestSize])*(a + off));
    vh::puthex(a + off, Sha256::digestSize);
    free(a); free(m0);
  } else {
    printf("?unknown-op");
  }
  state_out();
}

int main(int argc, char** argv) { return vh::run(argc, argv, begin, op, 0); }
