// Correspondence harness for C12: a scripted Emitter/Listener family drives the real
// Callback::connect / disconnect / emit / destructors.  Objects are heap allocated so that ASan
// sees any use after destruction; internals are only *read* through the access override.
//
// Signals of every arity 0..8 exist (three signals and four slots per arity), so each of the nine
// emit / connect / disconnect templates of Callback.hpp is instantiated and executed.  The arity of
// signal index sg in a case is given by the case configuration (`a<digits>`, one digit per signal
// index, the last digit repeats; default 0).  Every emission passes arguments derived from a fresh
// serial number; every slot checks that it received exactly those (`?bad-args` otherwise).
// Em and Li have a non-empty first base, so the Callback::Emitter / Callback::Listener sub-objects
// sit at a non-zero offset: Slot::receiver (Listener*) and Slot::object (void*, the full object)
// are different addresses, as in client code with several bases.
//
// Round 5: the typed front ends are also instantiated with V != X and W != Y.  A listener of kind 1 or 2 is an
// object of class Li2 : PadL2, Li (data in both bases, Li at a non-zero offset inside Li2).  Kind 1 is connected
// through Li's own slot pointers (template parameters W = Li2, Y = Li: `Y* y = dest` has to adjust the address and
// the slot has to run on the Li sub-object), kind 2 through the same slots cast to `void (Li2::*)(...)` (W = Y = Li2,
// a member pointer whose this-adjustment is non-zero: MemberFuncPtr has to keep and compare all of its bytes).
// An emitter of kind 1 is an object of class Em2 : PadE2, Em handed over as Em2* (V = Em2, X = Em).  Kinds are given
// by the case configuration: `k<digits>` one digit per listener, `j<digits>` one digit per emitter (last repeats).
// Every slot checks the identity fields of the sub-object it runs on (`?bad-receiver` otherwise) and that the pad
// in front of it is untouched.  Slot 3 of every arity is a virtual member function (its member pointer holds a vtable
// offset instead of an address; Li and PadL2 are therefore dynamic classes, PadL2 being the primary base of Li2).
//
// Slots with memory: `def l s @k <action>` is performed only by the k-th invocation of slot s of listener l in the
// case, `def l s @k+ <action>` by the k-th and every later one (the model's scripts see the invocation log).
#include "vh.hpp"
#define private public
#define protected public
#include <nstd/Callback.hpp>
#undef private
#undef protected

enum { MAXE = 4, MAXL = 4, NSG = 3, NSLOT = 4, MAXA = 16, NAR = 9 };

struct Act { char k; int a, b, c, d; int g; bool gplus; };   // k: c d e L E; g: 0 = always, n = at the n-th invocation (gplus: and later)

class Li;
static void run_slot(Li* self, int s);
static void check_args(bool ok);
static int cur_serial();

// argument k of the emission with serial number n; positions alternate int / long
static inline int mk(int n, int k) { return n * 8 + k + 1; }

#define TYPES0
#define TYPES1 int
#define TYPES2 TYPES1, long
#define TYPES3 TYPES2, int
#define TYPES4 TYPES3, long
#define TYPES5 TYPES4, int
#define TYPES6 TYPES5, long
#define TYPES7 TYPES6, int
#define TYPES8 TYPES7, long
#define PARAMS0
#define PARAMS1 int a0
#define PARAMS2 PARAMS1, long a1
#define PARAMS3 PARAMS2, int a2
#define PARAMS4 PARAMS3, long a3
#define PARAMS5 PARAMS4, int a4
#define PARAMS6 PARAMS5, long a5
#define PARAMS7 PARAMS6, int a6
#define PARAMS8 PARAMS7, long a7
// the argument list of an emission, with a leading comma (it follows the signal)
#define CARGS0(n)
#define CARGS1(n) , mk(n, 0)
#define CARGS2(n) CARGS1(n), (long)mk(n, 1)
#define CARGS3(n) CARGS2(n), mk(n, 2)
#define CARGS4(n) CARGS3(n), (long)mk(n, 3)
#define CARGS5(n) CARGS4(n), mk(n, 4)
#define CARGS6(n) CARGS5(n), (long)mk(n, 5)
#define CARGS7(n) CARGS6(n), mk(n, 6)
#define CARGS8(n) CARGS7(n), (long)mk(n, 7)
#define OK0(n) true
#define OK1(n) (a0 == mk(n, 0))
#define OK2(n) (OK1(n) && a1 == (long)mk(n, 1))
#define OK3(n) (OK2(n) && a2 == mk(n, 2))
#define OK4(n) (OK3(n) && a3 == (long)mk(n, 3))
#define OK5(n) (OK4(n) && a4 == mk(n, 4))
#define OK6(n) (OK5(n) && a5 == (long)mk(n, 5))
#define OK7(n) (OK6(n) && a6 == mk(n, 6))
#define OK8(n) (OK7(n) && a7 == (long)mk(n, 7))
#define FOR_ARITIES(M) M(0) M(1) M(2) M(3) M(4) M(5) M(6) M(7) M(8)

struct PadE { long pe[3]; };
struct PadL { long pl[5]; };

class Em : public PadE, public Callback::Emitter
{
public:
  int id; unsigned magic;
#define DECL_SIG(A) void s##A##_0(PARAMS##A) {} void s##A##_1(PARAMS##A) {} void s##A##_2(PARAMS##A) {}
  FOR_ARITIES(DECL_SIG)
  void fire(int sg, int serial);
};

class Li : public PadL, public Callback::Listener
{
public:
  int id; unsigned magic;
#define DECL_SLOT1(A, S) void t##A##_##S(PARAMS##A) { check_args(OK##A(cur_serial())); run_slot(this, S); }
// slot 3 of every arity is a VIRTUAL member function: its member pointer holds a vtable offset, not an address
#define DECL_SLOT(A) DECL_SLOT1(A, 0) DECL_SLOT1(A, 1) DECL_SLOT1(A, 2) virtual DECL_SLOT1(A, 3)
  FOR_ARITIES(DECL_SLOT)
};

// objects whose Li / Em part is a NON-FIRST base with data in front of it and behind it
struct PadL2 { long q[7]; virtual void keeps_li_off_offset_0() {} };   // dynamic, so that it (not Li) is the primary base of Li2
struct PadE2 { long r[2]; };
class Li2 : public PadL2, public Li { public: long tail2[2]; };
class Em2 : public PadE2, public Em { public: long tail2[3]; };
enum { PADQ = 0x5a5a0000 };

#define TABLES(A) \
  typedef void (Em::*Sig##A)(TYPES##A); static Sig##A sigs##A[NSG] = { &Em::s##A##_0, &Em::s##A##_1, &Em::s##A##_2 }; \
  typedef void (Li::*Slt##A)(TYPES##A); static Slt##A slts##A[NSLOT] = { &Li::t##A##_0, &Li::t##A##_1, &Li::t##A##_2, &Li::t##A##_3 }; \
  typedef void (Li2::*Slu##A)(TYPES##A); static Slu##A slus##A[NSLOT] = { static_cast<Slu##A>(&Li::t##A##_0), static_cast<Slu##A>(&Li::t##A##_1), static_cast<Slu##A>(&Li::t##A##_2), static_cast<Slu##A>(&Li::t##A##_3) };
FOR_ARITIES(TABLES)

static int sgar[NSG];                              // arity of signal index sg in this case

void Em::fire(int sg, int n)
{
  switch(sgar[sg]) {
#define CASE_FIRE(A) case A: emit(sigs##A[sg] CARGS##A(n)); break;
  FOR_ARITIES(CASE_FIRE)
  }
}

// the map keys the library derives from the member function pointers
static Callback::MemberFuncPtr sigkey(int sg)
{
  switch(sgar[sg]) {
#define CASE_KEY(A) case A: return Callback::MemberFuncPtr(sigs##A[sg]);
  FOR_ARITIES(CASE_KEY)
  }
  return Callback::MemberFuncPtr(sigs0[sg]);
}
static bool is_slot(const Callback::MemberFuncPtr& p, int k)
{
#define TEST_SLOT(A) if(Callback::MemberFuncPtr(slts##A[k]) == p || Callback::MemberFuncPtr(slus##A[k]) == p) return true;
  FOR_ARITIES(TEST_SLOT)
  return false;
}

static int ne, nl, nsg, maxd, depth;
static Em* em[MAXE]; static Li* li[MAXL];         // 0 when destroyed
static Em2* em2[MAXE]; static Li2* li2[MAXL];     // the complete object when the emitter / listener is of kind 1, 2 (else 0)
static int lkind[MAXL], ekind[MAXE];
static int ncalls[MAXL][NSLOT];                   // invocations of each slot in this case
static Em* emp[MAXE]; static Li* lip[MAXL];       // addresses kept for the dumps
static Act script[MAXL][NSLOT][MAXA]; static int nscript[MAXL][NSLOT];
static int cur_e[64], cur_sg[64], cur_n[64], serial;
static int ninv;                                  // slot invocations of the current top-level operation
static char logbuf[1 << 16]; static size_t loglen;
static char trbuf[1 << 23]; static size_t trlen;      // internal data of the emitting signal at every slot entry / exit

static bool parse_act(char** v, int n, Act& a)
{
  a.a = a.b = a.c = a.d = 0; a.g = 0; a.gplus = false;
  if(!strcmp(v[0], "c") && n == 5) a.k = 'c';
  else if(!strcmp(v[0], "d") && n == 5) a.k = 'd';
  else if(!strcmp(v[0], "e") && n == 3) a.k = 'e';
  else if(!strcmp(v[0], "xl") && n == 2) a.k = 'L';
  else if(!strcmp(v[0], "xe") && n == 2) a.k = 'E';
  else return false;
  if(n > 1) a.a = atoi(v[1]); if(n > 2) a.b = atoi(v[2]); if(n > 3) a.c = atoi(v[3]); if(n > 4) a.d = atoi(v[4]);
  return true;
}

static bool okE(int e) { return e >= 0 && e < ne && em[e]; }
static bool okL(int l) { return l >= 0 && l < nl && li[l]; }

// the classes have no virtual destructor: delete through the pointer to the complete object
static void destroy_l(int l) { Li* p = li[l]; Li2* p2 = li2[l]; li[l] = 0; li2[l] = 0; if(p2) delete p2; else delete p; }
static void destroy_e(int e) { Em* p = em[e]; Em2* p2 = em2[e]; em[e] = 0; em2[e] = 0; if(p2) delete p2; else delete p; }

static void perform(const Act& a)
{
  switch(a.k) {
  case 'c':
    if(okE(a.a) && okL(a.c) && a.b < nsg && a.d < NSLOT)
      switch(sgar[a.b]) {
#define CONNECT_L(A, EM) \
        if(lkind[a.c] == 1) Callback::connect(EM, sigs##A[a.b], li2[a.c], slts##A[a.d]); \
        else if(lkind[a.c] == 2) Callback::connect(EM, sigs##A[a.b], li2[a.c], slus##A[a.d]); \
        else Callback::connect(EM, sigs##A[a.b], li[a.c], slts##A[a.d]);
#define CASE_CONNECT(A) case A: if(ekind[a.a] == 1) { CONNECT_L(A, em2[a.a]) } else { CONNECT_L(A, em[a.a]) } break;
      FOR_ARITIES(CASE_CONNECT)
      }
    break;
  case 'd':
    if(okE(a.a) && okL(a.c) && a.b < nsg && a.d < NSLOT)
      switch(sgar[a.b]) {
#define DISCONNECT_L(A, EM) \
        if(lkind[a.c] == 1) Callback::disconnect(EM, sigs##A[a.b], li2[a.c], slts##A[a.d]); \
        else if(lkind[a.c] == 2) Callback::disconnect(EM, sigs##A[a.b], li2[a.c], slus##A[a.d]); \
        else Callback::disconnect(EM, sigs##A[a.b], li[a.c], slts##A[a.d]);
#define CASE_DISCONNECT(A) case A: if(ekind[a.a] == 1) { DISCONNECT_L(A, em2[a.a]) } else { DISCONNECT_L(A, em[a.a]) } break;
      FOR_ARITIES(CASE_DISCONNECT)
      }
    break;
  case 'e':
    if(okE(a.a) && a.b < nsg && depth < maxd) {
      cur_e[depth] = a.a; cur_sg[depth] = a.b; cur_n[depth] = ++serial;
      ++depth;
      em[a.a]->fire(a.b, cur_n[depth - 1]);
      --depth;
    }
    break;
  case 'L': if(okL(a.a)) destroy_l(a.a); break;
  case 'E': if(okE(a.a)) destroy_e(a.a); break;
  }
}

// L-int inside an emission: the emitting signal's slot list with states, its dirty flag and the invalidated
// flags along the chain of activations (innermost first), read through the access override
static void snapshot(char tag, int e, int sg)
{
  if(trlen > sizeof(trbuf) - 4096) { printf("?trace-overflow\n"); abort(); }
  trlen += snprintf(trbuf + trlen, sizeof(trbuf) - trlen, "%s%c%d.%d:", trlen ? " " : "", tag, e, sg);
  if(!em[e]) { trlen += snprintf(trbuf + trlen, sizeof(trbuf) - trlen, "x"); return; }
  Map<Callback::MemberFuncPtr, Callback::Emitter::SignalData>::Iterator it = em[e]->signalData.find(sigkey(sg));
  if(it == em[e]->signalData.end()) { trlen += snprintf(trbuf + trlen, sizeof(trbuf) - trlen, "x"); return; }
  bool first = true;
  for(List<Callback::Emitter::Slot>::Iterator i = it->slots.begin(), end = it->slots.end(); i != end; ++i) {
    if(trlen > sizeof(trbuf) - 4096) { printf("?trace-overflow\n"); abort(); }
    int l = -1; for(int k = 0; k < nl; ++k) if((Callback::Listener*)lip[k] == i->receiver) l = k;
    int s = -1; for(int k = 0; k < NSLOT; ++k) if(is_slot(i->slot, k)) s = k;
    trlen += snprintf(trbuf + trlen, sizeof(trbuf) - trlen, "%s%d.%d%s", first ? "" : ",", l, s,
                      i->state == Callback::Emitter::Slot::connected ? "" : i->state == Callback::Emitter::Slot::connecting ? "!c" : "!d");
    first = false;
  }
  trlen += snprintf(trbuf + trlen, sizeof(trbuf) - trlen, ":%d:", it->dirty ? 1 : 0);
  int n = 0;
  for(Callback::Emitter::SignalActivation* a = it->activation; a && n < 64; a = a->next, ++n)
    trlen += snprintf(trbuf + trlen, sizeof(trbuf) - trlen, "%d", a->invalidated ? 1 : 0);
}

static int cur_serial() { return depth > 0 ? cur_n[depth - 1] : -1; }
static void check_args(bool ok) { if(!ok) { printf("?bad-args\n"); abort(); } }

static void run_slot(Li* self, int s)
{
  volatile unsigned m = self->magic;     // touches the receiver: ASan reports a destroyed one here
  int id = self->id;
  if(m != 0x51075107u || id < 0 || id >= MAXL || li[id] != self) { printf("?bad-receiver\n"); abort(); }
  if(li2[id]) for(int k = 0; k < 7; ++k) if(li2[id]->q[k] != PADQ + id * 16 + k) { printf("?pad-overwritten\n"); abort(); }
  int nth = ++ncalls[id][s];
  // generated programs stay below 200 invocations (cost filter of the check): at twice that the emission is taken not to end
  if(++ninv > 400) { printf("?runaway-emission\n"); abort(); }
  loglen += snprintf(logbuf + loglen, sizeof(logbuf) - loglen, "%s%d.%d>%d.%d", loglen ? " " : "", cur_e[depth - 1], cur_sg[depth - 1], id, s);
  if(loglen > sizeof(logbuf) - 64) { printf("?log-overflow\n"); abort(); }
  int me = cur_e[depth - 1], msg = cur_sg[depth - 1];
  snapshot('<', me, msg);
  // the script lives outside the object: the slot may destroy its own listener
  for(int k = 0; k < nscript[id][s]; ++k) {
    const Act& a = script[id][s][k];
    if(a.g == 0 || nth == a.g || (a.gplus && nth > a.g))
      perform(a);
  }
  snapshot('>', me, msg);
}

static int lidx(Callback::Listener* p) { for(int k = 0; k < nl; ++k) if((Callback::Listener*)lip[k] == p) return k; return -1; }
static int sidx(const Callback::MemberFuncPtr& p) { for(int k = 0; k < NSLOT; ++k) if(is_slot(p, k)) return k; return -1; }
static int gidx(const Callback::MemberFuncPtr& p) { for(int k = 0; k < NSG; ++k) if(sigkey(k) == p) return k; return -1; }

static void dump()
{
  // public part: emitter side per signal in list order, listener side sorted
  for(int e = 0; e < ne; ++e) {
    if(!em[e]) { printf(" E%dx", e); continue; }
    printf(" E%d[", e);
    bool firstsg = true;
    for(int sg = 0; sg < nsg; ++sg) {
      Map<Callback::MemberFuncPtr, Callback::Emitter::SignalData>::Iterator it = em[e]->signalData.find(sigkey(sg));
      if(it == em[e]->signalData.end() || it->slots.isEmpty()) continue;
      printf("%s%d:", firstsg ? "" : ";", sg); firstsg = false;
      bool first = true;
      for(List<Callback::Emitter::Slot>::Iterator i = it->slots.begin(), end = it->slots.end(); i != end; ++i) {
        printf("%s%d.%d%s", first ? "" : ",", lidx(i->receiver), sidx(i->slot),
               i->state == Callback::Emitter::Slot::connected ? "" : i->state == Callback::Emitter::Slot::connecting ? "!c" : "!d");
        first = false;
      }
    }
    printf("]");
  }
  for(int l = 0; l < nl; ++l) {
    if(!li[l]) { printf(" L%dx", l); continue; }
    static int ents[4096][3]; int n = 0;
    for(int e = 0; e < ne; ++e) {
      Map<Callback::Emitter*, List<Callback::Listener::Signal> >::Iterator it = li[l]->slotData.find((Callback::Emitter*)emp[e]);
      if(it == li[l]->slotData.end()) continue;
      for(List<Callback::Listener::Signal>::Iterator i = it->begin(), end = it->end(); i != end && n < 4096; ++i) {
        ents[n][0] = e; ents[n][1] = gidx(i->signal); ents[n][2] = sidx(i->slot); ++n;
      }
    }
    for(int a = 1; a < n; ++a)
      for(int b = a; b > 0; --b) {
        int* x = ents[b - 1]; int* y = ents[b];
        if(x[0] > y[0] || (x[0] == y[0] && (x[1] > y[1] || (x[1] == y[1] && x[2] > y[2])))) {
          for(int k = 0; k < 3; ++k) { int t = x[k]; x[k] = y[k]; y[k] = t; }
        } else break;
      }
    printf(" L%d[", l);
    for(int a = 0; a < n; ++a) printf("%s%d.%d.%d", a ? "," : "", ents[a][0], ents[a][1], ents[a][2]);
    printf("]");
  }
  // internal part
  printf(" |");
  bool any = false;
  for(int e = 0; e < ne; ++e) {
    if(!em[e]) continue;
    for(int sg = 0; sg < nsg; ++sg) {
      Map<Callback::MemberFuncPtr, Callback::Emitter::SignalData>::Iterator it = em[e]->signalData.find(sigkey(sg));
      if(it == em[e]->signalData.end()) continue;
      printf(" I%d.%d:%d%d", e, sg, it->dirty ? 1 : 0, it->activation ? 1 : 0); any = true;
    }
  }
  for(int l = 0; l < nl; ++l) {
    if(!li[l]) continue;
    for(int e = 0; e < ne; ++e) {
      Map<Callback::Emitter*, List<Callback::Listener::Signal> >::Iterator it = li[l]->slotData.find((Callback::Emitter*)emp[e]);
      if(it == li[l]->slotData.end()) continue;
      printf(" K%d.%d:", l, e); any = true;
      if(it->isEmpty()) printf("-");
      bool first = true;
      for(List<Callback::Listener::Signal>::Iterator i = it->begin(), end = it->end(); i != end; ++i) {
        printf("%s%d.%d", first ? "" : ",", gidx(i->signal), sidx(i->slot)); first = false;
      }
    }
  }
  if(!any) printf(" -");
}

static long case_no;
static void cleanup_objs()
{
  // any order is legal for the library: listeners first in even cases, emitters first in odd ones
  if(case_no % 2 == 0) for(int l = 0; l < MAXL; ++l) if(li[l]) destroy_l(l);
  for(int e = 0; e < MAXE; ++e) if(em[e]) destroy_e(e);
  for(int l = 0; l < MAXL; ++l) if(li[l]) destroy_l(l);
}

static void begin(long c, vh::Tok& t)
{
  cleanup_objs();
  case_no = c;
  ne = t.n > 2 ? atoi(t.v[2]) : 2; nl = t.n > 3 ? atoi(t.v[3]) : 2; nsg = t.n > 4 ? atoi(t.v[4]) : 1; maxd = t.n > 5 ? atoi(t.v[5]) : 3;
  if(ne > MAXE) ne = MAXE; if(nl > MAXL) nl = MAXL; if(nsg > NSG) nsg = NSG; if(maxd > 60) maxd = 60;
  depth = 0; serial = 0;
  // arities: `a<digits>`, digit k = arity of signal index k, the last digit repeats; default all 0
  // kinds: `k<digits>` per listener, `j<digits>` per emitter (see the head of this file); `p<digits>` concerns the reference object only
  for(int k = 0; k < NSG; ++k) sgar[k] = 0;
  for(int k = 0; k < MAXL; ++k) lkind[k] = 0;
  for(int k = 0; k < MAXE; ++k) ekind[k] = 0;
  for(int q = 6; q < t.n; ++q) {
    const char* d = t.v[q] + 1; int last = 0;
    if(!t.v[q][0] || !*d) continue;
    if(t.v[q][0] == 'a') for(int k = 0; k < NSG; ++k) { if(*d) { last = *d >= '0' && *d <= '8' ? *d - '0' : 0; ++d; } sgar[k] = last; }
    if(t.v[q][0] == 'k') for(int k = 0; k < MAXL; ++k) { if(*d) { last = *d >= '0' && *d <= '2' ? *d - '0' : 0; ++d; } lkind[k] = last; }
    if(t.v[q][0] == 'j') for(int k = 0; k < MAXE; ++k) { if(*d) { last = *d >= '0' && *d <= '1' ? *d - '0' : 0; ++d; } ekind[k] = last; }
  }
  memset(nscript, 0, sizeof(nscript)); memset(ncalls, 0, sizeof(ncalls));
  for(int e = 0; e < ne; ++e) {
    if(ekind[e]) { em2[e] = new Em2; em[e] = em2[e]; for(int k = 0; k < 2; ++k) em2[e]->r[k] = PADQ + 0x100 + e * 16 + k; } else { em2[e] = 0; em[e] = new Em; }
    em[e]->id = e; em[e]->magic = 0xE177E177u; emp[e] = em[e];
  }
  for(int l = 0; l < nl; ++l) {
    if(lkind[l]) { li2[l] = new Li2; li[l] = li2[l]; if((char*)li[l] == (char*)li2[l]) { printf("?layout: Li sits at offset 0 of Li2\n"); abort(); } for(int k = 0; k < 7; ++k) li2[l]->q[k] = PADQ + l * 16 + k; } else { li2[l] = 0; li[l] = new Li; }
    li[l]->id = l; li[l]->magic = 0x51075107u; lip[l] = li[l];
  }
}

static void op(long c, long, vh::Tok& t)
{
  if(!strcmp(t.v[0], "def")) {
    Act a;
    int l = t.n > 1 ? atoi(t.v[1]) : -1, s = t.n > 2 ? atoi(t.v[2]) : -1;
    int first = 3, g = 0; bool gplus = false;
    if(t.n > 3 && t.v[3][0] == '@') { g = atoi(t.v[3] + 1); gplus = t.v[3][strlen(t.v[3]) - 1] == '+'; first = 4; if(g < 1) g = 1; }
    if(l < 0 || l >= MAXL || s < 0 || s >= NSLOT || t.n < first + 1 || !parse_act(t.v + first, t.n - first, a) || nscript[l][s] >= MAXA) { printf("%ld ?bad-def\n", c); return; }
    a.g = g; a.gplus = gplus;
    script[l][s][nscript[l][s]++] = a;
    printf("%ld def\n", c);
    return;
  }
  Act a;
  if(!parse_act(t.v, t.n, a)) { printf("%ld ?unknown-op\n", c); return; }
  loglen = 0; logbuf[0] = 0; trlen = 0; trbuf[0] = 0; ninv = 0;
  perform(a);
  printf("%ld %s |", c, loglen ? logbuf : "-");
  dump();
  printf(" | %s\n", trlen ? trbuf : "-");
}

static void end(long) { cleanup_objs(); }

int main(int argc, char** argv) { return vh::run(argc, argv, begin, op, end); }
