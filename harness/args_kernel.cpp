// System-call recorder for the Process-object cases of C20.  This translation unit DEFINES close,
// pipe, fcntl, waitpid, kill, read, write, select and poll, so the Process code compiled into the harness
// executable calls these instead of libc's (they forward with dlsym(RTLD_NEXT, ..), i.e. to the
// sanitizer's interceptor where there is one, then to libc).  While recording is on (vk_enter ..
// vk_leave, and only in the process that switched it on - a vfork child shares the memory but has
// its own pid) every call is appended to a log in a canonical form:
//     pipe:<a>:<b> pipefail dup:<d> dupfail close:<x> vfork vforkfail kill wait:ok:<status> wait:fail
//     select read:<x> write:<x>
// (`select` stands for "asked the kernel which of its descriptors is readable": select() or poll(), logged once per
// recorded call however often the Process code repeats it.)
// Descriptors are named f1, f2, .. in the order of their first appearance in the case (0 stays 0);
// a name is forgotten when the descriptor is closed, so a number the kernel hands out again gets a
// new name.  The recorder keeps the set of descriptors handed out by pipe()/F_DUPFD and not closed
// yet; a close() of any other descriptor counts as "stray".  Failures can be injected: the n-th
// pipe(), the next F_DUPFD, the next waitpid (EINTR, the child stays un-reaped), the next vfork.
// C interface only (no nstd headers here).
#include <stdio.h>
#include <stdlib.h>
#include <string.h>
#include <errno.h>
#include <stdarg.h>
#include <dlfcn.h>
#include <unistd.h>
#include <fcntl.h>
#include <dirent.h>
#include <signal.h>
#include <sys/types.h>
#include <sys/wait.h>
#include <sys/select.h>
#include <poll.h>
#include "args_kernel.h"

typedef int (*close_fn)(int);
typedef int (*pipe_fn)(int*);
typedef int (*fcntl_fn)(int, int, long);
typedef pid_t (*waitpid_fn)(pid_t, int*, int);
typedef int (*kill_fn)(pid_t, int);
typedef ssize_t (*read_fn)(int, void*, size_t);
typedef ssize_t (*write_fn)(int, const void*, size_t);
typedef int (*select_fn)(int, fd_set*, fd_set*, fd_set*, struct timeval*);
typedef int (*poll_fn)(struct pollfd*, nfds_t, int);

static close_fn real_close;
static pipe_fn real_pipe;
static fcntl_fn real_fcntl;
static waitpid_fn real_waitpid;
static kill_fn real_kill;
static read_fn real_read;
static write_fn real_write;
static select_fn real_select;
static poll_fn real_poll;

#define RESOLVE(var, type, name) do { if(!var) { var = (type)dlsym(RTLD_NEXT, name); if(!var) { abort(); } } } while(0)

enum { MAXFD = 4096 };
static volatile int on = 0;
static pid_t owner = 0;
static int names[MAXFD];          // 0 = no name
static int next_name = 1;
static int heldc[MAXFD];
static int stray = 0;
static char logbuf[4096];
static size_t logn = 0;
static int pipe_calls = 0, fail_pipe_at = 0, fail_dup = 0, fail_wait = 0, fail_vfork = 0, select_logged = 0;

static inline bool rec() { return on && getpid() == owner; }

static void put(const char* s)
{
  size_t n = strlen(s);
  if(logn + n + 2 >= sizeof(logbuf)) return;
  if(logn) logbuf[logn++] = ',';
  memcpy(logbuf + logn, s, n); logn += n; logbuf[logn] = 0;
}

static const char* name_of(int fd, char* tmp)
{
  if(fd == 0) return "0";
  if(fd < 0 || fd >= MAXFD) { snprintf(tmp, 24, "x%d", fd); return tmp; }
  if(!names[fd]) names[fd] = next_name++;
  snprintf(tmp, 24, "f%d", names[fd]);
  return tmp;
}

extern "C" void vk_begin_case(void)
{
  memset(names, 0, sizeof(names)); memset(heldc, 0, sizeof(heldc));
  next_name = 1; stray = 0; logn = 0; logbuf[0] = 0; on = 0;
  fail_pipe_at = fail_dup = fail_wait = fail_vfork = 0;
}
extern "C" void vk_enter(void) { owner = getpid(); logn = 0; logbuf[0] = 0; pipe_calls = 0; select_logged = 0; on = 1; }
extern "C" void vk_leave(void) { on = 0; fail_pipe_at = fail_dup = fail_wait = fail_vfork = 0; }
extern "C" void vk_inject(int what, int n)
{
  switch(what) {
  case VK_PIPEFAIL: fail_pipe_at = n; break;
  case VK_DUPFAIL: fail_dup = 1; break;
  case VK_WAITFAIL: fail_wait = 1; break;
  case VK_VFORKFAIL: fail_vfork = 1; break;
  }
}
extern "C" int vk_vfork_fails(void)
{
  if(!rec()) return 0;
  if(fail_vfork) { fail_vfork = 0; put("vforkfail"); errno = EAGAIN; return 1; }
  put("vfork");
  return 0;
}
extern "C" const char* vk_log(void) { return logn ? logbuf : "-"; }
extern "C" int vk_stray(void) { return stray; }
extern "C" int vk_held(void) { int n = 0; for(int i = 0; i < MAXFD; ++i) n += heldc[i]; return n; }
extern "C" int vk_count_fds(void)
{
  DIR* d = opendir("/proc/self/fd");
  if(!d) return -1;
  int n = 0;
  while(struct dirent* e = readdir(d)) if(e->d_name[0] != '.') ++n;
  closedir(d);
  return n;
}

// ---- the interposed calls -------------------------------------------------------------------
extern "C" int close(int fd)
{
  RESOLVE(real_close, close_fn, "close");
  if(rec()) {
    char tmp[24], line[40];
    snprintf(line, sizeof(line), "close:%s", name_of(fd, tmp)); put(line);
    if(fd >= 0 && fd < MAXFD) names[fd] = 0;
    if(fd >= 0 && fd < MAXFD && heldc[fd] > 0) --heldc[fd]; else ++stray;
  }
  return real_close(fd);
}

extern "C" int pipe(int fds[2])
{
  RESOLVE(real_pipe, pipe_fn, "pipe");
  if(!rec()) return real_pipe(fds);
  ++pipe_calls;
  if(fail_pipe_at == pipe_calls) { put("pipefail"); errno = EMFILE; return -1; }
  int r = real_pipe(fds);
  if(r != 0) { int e = errno; put("pipefail"); errno = e; return r; }
  char t1[24], t2[24], line[64];
  for(int i = 0; i < 2; ++i) if(fds[i] >= 0 && fds[i] < MAXFD) { names[fds[i]] = 0; ++heldc[fds[i]]; }
  const char* a = name_of(fds[0], t1); const char* b = name_of(fds[1], t2);
  snprintf(line, sizeof(line), "pipe:%s:%s", a, b); put(line);
  return 0;
}

extern "C" int fcntl(int fd, int cmd, ...)
{
  RESOLVE(real_fcntl, fcntl_fn, "fcntl");
  va_list ap; va_start(ap, cmd); long arg = va_arg(ap, long); va_end(ap);
  if(!rec() || cmd != F_DUPFD) return real_fcntl(fd, cmd, arg);
  if(fail_dup) { fail_dup = 0; put("dupfail"); errno = EMFILE; return -1; }
  int r = real_fcntl(fd, cmd, arg);
  if(r < 0) { int e = errno; put("dupfail"); errno = e; return r; }
  char tmp[24], line[40];
  if(r < MAXFD) { names[r] = 0; ++heldc[r]; }
  snprintf(line, sizeof(line), "dup:%s", name_of(r, tmp)); put(line);
  return r;
}

extern "C" pid_t waitpid(pid_t pid, int* status, int options)
{
  RESOLVE(real_waitpid, waitpid_fn, "waitpid");
  if(!rec()) return real_waitpid(pid, status, options);
  if(fail_wait) { fail_wait = 0; put("wait:fail"); errno = EINTR; return -1; }
  int st = 0;
  pid_t r = real_waitpid(pid, &st, options);
  int e = errno;
  if(r == pid) { char line[40]; snprintf(line, sizeof(line), "wait:ok:%d", st & 0xffff); put(line); if(status) *status = st; }
  else put("wait:fail");
  errno = e;
  return r;
}

extern "C" int kill(pid_t pid, int sig)
{
  RESOLVE(real_kill, kill_fn, "kill");
  if(rec()) put("kill");
  return real_kill(pid, sig);
}

extern "C" ssize_t read(int fd, void* buf, size_t n)
{
  RESOLVE(real_read, read_fn, "read");
  if(rec()) { char tmp[24], line[40]; snprintf(line, sizeof(line), "read:%s", name_of(fd, tmp)); put(line); }
  return real_read(fd, buf, n);
}

extern "C" ssize_t write(int fd, const void* buf, size_t n)
{
  RESOLVE(real_write, write_fn, "write");
  if(rec()) { char tmp[24], line[40]; snprintf(line, sizeof(line), "write:%s", name_of(fd, tmp)); put(line); }
  return real_write(fd, buf, n);
}

// ---- virtual silence (see args_kernel.h) ----------------------------------------------------
static volatile long pause_ms = 0;
static pid_t pause_owner = 0;
static long zero_calls = 0, nonzero_calls = 0, timeouts_given = 0;
static int spun = 0;
extern "C" void vk_pause(long ms) { pause_ms = ms; pause_owner = getpid(); zero_calls = 0; nonzero_calls = 0; timeouts_given = 0; spun = 0; }
extern "C" int vk_spun(void) { return spun; }
extern "C" long vk_timeouts(void) { return timeouts_given; }

// asked: the time-out of the call in ms (-1: none).  1: answer "timed out" now; 0: let the kernel answer; -1: spin noted
static int silence(long asked)
{
  if(pause_ms <= 0 || getpid() != pause_owner) return 0;
  if(asked < 0 || asked >= pause_ms) { pause_ms = 0; return 0; }     // the wait outlasts the silence
  pause_ms -= asked;
  ++timeouts_given;
  if(asked == 0) { if(++zero_calls >= VK_SPIN_LIMIT) { spun = 1; pause_ms = 0; return -1; } }
  else {
    zero_calls = 0;
    // a caller that has come back VK_REARM_ENOUGH times with a real time-out has shown that its time-out path re-arms:
    // the rest of the silence is skipped (keeps a long silence cheap for a reader that polls in short intervals)
    if(++nonzero_calls >= VK_REARM_ENOUGH) pause_ms = 0;
  }
  return 1;
}

extern "C" int select(int nfds, fd_set* r, fd_set* w, fd_set* x, struct timeval* tv)
{
  RESOLVE(real_select, select_fn, "select");
  if(rec() && !select_logged) { select_logged = 1; put("select"); }
  int s = silence(tv ? (long)tv->tv_sec * 1000 + (long)tv->tv_usec / 1000 : -1);
  if(s) {
    // Linux: on a time-out the three sets come back empty and the timeval says how much time is left (none)
    size_t bytes = ((size_t)(nfds > 0 ? nfds : 0) + 7) / 8;
    if(bytes > sizeof(fd_set)) bytes = sizeof(fd_set);
    if(r) memset(r, 0, bytes);
    if(w) memset(w, 0, bytes);
    if(x) memset(x, 0, bytes);
    if(tv) { tv->tv_sec = 0; tv->tv_usec = 0; }
    if(s < 0) { errno = EBADF; return -1; }
    return 0;
  }
  return real_select(nfds, r, w, x, tv);
}

extern "C" int poll(struct pollfd* fds, nfds_t n, int timeout)
{
  RESOLVE(real_poll, poll_fn, "poll");
  if(rec() && !select_logged) { select_logged = 1; put("select"); }
  int s = silence(timeout < 0 ? -1 : (long)timeout);
  if(s) {
    for(nfds_t i = 0; i < n; ++i) fds[i].revents = 0;
    if(s < 0) { errno = EBADF; return -1; }
    return 0;
  }
  return real_poll(fds, n, timeout);
}
