// Correspondence harness for C02: drives the real HashMap / HashSet / PoolMap on the op file.
// The containers are driven through their public API only; the access override is used to
// READ the bucket array, chains, back-pointers, free list and blocks for the L-int dump.
//   case <n> <hm|hs|pm> <b|B|h|H|i|u|l|q|p|s> <cap0> <cap1> …     one container variable per capacity
//   <op> …   result | public state of every variable | internals of every variable
//   .<op> …  the same operation "muted": result | sizes | .
// Built with -DC02_CONST_ALL / -DC02_PTR_REMOVEBACK when the corresponding calls are well-formed (checks/C02.py probes).
#include "vh.hpp"
#define private public
#define protected public
#include <nstd/String.hpp>
#include <nstd/HashMap.hpp>
#include <nstd/HashSet.hpp>
#include <nstd/PoolMap.hpp>
#undef private
#undef protected

struct Val { int x; Val() : x(77) {} };

template<typename A, typename B> struct IsSame { enum { v = 0 }; };
template<typename A> struct IsSame<A, A> { enum { v = 1 }; };

// ---- keys ---------------------------------------------------------------------------------
// Key types: b = int8, B = uint8, h = int16, H = uint16, i = int32, u = uint32, l = int64, q = uint64 (hash = (usize)v, one
// overload of hash() each in Base.hpp), p = const void* (hash = address >> 3), s = String.
// A decimal key is converted to the key type by a cast (two's complement wrap), like wrap_<type> of the model.
typedef char usize_is_64_bits[sizeof(usize) == 8 ? 1 : -1];     // the model computes (usize)v modulo 2^64
// A String key is built in place, and the SAME key text is presented through differently stored String objects
// from one operation to the next (the storage is no part of the key: operator== compares length + bytes):
//   0 heap copy   1 slice attached inside a larger buffer, preceded by 'X', followed by NUL
//   2 default-constructed String for the empty key (shared emptyData), heap copy otherwise
//   3 attached slice preceded by 'X' and followed by 'Y' (operator const char*() then detaches it on first use)
static unsigned g_store = 0;            // reset per case: the storage used is a function of the case text
static char* g_keybuf = 0;
template<typename K> struct KeyT;
template<> struct KeyT<int32> {
  static void parse(int32& k, const char* s) { k = (int32)atoll(s); }
  static void print(const int32& k) { printf("%d", (int)k); }
};
template<> struct KeyT<int64> {
  static void parse(int64& k, const char* s) { k = (int64)atoll(s); }
  static void print(const int64& k) { printf("%lld", (long long)k); }
};
template<> struct KeyT<uint32> {
  static void parse(uint32& k, const char* s) { k = (uint32)strtoull(s, 0, 10); }
  static void print(const uint32& k) { printf("%lu", (unsigned long)k); }
};
template<> struct KeyT<int8> {
  static void parse(int8& k, const char* s) { k = (int8)strtoll(s, 0, 10); }
  static void print(const int8& k) { printf("%d", (int)k); }
};
template<> struct KeyT<uint8> {
  static void parse(uint8& k, const char* s) { k = (uint8)strtoull(s, 0, 10); }
  static void print(const uint8& k) { printf("%u", (unsigned)k); }
};
template<> struct KeyT<int16> {
  static void parse(int16& k, const char* s) { k = (int16)strtoll(s, 0, 10); }
  static void print(const int16& k) { printf("%d", (int)k); }
};
template<> struct KeyT<uint16> {
  static void parse(uint16& k, const char* s) { k = (uint16)strtoull(s, 0, 10); }
  static void print(const uint16& k) { printf("%u", (unsigned)k); }
};
template<> struct KeyT<uint64> {
  static void parse(uint64& k, const char* s) { k = (uint64)strtoull(s, 0, 10); }
  static void print(const uint64& k) { printf("%llu", (unsigned long long)k); }
};
template<> struct KeyT<const void*> {
  static void parse(const void*& k, const char* s) { k = (const void*)(usize)strtoull(s, 0, 10); }
  static void print(const void* const& k) { printf("%llu", (unsigned long long)(usize)k); }
};
template<> struct KeyT<String> {
  static void parse(String& r, const char* s)
  {
    size_t n; unsigned char* b = vh::unhex(s, n);
    unsigned mode = g_store++ % 4;
    free(g_keybuf); g_keybuf = 0;
    if(mode == 0) r = String((const char*)b, n);
    else if(mode == 2) { if(n) r = String((const char*)b, n); else r = String(); }
    else {
      g_keybuf = (char*)malloc(n + 2);
      g_keybuf[0] = 'X'; memcpy(g_keybuf + 1, b, n);
      g_keybuf[n + 1] = mode == 1 ? 0 : 'Y';
      r.attach(g_keybuf + 1, n);
    }
    free(b);
  }
  static void print(const String& k) { vh::puthex((const unsigned char*)(const char*)k, k.length()); }
};

// ---- the three container kinds ---------------------------------------------------------------
enum { KMAP = 0, KSET = 1, KPOOL = 2 };
template<typename K, int KIND> struct TabT;
template<typename K> struct TabT<K, KMAP> { typedef HashMap<K, int> T; };
template<typename K> struct TabT<K, KSET> { typedef HashSet<K> T; };
template<typename K> struct TabT<K, KPOOL> { typedef PoolMap<K, Val> T; };

template<typename K, int KIND> struct Runner
{
  typedef typename TabT<K, KIND>::T Tab;
  typedef typename Tab::Iterator It;
  typedef typename Tab::Item Item;
  typedef typename Tab::ItemBlock ItemBlock;
  enum { MAXV = 8 };
  static Tab* v[MAXV];
  static int n;

  static void reset() { for(int i = 0; i < MAXV; ++i) { delete v[i]; v[i] = 0; } n = 0; }

  static void begin(vh::Tok& t, int first)
  {
    reset();
    for(int i = first; i < t.n && n < MAXV; ++i) v[n++] = new Tab((usize)strtoull(t.v[i], 0, 10));
  }

  static const K& keyOf(const It& it) { if constexpr(KIND == KSET) return *it; else return it.key(); }
  static long valOf(It& it) { if constexpr(KIND == KMAP) return *it; else if constexpr(KIND == KSET) return 0; else return (*it).x; }

  static It at(Tab& t, long r) { It it = t.begin(); for(long i = 0; i < r; ++i) ++it; return it; }

  static void putIter(Tab& t, It it)
  {
    if(it == t.end()) { printf("it=end"); return; }
    long r = 0; long bound = (long)t.size() + 2;
    It i = t.begin();
    while(i != t.end() && i != it && r < bound) { ++i; ++r; }
    if(i != it || i == t.end()) { printf("it=BAD"); return; }
    printf("it=%ld:", r); KeyT<K>::print(keyOf(it)); printf(":%ld", valOf(it));
  }

  // slot (block serial, index) of an item: the blocks of the table sorted by address (rebuilt per dump), binary search
  struct BlockRef { const char* base; long serial; };
  static BlockRef* g_blk;
  static long g_nblk;
  static int cmpBlock(const void* a, const void* b)
  {
    const char* x = ((const BlockRef*)a)->base; const char* y = ((const BlockRef*)b)->base;
    return x < y ? -1 : x > y ? 1 : 0;
  }
  static void indexBlocks(Tab& t)
  {
    long nb = 0;
    for(ItemBlock* b = t.blocks; b; b = b->next) ++nb;
    free(g_blk);
    g_blk = (BlockRef*)malloc(sizeof(BlockRef) * (nb ? nb : 1));
    g_nblk = nb;
    long j = 0;
    for(ItemBlock* b = t.blocks; b; b = b->next, ++j) { g_blk[j].base = (const char*)b + sizeof(ItemBlock); g_blk[j].serial = nb - 1 - j; }
    qsort(g_blk, nb, sizeof(BlockRef), cmpBlock);
  }
  static void slotOf(Tab&, const Item* item)
  {
    long lo = 0, hi = g_nblk;        // last block whose base <= item
    while(lo < hi) { long m = (lo + hi) / 2; if(g_blk[m].base <= (const char*)item) lo = m + 1; else hi = m; }
    if(lo > 0) {
      const char* base = g_blk[lo - 1].base;
      if((const char*)item < base + 4 * sizeof(Item)) {
        printf("%ld.%ld", g_blk[lo - 1].serial, (long)(((const char*)item - base) / sizeof(Item)));
        if(((const char*)item - base) % sizeof(Item)) printf("MISALIGNED");
        return;
      }
    }
    printf("NOSLOT");
  }

  static void dumpObs(int idx, Tab& t)
  {
    printf("%d:%lu,%d,[", idx, (unsigned long)t.size(), t.isEmpty() ? 1 : 0);
    long bound = (long)t.size() + 4, cnt = 0;
    bool first = true;
    const Item* last = 0;
    for(It i = t.begin(), e = t.end(); i != e && cnt < bound; ++i, ++cnt) {
      if(!first) printf(" ");
      first = false;
      KeyT<K>::print(keyOf(i)); printf(":%ld", valOf(i));
      if(i.item->prev != last) printf("PREV!");
      last = i.item;
    }
    if(cnt >= bound) printf(" LOOP!");
    // backward walk must visit the same items in reverse
    { It e = t.end(); if(e.item->prev != last) printf(" ENDPREV!"); if(e.item != &t.endItem) printf(" END!"); }
    printf("]");
  }

  static void dumpInt(int idx, Tab& t)
  {
    long nb = 0;
    for(ItemBlock* b = t.blocks; b; b = b->next) ++nb;
    indexBlocks(t);
    printf("%d:cap=%lu,d=%d,nb=%ld,B[", idx, (unsigned long)t.capacity, t.data ? 1 : 0, nb);
    bool first = true;
    if(t.data)
      for(usize i = 0; i < t.capacity; ++i)
        if(t.data[i]) {
          if(!first) printf(" ");
          first = false;
          printf("%lu=", (unsigned long)i);
          Item** cell = &t.data[i];
          long cnt = 0;
          for(Item* it = t.data[i]; it && cnt < 100000; it = it->nextCell, ++cnt) {
            if(cnt) printf(",");
            KeyT<K>::print(it->key);
            if(it->cell != cell) printf("CELL!");
            cell = &it->nextCell;
          }
        }
    printf("],S[");
    first = true;
    long bound = (long)t.size() + 4, cnt = 0;
    for(Item* i = t._begin.item; i != &t.endItem && cnt < bound; i = i->next, ++cnt) {
      if(!first) printf(" ");
      first = false;
      slotOf(t, i);
    }
    printf("],F[");
    first = true;
    cnt = 0;
    for(Item* i = t.freeItem; i && cnt < 4 * nb + 4; i = i->prev, ++cnt) {
      if(!first) printf(" ");
      first = false;
      slotOf(t, i);
    }
    // the links around the end sentinel: E = the item endItem.prev designates, T = the container variable whose
    // sentinel the list runs into (followed from _begin.item through the next links)
    printf("],E=");
    if(t.endItem.prev) slotOf(t, t.endItem.prev); else printf("-");
    printf(",T=");
    {
      const Item* i = t._begin.item;
      long owner = -1;
      for(cnt = 0; i && cnt < bound && owner < 0; ++cnt) {
        for(int j = 0; j < n; ++j) if(i == &v[j]->endItem) owner = j;
        if(owner < 0) i = i->next;
      }
      if(owner >= 0) printf("%ld", owner); else printf("?");
    }
  }

  static bool var(vh::Tok& t, int i, long& x) { if(i >= t.n) return false; x = atol(t.v[i]); return x >= 0 && x < n; }

  static void putValueRes(Tab& t, It it)
  {
    if constexpr(KIND == KSET) printf("-"); else printf("v=%ld", valOf(it));
  }

  // append / prepend return a REFERENCE: it must be the element stored under the key (the object find() leads to and
  // operator* of the iterator yields), not a copy: same address, and a write through it is read back through find().
  template<typename R> static void refIdentity(Tab& a, const K& k, R* r)
  {
    It f = a.find(k);
    if(f == a.end()) { printf(" REF!"); return; }
    if((const void*)r != (const void*)&*f) { printf(" REF!"); return; }
    int* cell; if constexpr(KIND == KMAP) cell = r; else cell = &r->x;
    int old = *cell;
    *cell = old ^ 0x2a5a5a5a;
    It g = a.find(k);
    if(g == a.end() || valOf(g) != (long)(old ^ 0x2a5a5a5a)) printf(" REF!");
    *cell = old;
  }

  static void constFrontBack(Tab& a, bool f)
  {
    const Tab& ca = a;
    if constexpr(KIND == KSET) {
      const K& r = f ? ca.front() : ca.back();
      It it = f ? a.begin() : at(a, (long)a.size() - 1);
      if(&r != &*it) printf(" CONST!");
    } else {
#ifndef C02_CONST_ALL
      if constexpr(KIND == KPOOL || IsSame<K, String>::v) return;
      else
#endif
      {
        const void* viaConst;
        if(f) { const auto& r = ca.front(); viaConst = &r; } else { const auto& r = ca.back(); viaConst = &r; }
        const void* direct = f ? (const void*)&a.front() : (const void*)&a.back();
        if(viaConst != direct) printf(" CONST!");
      }
    }
  }

  // One item of a traversal: key:value through the non-const iterator, and the const forms of the accessors
  // (operator* const, operator-> const; operator-> non-const where it exists) must denote the very same object.
  static void visit(It& it, long cnt, bool& mism)
  {
    if(cnt) printf(" ");
    KeyT<K>::print(keyOf(it)); printf(":%ld", valOf(it));
    const It& c = it;
    if constexpr(KIND == KSET) {
      // HashSet::Iterator has only the const pair
      if(&*c != c.operator->() || &*c != &keyOf(it)) mism = true;
    } else {
      const void* direct = &*it;                        // V& operator*()
      if((const void*)&*c != direct) mism = true;       // const V& operator*() const
      if((const void*)c.operator->() != direct) mism = true;    // const V* operator->() const
      if((const void*)it.operator->() != direct) mism = true;   // V* operator->()
      if(&c.key() != &keyOf(it)) mism = true;
    }
  }

  // fwd: for(it = begin(); it != end(); ++it)      bwd: for(it = end(); it != begin(); ) { --it; … }
  // Every step is made twice: through the non-const operator (advances the iterator, returns a reference to it) and
  // through the const operator of the same name on a const copy (leaves the copy alone, returns the neighbour by
  // value); both must arrive at the same item.  Iterator() is default-constructed, compared and assigned.
  // On any disagreement the token CONSTMISMATCH is added to the observation.
  static void walk(Tab& a, bool back)
  {
    long bound = (long)a.size() + 4, cnt = 0;
    bool mism = false;
    It d;
    { It d2; if(!(d == d2) || d != d2) mism = true; }
    printf("w=[");
    It it = back ? a.end() : a.begin();
    d = it;
    if(d != it || !(d == it)) mism = true;
    if(!back) {
      while(it != a.end() && cnt < bound) {
        visit(it, cnt, mism);
        const It c = it;
        It viaConst = ++c;                     // Iterator operator++() const
        if(c != it) mism = true;
        const It& r = ++it;                    // const Iterator& operator++()
        if(&r != &it || viaConst != it) mism = true;
        ++cnt;
      }
    } else {
      while(it != a.begin() && cnt < bound) {
        const It c = it;
        It viaConst = --c;                     // Iterator operator--() const
        if(c != it) mism = true;
        const It& r = --it;                    // const Iterator& operator--()
        if(&r != &it || viaConst != it) mism = true;
        visit(it, cnt, mism);
        ++cnt;
      }
    }
    printf("]");
    if(cnt >= bound) printf(" LOOP!");
    if(mism) printf(" CONSTMISMATCH");
  }

  static void exec(vh::Tok& t)
  {
    const char* o = t.v[0];
    long x = -1, y = -1;
    if(!var(t, 1, x)) { printf("pre"); return; }
    Tab& a = *v[x];
    if(!strcmp(o, "new")) {
      long long c = atoll(t.v[2]);
      if(c < 0) { printf("pre"); return; }
      delete v[x]; v[x] = new Tab((usize)c); printf("-");
    } else if(!strcmp(o, "newd")) {
      delete v[x]; v[x] = new Tab(); printf("-");
    } else if(!strcmp(o, "find")) {
      K k; KeyT<K>::parse(k, t.v[2]);
      putIter(a, a.find(k));
    } else if(!strcmp(o, "has")) {
      K k; KeyT<K>::parse(k, t.v[2]);
      printf(a.contains(k) ? "b1" : "b0");
    } else if(!strcmp(o, "ins")) {
      long pos = atol(t.v[2]);
      K k; KeyT<K>::parse(k, t.v[3]);
      int val = atoi(t.v[4]);
      if(pos < 0 || (usize)pos > a.size()) { printf("pre"); return; }
      It p = at(a, pos);
      if constexpr(KIND == KMAP) putIter(a, a.insert(p, k, val));
      else putIter(a, a.insert(p, k));
    } else if(!strcmp(o, "app")) {
      K k; KeyT<K>::parse(k, t.v[2]);
      int val = atoi(t.v[3]);
      if constexpr(KIND == KMAP) { int& r = a.append(k, val); printf("v=%d", r); refIdentity(a, k, &r); }
      else if constexpr(KIND == KSET) { a.append(k); printf("-"); }
      else { Val& r = a.append(k); printf("v=%d", r.x); refIdentity(a, k, &r); }
    } else if(!strcmp(o, "pre")) {
      K k; KeyT<K>::parse(k, t.v[2]);
      int val = atoi(t.v[3]);
      if constexpr(KIND == KMAP) { int& r = a.prepend(k, val); printf("v=%d", r); refIdentity(a, k, &r); }
      else if constexpr(KIND == KSET) { a.prepend(k); printf("-"); }
      else printf("pre");
    } else if(!strcmp(o, "rmk")) {
      K k; KeyT<K>::parse(k, t.v[2]);
      a.remove(k); printf("-");
    } else if(!strcmp(o, "rmi")) {
      long r = atol(t.v[2]);
      if(r < 0 || (usize)r >= a.size()) { printf("pre"); return; }
      It p = at(a, r);
      putIter(a, a.remove(p));
    } else if(!strcmp(o, "rmv")) {
      if constexpr(KIND == KPOOL) {
        long r = atol(t.v[2]);
        if(r < 0 || (usize)r >= a.size()) { printf("pre"); return; }
        It p = at(a, r);
        Val& val = *p;
        a.remove(val); printf("-");
      } else printf("pre");
    } else if(!strcmp(o, "rmf")) {
      if(a.isEmpty()) { printf("pre"); return; }
      putIter(a, a.removeFront());
    } else if(!strcmp(o, "rmb")) {
      if(a.isEmpty()) { printf("pre"); return; }
#ifndef C02_PTR_REMOVEBACK
      // removeBack() { return remove(_end.item->prev); } is not instantiable for (const) void* keys while the Item*
      // argument prefers remove(const T& key) over remove(const Iterator&) (checks/C02.py probes that)
      if constexpr(IsSame<K, const void*>::v) putIter(a, a.remove(at(a, (long)a.size() - 1)));
      else
#endif
      putIter(a, a.removeBack());
    } else if(!strcmp(o, "clear")) {
      a.clear(); printf("-");
    } else if(!strcmp(o, "front") || !strcmp(o, "back")) {
      if(a.isEmpty()) { printf("pre"); return; }
      bool f = o[0] == 'f';
      if constexpr(KIND == KMAP) printf("v=%d", f ? a.front() : a.back());
      else if constexpr(KIND == KSET) { printf("k="); KeyT<K>::print(f ? a.front() : a.back()); }
      else printf("v=%d", f ? a.front().x : a.back().x);
      // the const overloads, through a const reference: they must denote the very same object as the
      // non-const ones (HashSet has only the const pair: compared with the item the iterator stands on).
      // HashMap<String,int> and PoolMap<K,Val> are only driven with C02_CONST_ALL: their const overloads
      // are not instantiable while they are declared with the key type (checks/C02.py probes that).
      constFrontBack(a, f);
    } else if(!strcmp(o, "fwd")) {
      walk(a, false);
    } else if(!strcmp(o, "bwd")) {
      walk(a, true);
    } else if(!strcmp(o, "setv")) {
      K k; KeyT<K>::parse(k, t.v[2]);
      int val = atoi(t.v[3]);
      if constexpr(KIND == KSET) printf("pre");
      else {
        It it = a.find(k);
        if(it != a.end()) { if constexpr(KIND == KMAP) *it = val; else (*it).x = val; }
        putIter(a, it);
      }
    } else {
      // two-variable ops
      if(!var(t, 2, y)) { printf("pre"); return; }
      Tab& b = *v[y];
      if(!strcmp(o, "swap")) { a.swap(b); printf("-"); }
      else if(!strcmp(o, "copy")) {
        if constexpr(KIND == KPOOL) printf("pre");
        else { Tab* c = new Tab(b); delete v[x]; v[x] = c; printf("-"); }
      } else if(!strcmp(o, "assign")) {
        if constexpr(KIND == KPOOL) printf("pre");
        else { a = b; printf("-"); }
      } else if(!strcmp(o, "eq")) {
        if constexpr(KIND == KPOOL) printf("pre");
        else { bool e = a == b; bool ne = a != b; printf(e ? "b1" : "b0"); if(e == ne) printf("NE!"); }
      } else if(!strcmp(o, "appall")) {
        if constexpr(KIND == KSET) { a.append(b); printf("-"); } else printf("pre");
      } else if(!strcmp(o, "rmall")) {
        if constexpr(KIND == KSET) { a.remove(b); printf("-"); } else printf("pre");
      } else printf("?unknown-op");
    }
  }

  // An operation written with a leading '.' ("muted") is executed like the plain one, its result is printed, but of the
  // state only the sizes: histories that build tables of hundreds or thousands of entries dump the whole state (and
  // the internals) at the unmuted operations only.
  static void op(long c, vh::Tok& t)
  {
    printf("%ld ", c);
    if(t.v[0][0] == '.') {
      ++t.v[0];
      exec(t);
      printf(" |");
      for(int i = 0; i < n; ++i) printf(" %lu", (unsigned long)v[i]->size());
      printf(" | .\n");
      return;
    }
    exec(t);
    printf(" |");
    for(int i = 0; i < n; ++i) { printf(" "); dumpObs(i, *v[i]); }
    printf(" |");
    for(int i = 0; i < n; ++i) { printf(" "); dumpInt(i, *v[i]); }
    printf("\n");
  }
};
template<typename K, int KIND> typename Runner<K, KIND>::Tab* Runner<K, KIND>::v[Runner<K, KIND>::MAXV];
template<typename K, int KIND> int Runner<K, KIND>::n = 0;
template<typename K, int KIND> typename Runner<K, KIND>::BlockRef* Runner<K, KIND>::g_blk = 0;
template<typename K, int KIND> long Runner<K, KIND>::g_nblk = 0;

typedef void (*opfn)(long, vh::Tok&);
typedef void (*rstfn)();
static opfn cur_op = 0;
static rstfn cur_reset = 0;

template<typename K, int KIND> static void select(vh::Tok& t)
{
  Runner<K, KIND>::begin(t, 4);
  cur_op = &Runner<K, KIND>::op;
  cur_reset = &Runner<K, KIND>::reset;
}

template<int KIND> static void selectKey(vh::Tok& t)
{
  switch(t.v[3][0]) {
  case 'b': select<int8, KIND>(t); break;
  case 'B': select<uint8, KIND>(t); break;
  case 'h': select<int16, KIND>(t); break;
  case 'H': select<uint16, KIND>(t); break;
  case 'q': select<uint64, KIND>(t); break;
  case 'i': select<int32, KIND>(t); break;
  case 'l': select<int64, KIND>(t); break;
  case 'u': select<uint32, KIND>(t); break;
  case 'p': select<const void*, KIND>(t); break;
  default: select<String, KIND>(t); break;
  }
}

static void begin(long, vh::Tok& t)
{
  if(cur_reset) cur_reset();
  cur_op = 0; cur_reset = 0;
  g_store = 0;
  if(t.n < 5) return;
  if(!strcmp(t.v[2], "hm")) selectKey<KMAP>(t);
  else if(!strcmp(t.v[2], "hs")) selectKey<KSET>(t);
  else selectKey<KPOOL>(t);
}

static void op(long c, long, vh::Tok& t) { if(cur_op) cur_op(c, t); else printf("%ld ?no-config\n", c); }
static void end(long) { if(cur_reset) cur_reset(); cur_reset = 0; cur_op = 0; }

int main(int argc, char** argv) { return vh::run(argc, argv, begin, op, end); }
