// Correspondence harness for C07: drives real nstd Variants (K variables per case) through the
// history language of coq/Variant (see ocaml/variant_driver.ml for the op syntax) and prints, after
// every op, for every variable: getType + canonical deep dump (const accessors), all to* coercions,
// the == matrix, and (internal section, read through `#define private public`, never driven
// through it) the canonical heap shape: sharing structure and every reference count.
// Round 2: `assignstr i p j sp` / `assignnode i p j sp k` hand operator=(const String&/List&/Array&/HashMap&) a
// reference INTO the payload of variable j (possibly the assigned Variant itself); `csets` / `csetstr` / `csetnode`
// run the converting constructors; scalar tokens dinf / d-inf / d-0 / dnan (judged by the oracles in checks/C07.py).
// Round 5: isNull() is printed as the first field of every coercion token.
#include "vh.hpp"
#include <math.h>
#define private public
#include <nstd/Variant.hpp>
#undef private

extern "C" int __lsan_do_recoverable_leak_check(void);

typedef HashMap<String, Variant> VMap;
typedef List<Variant> VList;
typedef Array<Variant> VArray;

static Variant* vars = 0;
static int K = 0;

// ---------------------------------------------------------------------------------------------
// parsing
// ---------------------------------------------------------------------------------------------
struct Step { char kind; bool byKey; size_t idx; String key; };
struct Path { Step s[16]; int n; };

static String str_of_hex(const char* h)
{
  size_t n; unsigned char* b = vh::unhex(h, n);
  String r((const char*)b, n);
  free(b);
  return r;
}

static void parse_path(const char* t, Path& p)
{
  p.n = 0;
  if(!strcmp(t, "-")) return;
  char* dup = strdup(t);
  char* save = 0;
  for(char* q = strtok_r(dup, "/", &save); q && p.n < 16; q = strtok_r(0, "/", &save)) {
    Step& s = p.s[p.n++];
    s.kind = q[0];
    s.byKey = q[1] == '=';
    s.idx = 0;
    if(s.byKey) s.key = str_of_hex(q + 2); else s.idx = strtoul(q + 2, 0, 10);
  }
  free(dup);
}

// d<m>_<e> = m * 2^e; the values outside the Coq model: dinf, d-inf, d-0
static double dbl_of(const char* t)
{
  if(!strcmp(t, "dinf")) return INFINITY;
  if(!strcmp(t, "d-inf")) return -INFINITY;
  if(!strcmp(t, "d-0")) return -0.0;
  if(!strcmp(t, "dnan")) return NAN;      // outside the property ("other than NaN"): the spec side expects nothing of it
  long long m = strtoll(t + 1, 0, 10); const char* u = strchr(t, '_'); int e = atoi(u + 1);
  return ldexp((double)m, e);
}

// the scalar assignment operators (operator=(bool) ... operator=(uint64)), not operator=(const Variant&)
static void assign_scalar(Variant& d, const char* t)
{
  switch(t[0]) {
  case 'n': d.clear(); break;
  case 'b': d = (t[1] == '1'); break;
  case 'd': d = dbl_of(t); break;
  case 'i': d = (int)strtol(t + 1, 0, 10); break;
  case 'u': d = (uint)strtoul(t + 1, 0, 10); break;
  case 'I': d = (int64)strtoll(t + 1, 0, 10); break;
  case 'U': d = (uint64)strtoull(t + 1, 0, 10); break;
  }
}

// ---------------------------------------------------------------------------------------------
// navigation
// ---------------------------------------------------------------------------------------------
static const Variant* child_const(const Variant& v, const Step& s)
{
  if(s.kind == 'l') {
    const VList& l = v.toList();
    if(s.byKey || s.idx >= l.size()) return 0;
    VList::Iterator it = l.begin();
    for(size_t i = 0; i < s.idx; ++i) ++it;
    return &*it;
  }
  if(s.kind == 'a') {
    const VArray& a = v.toArray();
    if(s.byKey || s.idx >= a.size()) return 0;
    return &((const Variant*)a)[s.idx];
  }
  const VMap& m = v.toMap();
  if(s.byKey) {
    VMap::Iterator it = m.find(s.key);
    if(it == m.end()) return 0;
    return &*it;
  }
  if(s.idx >= m.size()) return 0;
  VMap::Iterator it = m.begin();
  for(size_t i = 0; i < s.idx; ++i) ++it;
  return &*it;
}

static Variant* child_mut(Variant& v, const Step& s)
{
  if(s.kind == 'l') {
    VList& l = v.toList();
    if(s.byKey || s.idx >= l.size()) return 0;
    VList::Iterator it = l.begin();
    for(size_t i = 0; i < s.idx; ++i) ++it;
    return &*it;
  }
  if(s.kind == 'a') {
    VArray& a = v.toArray();
    if(s.byKey || s.idx >= a.size()) return 0;
    return &((Variant*)a)[s.idx];
  }
  VMap& m = v.toMap();
  if(s.byKey) {
    VMap::Iterator it = m.find(s.key);
    if(it == m.end()) return 0;
    return &*it;
  }
  if(s.idx >= m.size()) return 0;
  VMap::Iterator it = m.begin();
  for(size_t i = 0; i < s.idx; ++i) ++it;
  return &*it;
}

static const Variant* nav_const(const Variant& root, const Path& p)
{
  const Variant* cur = &root;
  for(int i = 0; i < p.n; ++i) {
    cur = child_const(*cur, p.s[i]);
    if(!cur) return 0;
  }
  return cur;
}

static Variant* nav_mut(Variant& root, const Path& p)
{
  Variant* cur = &root;
  for(int i = 0; i < p.n && cur; ++i) cur = child_mut(*cur, p.s[i]);
  return cur;
}

// position of the child a step designates (node identity is the index path, not the address:
// one payload block can sit at several positions of the same variable)
static long child_index(const Variant& v, const Step& s)
{
  if(!s.byKey) return (long)s.idx;
  const VMap& m = v.toMap();
  long k = 0;
  for(VMap::Iterator it = m.begin(), end = m.end(); it != end; ++it, ++k)
    if(it.key() == s.key) return k;
  return -1;
}

static int resolve(const Variant& root, const Path& p, long* idx)
{
  const Variant* cur = &root;
  for(int i = 0; i < p.n; ++i) {
    const Variant* next = child_const(*cur, p.s[i]);
    if(!next) return -1;
    idx[i] = child_index(*cur, p.s[i]);
    cur = next;
  }
  return p.n;
}

// is the source node one of the nodes the operation opens for writing? (VariantSpec.self_containing)
static bool self_containing(int i, const Path& p, int j, const Path& sp, bool includeTarget)
{
  if(i != j) return false;
  long d[16], s[16];
  int nd = resolve(vars[i], p, d), ns = resolve(vars[j], sp, s);
  if(nd < 0 || ns < 0) return false;
  if(ns > nd || (!includeTarget && ns == nd)) return false;
  for(int k = 0; k < ns; ++k) if(d[k] != s[k]) return false;
  return true;
}

static Variant::Type type_of_kind(char kind)
{
  return kind == 'm' ? Variant::mapType : kind == 'l' ? Variant::listType : Variant::arrayType;
}

// `d = s.toList()` with s an ancestor of d two or more levels up, or the parent of a d that already is a list
// (VariantSpec.self_containing, OAssignNodeFrom)
static bool self_containing_node(int i, const Path& p, int j, const Path& sp, char kind)
{
  if(!self_containing(i, p, j, sp, false)) return false;
  if(p.n >= sp.n + 2) return true;
  const Variant* d = nav_const(vars[i], p);
  return d && d->getType() == type_of_kind(kind);
}

// ---------------------------------------------------------------------------------------------
// observation
// ---------------------------------------------------------------------------------------------
// signedZero: the value is the stored double of a doubleType Variant - its zero shows its sign (d-0, round 5); a zero
// converted from another alternative (a string "-0" reads as -0.0) is printed as d0_0, the value model has one zero
static void put_dbl(double d, bool signedZero = false)
{
  if(isnan(d)) { printf("dnan"); return; }
  if(isinf(d)) { printf(d > 0 ? "dinf" : "d-inf"); return; }
  if(d == 0) { printf(signedZero && signbit(d) ? "d-0" : "d0_0"); return; }
  int x; double f = frexp(d, &x);
  long long m = (long long)ldexp(f, 53);
  int e = x - 53;
  while(m % 2 == 0) { m /= 2; ++e; }
  printf("d%lld_%d", m, e);
}

static void put_str(const String& s) { vh::puthex((const unsigned char*)(const char*)s, s.length()); }

static void dump(const Variant& v)
{
  switch(v.getType()) {
  case Variant::nullType: printf("n"); break;
  case Variant::boolType: printf(v.toBool() ? "b1" : "b0"); break;
  case Variant::doubleType: put_dbl(v.toDouble(), true); break;
  case Variant::intType: printf("i%d", v.toInt()); break;
  case Variant::uintType: printf("u%u", v.toUInt()); break;
  case Variant::int64Type: printf("I%lld", (long long)v.toInt64()); break;
  case Variant::uint64Type: printf("U%llu", (unsigned long long)v.toUInt64()); break;
  case Variant::stringType: printf("s"); put_str(v.toString()); break;
  case Variant::listType: {
    const VList& l = v.toList();
    printf("L[");
    bool first = true;
    for(VList::Iterator i = l.begin(), end = l.end(); i != end; ++i) { if(!first) printf(","); first = false; dump(*i); }
    printf("]");
    break; }
  case Variant::arrayType: {
    const VArray& a = v.toArray();
    printf("A[");
    for(size_t i = 0; i < a.size(); ++i) { if(i) printf(","); dump(((const Variant*)a)[i]); }
    printf("]");
    break; }
  case Variant::mapType: {
    const VMap& m = v.toMap();
    printf("M{");
    bool first = true;
    for(VMap::Iterator i = m.begin(), end = m.end(); i != end; ++i) {
      if(!first) printf(","); first = false;
      put_str(i.key()); printf(":"); dump(*i);
    }
    printf("}");
    break; }
  default: printf("?type%d", (int)v.getType());
  }
}

// float -> integer casts are only observed when defined (truncated value representable)
static bool fits(double d, int which)
{
  switch(which) {
  case 0: return d > -2147483649.0 && d < 2147483648.0;
  case 1: return d > -1.0 && d < 4294967296.0;
  case 2: return d >= -9223372036854775808.0 && d < 9223372036854775808.0;
  default: return d > -1.0 && d < 18446744073709551616.0;
  }
}
static bool cast_ok(const Variant& v, int which) { return v.getType() != Variant::doubleType || fits(v.toDouble(), which); }

static void coercions(const Variant& v)
{
  printf("%d,", v.isNull() ? 1 : 0);          // round 5: isNull() is part of "reports the type it was last given"
  printf("%d,", v.toBool() ? 1 : 0);
  if(cast_ok(v, 0)) printf("%d,", v.toInt()); else printf("ub,");
  if(cast_ok(v, 1)) printf("%u,", v.toUInt()); else printf("ub,");
  if(cast_ok(v, 2)) printf("%lld,", (long long)v.toInt64()); else printf("ub,");
  if(cast_ok(v, 3)) printf("%llu,", (unsigned long long)v.toUInt64()); else printf("ub,");
  put_dbl(v.toDouble(), v.getType() == Variant::doubleType); printf(",");
  put_str(((const Variant&)v).toString());
}

// would `a == b` execute an undefined float -> integer cast?  (mirrors the evaluation order of operator==)
static bool eq_ub(const Variant& a, const Variant& b)
{
  switch(a.getType()) {
  case Variant::intType: return !cast_ok(b, 0);
  case Variant::uintType: return !cast_ok(b, 1);
  case Variant::int64Type: return !cast_ok(b, 2);
  case Variant::uint64Type: return !cast_ok(b, 3);
  case Variant::stringType: return b.getType() != Variant::stringType && eq_ub(b, a);
  case Variant::listType: {
    if(b.getType() != Variant::listType || a.toList().size() != b.toList().size()) return false;
    VList::Iterator i = a.toList().begin(), j = b.toList().begin();
    for(VList::Iterator end = a.toList().end(); i != end; ++i, ++j) {
      if(eq_ub(*i, *j)) return true;
      if(!(*i == *j)) return false;
    }
    return false; }
  case Variant::arrayType: {
    if(b.getType() != Variant::arrayType || a.toArray().size() != b.toArray().size()) return false;
    const Variant* x = a.toArray(); const Variant* y = b.toArray();
    for(size_t k = 0, n = a.toArray().size(); k < n; ++k) {
      if(eq_ub(x[k], y[k])) return true;
      if(!(x[k] == y[k])) return false;
    }
    return false; }
  case Variant::mapType: {
    if(b.getType() != Variant::mapType || a.toMap().size() != b.toMap().size()) return false;
    VMap::Iterator i = a.toMap().begin(), j = b.toMap().begin();
    for(VMap::Iterator end = a.toMap().end(); i != end; ++i, ++j) {
      if(i.key() != j.key()) return false;
      if(eq_ub(*i, *j)) return true;
      if(!(*i == *j)) return false;
    }
    return false; }
  default: return false;
  }
}

// canonical heap shape
static const void* seen[4096];
static int nseen;
static void shape(const Variant& v)
{
  if(v.data->ref == 0) { printf("."); return; }
  for(int i = 0; i < nseen; ++i) if(seen[i] == (const void*)v.data) { printf("@%d", i + 1); return; }
  if(nseen < 4096) seen[nseen] = (const void*)v.data;
  ++nseen;
  printf("#%d:r%lu:", nseen, (unsigned long)v.data->ref);
  switch(v.data->type) {
  case Variant::stringType: printf("S"); break;
  case Variant::listType: {
    const VList& l = v.toList();
    printf("L[");
    bool first = true;
    for(VList::Iterator i = l.begin(), end = l.end(); i != end; ++i) { if(!first) printf(","); first = false; shape(*i); }
    printf("]");
    break; }
  case Variant::arrayType: {
    const VArray& a = v.toArray();
    printf("A[");
    for(size_t i = 0; i < a.size(); ++i) { if(i) printf(","); shape(((const Variant*)a)[i]); }
    printf("]");
    break; }
  case Variant::mapType: {
    const VMap& m = v.toMap();
    printf("M{");
    bool first = true;
    for(VMap::Iterator i = m.begin(), end = m.end(); i != end; ++i) { if(!first) printf(","); first = false; shape(*i); }
    printf("}");
    break; }
  default: printf("?");
  }
}

static void observe(long c, const char* res)
{
  printf("%ld %s |", c, res);
  for(int i = 0; i < K; ++i) { printf(" %d:", (int)vars[i].getType()); dump(vars[i]); }
  printf(" |");
  for(int i = 0; i < K; ++i) { printf(" "); coercions(vars[i]); }
  printf(" | ");
  for(int i = 0; i < K; ++i)
    for(int j = 0; j < K; ++j)
      printf("%c", eq_ub(vars[i], vars[j]) ? 'u' : (vars[i] == vars[j]) ? 't' : 'f');
  printf(" |");
  nseen = 0;
  for(int i = 0; i < K; ++i) { printf(" "); shape(vars[i]); }
  printf(" live=%d\n", nseen);
}

// ---------------------------------------------------------------------------------------------
// the case loop
// ---------------------------------------------------------------------------------------------
static void destroy_vars()
{
  if(!vars) return;
  for(int i = 0; i < K; ++i) vars[i].~Variant();
  free(vars);
  vars = 0;
}

static void begin(long, vh::Tok& t)
{
  destroy_vars();
  K = t.n > 2 ? atoi(t.v[2]) : 3;
  if(K < 1) K = 1;
  vars = (Variant*)malloc(sizeof(Variant) * K);
  for(int i = 0; i < K; ++i) new (&vars[i]) Variant();
}

static void end(long c)
{
  destroy_vars();
  int leak = __lsan_do_recoverable_leak_check();
  printf("%ld end leak=%d\n", c, leak ? 1 : 0);
  if(leak) { fflush(stdout); _exit(23); }
}

static bool varok(int i) { return i >= 0 && i < K; }

static void op(long c, long, vh::Tok& t)
{
  // `assign!` / `cont!` / `assignnode!`: the same operation without the self-containment guard (only used by the
  // known-finding witness: the code then stores into a payload a handle to that payload)
  char oname[32]; strncpy(oname, t.v[0], 31); oname[31] = 0;
  bool unguarded = false;
  { size_t L = strlen(oname); if(L && oname[L - 1] == '!') { unguarded = true; oname[L - 1] = 0; } }
  const char* o = oname;
  if(!strcmp(o, "assign") && t.n >= 6) o = "assignnode";     // `assign i p j sp k` = `assignnode i p j sp k`
  const char* res = "done";
  Path p, sp;
  if(!strcmp(o, "swap") || !strcmp(o, "copynew")) {
    int i = atoi(t.v[1]), j = atoi(t.v[2]);
    if(!varok(i) || !varok(j) || (o[0] == 'c' && i == j)) res = "badvar";
    else if(o[0] == 's') vars[i].swap(vars[j]);
    else { vars[i].~Variant(); new (&vars[i]) Variant(vars[j]); }
    observe(c, res);
    return;
  }
  int i = atoi(t.v[1]);
  if(!varok(i)) { observe(c, "badvar"); return; }
  // the converting constructors: destroy the variable, construct it from the value
  if(!strcmp(o, "csets")) {
    vars[i].~Variant();
    switch(t.v[2][0]) {
    case 'n': new (&vars[i]) Variant(); break;
    case 'b': new (&vars[i]) Variant(t.v[2][1] == '1'); break;
    case 'd': new (&vars[i]) Variant(dbl_of(t.v[2])); break;
    case 'i': new (&vars[i]) Variant((int)strtol(t.v[2] + 1, 0, 10)); break;
    case 'u': new (&vars[i]) Variant((uint)strtoul(t.v[2] + 1, 0, 10)); break;
    case 'I': new (&vars[i]) Variant((int64)strtoll(t.v[2] + 1, 0, 10)); break;
    case 'U': new (&vars[i]) Variant((uint64)strtoull(t.v[2] + 1, 0, 10)); break;
    default: new (&vars[i]) Variant(); res = "?scalar";
    }
    observe(c, res);
    return;
  }
  if(!strcmp(o, "csetstr")) {
    String str = str_of_hex(t.v[2]);
    vars[i].~Variant();
    new (&vars[i]) Variant(str);
    observe(c, res);
    return;
  }
  if(!strcmp(o, "csetnode")) {
    { // the temporaries die before the observation
    char kind = t.v[2][0];
    VMap tm; VList tl; VArray ta;
    bool bad = false;
    if(strcmp(t.v[3], "-")) {
      char* dup = strdup(t.v[3]); char* save = 0;
      for(char* q = strtok_r(dup, ",", &save); q; q = strtok_r(0, ",", &save)) {
        char* colon = strchr(q, ':'); *colon = 0;
        int j = atoi(colon + 1);
        if(!varok(j)) { bad = true; break; }
        if(kind == 'm') tm.append(str_of_hex(q), vars[j]);
        else if(kind == 'l') tl.append(vars[j]);
        else { Variant copy(vars[j]); ta.append(copy); }
      }
      free(dup);
    }
    if(bad) res = "badvar";
    else {
      vars[i].~Variant();
      if(kind == 'm') new (&vars[i]) Variant(tm);
      else if(kind == 'l') new (&vars[i]) Variant(tl);
      else new (&vars[i]) Variant(ta);
    }
    }
    observe(c, res);
    return;
  }
  parse_path(t.v[2], p);
  if(!strcmp(o, "sets")) {
    Variant* d = nav_mut(vars[i], p);
    if(!d) res = "nopath"; else assign_scalar(*d, t.v[3]);
  } else if(!strcmp(o, "setstr")) {
    Variant* d = nav_mut(vars[i], p);
    if(!d) res = "nopath"; else *d = str_of_hex(t.v[3]);
  } else if(!strcmp(o, "setnode")) {
    // items
    char kind = t.v[3][0];
    VMap tm; VList tl; VArray ta;
    bool bad = false;
    if(strcmp(t.v[4], "-")) {
      char* dup = strdup(t.v[4]); char* save = 0;
      for(char* q = strtok_r(dup, ",", &save); q; q = strtok_r(0, ",", &save)) {
        char* colon = strchr(q, ':'); *colon = 0;
        int j = atoi(colon + 1);
        if(!varok(j)) { bad = true; break; }
        if(kind == 'm') tm.append(str_of_hex(q), vars[j]);
        else if(kind == 'l') tl.append(vars[j]);
        else { Variant copy(vars[j]); ta.append(copy); }
      }
      free(dup);
    }
    if(bad) res = "badvar";
    else {
      Variant* d = nav_mut(vars[i], p);
      if(!d) res = "nopath";
      else if(kind == 'm') *d = tm;
      else if(kind == 'l') *d = tl;
      else *d = ta;
    }
  } else if(!strcmp(o, "assign")) {
    int j = atoi(t.v[3]);
    parse_path(t.v[4], sp);
    if(!varok(j)) res = "badvar";
    else if(!unguarded && self_containing(i, p, j, sp, false)) res = "excluded";
    else {
      Variant* d = nav_mut(vars[i], p);
      if(!d) res = "nopath";
      else {
        const Variant* s = nav_const(vars[j], sp);
        if(!s) res = "nosrc"; else *d = *s;
      }
    }
  } else if(!strcmp(o, "assignstr")) {
    // `d = s.toString()`: the argument is a reference INTO the payload of variable j (the non-const toString()
    // is the only public way to a String reference into a Variant), possibly inside the assigned Variant
    int j = atoi(t.v[3]);
    parse_path(t.v[4], sp);
    if(!varok(j)) res = "badvar";
    else {
      const Variant* s0 = nav_const(vars[j], sp);
      if(!s0 || s0->getType() != Variant::stringType) res = "nosrc";
      else {
        Variant* s = nav_mut(vars[j], sp);          // resolves: every node on the way has the kind of its step
        String& r = s->toString();
        Variant* d = nav_mut(vars[i], p);           // leaves r alone: the blocks above r are exclusively owned now
        if(!d) res = "nopath"; else *d = r;
      }
    }
  } else if(!strcmp(o, "assignnode")) {
    // `d = s.toMap()` / `.toList()` / `.toArray()` (const accessors): the argument is a reference into the payload of
    // variable j, possibly inside the assigned Variant
    int j = atoi(t.v[3]);
    parse_path(t.v[4], sp);
    char kind = t.v[5][0];
    if(!varok(j)) res = "badvar";
    else if(!unguarded && self_containing_node(i, p, j, sp, kind)) res = "excluded";
    else {
      Variant* d = nav_mut(vars[i], p);
      if(!d) res = "nopath";
      else {
        const Variant* s = nav_const(vars[j], sp);
        if(!s) res = "nosrc";
        else if(kind == 'm') *d = s->toMap();
        else if(kind == 'l') *d = s->toList();
        else *d = s->toArray();
      }
    }
  } else if(!strcmp(o, "clear")) {
    Variant* d = nav_mut(vars[i], p);
    if(!d) res = "nopath"; else d->clear();
  } else if(!strcmp(o, "strtouch")) {
    Variant* d = nav_mut(vars[i], p);
    if(!d) res = "nopath"; else d->toString();
  } else if(!strcmp(o, "strapp")) {
    Variant* d = nav_mut(vars[i], p);
    if(!d) res = "nopath"; else d->toString().append(str_of_hex(t.v[3]));
  } else if(!strcmp(o, "cont")) {
    char kind = t.v[3][0];
    char copb[256]; strncpy(copb, t.v[4], 255); copb[255] = 0;
    int j = atoi(t.v[5]);
    parse_path(t.v[6], sp);
    char* save = 0;
    char* cname = strtok_r(copb, ":", &save);
    char* a1 = strtok_r(0, ":", &save);
    char* a2 = strtok_r(0, ":", &save);
    bool isIns = !strcmp(cname, "ins");
    if(!varok(j)) res = "badvar";
    else if(!unguarded && isIns && self_containing(i, p, j, sp, true)) res = "excluded";
    else {
      Variant* d = nav_mut(vars[i], p);
      if(!d) res = "nopath";
      else {
        // the mutable accessor first, then the (const) source, then the container operation
        VMap* m = 0; VList* l = 0; VArray* a = 0;
        if(kind == 'm') m = &d->toMap(); else if(kind == 'l') l = &d->toList(); else a = &d->toArray();
        if(isIns) {
          const Variant* s = nav_const(vars[j], sp);
          if(!s) res = "nosrc";
          else {
            size_t n = strtoul(a1, 0, 10);
            if(m) {
              VMap::Iterator pos = m->begin();
              for(size_t x = 0; x < n && pos != m->end(); ++x) ++pos;
              m->insert(pos, str_of_hex(a2), *s);
            } else if(l) {
              VList::Iterator pos = l->begin();
              for(size_t x = 0; x < n && pos != l->end(); ++x) ++pos;
              l->insert(pos, *s);
            } else {
              Variant copy(*s);      // Array::append(a[0]) at the growth boundary is C04's finding, keep out of it
              a->append(copy);
            }
          }
        } else if(!strcmp(cname, "rem")) {
          size_t n = strtoul(a1, 0, 10);
          if(m) { if(n < m->size()) { VMap::Iterator pos = m->begin(); for(size_t x = 0; x < n; ++x) ++pos; m->remove(pos); } }
          else if(l) { if(n < l->size()) { VList::Iterator pos = l->begin(); for(size_t x = 0; x < n; ++x) ++pos; l->remove(pos); } }
          else { if(n < a->size()) a->remove(n); }
        } else if(!strcmp(cname, "remkey")) {
          if(m) m->remove(str_of_hex(a1));
        } else if(!strcmp(cname, "clr")) {
          if(m) m->clear(); else if(l) l->clear(); else a->clear();
        }
      }
    }
  } else {
    res = "?unknown-op";
  }
  observe(c, res);
}

int main(int argc, char** argv) { return vh::run(argc, argv, begin, op, end); }
