// Correspondence harness for C09, flavour `nest`: RefCount::Ptr handles to a pointee type that owns a
// handle itself (`next`), so that objects form chains, the source of an assignment can be a handle
// stored inside the object the target is the last handle of (`cur = cur->next`), the target can be a
// member handle (`a->next = a->next->next`), and the release of the last outer handle cascades.
//
// Case configuration: `nest same` - `struct NS : RefCount::Object { Ptr<NS> next; }`, variables Ptr<NS>:
//                                    every assignment is the same-type operator=(const Ptr&);
//                     `nest conv` - `struct NB : RefCount::Object { Ptr<ND> next; }; struct ND : NB`,
//                                    variables Ptr<NB>: variable = member goes through the converting
//                                    operator=(const Ptr<D>&) / constructor, member = member through the
//                                    same-type operator=, member = variable through operator=(C*).
// A location <v k> is variable v (k = 0) or the `next` member of the object reached from v through k-1
// `->next` steps.  Ops (4 variables):
//   create v n | null v | copy d sv sk | assign dv dk sv sk | assignraw dv dk sv sk | reset dv dk | destroy v
// An op whose location dereferences a null handle, or names a variable in the wrong state, is skipped.
// After every op: each variable's chain (`id:n>id:n...`, at most 4 objects), the number of objects alive,
// the number destroyed, and the reference counters along the chains.
#include "vh.hpp"

#define private public
#define protected public
#include <nstd/RefCount.hpp>
#undef private
#undef protected

enum { NNV = 4, DEPTH = 4 };

static long n_constructed, n_destroyed, n_bad;

struct NS : public RefCount::Object
{
  int id; long n; unsigned canary;
  RefCount::Ptr<NS> next;
  NS(long n) : id((int)n_constructed++), n(n), canary(0xC0FFEE02u) {}
  ~NS() { if(canary != 0xC0FFEE02u) ++n_bad; canary = 0xDEADDEADu; ++n_destroyed; }
};

struct ND;
struct NB : public RefCount::Object
{
  int id; long n; unsigned canary;
  RefCount::Ptr<ND> next;
  NB(long n) : id((int)n_constructed++), n(n), canary(0xC0FFEE02u) {}
  ~NB() { if(canary != 0xC0FFEE02u) ++n_bad; canary = 0xDEADDEADu; ++n_destroyed; }
};
struct ND : public NB { ND(long n) : NB(n) {} };

union NSlot { char p[sizeof(RefCount::Ptr<NS>)]; void* align; };
static NSlot nslots[NNV];
static bool nlive[NNV];
static bool conv_kind;

// member = variable: a Ptr<B> does not convert to a Ptr<X> (every object is an X): operator=(C*); B == X: operator=(const Ptr&)
template <class PN, class PV, class X> struct ToMember { static void go(PN& d, const PV& s) { d = static_cast<X*>(s.operator->()); } };
template <class P, class X> struct ToMember<P, P, X> { static void go(P& d, const P& s) { d = s; } };

template <class B, class X> struct Ops
{
  typedef RefCount::Ptr<B> PV;    // type of the variables
  typedef RefCount::Ptr<X> PN;    // type of the member `next`
  static PV* var(int v) { return (PV*)nslots[v].p; }

  // holder of the location <v k>, k >= 1; 0 when a null handle would be dereferenced
  static B* holder(int v, int k)
  {
    B* o = var(v)->operator->();
    for(int i = 1; o && i < k; ++i) o = o->next.operator->();
    return o;
  }
  static bool resolvable(int v, int k) { return nlive[v] && (k == 0 || holder(v, k) != 0); }

  static void create(int v, long n) { new (nslots[v].p) PV(new X(n)); nlive[v] = true; }
  static void null(int v) { new (nslots[v].p) PV(); nlive[v] = true; }
  static void destroy(int v) { var(v)->~PV(); nlive[v] = false; }
  static void copy(int d, int sv, int sk)
  {
    if(sk == 0) new (nslots[d].p) PV(*var(sv));
    else new (nslots[d].p) PV(holder(sv, sk)->next);           // conv: Ptr(const Ptr<D>&)
    nlive[d] = true;
  }
  static void assign(int dv, int dk, int sv, int sk)
  {
    if(dk == 0 && sk == 0) *var(dv) = *var(sv);
    else if(dk == 0) *var(dv) = holder(sv, sk)->next;          // conv: operator=(const Ptr<D>&), e.g. cur = cur->next
    else if(sk == 0) ToMember<PN, PV, X>::go(holder(dv, dk)->next, *var(sv));
    else holder(dv, dk)->next = holder(sv, sk)->next;          // e.g. a->next = a->next->next
  }
  static void assignraw(int dv, int dk, int sv, int sk)
  {
    X* raw = sk == 0 ? static_cast<X*>(var(sv)->operator->()) : holder(sv, sk)->next.operator->();
    if(dk == 0) *var(dv) = raw; else holder(dv, dk)->next = raw;
  }
  static void reset(int dv, int dk)
  {
    if(dk == 0) *var(dv) = (B*)0; else holder(dv, dk)->next = (X*)0;
  }
  static void observe(long c)
  {
    static char vals[2048], rcs[2048];
    int a = 0, r = 0;
    for(int v = 0; v < NNV; ++v) {
      if(!nlive[v]) { a += sprintf(vals + a, "D "); r += sprintf(rcs + r, ". "); continue; }
      B* o = var(v)->operator->();
      if(!o) { a += sprintf(vals + a, "- "); r += sprintf(rcs + r, ". "); continue; }
      for(int i = 0; o && i < DEPTH; ++i) {
        if(i) { vals[a++] = '>'; rcs[r++] = '>'; }
        if(o->canary != 0xC0FFEE02u) a += sprintf(vals + a, "BAD"); else a += sprintf(vals + a, "%d:%ld", o->id, o->n);
        r += sprintf(rcs + r, "%llu", (unsigned long long)((RefCount::Object*)o)->ref);
        o = o->next.operator->();
      }
      vals[a++] = ' '; rcs[r++] = ' ';
    }
    vals[a ? a - 1 : 0] = 0; rcs[r ? r - 1 : 0] = 0;
    printf("%ld %s | live=%ld dtors=%ld%s | %s\n", c, vals, n_constructed - n_destroyed, n_destroyed, n_bad ? " BADCANARY" : "", rcs);
  }
  static void op(long c, vh::Tok& t)
  {
    const char* o = t.v[0];
    int a[4] = {0, 0, 0, 0};
    for(int i = 0; i < 4 && i + 1 < t.n; ++i) a[i] = atoi(t.v[i + 1]);
    bool is_create = !strcmp(o, "create");
    int nvarargs = (!strcmp(o, "assign") || !strcmp(o, "assignraw")) ? 4 : !strcmp(o, "copy") ? 3 : !strcmp(o, "reset") ? 2 : 1;
    // arguments: variables 0..NNV-1, depths 0..DEPTH
    if(a[0] < 0 || a[0] >= NNV) { printf("%ld ?bad-var\n", c); return; }
    if(nvarargs == 4 && (a[1] < 0 || a[1] > DEPTH || a[2] < 0 || a[2] >= NNV || a[3] < 0 || a[3] > DEPTH)) { printf("%ld ?bad-var\n", c); return; }
    if(nvarargs == 3 && (a[1] < 0 || a[1] >= NNV || a[2] < 0 || a[2] > DEPTH)) { printf("%ld ?bad-var\n", c); return; }
    if(nvarargs == 2 && (a[1] < 0 || a[1] > DEPTH)) { printf("%ld ?bad-var\n", c); return; }
    if(is_create) { if(!nlive[a[0]]) create(a[0], t.n > 2 ? atol(t.v[2]) : 0); }
    else if(!strcmp(o, "null")) { if(!nlive[a[0]]) null(a[0]); }
    else if(!strcmp(o, "copy")) { if(!nlive[a[0]] && resolvable(a[1], a[2])) copy(a[0], a[1], a[2]); }
    else if(!strcmp(o, "assign")) { if(resolvable(a[0], a[1]) && resolvable(a[2], a[3])) assign(a[0], a[1], a[2], a[3]); }
    else if(!strcmp(o, "assignraw")) { if(resolvable(a[0], a[1]) && resolvable(a[2], a[3])) assignraw(a[0], a[1], a[2], a[3]); }
    else if(!strcmp(o, "reset")) { if(resolvable(a[0], a[1])) reset(a[0], a[1]); }
    else if(!strcmp(o, "destroy")) { if(nlive[a[0]]) destroy(a[0]); }
    else { printf("%ld ?unknown-op\n", c); return; }
    observe(c);
  }
  static void end(long c)
  {
    for(int v = 0; v < NNV; ++v) if(nlive[v]) destroy(v);
    printf("%ld end | live=%ld dtors=%ld%s\n", c, n_constructed - n_destroyed, n_destroyed, n_bad ? " BADCANARY" : "");
  }
};

typedef Ops<NS, NS> OpsSame;
typedef Ops<NB, ND> OpsConv;

void nest_begin(const char* kind)
{
  // objects left over from the previous case (cycles) are not touched again
  for(int v = 0; v < NNV; ++v) nlive[v] = false;
  conv_kind = !strcmp(kind, "conv");
  n_constructed = n_destroyed = n_bad = 0;
}
void nest_op(long c, vh::Tok& t) { if(conv_kind) OpsConv::op(c, t); else OpsSame::op(c, t); }
void nest_end(long c) { if(conv_kind) OpsConv::end(c); else OpsSame::end(c); }
