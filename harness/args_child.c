/* Helper child for C20: echoes exactly what it was handed and does what ./ac.ctl scripts.
   ./ac.ctl = "<exit code> <mode>"   mode bit 1: copy stdin to stdout, bit 2: copy stdin to stderr,
                                     bit 4: stay alive after the header until a signal ends it (SIGALRM after 8 s at the latest),
                                     bit 8: be silent for 1.2 s after the header and again after the copied bytes (streams stay open).
   stdout:  "A <hex>" per argv string, "E <hex>" per environment string, "." then the copied bytes. */
#include <stdio.h>
#include <stdlib.h>
#include <string.h>
#include <unistd.h>
#include <errno.h>
#include <time.h>

extern char** environ;

static void hexline(char tag, const char* s)
{
  printf("%c ", tag);
  if(!*s) printf("-");
  for(; *s; ++s) printf("%02x", (unsigned char)*s);
  printf("\n");
}

static int write_all(int fd, const char* b, size_t n)
{
  while(n) {
    ssize_t w = write(fd, b, n);
    if(w < 0) { if(errno == EINTR) continue; return -1; }
    b += w; n -= (size_t)w;
  }
  return 0;
}

static void silent(void)
{
  struct timespec ts = {1, 200000000};
  while(nanosleep(&ts, &ts) != 0 && errno == EINTR) { }
}

int main(int argc, char** argv)
{
  int code = 0, mode = 0;
  FILE* f = fopen("./ac.ctl", "r");
  if(f) { if(fscanf(f, "%d %d", &code, &mode) != 2) { code = 99; mode = 0; } fclose(f); }
  for(int i = 0; i < argc; ++i) hexline('A', argv[i]);
  for(char** e = environ; *e; ++e) hexline('E', *e);
  printf(".\n");
  fflush(stdout);
  if(mode & 4) { alarm(8); for(;;) pause(); }
  if(mode & 8) silent();
  if(mode & 3) {
    static char buf[65536];
    for(;;) {
      ssize_t r = read(0, buf, sizeof(buf));
      if(r < 0) { if(errno == EINTR) continue; return 98; }
      if(r == 0) break;
      if((mode & 1) && write_all(1, buf, (size_t)r)) return 97;
      if((mode & 2) && write_all(2, buf, (size_t)r)) return 96;
    }
  }
  if(mode & 8) silent();
  return code;
}
