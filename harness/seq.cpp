// Correspondence harness for C03 (component Seq): drives the real List<T>, Array<T> and
// PoolList<T> through their public API on the op file and prints, after every operation, the
// result (iterator/reference as rank:value), the public state of every variable of the case and,
// read through an access override, the internal structure the model mirrors (slot id of every
// node, free-list chain, number of blocks, Array allocation flag).
// Element kinds: int; Obj (owns a heap cell: ASan sees any lifetime error); kv = Obj whose
// operator< compares value/16 only (so the output order of List::sort reveals the partition); Wide (24 bytes:
// a heap cell and two derived words); Rec (PoolList only: records its constructor arguments).
#include "vh.hpp"
#include <pthread.h>
#define private public
#define protected public
#include <nstd/List.hpp>
#include <nstd/Array.hpp>
#include <nstd/PoolList.hpp>
#undef private
#undef protected

enum { NV = 3 };
static long g_live = 0;

// recursion depth of List::sort: operator< of the class element kinds calls a probe that records the frame
// address it runs at while a sort is in progress.  QuickSort::sort compares at one place, every frame of it
// compares at least once, and two frames at the same nesting depth lie at the same address: the number of
// DISTINCT addresses seen is the number of frames of QuickSort::sort that were live at the deepest point.  The
// line of every operation ends in `k <frames>` (0 when nothing was measured: no sort, fewer than two
// elements, element kind int); the model prints sort_depth there (theorems sort_as_coded_depth_is_printed_depth,
// sort_printed_depth_log: 2 ^ depth <= size), and the check's judge compares the number with log2(size).
static char** g_frames = 0;   // sorted, distinct
static long g_nframes = 0, g_capframes = 0;
static char* g_last = 0;
static bool g_stk_on = false;
static long g_depth = 0;
static long g_stack_kb = 0; // case config `stack=<KB>`: sort() runs on a thread with a stack of that size
__attribute__((noinline)) static void stk_probe()
{
  if(!g_stk_on) return;
  char* p = (char*)__builtin_frame_address(0);
  if(p == g_last) return;
  g_last = p;
  long lo = 0, hi = g_nframes;
  while(lo < hi) { long m = (lo + hi) / 2; if(g_frames[m] < p) lo = m + 1; else hi = m; }
  if(lo < g_nframes && g_frames[lo] == p) return;
  if(g_nframes == g_capframes) {
    g_capframes = g_capframes ? g_capframes * 2 : 64;
    g_frames = (char**)realloc(g_frames, sizeof(char*) * g_capframes);
  }
  memmove(g_frames + lo + 1, g_frames + lo, sizeof(char*) * (g_nframes - lo));
  g_frames[lo] = p;
  ++g_nframes;
}
template<class C> static void* sort_thread(void* p) { ((C*)p)->sort(); return 0; }
template<class C> static void run_sort(C* l)
{
  g_nframes = 0; g_last = 0; g_stk_on = true;
  if(g_stack_kb > 0) {
    pthread_attr_t a; pthread_t th;
    pthread_attr_init(&a);
    pthread_attr_setstacksize(&a, (size_t)g_stack_kb * 1024);
    if(pthread_create(&th, &a, sort_thread<C>, l) != 0) { printf("?thread "); l->sort(); }
    else pthread_join(th, 0);
    pthread_attr_destroy(&a);
  }
  else l->sort();
  g_stk_on = false;
  g_depth = g_nframes;
}

static inline int fdiv16(int v) { return v >= 0 ? v / 16 : -((-v + 15) / 16); }

template<bool KEYED> struct ObjT
{
  int* p;
  ObjT() : p((int*)malloc(sizeof(int))) { *p = 0; ++g_live; }
  ObjT(int v) : p((int*)malloc(sizeof(int))) { *p = v; ++g_live; }
  ObjT(const ObjT& o) : p((int*)malloc(sizeof(int))) { *p = *o.p; ++g_live; }
  ~ObjT() { free(p); --g_live; } // p stays dangling: a second destruction is a double free for ASan
  ObjT& operator=(const ObjT& o) { *p = *o.p; return *this; }
  bool operator==(const ObjT& o) const { return *p == *o.p; }
  bool operator!=(const ObjT& o) const { return *p != *o.p; }
  bool operator<(const ObjT& o) const { stk_probe(); return KEYED ? fdiv16(*p) < fdiv16(*o.p) : *p < *o.p; }
};
// Wide: three words (a heap cell and two numbers derived from the value).  An element size other than 4 and 8 bytes:
// storage sized or strided by sizeof(T*) / sizeof(int) instead of sizeof(T) overlaps neighbours (ASan) or tears the
// derived fields, which val() checks.
struct Wide
{
  int* p; long a; long b;
  void set(int v) { *p = v; a = (long)v * 3 + 1; b = ~(long)v; }
  Wide() : p((int*)malloc(sizeof(int))) { set(0); ++g_live; }
  Wide(int v) : p((int*)malloc(sizeof(int))) { set(v); ++g_live; }
  Wide(const Wide& o) : p((int*)malloc(sizeof(int))) { *p = *o.p; a = o.a; b = o.b; ++g_live; }
  ~Wide() { free(p); --g_live; }
  Wide& operator=(const Wide& o) { *p = *o.p; a = o.a; b = o.b; return *this; }
  bool sound() const { return a == (long)*p * 3 + 1 && b == ~(long)*p; }
  bool operator==(const Wide& o) const { return *p == *o.p && a == o.a && b == o.b; }
  bool operator!=(const Wide& o) const { return !(*this == o); }
  bool operator<(const Wide& o) const { stk_probe(); return *p < *o.p; }
};
static inline int val(const Wide& o) { return o.sound() ? *o.p : -77777777; }
// Rec: an element type with constructors of 0..7 arguments that record what they were given (in the
// order of the parameters).  Its value as printed = arity + 8 * (a0 + 8 * (a1 + 8 * (...))), the
// ctor_val of SeqSpec.v; the arguments are 0..7.  One pointer wide (PoolList item alignment); the
// record lives in its own heap cell, so ASan sees lifetime errors.
struct Rec
{
  int* p; // p[0] = arity, p[1..7] = the arguments
  void mk(int n, int a, int b, int c, int d, int e, int f, int g)
  {
    p = (int*)malloc(sizeof(int) * 8);
    p[0] = n; p[1] = a; p[2] = b; p[3] = c; p[4] = d; p[5] = e; p[6] = f; p[7] = g;
    ++g_live;
  }
  Rec() { mk(0, 0, 0, 0, 0, 0, 0, 0); }
  Rec(int a) { mk(1, a, 0, 0, 0, 0, 0, 0); }
  Rec(int a, int b) { mk(2, a, b, 0, 0, 0, 0, 0); }
  Rec(int a, int b, int c) { mk(3, a, b, c, 0, 0, 0, 0); }
  Rec(int a, int b, int c, int d) { mk(4, a, b, c, d, 0, 0, 0); }
  Rec(int a, int b, int c, int d, int e) { mk(5, a, b, c, d, e, 0, 0); }
  Rec(int a, int b, int c, int d, int e, int f) { mk(6, a, b, c, d, e, f, 0); }
  Rec(int a, int b, int c, int d, int e, int f, int g) { mk(7, a, b, c, d, e, f, g); }
  Rec(const Rec& o) { mk(o.p[0], o.p[1], o.p[2], o.p[3], o.p[4], o.p[5], o.p[6], o.p[7]); }
  ~Rec() { free(p); --g_live; }
  Rec& operator=(const Rec& o) { for(int k = 0; k < 8; ++k) p[k] = o.p[k]; return *this; }
  int value() const { int v = 0; for(int k = p[0]; k >= 1; --k) v = v * 8 + p[k]; return p[0] + 8 * v; }
  bool operator==(const Rec& o) const { return value() == o.value(); }
  bool operator!=(const Rec& o) const { return value() != o.value(); }
  bool operator<(const Rec& o) const { return value() < o.value(); }
};
static inline int val(const Rec& r) { return r.value(); }
static inline int val(int x) { return x; }
static inline int val(long x) { return (int)x; }
template<bool K> static inline int val(const ObjT<K>& o) { return *o.p; }

static void (*g_op)(long, vh::Tok&) = 0;
static void (*g_end)(long) = 0;

// ---------------------------------------------------------------------------------------
// node containers (List<T>, PoolList<T>)
// ---------------------------------------------------------------------------------------
template<class T> static size_t stride(const List<T>&) { return sizeof(typename List<T>::Item); }
template<class T> static size_t stride(const PoolList<T>&) { return sizeof(typename PoolList<T>::Item) + sizeof(T); }

struct BlockRef { const char* base; long serial; };
static int cmp_block(const void* a, const void* b)
{
  const char* x = ((const BlockRef*)a)->base; const char* y = ((const BlockRef*)b)->base;
  return x < y ? -1 : x > y;
}

template<class C> struct Slots
{
  BlockRef* b; long n; size_t st;
  Slots(const C& c) : b(0), n(0), st(stride(c))
  {
    for(typename C::ItemBlock* i = c.blocks; i; i = i->next) ++n;
    b = (BlockRef*)malloc(sizeof(BlockRef) * (n + 1));
    long p = 0;
    for(typename C::ItemBlock* i = c.blocks; i; i = i->next, ++p) { b[p].base = (const char*)(i + 1); b[p].serial = n - 1 - p; }
    qsort(b, n, sizeof(BlockRef), cmp_block);
  }
  ~Slots() { free(b); }
  long of(const void* item) const
  {
    const char* q = (const char*)item;
    long lo = 0, hi = n;
    while(lo < hi) { long m = (lo + hi) / 2; if(b[m].base <= q) lo = m + 1; else hi = m; }
    if(lo == 0) return -1;
    const BlockRef& r = b[lo - 1];
    if(q >= r.base + 4 * st || (size_t)(q - r.base) % st) return -1;
    return r.serial * 4 + (long)((q - r.base) / st);
  }
};

template<class T> static const T* front_of(const List<T>& l) { return &l.front(); }
template<class T> static const T* back_of(const List<T>& l) { return &l.back(); }
#ifdef SEQ_PL_FRONT
template<class T> static const T* front_of(const PoolList<T>& l) { return &l.front(); }
template<class T> static const T* back_of(const PoolList<T>& l) { return &l.back(); }
#else
template<class T> static const T* front_of(const PoolList<T>&) { return 0; } // front()/back() do not compile
template<class T> static const T* back_of(const PoolList<T>&) { return 0; }
#endif

template<class T> static const T* front_of(const Array<T>& l) { return &l.front(); }
template<class T> static const T* back_of(const Array<T>& l) { return &l.back(); }
// non-const front() / back()
template<class T> static T* front_nc(List<T>& l) { return &l.front(); }
template<class T> static T* back_nc(List<T>& l) { return &l.back(); }
template<class T> static T* front_nc(Array<T>& l) { return &l.front(); }
template<class T> static T* back_nc(Array<T>& l) { return &l.back(); }
#ifdef SEQ_PL_FRONT
template<class T> static T* front_nc(PoolList<T>& l) { return &l.front(); }
template<class T> static T* back_nc(PoolList<T>& l) { return &l.back(); }
#else
template<class T> static T* front_nc(PoolList<T>& l) { return &*l.begin(); }
template<class T> static T* back_nc(PoolList<T>& l) { typename PoolList<T>::Iterator it = l.end(); --it; return &*it; }
#endif

enum { MAXWALK = 1000000 };

// The accessors that designate an element without changing the container (`acc ok` / `acc BAD` in the dump of
// every variable): the non-const front() / back() and the const ones give the first / last element; for every
// position operator-> and operator* (const and non-const Iterator) give the same element; the const-qualified
// `Iterator operator++() const` / `operator--() const` give the iterators of the next / previous position; a
// default-constructed Iterator can be assigned to.
template<class C> static bool acc_ok(C& l)
{
  typedef typename C::Iterator It;
  const C& cl = l;
  bool ok = true;
  It d;
  d = cl.begin();
  if(d != cl.begin()) ok = false;
  long k = 0;
  for(It it = cl.begin(), end = cl.end(); it != end && k < MAXWALK; ++it, ++k) {
    const It cit = it;
    if(it.operator->() != &*it) ok = false;
    if(cit.operator->() != &*cit) ok = false;
    if(&*cit != &*it) ok = false;
    It nx = ++cit;   // Iterator operator++() const
    It chk = it;
    ++chk;
    if(nx != chk) ok = false;
    const It cnx = nx;
    It bk = --cnx;   // Iterator operator--() const
    if(bk != it) ok = false;
    It mv = nx;
    --mv;            // const Iterator& operator--()
    if(mv != it) ok = false;
  }
  if(!cl.isEmpty()) {
    It last = cl.end();
    --last;
    if(front_nc(l) != &*cl.begin()) ok = false;
    if(back_nc(l) != &*last) ok = false;
    if(front_of(cl) && front_of(cl) != front_nc(l)) ok = false;
    if(back_of(cl) && back_of(cl) != back_nc(l)) ok = false;
  }
  return ok;
}

template<class C> static void dump_pub(const char* letter, int i, const C& l)
{
  printf("%s%d n %lu e %d ", letter, i, (unsigned long)l.size(), l.isEmpty() ? 1 : 0);
  if(l.isEmpty()) printf("f - b - ");
  else if(!front_of(l)) printf("f ! b ! ");
  else printf("f %d b %d ", val(*front_of(l)), val(*back_of(l)));
  printf("[ ");
  long cnt = 0;
  for(typename C::Iterator it = l.begin(), end = l.end(); it != end && cnt < MAXWALK; ++it) ++cnt;
  int* fw = (int*)malloc(sizeof(int) * (cnt + 1));
  long k = 0;
  const bool brief = cnt > 4096; // `#<hash> <first three> .. <last three>` (the drivers print the same)
  unsigned h = 0;
  for(typename C::Iterator it = l.begin(), end = l.end(); it != end && k < cnt; ++it, ++k) {
    fw[k] = val(*it);
    if(!brief) printf("%d ", fw[k]); else h = (h * 31u + (unsigned)fw[k]) & 0x7fffffffu;
  }
  if(brief) printf("#%u %d %d %d .. %d %d %d ", h, fw[0], fw[1], fw[2], fw[cnt - 3], fw[cnt - 2], fw[cnt - 1]);
  printf("]");
  // backwards from end() to begin(): must be the reverse
  bool ok = cnt < MAXWALK;
  long j = cnt;
  for(typename C::Iterator it = l.end(), beg = l.begin(); it != beg && ok;) {
    --it; --j;
    if(j < 0 || val(*it) != fw[j]) ok = false;
  }
  if(j != 0) ok = false;
  printf(ok ? " rev ok" : " rev BAD");
  printf(acc_ok(const_cast<C&>(l)) ? " acc ok" : " acc BAD");
  free(fw);
}

template<class C> static void dump_int(const char* letter, int i, const C& l)
{
  Slots<C> s(l);
  printf("%s%d s ", letter, i);
  const bool brief = l.size() > 4096; // the slot ids of the nodes as a hash (such cases are not followed by the node-level model)
  unsigned long h = 0;
  long cnt = 0;
  for(typename C::Item* it = l._begin.item; it != &l.endItem && cnt < MAXWALK; it = it->next, ++cnt) {
    if(!brief) printf("%ld ", s.of(it)); else h = h * 31u + (unsigned long)s.of(it);
  }
  if(brief) printf("#%lu ", h);
  printf("/ ");
  cnt = 0;
  for(typename C::Item* it = l.freeItem; it && cnt < MAXWALK; it = it->prev, ++cnt) printf("%ld ", s.of(it));
  printf("/ %ld", s.n);
}

template<class C> static void print_it(const char* tag, const C& l, const typename C::Iterator& r)
{
  if(r == l.end()) { printf("%s=end", tag); return; }
  long k = 0;
  for(typename C::Iterator it = l.begin(), end = l.end(); it != end && k < MAXWALK; ++it, ++k)
    if(it == r) { printf("%s=%ld:%d", tag, k, val(*it)); return; }
  printf("%s=INVALID", tag);
}

template<class C, class T> static void print_ref(const C& l, const T& r)
{
  long k = 0;
  for(typename C::Iterator it = l.begin(), end = l.end(); it != end && k < MAXWALK; ++it, ++k)
    if(&*it == &r) { printf("ref=%ld:%d", k, val(*it)); return; }
  printf("ref=INVALID");
}

template<class C> static typename C::Iterator at(const C& l, long k)
{
  typename C::Iterator it = l.begin();
  for(long j = 0; j < k; ++j) ++it;
  return it;
}

template<class C> struct NodeCase
{
  static C* v[NV];
  static const char* letter;
  static const void* rit; // node of the returned iterator / reference, for the slot dump

  static void fresh() { for(int i = 0; i < NV; ++i) v[i] = new C; }
  static void finish(long c)
  {
    for(int i = 0; i < NV; ++i) { delete v[i]; v[i] = 0; }
    printf("%ld end live %ld\n", c, g_live);
    g_live = 0;
  }
  static void state_out(int var)
  {
    printf(" |");
    for(int i = 0; i < NV; ++i) { printf(" "); dump_pub(letter, i, *v[i]); }
    printf(" |");
    for(int i = 0; i < NV; ++i) { printf(" "); dump_int(letter, i, *v[i]); }
    if(rit && var >= 0) { Slots<C> s(*v[var]); printf(" r %ld", s.of(rit)); }
    else printf(" r -");
    printf(" k %ld\n", g_depth);
    rit = 0; g_depth = 0;
  }
  static void set_it(const C& l, const typename C::Iterator& r) { rit = (r == l.end()) ? 0 : (const void*)r.item; }
};
template<class C> C* NodeCase<C>::v[NV];
template<class C> const char* NodeCase<C>::letter = "L";
template<class C> const void* NodeCase<C>::rit = 0;

static bool idx(const char* s, int& i) { i = atoi(s); return i >= 0 && i < NV; }

template<class T> struct ListCase : NodeCase<List<T> >
{
  typedef List<T> C;
  typedef NodeCase<C> B;
  static void op(long c, vh::Tok& t)
  {
    printf("%ld ", c);
    const char* o = t.v[0];
    int i = -1, j = -1;
    bool okI = t.n > 1 && idx(t.v[1], i);
    bool skip = !okI;
    C* l = okI ? B::v[i] : 0;
    int var = okI ? i : -1;
    if(skip) printf("skip");
    else if(!strcmp(o, "new")) { delete B::v[i]; B::v[i] = new C; printf("-"); }
    else if(!strcmp(o, "app")) { T& r = l->append(T(atoi(t.v[2]))); print_ref(*l, r); B::rit = (const char*)&r - __builtin_offsetof(typename C::Item, value); }
    else if(!strcmp(o, "pre")) { T& r = l->prepend(T(atoi(t.v[2]))); print_ref(*l, r); B::rit = (const char*)&r - __builtin_offsetof(typename C::Item, value); }
    else if(!strcmp(o, "apps")) { for(int k = 2; k < t.n; ++k) l->append(T(atoi(t.v[k]))); printf("-"); }
    else if(!strcmp(o, "appr")) { long a = atol(t.v[2]), n = atol(t.v[3]), d = atol(t.v[4]); for(long k = 0; k < n; ++k) l->append(T((int)(a + k * d))); printf("-"); }
    else if(!strcmp(o, "ins")) {
      long k = atol(t.v[2]);
      if(k < 0 || (usize)k > l->size()) printf("skip");
      else { typename C::Iterator r = l->insert(at(*l, k), T(atoi(t.v[3]))); print_it("it", *l, r); B::set_it(*l, r); }
    }
    else if(!strcmp(o, "insl")) {
      long k = atol(t.v[2]);
      if(!idx(t.v[3], j) || k < 0 || (usize)k > l->size()) printf("skip");
      else { typename C::Iterator r = l->insert(at(*l, k), *B::v[j]); print_it("it", *l, r); B::set_it(*l, r); }
    }
    else if(!strcmp(o, "appl")) { if(!idx(t.v[2], j)) printf("skip"); else { l->append(*B::v[j]); printf("-"); } }
    else if(!strcmp(o, "prel")) { if(!idx(t.v[2], j)) printf("skip"); else { l->prepend(*B::v[j]); printf("-"); } }
    else if(!strcmp(o, "rem")) {
      long k = atol(t.v[2]);
      if(k < 0 || (usize)k >= l->size()) printf("skip");
      else { typename C::Iterator r = l->remove(at(*l, k)); print_it("it", *l, r); B::set_it(*l, r); }
    }
    else if(!strcmp(o, "remv")) { l->remove(T(atoi(t.v[2]))); printf("-"); }
    else if(!strcmp(o, "remf")) { if(l->size() == 0) printf("skip"); else { typename C::Iterator r = l->removeFront(); print_it("it", *l, r); B::set_it(*l, r); } }
    else if(!strcmp(o, "remb")) { if(l->size() == 0) printf("skip"); else { typename C::Iterator r = l->removeBack(); print_it("it", *l, r); B::set_it(*l, r); } }
    else if(!strcmp(o, "find")) { typename C::Iterator r = l->find(T(atoi(t.v[2]))); print_it("it", *l, r); B::set_it(*l, r); }
    else if(!strcmp(o, "clear")) { l->clear(); printf("-"); }
    else if(!strcmp(o, "swap")) { if(!idx(t.v[2], j)) printf("skip"); else { l->swap(*B::v[j]); printf("-"); } }
    else if(!strcmp(o, "eq")) { if(!idx(t.v[2], j)) printf("skip"); else printf((*l == *B::v[j]) ? "true" : "false"); }
    else if(!strcmp(o, "ne")) { if(!idx(t.v[2], j)) printf("skip"); else printf((*l != *B::v[j]) ? "true" : "false"); }
    else if(!strcmp(o, "copy")) { if(!idx(t.v[2], j)) printf("skip"); else { C* n = new C(*B::v[j]); delete B::v[i]; B::v[i] = n; printf("-"); } }
    else if(!strcmp(o, "asg")) { if(!idx(t.v[2], j)) printf("skip"); else { *l = *B::v[j]; printf("-"); } }
    else if(!strcmp(o, "sort")) { run_sort(l); printf("-"); }
    else printf("?unknown-op");
    B::state_out(var);
  }
  static void start() { B::letter = "L"; B::fresh(); g_op = op; g_end = B::finish; }
};

// PoolList::append with n = 0..7 constructor arguments (eight distinct member templates).  Only Rec has
// all the constructors; for the other element kinds `appn` is not an operation.
template<class T> struct AppN
{
  enum { yes = 0 };
  static T* go(PoolList<T>&, int, const int*) { return 0; }
};
template<> struct AppN<Rec>
{
  enum { yes = 1 };
  static Rec* go(PoolList<Rec>& l, int n, const int* a)
  {
    switch(n) {
    case 0: return &l.append();
    case 1: return &l.append(a[0]);
    case 2: return &l.append(a[0], a[1]);
    case 3: return &l.append(a[0], a[1], a[2]);
    case 4: return &l.append(a[0], a[1], a[2], a[3]);
    case 5: return &l.append(a[0], a[1], a[2], a[3], a[4]);
    case 6: return &l.append(a[0], a[1], a[2], a[3], a[4], a[5]);
    case 7: return &l.append(a[0], a[1], a[2], a[3], a[4], a[5], a[6]);
    }
    return 0;
  }
};

template<class T> struct PListCase : NodeCase<PoolList<T> >
{
  typedef PoolList<T> C;
  typedef NodeCase<C> B;
  static void op(long c, vh::Tok& t)
  {
    printf("%ld ", c);
    const char* o = t.v[0];
    int i = -1, j = -1;
    bool okI = t.n > 1 && idx(t.v[1], i);
    C* l = okI ? B::v[i] : 0;
    int var = okI ? i : -1;
    if(!okI) printf("skip");
    else if(!strcmp(o, "new")) { delete B::v[i]; B::v[i] = new C; printf("-"); }
    else if(AppN<T>::yes && (!strcmp(o, "appn") || !strcmp(o, "app"))) {
      // appn i a b c ... : append(a, b, c, ...); arguments 0..7, at most 7 of them (else not an operation: skip)
      int n = t.n - 2, a[7] = {0, 0, 0, 0, 0, 0, 0};
      bool ok = n <= 7 && (n == 1 || strcmp(o, "app"));
      for(int k = 0; ok && k < n; ++k) { a[k] = atoi(t.v[k + 2]); if(a[k] < 0 || a[k] > 7) ok = false; }
      if(!ok) printf("skip");
      else { T& r = *AppN<T>::go(*l, n, a); print_ref(*l, r); B::rit = (const char*)&r - sizeof(typename C::Item); }
    }
    else if(!strcmp(o, "app")) { T& r = l->append(atoi(t.v[2])); print_ref(*l, r); B::rit = (const char*)&r - sizeof(typename C::Item); }
    else if(!strcmp(o, "rem")) {
      long k = atol(t.v[2]);
      if(k < 0 || (usize)k >= l->size()) printf("skip");
      else { typename C::Iterator r = l->remove(at(*l, k)); print_it("it", *l, r); B::set_it(*l, r); }
    }
    else if(!strcmp(o, "remr")) {
      long k = atol(t.v[2]);
      if(k < 0 || (usize)k >= l->size()) printf("skip");
      else { typename C::Iterator it = at(*l, k); const T& e = *it; l->remove(e); printf("-"); }
    }
    else if(!strcmp(o, "remf")) { if(l->size() == 0) printf("skip"); else { typename C::Iterator r = l->removeFront(); print_it("it", *l, r); B::set_it(*l, r); } }
    else if(!strcmp(o, "remb")) { if(l->size() == 0) printf("skip"); else { typename C::Iterator r = l->removeBack(); print_it("it", *l, r); B::set_it(*l, r); } }
    else if(!strcmp(o, "clear")) { l->clear(); printf("-"); }
    else if(!strcmp(o, "swap")) { if(!idx(t.v[2], j)) printf("skip"); else { l->swap(*B::v[j]); printf("-"); } }
    else printf("?unknown-op");
    B::state_out(var);
  }
  static void start() { B::letter = "P"; B::fresh(); g_op = op; g_end = B::finish; }
};

// ---------------------------------------------------------------------------------------
// Array<T>
// ---------------------------------------------------------------------------------------
template<class T> struct ArrayCase
{
  typedef Array<T> C;
  static C* v[NV];
  static void finish(long c)
  {
    for(int i = 0; i < NV; ++i) { delete v[i]; v[i] = 0; }
    printf("%ld end live %ld\n", c, g_live);
    g_live = 0;
  }
  static void print_it(const C& a, const typename C::Iterator& r)
  {
    if(r == a.end()) { printf("it=end"); return; }
    long k = 0;
    for(typename C::Iterator it = a.begin(), end = a.end(); it != end; ++it, ++k)
      if(it == r) { printf("it=%ld:%d", k, val(*it)); return; }
    printf("it=INVALID");
  }
  static typename C::Iterator at(const C& a, long k)
  {
    typename C::Iterator it = a.begin();
    for(long j = 0; j < k; ++j) ++it;
    return it;
  }
  static void state_out()
  {
    printf(" |");
    for(int i = 0; i < NV; ++i) {
      const C& a = *v[i];
      printf(" A%d n %lu e %d c %lu ", i, (unsigned long)a.size(), a.isEmpty() ? 1 : 0, (unsigned long)a.capacity());
      if(a.isEmpty()) printf("f - b - "); else printf("f %d b %d ", val(a.front()), val(a.back()));
      printf("[ ");
      long k = 0;
      const T* raw = a;
      bool same = true;
      const bool brief = a.size() > 4096; // `#<hash> <first three> .. <last three>` (the drivers print the same)
      unsigned h = 0;
      for(typename C::Iterator it = a.begin(), end = a.end(); it != end; ++it, ++k) {
        if(!brief) printf("%d ", val(*it)); else h = (h * 31u + (unsigned)val(*it)) & 0x7fffffffu;
        if(&*it != raw + k) same = false;
      }
      if(brief) printf("#%u %d %d %d .. %d %d %d ", h, val(raw[0]), val(raw[1]), val(raw[2]), val(raw[k - 3]), val(raw[k - 2]), val(raw[k - 1]));
      printf(same && (usize)k == a.size() ? "]" : "] ptr BAD");
      printf(acc_ok(*v[i]) ? " acc ok" : " acc BAD");
    }
    printf(" |");
    for(int i = 0; i < NV; ++i) printf(" A%d a %d", i, v[i]->_begin.item ? 1 : 0);
    printf("\n");
  }
  static void op(long c, vh::Tok& t)
  {
    printf("%ld ", c);
    const char* o = t.v[0];
    int i = -1, j = -1;
    bool okI = t.n > 1 && idx(t.v[1], i);
    C* a = okI ? v[i] : 0;
    if(!okI) printf("skip");
    else if(!strcmp(o, "new")) { delete v[i]; v[i] = new C; printf("-"); }
    else if(!strcmp(o, "newc")) { long n = atol(t.v[2]); if(n < 0) printf("skip"); else { delete v[i]; v[i] = new C((usize)n); printf("-"); } }
    else if(!strcmp(o, "copy")) { if(!idx(t.v[2], j)) printf("skip"); else { C* n = new C(*v[j]); delete v[i]; v[i] = n; printf("-"); } }
    else if(!strcmp(o, "asg")) { if(!idx(t.v[2], j)) printf("skip"); else { *a = *v[j]; printf("-"); } }
    else if(!strcmp(o, "res")) { long n = atol(t.v[2]); if(n < 0) printf("skip"); else { a->reserve((usize)n); printf("-"); } }
    else if(!strcmp(o, "rsz")) { long n = atol(t.v[2]); if(n < 0) printf("skip"); else { a->resize((usize)n); printf("-"); } }
    else if(!strcmp(o, "rszv")) { long n = atol(t.v[2]); if(n < 0) printf("skip"); else { a->resize((usize)n, T(atoi(t.v[3]))); printf("-"); } }
    else if(!strcmp(o, "app")) {
      T& r = a->append(T(atoi(t.v[2])));
      const T* raw = *a;
      long k = &r - raw;
      if(k >= 0 && (usize)k < a->size()) printf("ref=%ld:%d", k, val(r)); else printf("ref=INVALID");
    }
    else if(!strcmp(o, "appe")) { // append(a[k]): the argument refers to an element of the array itself
      long k = atol(t.v[2]);
      if(k < 0 || (usize)k >= a->size()) printf("skip");
      else {
        T& r = a->append((*a)[k]);
        const T* raw = *a;
        long p = &r - raw;
        if(p >= 0 && (usize)p < a->size()) printf("ref=%ld:%d", p, val(r)); else printf("ref=INVALID");
      }
    }
    else if(!strcmp(o, "rsze")) { // resize(n, a[k])
      long n = atol(t.v[2]), k = atol(t.v[3]);
      if(n < 0 || k < 0 || (usize)k >= a->size()) printf("skip");
      else { a->resize((usize)n, (*a)[k]); printf("-"); }
    }
    else if(!strcmp(o, "appa")) { if(!idx(t.v[2], j)) printf("skip"); else { a->append(*v[j]); printf("-"); } }
    else if(!strcmp(o, "appb")) {
      int n = t.n - 2;
      T* buf = (T*)malloc(n ? sizeof(T) * n : 1); // exact size: an over-read is an ASan report
      for(int k = 0; k < n; ++k) new(buf + k) T(atoi(t.v[k + 2]));
      a->append(buf, (usize)n);
      for(int k = 0; k < n; ++k) buf[k].~T();
      free(buf);
      printf("-");
    }
    else if(!strcmp(o, "appr")) { // append(buf, n) with buf = start, start + step, ...: n values
      long st = atol(t.v[2]), n = t.n > 4 ? atol(t.v[3]) : 0, d = t.n > 4 ? atol(t.v[4]) : 0;
      if(n < 0) n = 0;
      T* buf = (T*)malloc(n ? sizeof(T) * n : 1);
      for(long k = 0; k < n; ++k) new(buf + k) T((int)(st + k * d));
      a->append(buf, (usize)n);
      for(long k = 0; k < n; ++k) buf[k].~T();
      free(buf);
      printf("-");
    }
    else if(!strcmp(o, "appo")) { // append(&a[off], n): the buffer is a range of the array's own storage
      long off = atol(t.v[2]), n = t.n > 3 ? atol(t.v[3]) : -1;
      if(off < 0 || n < 0 || (usize)(off + n) > a->size()) printf("skip");
      else { const T* raw = *a; a->append(raw + off, (usize)n); printf("-"); }
    }
    else if(!strcmp(o, "remi")) { long k = atol(t.v[2]); if(k < 0) printf("skip"); else { a->remove((usize)k); printf("-"); } }
    else if(!strcmp(o, "rem")) {
      long k = atol(t.v[2]);
      if(k < 0 || (usize)k >= a->size()) printf("skip");
      else { typename C::Iterator r = a->remove(at(*a, k)); print_it(*a, r); }
    }
    else if(!strcmp(o, "remf")) { if(a->size() == 0) printf("skip"); else { typename C::Iterator r = a->removeFront(); print_it(*a, r); } }
    else if(!strcmp(o, "remb")) { if(a->size() == 0) printf("skip"); else { typename C::Iterator r = a->removeBack(); print_it(*a, r); } }
    else if(!strcmp(o, "find")) { typename C::Iterator r = a->find(T(atoi(t.v[2]))); print_it(*a, r); }
    else if(!strcmp(o, "clear")) { a->clear(); printf("-"); }
    else if(!strcmp(o, "swap")) { if(!idx(t.v[2], j)) printf("skip"); else { a->swap(*v[j]); printf("-"); } }
    else if(!strcmp(o, "eq")) { if(!idx(t.v[2], j)) printf("skip"); else printf((*a == *v[j]) ? "true" : "false"); }
    else if(!strcmp(o, "ne")) { if(!idx(t.v[2], j)) printf("skip"); else printf((*a != *v[j]) ? "true" : "false"); }
    else printf("?unknown-op");
    state_out();
  }
  static void start() { for(int i = 0; i < NV; ++i) v[i] = new C; g_op = op; g_end = finish; }
};
template<class T> typename ArrayCase<T>::C* ArrayCase<T>::v[NV];

// ---------------------------------------------------------------------------------------
// PoolList lays its items out at a stride of sizeof(Item) + sizeof(T): the element type used for
// it must have a size that is a multiple of the pointer size, or every other item header is
// misaligned (outside the statement of C03, see level_note).  The plain-integer kind is `long` there.
template<class T> struct PoolElem { typedef T type; };
template<> struct PoolElem<int> { typedef long type; };

template<class T> static void start_kind(const char* cont)
{
  if(!strcmp(cont, "list")) ListCase<T>::start();
  else if(!strcmp(cont, "plist")) PListCase<typename PoolElem<T>::type>::start();
  else ArrayCase<T>::start();
}

static void begin(long, vh::Tok& t)
{
  const char* cont = t.n > 2 ? t.v[2] : "list";
  const char* kind = t.n > 3 ? t.v[3] : "int";
  g_live = 0;
  g_stack_kb = (t.n > 4 && !strncmp(t.v[4], "stack=", 6)) ? atol(t.v[4] + 6) : 0;
  if(!strcmp(kind, "obj")) start_kind<ObjT<false> >(cont);
  else if(!strcmp(kind, "kv")) start_kind<ObjT<true> >(cont);
  else if(!strcmp(kind, "wide")) start_kind<Wide>(cont);
  else if(!strcmp(kind, "rec")) PListCase<Rec>::start(); // the kind of the PoolList::append arities; PoolList only
  else start_kind<int>(cont);
}

static void op(long c, long, vh::Tok& t) { if(g_op) g_op(c, t); }
static void end(long c) { if(g_end) g_end(c); g_op = 0; g_end = 0; }

int main(int argc, char** argv) { return vh::run(argc, argv, begin, op, end); }
