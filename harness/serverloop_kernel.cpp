// Simulated kernel for C14 (DESIGN E5).  This translation unit DEFINES clock_gettime, epoll_ctl,
// epoll_wait, send, recv, accept4, connect and getsockopt, so the libnstd objects linked into the
// harness executable call these instead of libc's (forwarded with dlsym(RTLD_NEXT) when the
// call does not concern the Server under test).
//  * clock_gettime(CLOCK_MONOTONIC) is a virtual millisecond clock moved only by the test.
//  * epoll_ctl is recorded (descriptor -> object of the test, native mask, user data) and
//    forwarded to the real epoll instance (which validates the ADD/MOD/DEL sequence).
//  * epoll_wait never blocks: it consumes the next item of the script of the current run()
//    (time passes by dt, the named registered objects are reported with the given native bits);
//    when the script is exhausted "another thread" calls Server::interrupt().  The event
//    descriptor is reported whenever it is readable (level triggered), queried from the real
//    descriptor.  Round 5:
//    - like the real call it returns AS MANY events as the caller asks for: at most maxevents-1
//      sockets (one entry stays free for the event descriptor); an item marked `+` ("<dt>+:…")
//      continues the previous one (sockets that were ready at the same moment): a call with room
//      left takes it in the same call.  The generators cut a crowd of ready sockets into a first
//      item of 63 and `+` items, which is what a caller with a 64-entry array gets from the kernel;
//      a caller that asks for more gets more (`merged`; ASan sees the overflow of its array), one that asks for less gets the
//      rest of the item with its next calls (`partial <n>`, `item more`);
//    - an item marked `!` ("<dt>!") is a signal handled while the loop waits: -1/EINTR after dt
//      (only when nothing is ready - otherwise the call returns what is ready, as the real one);
//    - a negative time-out with nothing ready would block without limit: `! hang …`;
//    - LEVEL TRIGGERED: a socket that was reported with bits inside its interest stays ready until
//      the loop does something with it (send/recv/accept/SO_ERROR on the descriptor, a callback of
//      the client, a change of its registration); whatever is still ready at the next epoll_wait is
//      reported again (`rereport <name>`), and when the script has run out the interrupt of the
//      other thread is held back for up to 3 such calls (`item rereport`).  The unchanged code
//      dispatches every reported socket before it waits again, so none of this shows in its log.
//  * send/recv on client descriptors, accept4 on listener descriptors, SO_ERROR on establisher
//    descriptors are answered from scripted queues (defaults: send everything, would block,
//    accept, no error).  An accepted connection is one end of a fresh socket pair.
// Every intercepted call prints one observation line.  C interface only (no nstd headers here).
#ifndef _GNU_SOURCE
#define _GNU_SOURCE
#endif
#include <stdio.h>
#include <stdlib.h>
#include <string.h>
#include <errno.h>
#include <dlfcn.h>
#include <unistd.h>
#include <time.h>
#include <poll.h>
#include <sys/types.h>
#include <sys/socket.h>
#include <sys/epoll.h>
#include <netinet/in.h>
#include <netdb.h>
#include <semaphore.h>
#include "serverloop_kernel.h"

typedef int (*clock_gettime_fn)(clockid_t, struct timespec*);
typedef ssize_t (*send_fn)(int, const void*, size_t, int);
typedef ssize_t (*recv_fn)(int, void*, size_t, int);
typedef int (*epoll_ctl_fn)(int, int, int, struct epoll_event*);
typedef int (*epoll_wait_fn)(int, struct epoll_event*, int, int);
typedef int (*accept4_fn)(int, struct sockaddr*, socklen_t*, int);
typedef int (*connect_fn)(int, const struct sockaddr*, socklen_t);
typedef int (*getsockopt_fn)(int, int, int, void*, socklen_t*);
typedef ssize_t (*write_fn)(int, const void*, size_t);
typedef int (*getaddrinfo_fn)(const char*, const char*, const struct addrinfo*, struct addrinfo**);
typedef void (*freeaddrinfo_fn)(struct addrinfo*);

static clock_gettime_fn real_clock_gettime;
static send_fn real_send;
static recv_fn real_recv;
static epoll_ctl_fn real_epoll_ctl;
static epoll_wait_fn real_epoll_wait;
static accept4_fn real_accept4;
static connect_fn real_connect;
static getsockopt_fn real_getsockopt;
static write_fn real_write;
static getaddrinfo_fn real_getaddrinfo;
static freeaddrinfo_fn real_freeaddrinfo;

static void resolve()
{
  if(real_send) return;
  real_clock_gettime = (clock_gettime_fn)dlsym(RTLD_NEXT, "clock_gettime");
  real_send = (send_fn)dlsym(RTLD_NEXT, "send");
  real_recv = (recv_fn)dlsym(RTLD_NEXT, "recv");
  real_epoll_ctl = (epoll_ctl_fn)dlsym(RTLD_NEXT, "epoll_ctl");
  real_epoll_wait = (epoll_wait_fn)dlsym(RTLD_NEXT, "epoll_wait");
  real_accept4 = (accept4_fn)dlsym(RTLD_NEXT, "accept4");
  real_connect = (connect_fn)dlsym(RTLD_NEXT, "connect");
  real_getsockopt = (getsockopt_fn)dlsym(RTLD_NEXT, "getsockopt");
  real_write = (write_fn)dlsym(RTLD_NEXT, "write");
  real_getaddrinfo = (getaddrinfo_fn)dlsym(RTLD_NEXT, "getaddrinfo");
  real_freeaddrinfo = (freeaddrinfo_fn)dlsym(RTLD_NEXT, "freeaddrinfo");
  if(!real_clock_gettime || !real_send || !real_recv || !real_epoll_ctl || !real_epoll_wait || !real_accept4 || !real_connect || !real_getsockopt) {
    fprintf(stderr, "simulated kernel: dlsym failed\n"); abort();
  }
}

#define MAXFD 4096
struct FdInfo { char kind; long id; int registered; unsigned mask; epoll_data_t data; unsigned sticky; };
static FdInfo fds[MAXFD];

static slk_emit_fn emit_cb; static slk_peek_fn peek_cb; static slk_announce_fn announce_cb; static slk_foreign_fn foreign_cb; static slk_now_fn now_cb;
static int armed = 0, in_run = 0, depth = 0, connect_mode = 0;
static long long vclock = 0, last_now = 0;
static int evfd = -1;
static char exp_kind = 0; static long exp_id = 0;

struct Ready { char kind; long id; unsigned bits; };
struct Item { long long dt; int n; int cont, eintr; Ready r[64]; };
#define MAXITEMS 512
static Item items[MAXITEMS]; static int nitems = 0, curitem = 0, curpos = 0, drains = 0;

struct Out { int kind; long k; };
#define QCAP 1024
struct Queue { Out q[QCAP]; int h, t; };
static Queue sendq, recvq, acceptq, connq;
static void q_push(Queue& q, int kind, long k) { if(q.t < QCAP) { q.q[q.t].kind = kind; q.q[q.t].k = k; ++q.t; } }
static int q_pop(Queue& q, Out& o) { if(q.h < q.t) { o = q.q[q.h++]; return 1; } return 0; }

static int peers[MAXFD]; static int npeers = 0;

static void emitf(const char* fmt, ...) __attribute__((format(printf, 1, 2)));
#include <stdarg.h>
static void emitf(const char* fmt, ...)
{
  char buf[256];
  va_list ap; va_start(ap, fmt); vsnprintf(buf, sizeof(buf), fmt, ap); va_end(ap);
  if(emit_cb) emit_cb(buf);
}

extern "C" void slk_reset(slk_emit_fn emit, slk_peek_fn peek, slk_announce_fn announce, slk_foreign_fn foreign, slk_now_fn now)
{
  resolve();
  emit_cb = emit; peek_cb = peek; announce_cb = announce; foreign_cb = foreign; now_cb = now;
  memset(fds, 0, sizeof(fds));
  armed = 0; in_run = 0; depth = 0; connect_mode = 0; vclock = 0; last_now = 0; evfd = -1; exp_kind = 0;
  nitems = curitem = curpos = drains = 0;
  sendq.h = sendq.t = recvq.h = recvq.t = acceptq.h = acceptq.t = connq.h = connq.t = 0;
  for(int i = 0; i < npeers; ++i) close(peers[i]);
  npeers = 0;
}
extern "C" void slk_arm(int on) { armed = on; }
extern "C" long long slk_clock() { return vclock; }
extern "C" void slk_adv(long long d) { vclock += d; }
extern "C" long long slk_last_now() { return last_now; }
extern "C" void slk_in_run(int on) { in_run = on; }
extern "C" void slk_depth(int delta) { depth += delta; }
extern "C" void slk_expect(char kind, long id) { exp_kind = kind; exp_id = id; }
extern "C" void slk_connect_mode(int on) { connect_mode = on; }
extern "C" void slk_script_clear() { nitems = curitem = curpos = drains = 0; }
extern "C" int slk_script_add(const char* tok)
{
  if(nitems >= MAXITEMS) return 0;
  Item& it = items[nitems];
  it.n = 0; it.cont = it.eintr = 0;
  char* end = 0;
  it.dt = strtoll(tok, &end, 10);
  if(*end == '+') { it.cont = 1; ++end; }
  if(*end == '!') { it.eintr = 1; ++end; }
  if(*end == ':') {
    const char* p = end + 1;
    while(*p) {
      if(*p == ',') { ++p; continue; }
      Ready r; r.kind = *p++;
      r.id = strtol(p, &end, 10); p = end;
      if(*p != '=') return 0;
      ++p;
      r.bits = (unsigned)strtoul(p, &end, 10); p = end;
      if(it.n < 64) it.r[it.n++] = r;
    }
  } else if(*end) return 0;
  ++nitems;
  return 1;
}
extern "C" void slk_push_send(int kind, long k) { q_push(sendq, kind, k); }
extern "C" void slk_push_recv(int kind, long k) { q_push(recvq, kind, k); }
extern "C" void slk_push_accept(int ok) { q_push(acceptq, ok, 0); }
extern "C" void slk_push_conn(long err) { q_push(connq, 0, err); }

extern "C" int slk_evfd_readable()
{
  if(evfd < 0) return 0;
  struct pollfd p; p.fd = evfd; p.events = POLLIN; p.revents = 0;
  return poll(&p, 1, 0) == 1 && (p.revents & POLLIN) ? 1 : 0;
}

static int cmp_str(const void* a, const void* b) { return strcmp((const char*)a, (const char*)b); }
extern "C" size_t slk_reg_dump(char* buf, size_t cap)
{
  static char names[MAXFD][32];
  int n = 0;
  for(int fd = 0; fd < MAXFD; ++fd)
    if(fds[fd].registered && fds[fd].kind)
      snprintf(names[n++], 32, "%c%ld:%u", fds[fd].kind, fds[fd].id, fds[fd].mask);
  // the model's driver sorts by the object's name: compare up to the ':'
  for(int i = 0; i < n; ++i) *strchr(names[i], ':') = 0;
  qsort(names, n, 32, cmp_str);
  size_t len = 0; buf[0] = 0;
  for(int i = 0; i < n; ++i) {
    names[i][strlen(names[i])] = ':';
    int w = snprintf(buf + len, cap - len, "%s%s", i ? "," : "", names[i]);
    if(w < 0 || (size_t)w >= cap - len) break;
    len += (size_t)w;
  }
  if(n == 0) { snprintf(buf, cap, "-"); len = 1; }
  return len;
}

// python/Coq mirror of Socket::Poll::unmapEvents on the registrations a Server makes: is anything of `native` inside the interest `mask`?
static int inside_interest(unsigned native, unsigned mask)
{
  int rd = (mask & EPOLLIN) != 0, wr = (mask & EPOLLOUT) != 0, r = 0;
  if((native & (EPOLLIN | EPOLLRDHUP | EPOLLHUP)) && rd) r = 1;
  if(((native & EPOLLOUT) || (!r && (native & (EPOLLRDHUP | EPOLLHUP)))) && wr) r = 1;
  return r;
}
static void unstick(int fd) { if(fd >= 0 && fd < MAXFD) fds[fd].sticky = 0; }
extern "C" void slk_touch(char kind, long id)
{
  for(int fd = 0; fd < MAXFD; ++fd) if(fds[fd].kind == kind && fds[fd].id == id) fds[fd].sticky = 0;
}

static unsigned native_of(unsigned bits)
{
  unsigned n = 0;
  if(bits & 1) n |= EPOLLIN;
  if(bits & 2) n |= EPOLLOUT;
  if(bits & 4) n |= EPOLLRDHUP;
  if(bits & 8) n |= EPOLLHUP;
  if(bits & 16) n |= EPOLLERR;
  return n;
}

static void name_of(int fd, char* buf, size_t cap)
{
  if(fd >= 0 && fd < MAXFD && fds[fd].kind) snprintf(buf, cap, "%c%ld", fds[fd].kind, fds[fd].id);
  else snprintf(buf, cap, "?fd");
}

extern "C" int clock_gettime(clockid_t clk, struct timespec* ts)
{
  resolve();
  if(!armed || clk != CLOCK_MONOTONIC)
    return real_clock_gettime(clk, ts);
  ts->tv_sec = (time_t)(vclock / 1000);
  ts->tv_nsec = (long)(vclock % 1000) * 1000000L;
  if(in_run && depth == 0) { last_now = vclock; emitf("now %lld", vclock); if(now_cb) now_cb(); }
  return 0;
}

extern "C" int epoll_ctl(int epfd, int op, int fd, struct epoll_event* ev)
{
  resolve();
  if(!armed || fd < 0 || fd >= MAXFD)
    return real_epoll_ctl(epfd, op, fd, ev);
  if(op == EPOLL_CTL_ADD && ev && ev->data.ptr == 0) {   // the Poll object registers its event descriptor
    evfd = fd;
    return real_epoll_ctl(epfd, op, fd, ev);
  }
  FdInfo& f = fds[fd];
  char name[32];
  if(op == EPOLL_CTL_ADD) {
    if(exp_kind) { f.kind = exp_kind; f.id = exp_id; exp_kind = 0; f.registered = 0; }
    f.sticky = 0;
    name_of(fd, name, sizeof(name));
    if(f.registered) emitf("! ctl add of a registered descriptor %s", name);
    emitf("ctl add %s %u", name, ev->events);
    f.registered = 1; f.mask = ev->events; f.data = ev->data;
  } else if(op == EPOLL_CTL_MOD) {
    name_of(fd, name, sizeof(name));
    emitf("ctl mod %s %u", name, ev->events);
    f.mask = ev->events; f.data = ev->data; f.sticky = 0;
  } else {
    name_of(fd, name, sizeof(name));
    emitf("ctl del %s 0", name);
    f.registered = 0; f.mask = 0; f.sticky = 0;
  }
  int rc = real_epoll_ctl(epfd, op, fd, ev);
  if(rc != 0) emitf("! epoll_ctl failed errno=%d", errno);
  return rc;
}

// ---- hooks for the real-kernel (two-thread) rounds ------------------------------------------------
static volatile long wait_entries = 0, lookups_done = 0;
static __thread int stall_mode = 0, stall_usec = 0;
static sem_t lookup_sem; static int lookup_sem_init = 0; static volatile int lookup_ok = 0;
struct OurAi { struct addrinfo ai; struct sockaddr_in sin; };

extern "C" void slk_thread_stall(int mode, int usec) { stall_mode = mode; stall_usec = usec; }
extern "C" long slk_wait_entries(void) { return __sync_add_and_fetch(&wait_entries, 0); }
extern "C" long slk_lookups_done(void) { return __sync_add_and_fetch(&lookups_done, 0); }
static void lookup_init() { if(!lookup_sem_init) { sem_init(&lookup_sem, 0, 0); lookup_sem_init = 1; } }
extern "C" void slk_lookup_release(int ok) { lookup_init(); lookup_ok = ok; __sync_synchronize(); sem_post(&lookup_sem); }

extern "C" ssize_t write(int fd, const void* data, size_t n)
{
  resolve();
  if(fd != evfd || evfd < 0 || !stall_mode)
    return real_write(fd, data, n);
  if(stall_mode == 2) usleep((useconds_t)stall_usec);
  ssize_t r = real_write(fd, data, n);
  if(stall_mode == 1) usleep((useconds_t)stall_usec);
  return r;
}

extern "C" int getaddrinfo(const char* node, const char* service, const struct addrinfo* hints, struct addrinfo** res)
{
  resolve();
  if(!node || strcmp(node, "verif.test") != 0)
    return real_getaddrinfo(node, service, hints, res);
  lookup_init();
  while(sem_wait(&lookup_sem) != 0) {}
  int ok = lookup_ok;
  int rc = EAI_NONAME;
  if(ok) {
    OurAi* o = (OurAi*)calloc(1, sizeof(OurAi));
    o->sin.sin_family = AF_INET; o->sin.sin_addr.s_addr = htonl(0x7f000001);
    o->ai.ai_family = AF_INET; o->ai.ai_socktype = SOCK_STREAM; o->ai.ai_addrlen = sizeof(o->sin); o->ai.ai_addr = (struct sockaddr*)&o->sin;
    o->ai.ai_flags = 0x56455249;   // marks the block as ours for freeaddrinfo
    *res = &o->ai; rc = 0;
  }
  __sync_add_and_fetch(&lookups_done, 1);
  return rc;
}

extern "C" void freeaddrinfo(struct addrinfo* ai)
{
  resolve();
  if(ai && ai->ai_flags == 0x56455249 && ai->ai_addr == (struct sockaddr*)&((OurAi*)ai)->sin) { free(ai); return; }
  real_freeaddrinfo(ai);
}

static int report(struct epoll_event* events, int m, int fd, unsigned native)
{
  events[m].events = native;
  events[m].data = fds[fd].data;
  if(inside_interest(native, fds[fd].mask)) fds[fd].sticky = native;
  return m + 1;
}

extern "C" int epoll_wait(int epfd, struct epoll_event* events, int maxevents, int timeout)
{
  resolve();
  __sync_add_and_fetch(&wait_entries, 1);
  if(!armed)
    return real_epoll_wait(epfd, events, maxevents, timeout);
  emitf("wait %d", timeout);
  int m = 0;
  int cap = maxevents - 1;            // one entry stays free for the event descriptor
  static unsigned char reported[MAXFD];
  memset(reported, 0, sizeof(reported));
  int still = 0;
  for(int fd = 0; fd < MAXFD; ++fd) if(fds[fd].sticky && fds[fd].registered) ++still;
  if(curitem < nitems) {
    Item* it = &items[curitem];
    emitf(curpos == 0 ? "item script" : "item more");     // more: the rest of an item that did not fit into the caller's array
    if(curpos == 0) vclock += it->dt;
    if(it->eintr && !still && !slk_evfd_readable()) {   // a signal handler ran while the loop waited
      ++curitem; curpos = 0;
      errno = EINTR;
      return -1;
    }
    for(;;) {
      for(; curpos < it->n && m < cap; ++curpos) {
        for(int fd = 0; fd < MAXFD; ++fd)
          if(fds[fd].registered && fds[fd].kind == it->r[curpos].kind && fds[fd].id == it->r[curpos].id) {
            m = report(events, m, fd, native_of(it->r[curpos].bits));
            reported[fd] = 1;
            break;
          }
      }
      if(curpos < it->n) { emitf("partial %d", curpos); break; }   // the caller's array is full: the rest with the next call (`item more`)
      ++curitem; curpos = 0;
      if(curitem < nitems && items[curitem].cont && m < cap) { it = &items[curitem]; vclock += it->dt; emitf("merged"); continue; }
      break;
    }
  } else if(still && drains < 3) {
    ++drains;
    emitf("item rereport");
  } else {
    emitf("item foreign");
    if(foreign_cb) foreign_cb();
  }
  // level triggered: what was reported and has not been touched since is still ready
  for(int fd = 0; fd < MAXFD && m < cap; ++fd)
    if(fds[fd].sticky && fds[fd].registered && !reported[fd]) {
      char name[32]; name_of(fd, name, sizeof(name));
      emitf("rereport %s", name);
      m = report(events, m, fd, fds[fd].sticky);
    }
  if(slk_evfd_readable() && m < maxevents) {
    events[m].events = EPOLLIN;
    events[m].data.ptr = 0;
    ++m;
  }
  if(m == 0 && timeout < 0)
    emitf("! hang: epoll_wait with the negative time-out %d blocks without limit (nothing is ready, nobody interrupts)", timeout);
  return m;
}

extern "C" ssize_t send(int fd, const void* data, size_t n, int flags)
{
  resolve();
  if(!armed || fd < 0 || fd >= MAXFD || fds[fd].kind != 'c')
    return real_send(fd, data, n, flags);
  Out o; long r;
  unstick(fd);
  if(!q_pop(sendq, o)) { o.kind = 2; o.k = (long)n; }
  const char* who = depth == 0 ? "d" : "w";
  if(o.kind == 0) { emitf("send c%ld %zu -1 %s", fds[fd].id, n, who); errno = EAGAIN; return -1; }
  if(o.kind == 1) { emitf("send c%ld %zu -2 %s", fds[fd].id, n, who); errno = ECONNRESET; return -1; }
  r = o.k; if(r > (long)n) r = (long)n; if(r < 0) r = 0;
  emitf("send c%ld %zu %ld %s%s", fds[fd].id, n, r, who, (flags & MSG_NOSIGNAL) ? "" : " !nosignal-missing");
  return r;
}

extern "C" ssize_t recv(int fd, void* data, size_t n, int flags)
{
  resolve();
  if(!armed || fd < 0 || fd >= MAXFD || fds[fd].kind != 'c')
    return real_recv(fd, data, n, flags);
  Out o;
  unstick(fd);
  if(!q_pop(recvq, o)) { o.kind = 0; o.k = 0; }
  if(o.kind == 0) { emitf("recv c%ld -1", fds[fd].id); errno = EAGAIN; return -1; }
  if(o.kind == 1) { emitf("recv c%ld -2", fds[fd].id); errno = ECONNRESET; return -1; }
  long r = o.kind == 2 ? 0 : o.k;
  if(r < 0) r = 0;
  if(r > (long)n) r = (long)n;
  if(r > 0) memset(data, 0x5a, (size_t)r);
  emitf("recv c%ld %ld", fds[fd].id, r);
  return r;
}

extern "C" int accept4(int fd, struct sockaddr* addr, socklen_t* len, int flags)
{
  resolve();
  if(!armed || fd < 0 || fd >= MAXFD || fds[fd].kind != 'l')
    return real_accept4(fd, addr, len, flags);
  Out o; int ok = 1;
  unstick(fd);
  if(q_pop(acceptq, o)) ok = o.kind;
  long newid = -1;
  if(ok) { newid = peek_cb ? peek_cb('l', fds[fd].id) : -1; if(newid < 0) ok = 0; }
  emitf("accept l%ld %d", fds[fd].id, ok);
  if(!ok) { errno = EAGAIN; return -1; }
  int sp[2];
  if(socketpair(AF_UNIX, SOCK_STREAM | SOCK_CLOEXEC, 0, sp) != 0 || sp[0] >= MAXFD || npeers >= MAXFD) { emitf("! socketpair failed"); errno = EMFILE; return -1; }
  peers[npeers++] = sp[1];
  if(addr && len && *len >= sizeof(struct sockaddr_in)) {
    struct sockaddr_in sin; memset(&sin, 0, sizeof(sin));
    sin.sin_family = AF_INET; sin.sin_port = htons((unsigned short)(1000 + newid)); sin.sin_addr.s_addr = htonl(0x7f000001);
    memcpy(addr, &sin, sizeof(sin)); *len = sizeof(sin);
  }
  if(announce_cb) announce_cb(newid);
  exp_kind = 'c'; exp_id = newid;
  return sp[0];
}

extern "C" int connect(int fd, const struct sockaddr* addr, socklen_t len)
{
  resolve();
  if(!connect_mode)
    return real_connect(fd, addr, len);
  errno = EINPROGRESS;
  return -1;
}

extern "C" int getsockopt(int fd, int level, int optname, void* optval, socklen_t* optlen)
{
  resolve();
  if(!armed || fd < 0 || fd >= MAXFD || fds[fd].kind != 'e' || level != SOL_SOCKET || optname != SO_ERROR)
    return real_getsockopt(fd, level, optname, optval, optlen);
  Out o; long err = 0;
  unstick(fd);
  if(q_pop(connq, o)) err = o.k;
  long newid = -1;
  if(err == 0) { newid = peek_cb ? peek_cb('e', fds[fd].id) : -1; if(newid < 0) err = 111; }
  emitf("soerr e%ld %ld", fds[fd].id, err);
  if(err == 0) {
    if(announce_cb) announce_cb(newid);
    exp_kind = 'c'; exp_id = newid;
  }
  if(optval && optlen && *optlen >= sizeof(int)) { *(int*)optval = (int)err; *optlen = sizeof(int); }
  return 0;
}
