/* detsched for C11: C interface of the deterministic scheduler + virtual pthread primitives
   (harness/sync_sched.cpp).  The scheduler is a hand transcription of coq/Sync/Sched.v. */
#pragma once
#ifdef __cplusplus
extern "C" {
#endif

enum { VS_MAXT = 6, VS_NM = 3, VS_NC = 2, VS_NS = 1 };

/* provided by harness/sync.cpp: virtual thread id carried by the argument of a thread start routine */
int vh_tid_of_arg(void* arg);

void vs_reset(int nthreads);                       /* new case: all primitives fresh, clock 0 */
void vs_reg_mutex(void* addr, int idx);            /* recursive attribute is read from the real pthread_mutex_t */
void vs_reg_cond(void* addr, int idx);             /* the clock comes from the attribute seen at pthread_cond_init */
void vs_reg_sem(void* addr, int idx);              /* initial value is read from the real sem_t */
int vs_uninit(void);                               /* bit mask of registered primitives whose *_init was never called: mutex idx,
                                                      cond VS_NM+idx, sem VS_NM+VS_NC+idx */
int vs_cond_clock(int idx);                        /* clock id the condition variable measures deadlines against */
void vs_spawn(int t, void* (*fn)(void*), void* arg); /* a thread that runs from the beginning of the scenario */
void vs_teardown(void);                            /* unwinds and joins every real thread of the case */

/* moves of the schedule (Sched.v: Run / Spurious / Timeout / TimeoutSteal / Clock / Rotate) */
void vs_move_run(int t);
void vs_move_spur(int t);
void vs_move_tmo(int t);
void vs_move_steal(int t);                         /* a woken timed waiter past its deadline reports ETIMEDOUT */
void vs_move_clock(long long n);
void vs_move_rot(int c);

/* Thread::start with a failing pthread_create: while the flag is up, the next wrapped pthread_create of a virtual thread writes a
   stale handle (of a thread that has exited and been joined - what glibc leaves there) into its output parameter and returns
   EAGAIN, without a scheduling point (model: script op ThStartF, a thread-local step) */
void vs_fail_next_create(int on);
int vs_stale_joins(void);                          /* number of pthread_join calls of virtual threads on such a stale handle */

/* called by a scenario thread between two library calls: gives the baton back, pending = idle */
void vs_idle(void);
int vs_self(void);
int vs_pending(int t, int* idx);                   /* kind of thread t's pending primitive call (1 = lock, 3 = unlock, ...) and its primitive index */
long long vs_now(void);

/* observation */
int vs_enabled(int t);
int vs_runnable_or_blocked(int t);                 /* 0 for NotStarted / Done */
int vs_timed(int t, long long* sec, long long* nsec); /* thread waits with a (valid) deadline */
void vs_fmt_thread(int t, char* buf, int cap);     /* "<stat>:<pending>:<e|b>" */
void vs_fmt_prims(char* buf, int cap);             /* "sem=.. o0=.. o1=.. o2=.. q0=.. q1=.. now=.." */

/* deadline capture mode (no threads): the timed waits return ETIMEDOUT at once and the abstime they
   were given is recorded; clock_gettime returns (sec, nsec) */
void vs_capture(int on, long long sec, long long nsec);
int vs_captured(long long* sec, long long* nsec);
int vs_captured_clock(void);                      /* clock id the captured abstime is measured against (CLOCK_REALTIME = 0) */

#ifdef __cplusplus
}
#endif
