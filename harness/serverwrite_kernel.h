// C interface of the simulated kernel (serverwrite_kernel.cpp)
#pragma once
#include <stddef.h>
#ifdef __cplusplus
extern "C" {
#endif
enum { SK_NONE = 0, SK_WOULDBLOCK = 1, SK_SENT = 2, SK_FULL = 3, SK_ZERO = 4, SK_ERROR = 5 };
enum { SK_EV_OFF = 0, SK_EV_SCRIPT = 1, SK_EV_REAL = 2, SK_EV_TICK = 3 };
enum { SK_MAXQ = 8 };
// the scripted answers to the next send calls on client descriptors (one per send, in order)
struct sk_outcomes { int n; int kind[SK_MAXQ]; long k[SK_MAXQ]; };
void sk_reset(void);
enum { SK_NC = 4 };                                       // clients A..D (idx 0..3)
void sk_attach(int idx, int client_fd, int peer_fd);      // idx 0 = client A, 1 = client B, ...
void sk_tag_sends(int on);                                // prefix the send log entries with "A:" / "B:"
void sk_detach_client(int idx);
void sk_set_outcome(int kind, long k);                    // exactly one scripted answer (SK_NONE: none)
void sk_push_outcome(int kind, long k);
void sk_get_outcomes(struct sk_outcomes* o);
void sk_put_outcomes(const struct sk_outcomes* o);
void sk_arm_event(int mode);                              // one scripted poll round for the next run()
void sk_with_interrupt(int on);                           // SK_EV_SCRIPT: the interrupt event is part of the SAME epoll_wait batch
int sk_interrupt_seen(void);                              // the kernel reported the interrupt event since the last sk_arm_event
void sk_add_event(int idx, unsigned native);              // SK_EV_SCRIPT: descriptors reported, in this order
void sk_disarm_event(void);
void sk_peer_drain(int idx);
void sk_peer_close(int idx);
size_t sk_take_tx(int idx, unsigned char** p);
size_t sk_take_peer(int idx, unsigned char** p);
const char* sk_take_sendlog(void);
// ordered event trace for the property monitor: the kernel adds one token per send call on a client descriptor
//   S<idx>:<requested>:<returned>:<t|w|f|z>[u] t = took <returned> bytes, w = would-block, f = failed / returned 0,
//                                             z = a request of 0 bytes answered 0 (nothing to take: not a failure of the connection),
//                                             u = the script had no answer left for this call (answered would-block)
// the harness adds its own tokens (callbacks, reactions, ...) with sk_trace_add; tokens are joined with ','
//   O<idx> / I<idx>   epoll_wait asked the kernel, which finds the socket of client idx writable / finds unread input on it
void sk_trace_add(const char* token);
const char* sk_take_trace(void);                          // valid until the next call of sk_trace_add / sk_take_trace
int sk_registered(int idx);
unsigned sk_reg_mask(int idx);
#ifdef __cplusplus
}
#endif
