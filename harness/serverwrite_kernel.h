// C interface of the simulated kernel (serverwrite_kernel.cpp)
#pragma once
#include <stddef.h>
#ifdef __cplusplus
extern "C" {
#endif
enum { SK_NONE = 0, SK_WOULDBLOCK = 1, SK_SENT = 2, SK_FULL = 3, SK_ZERO = 4, SK_ERROR = 5 };
enum { SK_EV_OFF = 0, SK_EV_SCRIPT = 1, SK_EV_REAL = 2, SK_EV_TICK = 3 };
void sk_reset(void);
void sk_attach(int client_fd, int peer_fd);
void sk_detach_client(void);
void sk_set_outcome(int kind, long k);
void sk_get_outcome(int* kind, long* k);
void sk_arm_event(int mode, unsigned native);
void sk_disarm_event(void);
void sk_peer_drain(void);
void sk_peer_close(void);
size_t sk_take_tx(unsigned char** p);
size_t sk_take_peer(unsigned char** p);
const char* sk_take_sendlog(void);
int sk_registered(void);
unsigned sk_reg_mask(void);
int sk_last_real(unsigned* mask);
#ifdef __cplusplus
}
#endif
